// verifextract: re-derives from /repo's current source the structural facts the proofs assume but
// no behavioural run can establish (DESIGN §5.2), and writes them as Lean definitions.
//
//	go run . <repo> <out.lean>
package main

import (
	"fmt"
	"go/ast"
	"go/token"
	"go/types"
	"os"
	"sort"
	"strings"

	"golang.org/x/tools/go/packages"
)

func leanStr(s string) string {
	return "\"" + strings.ReplaceAll(strings.ReplaceAll(s, "\\", "\\\\"), "\"", "\\\"") + "\""
}

func leanList(name string, xs []string) string {
	var b strings.Builder
	fmt.Fprintf(&b, "def %s : List String := [", name)
	for i, x := range xs {
		if i > 0 {
			b.WriteString(",")
		}
		b.WriteString("\n  " + leanStr(x))
	}
	b.WriteString("]\n\n")
	return b.String()
}

func main() {
	repo, out := os.Args[1], os.Args[2]
	cfg := &packages.Config{
		Mode: packages.NeedName | packages.NeedFiles | packages.NeedSyntax | packages.NeedTypes | packages.NeedTypesInfo | packages.NeedImports,
		Dir:  repo,
		Env:  append(os.Environ(), "GOFLAGS=-mod=mod", "GOPROXY=off", "GOSUMDB=off", "GOTOOLCHAIN=local"),
	}
	pkgs, err := packages.Load(cfg, "./x/...", "./app/...")
	if err != nil {
		fmt.Fprintln(os.Stderr, "load:", err)
		os.Exit(1)
	}
	var mutators, nondet, unguarded, handlers, beginOrder, setAccount, upgradeCalls []string
	// orchestration code that behaviour cannot pin down call by call: the ordered calls of the
	// v1.2.0 upgrade handler and of the module migrators, and the consensus versions (C16)
	seqOf := map[string]bool{
		"app/upgrades/v120/upgrades.go:CreateUpgradeHandler": true,
		"x/cfeminter/keeper/migrations.go:Migrate1to2":       true, "x/cfeminter/keeper/migrations.go:Migrate2to3": true,
		"x/cfedistributor/keeper/migrations.go:Migrate1to2":  true, "x/cfedistributor/keeper/migrations.go:Migrate2to3": true,
		"x/cfevesting/keeper/migrations.go:Migrate1to2":      true, "x/cfevesting/keeper/migrations.go:Migrate2to3": true,
		"x/cfeminter/module.go:RegisterServices":             true, "x/cfedistributor/module.go:RegisterServices": true,
		"x/cfevesting/module.go:RegisterServices":            true,
		"x/cfeminter/module.go:ConsensusVersion":             true, "x/cfedistributor/module.go:ConsensusVersion": true,
		"x/cfevesting/module.go:ConsensusVersion":            true, "x/cfesignature/module.go:ConsensusVersion": true,
	}
	bankFns := map[string]bool{"MintCoins": true, "BurnCoins": true, "SendCoins": true, "SendCoinsFromModuleToModule": true, "SendCoinsFromModuleToAccount": true,
		"SendCoinsFromAccountToModule": true, "DelegateCoins": true, "UndelegateCoins": true, "DelegateCoinsFromAccountToModule": true, "UndelegateCoinsFromModuleToAccount": true}
	// package-level variables initialised from the wall clock or a random source: every function that
	// reads one inherits the nondeterminism (they look like constants at the use site)
	wallVars := map[types.Object]string{}
	for _, p := range pkgs {
		for _, f := range p.Syntax {
			for _, d := range f.Decls {
				gd, ok := d.(*ast.GenDecl)
				if !ok || gd.Tok != token.VAR {
					continue
				}
				for _, sp := range gd.Specs {
					vs, ok := sp.(*ast.ValueSpec)
					if !ok {
						continue
					}
					for i, v := range vs.Values {
						tainted := false
						ast.Inspect(v, func(n ast.Node) bool {
							if ce, ok := n.(*ast.CallExpr); ok {
								if sel, ok := ce.Fun.(*ast.SelectorExpr); ok {
									if id, ok := sel.X.(*ast.Ident); ok && ((id.Name == "time" && sel.Sel.Name == "Now") || id.Name == "rand") {
										tainted = true
									}
								}
							}
							return true
						})
						if tainted && i < len(vs.Names) {
							if obj := p.TypesInfo.Defs[vs.Names[i]]; obj != nil {
								wallVars[obj] = vs.Names[i].Name
							}
						}
					}
				}
			}
		}
	}
	for _, p := range pkgs {
		if len(p.Errors) > 0 {
			fmt.Fprintln(os.Stderr, "package errors in", p.PkgPath, p.Errors[0])
			os.Exit(1)
		}
		rel := strings.TrimPrefix(p.PkgPath, "github.com/chain4energy/c4e-chain/")
		if strings.Contains(rel, "simulation") || strings.Contains(rel, "/client") || strings.HasSuffix(rel, "/testutil") {
			continue
		}
		for _, f := range p.Syntax {
			fname := p.Fset.Position(f.Pos()).Filename
			if strings.HasSuffix(fname, "_test.go") || strings.HasSuffix(fname, ".pb.go") || strings.HasSuffix(fname, ".pb.gw.go") {
				continue
			}
			short := rel + "/" + fname[strings.LastIndex(fname, "/")+1:]
			for _, d := range f.Decls {
				fd, ok := d.(*ast.FuncDecl)
				if !ok || fd.Body == nil {
					continue
				}
				fn := fd.Name.Name
				recv := ""
				if fd.Recv != nil && len(fd.Recv.List) > 0 {
					recv = types.ExprString(fd.Recv.List[0].Type)
				}
				// handlers: msg server methods and gRPC query methods of the four custom modules
				if strings.HasPrefix(rel, "x/cfe") && strings.HasSuffix(rel, "/keeper") && fd.Type.Params != nil && len(fd.Type.Params.List) == 2 {
					if t0 := types.ExprString(fd.Type.Params.List[0].Type); t0 == "context.Context" {
						handlers = append(handlers, rel+"."+recv+"."+fn)
					}
				}
				if seqOf[short+":"+fn] {
					keep := map[string]bool{"MigrateParams": true, "MigrateStore": true, "RegisterMigration": true, "RunMigrations": true, "WithKeyTable": true,
						"UpdateVestingAccountTraces": true, "ModifyVestingPoolsState": true, "ModifyVestingAccountsState": true}
					ast.Inspect(fd.Body, func(n ast.Node) bool {
						switch v := n.(type) {
						case *ast.CallExpr:
							name := ""
							switch f := v.Fun.(type) {
							case *ast.SelectorExpr:
								name = f.Sel.Name
							case *ast.Ident:
								name = f.Name
							}
							if keep[name] {
								arg := ""
								if (name == "RegisterMigration" || name == "WithKeyTable") && len(v.Args) > 0 {
									var parts []string
									for _, a := range v.Args {
										parts = append(parts, types.ExprString(a))
									}
									arg = "(" + strings.Join(parts, ",") + ")"
								}
								upgradeCalls = append(upgradeCalls, short+":"+fn+":"+name+arg)
							}
						case *ast.ReturnStmt:
							if fn == "ConsensusVersion" && len(v.Results) == 1 {
								upgradeCalls = append(upgradeCalls, short+":"+fn+":return "+types.ExprString(v.Results[0]))
							}
						case *ast.CaseClause:
							for _, e := range v.List {
								upgradeCalls = append(upgradeCalls, short+":"+fn+":case "+types.ExprString(e))
							}
						}
						return true
					})
				}
				guardedInt64 := false
				ast.Inspect(fd.Body, func(n ast.Node) bool {
					switch v := n.(type) {
					case *ast.CallExpr:
						if sel, ok := v.Fun.(*ast.SelectorExpr); ok {
							name := sel.Sel.Name
							if bankFns[name] {
								mutators = append(mutators, short+":"+fn+":"+name)
							}
							if name == "SetAccount" || name == "RemoveAccount" {
								setAccount = append(setAccount, short+":"+fn+":"+name)
							}
							if name == "IsInt64" || name == "IsUint64" {
								guardedInt64 = true
							}
							if name == "Int64" || name == "Uint64" || name == "TruncateInt64" || name == "RoundInt64" {
								if tv, ok := p.TypesInfo.Types[sel.X]; ok {
									ts := tv.Type.String()
									if strings.HasSuffix(ts, "math.Int") || strings.HasSuffix(ts, "types.Dec") || strings.HasSuffix(ts, "types.Int") {
										if !guardedInt64 {
											unguarded = append(unguarded, short+":"+fn+":"+name)
										}
									}
								}
							}
							if id, ok := sel.X.(*ast.Ident); ok {
								if (id.Name == "time" && name == "Now") || id.Name == "rand" {
									nondet = append(nondet, short+":"+fn+":"+id.Name+"."+name)
								}
							}
							if name == "SetOrderBeginBlockers" {
								for _, a := range v.Args {
									beginOrder = append(beginOrder, types.ExprString(a))
								}
							}
						}
					case *ast.Ident:
						if obj := p.TypesInfo.Uses[v]; obj != nil {
							if name, ok := wallVars[obj]; ok {
								nondet = append(nondet, short+":"+fn+":reads-wallclock-var:"+name)
							}
						}
					case *ast.RangeStmt:
						if tv, ok := p.TypesInfo.Types[v.X]; ok {
							if _, isMap := tv.Type.Underlying().(*types.Map); isMap {
								nondet = append(nondet, short+":"+fn+":range-over-map")
							}
						}
					case *ast.GoStmt:
						nondet = append(nondet, short+":"+fn+":go-statement")
					case *ast.SelectStmt:
						nondet = append(nondet, short+":"+fn+":select")
					}
					return true
				})
			}
		}
	}
	uniq := func(xs []string) []string {
		sort.Strings(xs)
		var o []string
		for i, x := range xs {
			if i == 0 || x != xs[i-1] {
				o = append(o, x)
			}
		}
		return o
	}
	var b strings.Builder
	b.WriteString("/- GENERATED by /verif/extract from /repo's current source on every run. Do not edit. -/\nnamespace C4E.Generated\n\n")
	b.WriteString(leanList("bankMutators", uniq(mutators)))
	b.WriteString(leanList("accountWriters", uniq(setAccount)))
	b.WriteString(leanList("nondetSites", uniq(nondet)))
	b.WriteString(leanList("unguardedInt64", uniq(unguarded)))
	b.WriteString(leanList("handlers", uniq(handlers)))
	b.WriteString(leanList("beginBlockOrder", beginOrder))
	sort.SliceStable(upgradeCalls, func(i, j int) bool {
		a, b := strings.SplitN(upgradeCalls[i], ":", 3), strings.SplitN(upgradeCalls[j], ":", 3)
		return a[0]+":"+a[1] < b[0]+":"+b[1]
	})
	b.WriteString(leanList("upgradeCalls", upgradeCalls))
	b.WriteString("end C4E.Generated\n")
	_ = token.NoPos
	if err := os.WriteFile(out, []byte(b.String()), 0o644); err != nil {
		fmt.Fprintln(os.Stderr, err)
		os.Exit(1)
	}
}
