//go:build verif

package main

import (
	"crypto"
	"crypto/ecdsa"
	"crypto/elliptic"
	"crypto/rand"
	"crypto/rsa"
	"crypto/sha256"
	"crypto/x509"
	"crypto/x509/pkix"
	"encoding/base64"
	"encoding/hex"
	"encoding/json"
	"encoding/pem"
	"fmt"
	"math/big"
	"sort"
	"strings"
	"time"

	sigkeeper "github.com/chain4energy/c4e-chain/x/cfesignature/keeper"
	sigtypes "github.com/chain4energy/c4e-chain/x/cfesignature/types"
	"github.com/cosmos/cosmos-sdk/crypto/keys/secp256k1"
	cryptotypes "github.com/cosmos/cosmos-sdk/crypto/types"
	"github.com/cosmos/cosmos-sdk/store/prefix"
	sdk "github.com/cosmos/cosmos-sdk/types"
)

func init() {
	families["s"] = execSig
	generators["sig"] = genSig
}

func sha256hex(s string) string {
	h := sha256.Sum256([]byte(s))
	return hex.EncodeToString(h[:])
}

// independent re-implementation of the x509 pipeline used by VerifySignature (for facts and monitors)
func sigPipeline(cert, alg, payload, sigB64 string) bool {
	sb, err := base64.StdEncoding.DecodeString(sigB64)
	if err != nil {
		return false
	}
	var a x509.SignatureAlgorithm
	switch alg {
	case "dsaWithSha256":
		a = x509.DSAWithSHA256
	case "ecdsaWithSha256":
		a = x509.ECDSAWithSHA256
	case "sha256WithRsaEncryption":
		a = x509.SHA256WithRSA
	default:
		return false
	}
	block, _ := pem.Decode([]byte(cert))
	if block == nil {
		return false
	}
	c, err := x509.ParseCertificate(block.Bytes)
	if err != nil {
		return false
	}
	return c.CheckSignature(a, []byte(payload), sb) == nil
}

type sigFam struct {
	links map[string]string // every link ever seen stored: must never change (C15)
}

func sf(x *Exec) *sigFam {
	if v, ok := x.fam["s"]; ok {
		return v.(*sigFam)
	}
	f := &sigFam{links: map[string]string{}}
	x.fam["s"] = f
	return f
}

func sigLinks(x *Exec) map[string]string {
	m := map[string]string{}
	st := prefix.NewStore(x.ctx.KVStore(x.env.app.GetKey(sigtypes.StoreKey)), []byte(sigtypes.PayloadLinkKey))
	it := st.Iterator(nil, nil)
	defer it.Close()
	for ; it.Valid(); it.Next() {
		m[string(it.Key())] = string(it.Value())
	}
	return m
}

func sigLinksStr(x *Exec) string {
	m := sigLinks(x)
	keys := make([]string, 0, len(m))
	for k := range m {
		keys = append(keys, k)
	}
	sort.Strings(keys)
	var pp []string
	for _, k := range keys {
		pp = append(pp, esc(k)+"~"+esc(m[k]))
	}
	return "[" + strings.Join(pp, ";") + "]"
}

func sigSigsStr(x *Exec) string {
	cdc := x.env.app.AppCodec()
	st := prefix.NewStore(x.ctx.KVStore(x.env.app.GetKey(sigtypes.StoreKey)), []byte(sigtypes.SignatureKey))
	it := st.Iterator(nil, nil)
	defer it.Close()
	var pp []string
	for ; it.Valid(); it.Next() {
		var s sigtypes.Signature
		cdc.MustUnmarshal(it.Value(), &s)
		pp = append(pp, fmt.Sprintf("%s~%s~%s~%s~%s", esc(string(it.Key())), esc(s.Signature), esc(s.Algorithm), esc(s.Certificate), esc(s.Timestamp)))
	}
	sort.Strings(pp)
	return "[" + strings.Join(pp, ";") + "]"
}

// C15: a published link can never be overwritten or removed
func sigWriteOnceMonitor(x *Exec, f *sigFam, op string) {
	cur := sigLinks(x)
	for k, v := range f.links {
		if nv, ok := cur[k]; !ok || nv != v {
			x.hit("C15", "link-write-once", op, fmt.Sprintf("link %s was %q, now %q (present=%v)", k, v, nv, ok))
		}
	}
	for k, v := range cur {
		f.links[k] = v
	}
}

func execSig(x *Exec, toks []string) string {
	f := sf(x)
	app := x.env.app
	k := app.CfesignatureKeeper
	ms := sigkeeper.NewMsgServerImpl(k)
	switch toks[0] {
	case "s.time":
		t := timeOf(int64Tok(toks[1]))
		if t.String() != unesc(toks[2]) {
			panic("s.time fact wrong: " + t.String())
		}
		x.ctx = x.ctx.WithBlockTime(t)
		return "."
	case "s.hash":
		if sha256hex(unesc(toks[1])) != toks[2] {
			panic("s.hash fact wrong")
		}
		return "."
	case "s.chk":
		if sigPipeline(unesc(toks[1]), unesc(toks[2]), unesc(toks[3]), unesc(toks[4])) != (toks[5] == "1") {
			panic("s.chk fact wrong")
		}
		return "."
	case "s.publish":
		c := parseAddrTok(toks[1])
		msg := &sigtypes.MsgPublishReferencePayloadLink{Creator: c.s, Key: unesc(toks[2]), Value: unesc(toks[3])}
		res, _ := x.deliver(msg.ValidateBasic, func(ctx sdk.Context) error {
			r_, err := ms.PublishReferencePayloadLink(sdk.WrapSDKContext(ctx), msg)
			noteResp(r_, err)
			return err
		})
		if res == "panic" {
			x.hit("C20", "message-panics", toks[0], "handler or ValidateBasic panicked")
		}
		sigWriteOnceMonitor(x, f, toks[0])
		return res + " links=" + sigLinksStr(x)
	case "s.store":
		c := parseAddrTok(toks[1])
		js := unesc(toks[3])
		// facts about the JSON extraction
		// (independent of the repository's own extraction helper, which is part of what is under test)
		var parsed map[string]interface{}
		okJSON := json.Unmarshal([]byte(js), &parsed) == nil
		field := func(k string) string {
			v, _ := parsed[k].(string)
			return v
		}
		sg, al, ce := field("signature"), field("algorithm"), field("certificate")
		if okJSON != (toks[4] == "1") || (okJSON && (sg != unesc(toks[5]) || al != unesc(toks[6]) || ce != unesc(toks[7]))) {
			panic("s.store extraction facts wrong")
		}
		msg := &sigtypes.MsgStoreSignature{Creator: c.s, StorageKey: unesc(toks[2]), SignatureJSON: js}
		res, _ := x.deliver(msg.ValidateBasic, func(ctx sdk.Context) error {
			r_, err := ms.StoreSignature(sdk.WrapSDKContext(ctx), msg)
			noteResp(r_, err)
			return err
		})
		if res == "panic" {
			x.hit("C20", "message-panics", toks[0], "handler or ValidateBasic panicked")
		}
		sigWriteOnceMonitor(x, f, toks[0])
		return res + " sigs=" + sigSigsStr(x)
	case "s.storekey":
		var out string
		res, _ := catch(func() error {
			r, err := k.CreateStorageKey(sdk.WrapSDKContext(x.ctx), &sigtypes.QueryCreateStorageKeyRequest{TargetAccAddress: unesc(toks[1]), ReferenceId: unesc(toks[2])})
			if err != nil {
				return err
			}
			out = r.StorageKey
			return nil
		})
		if res == "panic" {
			x.hit("C20", "query-panics", toks[0], "CreateStorageKey panicked")
		}
		if res != "ok" {
			return res
		}
		return "ok key=" + out
	case "s.verify":
		addr, ref := unesc(toks[1]), unesc(toks[2])
		var r *sigtypes.QueryVerifySignatureResponse
		res, _ := catch(func() error {
			var err error
			r, err = k.VerifySignature(sdk.WrapSDKContext(x.ctx), &sigtypes.QueryVerifySignatureRequest{TargetAccAddress: addr, ReferenceId: ref})
			return err
		})
		if res == "panic" {
			x.hit("C20", "query-panics", toks[0], "VerifySignature panicked")
			return res
		}
		// C15 monitor: the verdict recomputed from the raw store with an independent pipeline
		expectValid := false
		var stored sigtypes.Signature
		if len(ref) == 64 && addr != "" {
			key := sha256hex(addr + ":" + ref)
			st := prefix.NewStore(x.ctx.KVStore(app.GetKey(sigtypes.StoreKey)), []byte(sigtypes.SignatureKey))
			if bz := st.Get([]byte(key)); bz != nil {
				app.AppCodec().MustUnmarshal(bz, &stored)
				if link, ok := sigLinks(x)[sha256hex(ref)]; ok {
					payload := sha256hex(addr + ":" + ref + ":" + link)
					expectValid = sigPipeline(stored.Certificate, stored.Algorithm, payload, stored.Signature)
				}
			}
		}
		if (res == "ok") != expectValid {
			x.hit("C15", "verify-verdict", "verify", fmt.Sprintf("query says valid=%v, stored record verifies=%v", res == "ok", expectValid))
		}
		if res != "ok" {
			return "err"
		}
		if r.Signature != stored.Signature || r.Algorithm != stored.Algorithm || r.Certificate != stored.Certificate || r.Timestamp != stored.Timestamp || r.Valid != "valid" {
			x.hit("C15", "verify-returns-stored", "verify", "response fields differ from the stored record")
		}
		return fmt.Sprintf("valid sig=%s alg=%s cert=%s ts=%s", esc(r.Signature), esc(r.Algorithm), esc(r.Certificate), esc(r.Timestamp))
	case "s.acct":
		addr, _ := sdk.AccAddressFromBech32(toks[1])
		ai := app.AccountKeeper.GetAccount(x.ctx, addr)
		if ai == nil {
			ai = app.AccountKeeper.NewAccountWithAddress(x.ctx, addr)
		}
		if toks[2] == "basekey" {
			var pub cryptotypes.PubKey = secp256k1.GenPrivKeyFromSecret([]byte("verif-key-for-" + toks[1])).PubKey()
			if kp := keyedPubFor(toks[1]); kp != nil {
				pub = kp
			}
			_ = ai.SetPubKey(pub)
			_ = ai.SetSequence(7)
		}
		app.AccountKeeper.SetAccount(x.ctx, ai)
		return "."
	case "s.createAccount":
		c, a := parseAddrTok(toks[1]), parseAddrTok(toks[2])
		pkJSON := unesc(toks[3])
		// fact: does the JSON decode to a public key, and does it belong to the address
		var pk cryptotypes.PubKey
		class := "bad"
		if r, _ := catch(func() error { return app.AppCodec().UnmarshalInterfaceJSON([]byte(pkJSON), &pk) }); r == "ok" && pk != nil {
			class = "nomatch"
			// a key object of the wrong length decodes fine but has no address (the SDK panics)
			var keyAddr []byte
			if r2, _ := catch(func() error { keyAddr = pk.Address(); return nil }); r2 != "ok" {
				class = "malformed"
				pk = nil
			} else if a.ok {
				aa, _ := sdk.AccAddressFromBech32(a.s)
				if aa.Equals(sdk.AccAddress(keyAddr)) {
					class = "match"
				}
			}
		}
		if class != toks[4] {
			panic("s.createAccount pubkey fact wrong: " + class)
		}
		var before string
		existed := false
		if a.ok {
			aa, _ := sdk.AccAddressFromBech32(a.s)
			if ai := app.AccountKeeper.GetAccount(x.ctx, aa); ai != nil {
				existed = true
				bz, _ := app.AppCodec().MarshalInterfaceJSON(ai)
				before = string(bz)
			}
		}
		// the account that owns the supplied key (if any) is watched as well: it must not change either
		var keyAddr sdk.AccAddress
		var keyBefore string
		if pk != nil {
			keyAddr = sdk.AccAddress(pk.Address())
			if ai := app.AccountKeeper.GetAccount(x.ctx, keyAddr); ai != nil {
				bz, _ := app.AppCodec().MarshalInterfaceJSON(ai)
				keyBefore = string(bz)
			}
		}
		msg := &sigtypes.MsgCreateAccount{Creator: c.s, AccAddressString: a.s, PubKeyString: pkJSON}
		res, _ := x.deliver(msg.ValidateBasic, func(ctx sdk.Context) error {
			r_, err := ms.CreateAccount(sdk.WrapSDKContext(ctx), msg)
			noteResp(r_, err)
			return err
		})
		if res == "panic" {
			x.hit("C20", "message-panics", toks[0], "handler or ValidateBasic panicked")
		}
		if keyBefore != "" {
			after := "absent"
			if ai := app.AccountKeeper.GetAccount(x.ctx, keyAddr); ai != nil {
				bz, _ := app.AppCodec().MarshalInterfaceJSON(ai)
				after = string(bz)
			}
			if after != keyBefore {
				x.hit("C09", "existing-account-changed", toks[0], fmt.Sprintf("%s (owner of the supplied key): %s -> %s", keyAddr.String(), keyBefore, after))
			}
		}
		state := "absent"
		if a.ok {
			aa, _ := sdk.AccAddressFromBech32(a.s)
			if ai := app.AccountKeeper.GetAccount(x.ctx, aa); ai != nil {
				bz, _ := app.AppCodec().MarshalInterfaceJSON(ai)
				if existed && string(bz) != before {
					x.hit("C09", "existing-account-changed", toks[0], fmt.Sprintf("%s: %s -> %s", a.s, before, string(bz)))
				}
				pkb := "nokey"
				if ai.GetPubKey() != nil {
					pkb = "key"
				}
				state = "present/" + pkb
			}
		}
		return res + " acct=" + state
	case "s.accountInfo":
		var out string
		res, _ := catch(func() error {
			r, err := k.GetAccountInfo(sdk.WrapSDKContext(x.ctx), &sigtypes.QueryGetAccountInfoRequest{AccAddressString: unesc(toks[1])})
			if err != nil {
				return err
			}
			pk := "0"
			if r.PubKey != "" {
				pk = "1"
			}
			out = "ok found=" + map[bool]string{true: "0", false: "1"}[r.AccAddress == "Account Not found"] + " pk=" + pk
			return nil
		})
		if res == "panic" {
			x.hit("C20", "query-panics", toks[0], "GetAccountInfo panicked")
		}
		if res != "ok" {
			return res
		}
		return out
	case "s.end":
		return "."
	}
	return "bad-op"
}

// ---------------------------------------------------------------- generator

type sigKey struct {
	alg    string // natural algorithm name for the key
	cert   string // PEM
	signer crypto.Signer
}

var sigKeys []sigKey

func mkCert(pub interface{}, priv crypto.Signer) string {
	return mkCertValid(pub, priv, time.Unix(0, 0), time.Unix(4102444800, 0))
}

// a certificate with an explicit validity window (the registry's verdict must not depend on it)
func mkCertValid(pub interface{}, priv crypto.Signer, notBefore, notAfter time.Time) string {
	tmpl := &x509.Certificate{SerialNumber: big.NewInt(1), Subject: pkix.Name{CommonName: "verif"}, NotBefore: notBefore, NotAfter: notAfter}
	der, err := x509.CreateCertificate(rand.Reader, tmpl, tmpl, pub, priv)
	if err != nil {
		panic(err)
	}
	return string(pem.EncodeToMemory(&pem.Block{Type: "CERTIFICATE", Bytes: der}))
}

func sigKeyPool() []sigKey {
	if sigKeys == nil {
		for i := 0; i < 2; i++ {
			ek, _ := ecdsa.GenerateKey(elliptic.P256(), rand.Reader)
			sigKeys = append(sigKeys, sigKey{"ecdsaWithSha256", mkCert(&ek.PublicKey, ek), ek})
		}
		rk, _ := rsa.GenerateKey(rand.Reader, 2048)
		sigKeys = append(sigKeys, sigKey{"sha256WithRsaEncryption", mkCert(&rk.PublicKey, rk), rk})
		// directed: certificates whose validity window ended before / starts after every block time used
		ek2, _ := ecdsa.GenerateKey(elliptic.P256(), rand.Reader)
		sigKeys = append(sigKeys, sigKey{"ecdsaWithSha256", mkCertValid(&ek2.PublicKey, ek2, time.Unix(1500000000, 0), time.Unix(1600000000, 0)), ek2})
		ek3, _ := ecdsa.GenerateKey(elliptic.P256(), rand.Reader)
		sigKeys = append(sigKeys, sigKey{"ecdsaWithSha256", mkCertValid(&ek3.PublicKey, ek3, time.Unix(4000000000, 0), time.Unix(4102444800, 0)), ek3})
	}
	return sigKeys
}

func indexOfKey(keys []sigKey, k sigKey) int {
	for i := range keys {
		if keys[i].cert == k.cert {
			return i
		}
	}
	return 0
}

func (k sigKey) sign(payload string) string {
	h := sha256.Sum256([]byte(payload))
	s, err := k.signer.Sign(rand.Reader, h[:], crypto.SHA256)
	if err != nil {
		panic(err)
	}
	return base64.StdEncoding.EncodeToString(s)
}

func jsonStr(s string) string {
	b := strings.Builder{}
	b.WriteByte('"')
	for _, c := range s {
		switch c {
		case '"':
			b.WriteString("\\\"")
		case '\\':
			b.WriteString("\\\\")
		case '\n':
			b.WriteString("\\n")
		default:
			b.WriteRune(c)
		}
	}
	b.WriteByte('"')
	return b.String()
}

func genSig(g *Gen, n int) {
	keys := sigKeyPool()
	hexRef := func() string {
		b := make([]byte, 32)
		g.r.Read(b)
		return hex.EncodeToString(b)
	}
	creator := atok(vaddr(40))
	for sc := 0; sc < n; sc++ {
		g.emit("reset sig %d", sc)
		now := t0 + int64(g.intn(100000))*sec
		setTime := func() { g.emit("s.time %d %s", now, esc(timeOf(now).String())) }
		setTime()
		hashed := map[string]bool{}
		hash := func(in string) string {
			h := sha256hex(in)
			if !hashed[in] {
				hashed[in] = true
				g.emit("s.hash %s %s", esc(in), h)
			}
			return h
		}
		chkSeen := map[string]bool{}
		chk := func(cert, alg, payload, sig string) {
			key := cert + "|" + alg + "|" + payload + "|" + sig
			if !chkSeen[key] {
				chkSeen[key] = true
				v := 0
				if sigPipeline(cert, alg, payload, sig) {
					v = 1
				}
				g.emit("s.chk %s %s %s %s %d", esc(cert), esc(alg), esc(payload), esc(sig), v)
			}
		}
		type rec struct{ addr, ref, link, cert, alg, sig string }
		var recs []rec
		links := map[string]string{} // key -> value as the model/impl will hold them
		for i := 0; i < 2+g.intn(4); i++ {
			addr := g.pick(vaddr(41), vaddr(42), "someone", "a:b")
			ref := hexRef()
			if g.chance(0.1) {
				ref = ref[:g.intn(64)]
			}
			payloadHash := hexRef()
			link := sha256hex(ref + ":" + payloadHash)
			if g.chance(0.1) {
				link = ""
			}
			k := keys[g.intn(len(keys))]
			refKey := hash(ref)
			storageKey := hash(addr + ":" + ref)
			// publish the link (write-once), sometimes twice / under a case variant / with another value
			pubKey := refKey
			if g.chance(0.1) {
				pubKey = g.pick("", "plainkey", strings.ToUpper(refKey))
			}
			g.emit("s.publish %s %s %s", creator, esc(pubKey), esc(link))
			if _, ok := links[pubKey]; !ok && pubKey != "" {
				links[pubKey] = link
			}
			if g.chance(0.5) {
				k2 := g.pick(pubKey, pubKey, strings.ToUpper(pubKey), strings.ToLower(pubKey))
				v2 := g.pick(link, "other-value", "")
				g.emit("s.publish %s %s %s", creator, esc(k2), esc(v2))
				if _, ok := links[k2]; !ok && k2 != "" {
					links[k2] = v2
				}
			}
			effLink, haveLink := links[refKey]
			// sign the payload the chain will hash
			payload := hash(addr + ":" + ref + ":" + effLink)
			sig := k.sign(payload)
			alg := k.alg
			cert := k.cert
			switch g.intn(10) {
			case 0:
				alg = g.pick("dsaWithSha256", "bogus", "", "sha256WithRsaEncryption", "ecdsaWithSha256")
			case 1:
				cert = keys[g.intn(len(keys))].cert // another certificate
			case 2:
				sig = g.pick("", "!!!notbase64", base64.StdEncoding.EncodeToString([]byte("garbage")), k.sign(payload+"x"))
			case 3:
				cert = g.pick("", "-----BEGIN CERTIFICATE-----\nAAAA\n-----END CERTIFICATE-----\n", "no pem")
			case 4:
				// a bundle: the user certificate followed by another one (the FIRST block decides), the
				// reverse order, or a well-formed PEM block that is not a certificate
				other := keys[(g.intn(len(keys)-1)+1+indexOfKey(keys, k))%len(keys)].cert
				cert = g.pick(k.cert+other, other+k.cert,
					"-----BEGIN EC PARAMETERS-----\nBggqhkjOPQMBBw==\n-----END EC PARAMETERS-----\n"+k.cert,
					"-----BEGIN PUBLIC KEY-----\nMFkwEwYHKoZIzj0CAQYIKoZIzj0DAQcDQgAEAAAAAAAAAAAAAAAAAAAAAAAAAAAAAAAAAAAAAAAAAAAAAAAAAAAAAAAAAAAAAAAAAAAAAAAAAAAAAAAAAAAAAA==\n-----END PUBLIC KEY-----\n")
				g.count("shape/pem-bundle")
			}
			js := fmt.Sprintf("{\"signature\":%s,\"algorithm\":%s,\"certificate\":%s}", jsonStr(sig), jsonStr(alg), jsonStr(cert))
			jsOk, fs, fa, fc := "1", sig, alg, cert
			switch g.intn(12) {
			case 0:
				js, jsOk, fs, fa, fc = "{not json", "0", "", "", ""
			case 1:
				js, fs = fmt.Sprintf("{\"algorithm\":%s,\"certificate\":%s}", jsonStr(alg), jsonStr(cert)), ""
			case 2:
				js, fa = fmt.Sprintf("{\"signature\":%s,\"algorithm\":%s,\"certificate\":%s}", jsonStr(sig), g.pick("5", "null", "true", "{}", "[1]"), jsonStr(cert)), ""
			case 3:
				// only case variants of a key, with different values: the exact key is absent, so the field
				// is empty - whatever order a map of the members is walked in
				js, fs = fmt.Sprintf("{\"Signature\":%s,\"SIGNATURE\":%s,\"sIgnature\":%s,\"algorithm\":%s,\"certificate\":%s}",
					jsonStr(sig), jsonStr("variant-b"), jsonStr("variant-c"), jsonStr(alg), jsonStr(cert)), ""
				g.count("shape/case-variant-keys")
			}
			sk := storageKey
			if g.chance(0.07) {
				sk = g.pick("", "otherkey")
			}
			if g.chance(0.4) {
				now += g.pickI(sec, 3600*sec, 86400*sec)
				setTime()
			}
			g.emit("s.store %s %s %s %s %s %s %s", creator, esc(sk), esc(js), jsOk, esc(fs), esc(fa), esc(fc))
			if haveLink {
				chk(fc, fa, payload, fs)
			}
			recs = append(recs, rec{addr, ref, effLink, fc, fa, fs})
			if g.chance(0.5) {
				now += g.pickI(sec, 86400*sec)
				setTime()
			}
			g.emit("s.storekey %s %s %d", esc(addr), esc(ref), len(ref))
			g.emit("s.verify %s %s %d", esc(addr), esc(ref), len(ref))
			// tampered queries: other address / other reference id
			if g.chance(0.4) {
				a2 := g.pick(vaddr(43), "", addr+"x")
				hash(a2 + ":" + ref)
				if l, ok := links[refKey]; ok {
					p2 := hash(a2 + ":" + ref + ":" + l)
					chk(fc, fa, p2, fs)
				}
				g.emit("s.verify %s %s %d", esc(a2), esc(ref), len(ref))
			}
			if g.chance(0.3) {
				r2 := hexRef()
				hash(r2)
				hash(addr + ":" + r2)
				g.emit("s.verify %s %s %d", esc(addr), esc(r2), len(r2))
			}
		}
		// account creation through the signature module (C09)
		for i := 0; i < 1+g.intn(3); i++ {
			priv := secp256k1.GenPrivKey()
			pk := priv.PubKey()
			own := sdk.AccAddress(pk.Address()).String()
			target := own
			class := "match"
			pkBz, err := genEnv().app.AppCodec().MarshalInterfaceJSON(pk)
			if err != nil {
				panic(err)
			}
			pkJSON := string(pkBz)
			switch g.intn(6) {
			case 0:
				target, class = keyedAddr(1+g.intn(3)), "nomatch"
			case 1:
				pkJSON, class = g.pick("", "{}", "not json", "{\"@type\":\"/cosmos.crypto.secp256k1.PubKey\",\"key\":\"AA\"}"), "bad"
			case 2:
				target, class = "garbage", "nomatch"
			case 3:
				// well-formed JSON for a key object of the wrong length: decodes, but has no address
				pkJSON, class = g.pick("{\"@type\":\"/cosmos.crypto.secp256k1.PubKey\",\"key\":\"AA==\"}",
					"{\"@type\":\"/cosmos.crypto.ed25519.PubKey\",\"key\":\"AA==\"}",
					"{\"@type\":\"/cosmos.crypto.secp256r1.PubKey\",\"key\":\"AA==\"}"), "bad"
				// classify with the real codec: does it decode, and does the decoded key have an address
				var p cryptotypes.PubKey
				if genEnv().app.AppCodec().UnmarshalInterfaceJSON([]byte(pkJSON), &p) == nil && p != nil {
					class = "malformed"
					func() {
						defer func() { _ = recover() }()
						_ = p.Address()
						class = "nomatch"
					}()
				}
			}
			if class == "bad" && pkJSON == "{\"@type\":\"/cosmos.crypto.secp256k1.PubKey\",\"key\":\"AA\"}" {
				// decodes to a (short) key object: classify with the real codec
				var p cryptotypes.PubKey
				if genEnv().app.AppCodec().UnmarshalInterfaceJSON([]byte(pkJSON), &p) == nil && p != nil {
					class = "nomatch"
				}
			}
			if g.chance(0.35) {
				if _, err := sdk.AccAddressFromBech32(target); err == nil {
					g.emit("s.acct %s %s", target, g.pick("base", "basekey"))
				}
			}
			g.emit("s.createAccount %s %s %s %s", creator, atok(target), esc(pkJSON), class)
			g.emit("s.accountInfo %s", esc(target))
		}
		// directed shape: the key of an EXISTING account (base with key, or a vesting account) supplied
		// for a different, unused address - neither account may be created or changed
		{
			victim := keyedAddr(1 + g.intn(3))
			kp := keyedPubFor(victim)
			if kp != nil {
				pkBz, err := genEnv().app.AppCodec().MarshalInterfaceJSON(kp)
				if err != nil {
					panic(err)
				}
				g.emit("s.acct %s basekey", victim)
				fresh := sdk.AccAddress(secp256k1.GenPrivKey().PubKey().Address()).String()
				g.emit("s.createAccount %s %s %s nomatch", creator, atok(fresh), esc(string(pkBz)))
				g.emit("s.accountInfo %s", esc(victim))
				g.emit("s.accountInfo %s", esc(fresh))
				g.count("shape/foreign-key-for-unused-address")
			}
		}
		g.emit("s.accountInfo %s", esc(g.pick("garbage", "", vaddr(49))))
		g.emit("s.end")
		g.count("scenario")
	}
}
