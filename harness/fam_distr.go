//go:build verif

package main

import (
	"bufio"
	"bytes"
	"fmt"
	"sort"
	"strings"

	c4eapp "github.com/chain4energy/c4e-chain/app"
	"github.com/chain4energy/c4e-chain/x/cfedistributor"
	distrkeeper "github.com/chain4energy/c4e-chain/x/cfedistributor/keeper"
	distrtypes "github.com/chain4energy/c4e-chain/x/cfedistributor/types"
	mintertypes "github.com/chain4energy/c4e-chain/x/cfeminter/types"
	sdk "github.com/cosmos/cosmos-sdk/types"
	sdkerrors "github.com/cosmos/cosmos-sdk/types/errors"
	authtypes "github.com/cosmos/cosmos-sdk/x/auth/types"
	bankkeeper "github.com/cosmos/cosmos-sdk/x/bank/keeper"
	banktypes "github.com/cosmos/cosmos-sdk/x/bank/types"
	sdkvesting "github.com/cosmos/cosmos-sdk/x/auth/vesting/types"
	abci "github.com/tendermint/tendermint/abci/types"
)

func init() {
	families["d"] = execDistr
	generators["distr"] = func(g *Gen, n int) { genDistr(g, n, false) }
	generators["distrfaults"] = func(g *Gen, n int) { genDistr(g, n, true) }
}

// ---------------------------------------------------------------- fault-injecting bank keeper

type faultyBank struct {
	bankkeeper.Keeper
	calls  int
	faults map[int]bool
}

var errInjected = sdkerrors.Wrap(sdkerrors.ErrInsufficientFunds, "verif: injected bank failure")

func (f *faultyBank) next() bool {
	i := f.calls
	f.calls++
	return f.faults[i]
}
func (f *faultyBank) SendCoinsFromAccountToModule(ctx sdk.Context, a sdk.AccAddress, m string, amt sdk.Coins) error {
	if f.next() {
		return errInjected
	}
	return f.Keeper.SendCoinsFromAccountToModule(ctx, a, m, amt)
}
func (f *faultyBank) SendCoinsFromModuleToAccount(ctx sdk.Context, m string, a sdk.AccAddress, amt sdk.Coins) error {
	if f.next() {
		return errInjected
	}
	return f.Keeper.SendCoinsFromModuleToAccount(ctx, m, a, amt)
}
func (f *faultyBank) SendCoinsFromModuleToModule(ctx sdk.Context, m1, m2 string, amt sdk.Coins) error {
	if f.next() {
		return errInjected
	}
	return f.Keeper.SendCoinsFromModuleToModule(ctx, m1, m2, amt)
}
func (f *faultyBank) BurnCoins(ctx sdk.Context, m string, amt sdk.Coins) error {
	if f.next() {
		return errInjected
	}
	return f.Keeper.BurnCoins(ctx, m, amt)
}

// ---------------------------------------------------------------- executor state

type distrFam struct {
	pending   []distrtypes.SubDistributor
	fb        *faultyBank
	keeper    *distrkeeper.Keeper
	helperBk  bankkeeper.Keeper
	tracked   map[string]bool
	burned    sdk.Coins
	anyFault  bool
	nextFault map[int]bool
	blocks    int
	gstates   []*distrtypes.State
}

func df(x *Exec) *distrFam {
	if v, ok := x.fam["d"]; ok {
		return v.(*distrFam)
	}
	app := x.env.app
	fb := &faultyBank{Keeper: app.BankKeeper, faults: map[int]bool{}}
	k := distrkeeper.NewKeeper(app.AppCodec(), app.GetKey(distrtypes.StoreKey), app.GetMemKey(distrtypes.MemStoreKey),
		app.GetSubspace(distrtypes.ModuleName), fb, app.AccountKeeper, x.env.gov)
	hb := bankkeeper.NewBaseKeeper(app.AppCodec(), app.GetKey(banktypes.StoreKey), app.AccountKeeper, app.GetSubspace(banktypes.ModuleName), map[string]bool{})
	f := &distrFam{fb: fb, keeper: k, helperBk: hb, tracked: map[string]bool{}, nextFault: map[int]bool{}}
	x.fam["d"] = f
	return f
}

func parseAccountTok(s string) distrtypes.Account {
	p := strings.Split(s, "|")
	if len(p) != 3 {
		panic("bad account token " + s)
	}
	a := distrtypes.Account{Type: unesc(p[0]), Id: unesc(p[1])}
	_, err := sdk.AccAddressFromBech32(a.Id)
	if (err == nil) != (p[2] == "1") {
		panic("account token bech32 bit disagrees with the SDK: " + s)
	}
	return a
}

func parseCoinsTok(s string) sdk.Coins {
	inner := strings.TrimSuffix(strings.TrimPrefix(s, "["), "]")
	var cs sdk.Coins
	if inner == "" {
		return cs
	}
	for _, it := range strings.Split(inner, ",") {
		kv := strings.SplitN(it, "=", 2)
		cs = append(cs, sdk.NewCoin(unesc(kv[0]), intTok(kv[1])))
	}
	return cs.Sort()
}

func (f *distrFam) track(addr string) { f.tracked[addr] = true }
func (f *distrFam) trackAccount(a distrtypes.Account) {
	switch a.Type {
	case distrtypes.BaseAccount:
		if aa, err := sdk.AccAddressFromBech32(a.Id); err == nil {
			f.track(aa.String()) // canonical spelling (an all-upper-case id is the same account)
		}
	case distrtypes.ModuleAccount:
		if _, ok := c4eapp.GetMaccPerms()[a.Id]; ok {
			f.track(authtypes.NewModuleAddress(a.Id).String())
		}
	}
}

func cloneSubs(in []distrtypes.SubDistributor) []distrtypes.SubDistributor {
	out := make([]distrtypes.SubDistributor, len(in))
	for i, s := range in {
		c := s
		c.Sources = nil
		for _, a := range s.Sources {
			if a == nil {
				c.Sources = append(c.Sources, nil)
			} else {
				aa := *a
				c.Sources = append(c.Sources, &aa)
			}
		}
		c.Destinations.Shares = nil
		for _, sh := range s.Destinations.Shares {
			if sh == nil {
				c.Destinations.Shares = append(c.Destinations.Shares, nil)
			} else {
				ss := *sh
				c.Destinations.Shares = append(c.Destinations.Shares, &ss)
			}
		}
		out[i] = c
	}
	return out
}

func stateKeyOf(s distrtypes.State) string { return s.GetStateKey() }

func distrStatesStr(states []distrtypes.State) string {
	sort.Slice(states, func(i, j int) bool { return stateKeyOf(states[i]) < stateKeyOf(states[j]) })
	parts := []string{}
	for _, s := range states {
		b := 0
		if s.Burn {
			b = 1
		}
		parts = append(parts, fmt.Sprintf("%s~%d~%s", esc(stateKeyOf(s)), b, decCoinsStr(s.Remains)))
	}
	return "[" + strings.Join(parts, ";") + "]"
}

func execDistr(x *Exec, toks []string) string {
	f := df(x)
	app := x.env.app
	switch toks[0] {
	case "d.module":
		name := unesc(toks[1])
		perms, ok := c4eapp.GetMaccPerms()[name]
		if !ok || authtypes.NewModuleAddress(name).String() != toks[2] {
			panic("d.module fact disagrees with the app: " + name)
		}
		burner := false
		for _, p := range perms {
			if p == authtypes.Burner {
				burner = true
			}
		}
		if burner != (toks[3] == "1") {
			panic("d.module burner fact disagrees with maccPerms: " + name)
		}
		f.track(toks[2])
		return "."
	case "d.blocked":
		if !app.BlockedModuleAccountAddrs()[toks[1]] {
			panic("d.blocked fact disagrees with the app")
		}
		return "."
	case "d.bal0":
		addr, _ := sdk.AccAddressFromBech32(toks[1])
		if !app.BankKeeper.GetAllBalances(x.ctx, addr).IsEqual(parseCoinsTok(toks[2])) {
			panic("d.bal0 fact disagrees with the app: " + toks[1] + " has " + app.BankKeeper.GetAllBalances(x.ctx, addr).String())
		}
		f.track(toks[1])
		return "."
	case "d.new":
		f.pending = nil
		return "."
	case "d.sub":
		s := distrtypes.SubDistributor{Name: unesc(toks[1])}
		s.Destinations.BurnShare = decTok(toks[2])
		s.Destinations.PrimaryShare = parseAccountTok(toks[3])
		f.trackAccount(s.Destinations.PrimaryShare)
		f.pending = append(f.pending, s)
		return "."
	case "d.src":
		s := &f.pending[len(f.pending)-1]
		if toks[1] == "nil" {
			s.Sources = append(s.Sources, nil)
		} else {
			a := parseAccountTok(toks[1])
			f.trackAccount(a)
			s.Sources = append(s.Sources, &a)
		}
		return "."
	case "d.share":
		s := &f.pending[len(f.pending)-1]
		if toks[1] == "nil" {
			s.Destinations.Shares = append(s.Destinations.Shares, nil)
		} else {
			a := parseAccountTok(toks[3])
			f.trackAccount(a)
			s.Destinations.Shares = append(s.Destinations.Shares, &distrtypes.DestinationShare{Name: unesc(toks[1]), Share: decTok(toks[2]), Destination: a})
		}
		return "."
	case "d.validate":
		p := distrtypes.Params{SubDistributors: cloneSubs(f.pending)}
		res, _ := catch(func() error { return p.Validate() })
		return res
	case "d.gstate":
		// one state of a genesis file: <burn> <account|-> <dec coins, 10^18-scaled>
		st := &distrtypes.State{Burn: toks[1] == "1"}
		if toks[2] != "-" {
			p := strings.Split(toks[2], "|")
			st.Account = &distrtypes.Account{Type: unesc(p[0]), Id: unesc(p[1])}
		}
		inner := strings.TrimSuffix(strings.TrimPrefix(toks[3], "["), "]")
		if inner != "" {
			for _, it := range strings.Split(inner, ",") {
				kv := strings.SplitN(it, "=", 2)
				st.Remains = append(st.Remains, sdk.DecCoin{Denom: unesc(kv[0]), Amount: sdk.NewDecFromBigIntWithPrec(intTok(kv[1]).BigInt(), 18)})
			}
		}
		f.gstates = append(f.gstates, st)
		return "."
	case "d.ginit":
		// GenesisState.Validate (as `validate-genesis` runs it) and then the module's InitGenesis
		gs := distrtypes.GenesisState{Params: f.keeper.GetParams(x.ctx), States: f.gstates}
		f.gstates = nil
		res, _ := catch(func() error { return gs.Validate() })
		if res != "ok" {
			return res
		}
		// (used at the start of a scenario: the store holds no states yet)
		res, _ = catch(func() error { cfedistributor.InitGenesis(x.ctx, *f.keeper, gs, app.AccountKeeper); return nil })
		if res != "ok" {
			return res
		}
		return "ok states=" + distrStatesStr(f.keeper.GetAllStates(x.ctx))
	case "d.setparams":
		p := distrtypes.Params{SubDistributors: cloneSubs(f.pending)}
		res, _ := catch(func() error { return f.keeper.SetParams(x.ctx, p) })
		return res
	case "d.credit":
		addr, err := sdk.AccAddressFromBech32(toks[1])
		if err != nil {
			panic(err)
		}
		coins := parseCoinsTok(toks[2])
		if err := app.BankKeeper.MintCoins(x.ctx, mintertypes.ModuleName, coins); err != nil {
			panic(err)
		}
		if mod := moduleNameOfAddr(toks[1]); mod != "" {
			// credit a module account through the module path so that the account is created as a module account
			if mod != mintertypes.ModuleName {
				if err := f.helperBk.SendCoinsFromModuleToModule(x.ctx, mintertypes.ModuleName, mod, coins); err != nil {
					panic(err)
				}
			}
		} else if err := f.helperBk.SendCoinsFromModuleToAccount(x.ctx, mintertypes.ModuleName, addr, coins); err != nil {
			panic(err)
		}
		f.track(toks[1])
		return "."
	case "d.lockacct":
		// turn the (base) account into a continuous vesting account whose original vesting is `coins`,
		// vesting over the next ten years: the bank then reports `coins` as locked
		addr, err := sdk.AccAddressFromBech32(toks[1])
		if err != nil {
			panic(err)
		}
		coins := parseCoinsTok(toks[2])
		acc := app.AccountKeeper.GetAccount(x.ctx, addr)
		if acc == nil {
			acc = app.AccountKeeper.NewAccountWithAddress(x.ctx, addr)
		}
		var ba *authtypes.BaseAccount
		switch v := acc.(type) {
		case *authtypes.BaseAccount:
			ba = v
		case *sdkvesting.ContinuousVestingAccount:
			ba = v.BaseAccount // locked again: the new original vesting replaces the old one
		default:
			panic("d.lockacct: not a base account: " + toks[1])
		}
		start := x.ctx.BlockTime().Unix()
		va := sdkvesting.NewContinuousVestingAccount(ba, coins, start, start+10*365*86400)
		app.AccountKeeper.SetAccount(x.ctx, va)
		if got := app.BankKeeper.LockedCoins(x.ctx, addr); !got.IsEqual(coins) {
			panic("d.lockacct fact: bank reports locked " + got.String() + ", expected " + coins.String())
		}
		f.track(toks[1])
		return "."
	case "d.faults":
		f.nextFault = map[int]bool{}
		for _, t := range toks[1:] {
			f.nextFault[int(int64Tok(t))] = true
			f.anyFault = true
		}
		return "."
	case "d.bb":
		return distrBlock(x, f)
	case "d.update":
		return distrUpdate(x, f, toks)
	case "d.up.migrate3":
		return execDistrMigrate(x, f)
	case "d.params":
		return "ok p=" + distrParamsStr(f.keeper.GetParams(x.ctx))
	case "d.end":
		distrEndMonitors(x, f)
		return "."
	}
	return "bad-op"
}

func distrAccountStr(a distrtypes.Account) string { return esc(a.Type) + "|" + esc(a.Id) }

func distrParamsStr(p distrtypes.Params) string {
	var subs []string
	for _, s := range p.SubDistributors {
		var src, sh []string
		for _, a := range s.Sources {
			if a == nil {
				src = append(src, "nil")
			} else {
				src = append(src, distrAccountStr(*a))
			}
		}
		for _, d := range s.Destinations.Shares {
			sh = append(sh, fmt.Sprintf("%s/%s/%s", esc(d.Name), decStr(d.Share), distrAccountStr(d.Destination)))
		}
		subs = append(subs, fmt.Sprintf("%s~%s~%s~<%s>~<%s>", esc(s.Name), decStr(s.Destinations.BurnShare), distrAccountStr(s.Destinations.PrimaryShare),
			strings.Join(src, ","), strings.Join(sh, ",")))
	}
	return "[" + strings.Join(subs, ";") + "]"
}

// the four distributor parameter-update messages, delivered with baseapp semantics (C13)
func distrUpdate(x *Exec, f *distrFam, toks []string) string {
	ms := distrkeeper.NewMsgServerImpl(*f.keeper)
	auth := authorityOf(x, toks[2])
	before := distrParamsStr(f.keeper.GetParams(x.ctx))
	var res string
	switch toks[1] {
	case "full":
		msg := &distrtypes.MsgUpdateParams{Authority: auth, SubDistributors: cloneSubs(f.pending)}
		res, _ = x.deliver(msg.ValidateBasic, func(ctx sdk.Context) error {
			r_, err := ms.UpdateParams(sdk.WrapSDKContext(ctx), msg)
			noteResp(r_, err)
			return err
		})
	case "full-then-fail":
		// a transaction (or proposal) whose first message is this update and whose later message fails:
		// everything is rolled back
		msg := &distrtypes.MsgUpdateParams{Authority: auth, SubDistributors: cloneSubs(f.pending)}
		res, _ = x.deliver(msg.ValidateBasic, func(ctx sdk.Context) error {
			if _, err := ms.UpdateParams(sdk.WrapSDKContext(ctx), msg); err != nil {
				return err
			}
			return fmt.Errorf("verif: a later message of the same transaction fails")
		})
	case "sub":
		msg := &distrtypes.MsgUpdateSubDistributorParam{Authority: auth}
		if toks[3] != "1" && len(f.pending) > 0 {
			c := cloneSubs(f.pending[:1])
			msg.SubDistributor = &c[0]
		}
		res, _ = x.deliver(msg.ValidateBasic, func(ctx sdk.Context) error {
			r_, err := ms.UpdateSubDistributorParam(sdk.WrapSDKContext(ctx), msg)
			noteResp(r_, err)
			return err
		})
	case "share":
		msg := &distrtypes.MsgUpdateSubDistributorDestinationShareParam{Authority: auth, SubDistributorName: unesc(toks[3]), DestinationName: unesc(toks[4]), Share: decTok(toks[5])}
		res, _ = x.deliver(msg.ValidateBasic, func(ctx sdk.Context) error {
			r_, err := ms.UpdateSubDistributorDestinationShareParam(sdk.WrapSDKContext(ctx), msg)
			noteResp(r_, err)
			return err
		})
	case "burn":
		msg := &distrtypes.MsgUpdateSubDistributorBurnShareParam{Authority: auth, SubDistributorName: unesc(toks[3]), BurnShare: decTok(toks[4])}
		res, _ = x.deliver(msg.ValidateBasic, func(ctx sdk.Context) error {
			r_, err := ms.UpdateSubDistributorBurnShareParam(sdk.WrapSDKContext(ctx), msg)
			noteResp(r_, err)
			return err
		})
	default:
		return "bad-op"
	}
	stored := f.keeper.GetParams(x.ctx)
	after := distrParamsStr(stored)
	if r, _ := catch(func() error { return stored.Validate() }); r != "ok" {
		x.hit("C13", "stored-params-valid", "cfedistributor", "stored parameters do not validate after "+strings.Join(toks[:2], " "))
	}
	if toks[2] != "gov" && (res == "ok" || after != before) {
		x.hit("C13", "authority", "cfedistributor/"+toks[1], "update from authority "+toks[2]+" was accepted or changed parameters")
	}
	if res != "ok" && after != before {
		x.hit("C13", "rejected-keeps", "cfedistributor/"+toks[1], "rejected update changed the stored parameters")
	}
	if res == "panic" {
		x.hit("C20", "message-panics", "d.update/"+toks[1], "handler or ValidateBasic panicked")
	}
	return res
}

func distrBlock(x *Exec, f *distrFam) string {
	app := x.env.app
	f.fb.calls, f.fb.faults = 0, f.nextFault
	f.nextFault = map[int]bool{}
	ctx := x.ctx.WithEventManager(sdk.NewEventManager())
	supplyBefore := app.BankKeeper.GetSupply
	before := map[string]sdk.Int{}
	app.BankKeeper.IterateTotalSupply(ctx, func(c sdk.Coin) bool { before[c.Denom] = c.Amount; return false })
	_ = supplyBefore
	res, pmsg := catch(func() error { cfedistributor.BeginBlocker(ctx, *f.keeper); return nil })
	if res != "ok" {
		x.halted = true
		x.note("d.bb panic: " + pmsg)
		return "panic"
	}
	f.blocks++
	for d, b := range before {
		a := app.BankKeeper.GetSupply(ctx, d).Amount
		if a.LT(b) {
			f.burned = f.burned.Add(sdk.NewCoin(d, b.Sub(a)))
		} else if a.GT(b) {
			x.hit("C01", "distributor-created-coins", "supply", fmt.Sprintf("supply of %s grew from %s to %s in distributor BeginBlocker", d, b, a))
		}
	}
	if msg, broken := bankkeeper.TotalSupply(app.BankKeeper)(ctx); broken {
		x.hit("C01", "supply-equals-balances", "d.bb", msg)
	}
	states := f.keeper.GetAllStates(ctx)
	mainAddr := authtypes.NewModuleAddress(distrtypes.DistributorMainAccount)
	mainBal := app.BankKeeper.GetAllBalances(ctx, mainAddr)
	// registered invariants
	_, broken1 := distrkeeper.NonNegativeCoinStateInvariant(*f.keeper)(ctx)
	_, broken2 := distrkeeper.StateSumBalanceCheckInvariant(*f.keeper)(ctx)
	// independent recomputation of the books (C03): per denom Σ remains = main balance, all ≥ 0
	sum := sdk.NewDecCoins()
	neg := false
	for _, s := range states {
		for _, c := range s.Remains {
			if c.Amount.IsNegative() {
				neg = true
			}
		}
		sum = sum.Add(s.Remains...)
	}
	booksOk := !neg
	seen := map[string]bool{}
	for _, c := range sum {
		seen[c.Denom] = true
		if !c.Amount.Equal(sdk.NewDecFromInt(mainBal.AmountOf(c.Denom))) {
			booksOk = false
		}
	}
	for _, c := range mainBal {
		if !seen[c.Denom] && !c.Amount.IsZero() {
			booksOk = false
		}
	}
	if broken1 || broken2 || !booksOk {
		detail := fmt.Sprintf("nonneg-broken=%v sum-balance-broken=%v books-ok=%v Σremains=%s main=%s", broken1, broken2, booksOk, sum, mainBal)
		x.hit("C03", "books", "distributor-books", detail)
		if f.anyFault {
			x.hit("C14", "books-under-faults", "distributor-books", detail)
		}
	}
	// events
	evs := []string{}
	for _, e := range ctx.EventManager().Events() {
		msg, err := sdk.ParseTypedEvent(abci.Event(e))
		if err != nil {
			continue
		}
		switch m := msg.(type) {
		case *distrtypes.Distribution:
			evs = append(evs, fmt.Sprintf("D~%s~%s~%s", esc(m.Subdistributor), esc(m.ShareName), decCoinsStr(m.Amount)))
		case *distrtypes.DistributionBurn:
			evs = append(evs, fmt.Sprintf("B~%s~%s", esc(m.Subdistributor), decCoinsStr(m.Amount)))
		}
	}
	i1, i2 := 1, 1
	if broken1 {
		i1 = 0
	}
	if broken2 {
		i2 = 0
	}
	return fmt.Sprintf("ok states=%s main=%s ev=[%s] burned=%s bal=%s inv=%d%d calls=%d", distrStatesStr(states), coinsStr(mainBal),
		strings.Join(evs, ";"), coinsStr(f.burned), distrBalsStr(x, f), i1, i2, f.fb.calls)
}

func distrBalsStr(x *Exec, f *distrFam) string {
	addrs := make([]string, 0, len(f.tracked))
	for a := range f.tracked {
		addrs = append(addrs, a)
	}
	sort.Strings(addrs)
	parts := []string{}
	for _, a := range addrs {
		acc, _ := sdk.AccAddressFromBech32(a)
		b := x.env.app.BankKeeper.GetAllBalances(x.ctx, acc)
		if !b.IsZero() {
			parts = append(parts, a+"~"+coinsStr(b))
		}
	}
	return "[" + strings.Join(parts, ";") + "]"
}

// re-executes the op lines of the current scenario, transformed, on a fresh context
func (x *Exec) rerun(lines []string) []string {
	var buf bytes.Buffer
	w := bufio.NewWriter(&buf)
	sub := &Exec{env: x.env, out: w, branches: map[string]int{}, fam: map[string]interface{}{}, nested: true}
	sub.ctx = x.env.scenarioCtx()
	sub.run(lines)
	w.Flush()
	return strings.Split(strings.TrimRight(buf.String(), "\n"), "\n")
}

func fieldOf(line, key string) string {
	for _, t := range strings.Fields(line) {
		if strings.HasPrefix(t, key+"=") {
			return t[len(key)+1:]
		}
	}
	return ""
}

func lastBB(ops, outs []string) string {
	for i := len(ops) - 1; i >= 0; i-- {
		if ops[i] == "d.bb" && i < len(outs) {
			return outs[i]
		}
	}
	return ""
}

// metamorphic monitors on the real code at the end of a scenario (C04, C14)
func distrEndMonitors(x *Exec, f *distrFam) {
	if x.nested || f.blocks == 0 || x.halted {
		return
	}
	lines := x.scLines[:len(x.scLines)-1] // without d.end
	orig := lastBB(lines, x.lastOutputs(len(lines)))
	if orig == "" || !strings.HasPrefix(orig, "ok") {
		return
	}
	if !f.anyFault {
		// C04: the order in which sources are listed is irrelevant
		perm := reverseSources(lines)
		if perm != nil {
			outs := x.rerun(perm)
			got := lastBB(perm, outs)
			for _, k := range []string{"states", "main", "bal", "burned"} {
				if fieldOf(got, k) != fieldOf(orig, k) {
					x.hit("C04", "source-order", "prepare-coins", fmt.Sprintf("%s differs with sources listed in reverse order: %s vs %s", k, fieldOf(orig, k), fieldOf(got, k)))
					break
				}
			}
		}
		return
	}
	// C14: the fault-free twin ends with the same destination balances up to one base unit,
	// when the scenario closes with fault-free blocks and no destination is also a source
	if !twinComparable(lines) {
		return
	}
	var twin []string
	for _, l := range lines {
		if strings.HasPrefix(l, "d.faults") {
			twin = append(twin, "d.faults")
		} else {
			twin = append(twin, l)
		}
	}
	outs := x.rerun(twin)
	got := lastBB(twin, outs)
	if !strings.HasPrefix(got, "ok") {
		return
	}
	a, b := parseBals(fieldOf(orig, "bal")), parseBals(fieldOf(got, "bal"))
	mainAddr := authtypes.NewModuleAddress(distrtypes.DistributorMainAccount).String()
	for addr := range mergeKeys(a, b) {
		if addr == mainAddr {
			continue
		}
		for denom := range mergeKeys2(a[addr], b[addr]) {
			va, vb := intOr0(a[addr], denom), intOr0(b[addr], denom)
			d := va.Sub(vb)
			if d.Abs().GT(sdk.OneInt()) {
				sig := "made-up-later"
				if sharedSource(lines) {
					// the same module/base source is swept by two sub-distributors: a failed first sweep
					// hands the coins to the later sub-distributor for good (known finding D25)
					sig = "made-up-later/source-shared-by-subdistributors"
				}
				x.hit("C14", "twin-balance", sig, fmt.Sprintf("%s %s: with faults %s, fault-free %s", addr, denom, va, vb))
				return
			}
		}
	}
}

func mergeKeys(a, b map[string]map[string]sdk.Int) map[string]bool {
	m := map[string]bool{}
	for k := range a {
		m[k] = true
	}
	for k := range b {
		m[k] = true
	}
	return m
}
func mergeKeys2(a, b map[string]sdk.Int) map[string]bool {
	m := map[string]bool{}
	for k := range a {
		m[k] = true
	}
	for k := range b {
		m[k] = true
	}
	return m
}

type zeroMap map[string]sdk.Int

func parseBals(s string) map[string]map[string]sdk.Int {
	res := map[string]map[string]sdk.Int{}
	inner := strings.TrimSuffix(strings.TrimPrefix(s, "["), "]")
	if inner == "" {
		return res
	}
	for _, it := range strings.Split(inner, ";") {
		kv := strings.SplitN(it, "~", 2)
		m := map[string]sdk.Int{}
		for _, c := range parseCoinsTok(kv[1]) {
			m[c.Denom] = c.Amount
		}
		res[kv[0]] = m
	}
	return res
}

func init() {
	_ = zeroMap{}
}

// reverse the d.src lines of every sub-distributor; nil when nothing changes
func reverseSources(lines []string) []string {
	out := append([]string{}, lines...)
	changed := false
	i := 0
	for i < len(out) {
		if strings.HasPrefix(out[i], "d.src ") {
			j := i
			for j < len(out) && strings.HasPrefix(out[j], "d.src ") {
				j++
			}
			if j-i > 1 {
				for a, b := i, j-1; a < b; a, b = a+1, b-1 {
					out[a], out[b] = out[b], out[a]
				}
				changed = true
			}
			i = j
		} else {
			i++
		}
	}
	if !changed {
		return nil
	}
	return out
}

// the scenario ends with >= 2 fault-free blocks after the last fault, and no module/base
// destination is also a source (otherwise coins in flight differ by construction)
func twinComparable(lines []string) bool {
	src, dst := map[string]bool{}, map[string]bool{}
	lastFault, nbb := -1, 0
	for _, l := range lines {
		t := strings.Fields(l)
		switch t[0] {
		case "d.src":
			src[t[1]] = true
		case "d.sub":
			dst[t[3]] = true
		case "d.share":
			if len(t) > 3 {
				dst[t[3]] = true
			}
		case "d.faults":
			if len(t) > 1 {
				lastFault = nbb
			}
		case "d.bb":
			nbb++
		case "d.credit":
			// a credit after the last fault is fine; credits straight to destinations are not generated
		}
	}
	for s := range src {
		if dst[s] && !strings.HasPrefix(s, "INTERNAL_ACCOUNT") && !strings.HasPrefix(s, "MAIN") {
			return false
		}
	}
	return nbb-lastFault >= 3
}

func moduleNameOfAddr(addr string) string {
	for n := range c4eapp.GetMaccPerms() {
		if authtypes.NewModuleAddress(n).String() == addr {
			return n
		}
	}
	return ""
}

func intOr0(m map[string]sdk.Int, k string) sdk.Int {
	if v, ok := m[k]; ok {
		return v
	}
	return sdk.ZeroInt()
}

// true when a MODULE_ACCOUNT / BASE_ACCOUNT source address occurs in more than one sub-distributor
func sharedSource(lines []string) bool {
	seen := map[string]int{}
	sub := -1
	stored := false
	for i := len(lines) - 1; i >= 0; i-- { // only the last stored configuration matters
		_ = i
	}
	cur := map[string]bool{}
	var lastCfg []map[string]bool
	var pend []map[string]bool
	for _, l := range lines {
		t := strings.Fields(l)
		switch t[0] {
		case "d.new":
			pend = nil
		case "d.sub":
			cur = map[string]bool{}
			pend = append(pend, cur)
			sub++
		case "d.src":
			p := strings.Split(t[1], "|")
			if len(p) == 3 {
				switch unesc(p[0]) {
				case distrtypes.ModuleAccount:
					cur[authtypes.NewModuleAddress(unesc(p[1])).String()] = true
				case distrtypes.BaseAccount:
					cur[unesc(p[1])] = true
				}
			}
		case "d.setparams":
			lastCfg = pend
			stored = true
		}
	}
	if !stored {
		return false
	}
	for _, m := range lastCfg {
		for a := range m {
			seen[a]++
			if seen[a] > 1 {
				return true
			}
		}
	}
	return false
}

// after an export/import the family state is re-bound to the new application instance
func (f *distrFam) rebind(x *Exec) {
	app := x.env.app
	f.fb = &faultyBank{Keeper: app.BankKeeper, faults: map[int]bool{}}
	f.keeper = distrkeeper.NewKeeper(app.AppCodec(), app.GetKey(distrtypes.StoreKey), app.GetMemKey(distrtypes.MemStoreKey),
		app.GetSubspace(distrtypes.ModuleName), f.fb, app.AccountKeeper, x.env.gov)
	f.helperBk = bankkeeper.NewBaseKeeper(app.AppCodec(), app.GetKey(banktypes.StoreKey), app.AccountKeeper, app.GetSubspace(banktypes.ModuleName), map[string]bool{})
}
