//go:build verif

package main

import (
	"fmt"
	"math/big"
	"sort"
	"strings"
	"time"

	"github.com/chain4energy/c4e-chain/x/cfeminter"
	minterkeeper "github.com/chain4energy/c4e-chain/x/cfeminter/keeper"
	mintertypes "github.com/chain4energy/c4e-chain/x/cfeminter/types"
	codectypes "github.com/cosmos/cosmos-sdk/codec/types"
	sdk "github.com/cosmos/cosmos-sdk/types"
	bankkeeper "github.com/cosmos/cosmos-sdk/x/bank/keeper"
)

func init() {
	families["m"] = execMinter
	generators["minter"] = genMinter
	generators["minterupd"] = genMinterUpd
}

// ---------------------------------------------------------------- executor

type minterFam struct {
	raw        mintertypes.Params
	initParams *mintertypes.Params
	initState  *mintertypes.MinterState
	funded     *big.Int
	cum        *big.Int // cumulative minted since m.init
	maxT       int64
	genesisLike bool
	updated    bool
	blocks     int
}

func mf(x *Exec) *minterFam {
	if v, ok := x.fam["m"]; ok {
		return v.(*minterFam)
	}
	f := &minterFam{funded: new(big.Int), cum: new(big.Int)}
	x.fam["m"] = f
	return f
}

func parseMinterCfg(toks []string) *codectypes.Any {
	pack := func(m mintertypes.MinterConfigI) *codectypes.Any {
		a, err := codectypes.NewAnyWithValue(m)
		if err != nil {
			panic(err)
		}
		return a
	}
	switch toks[0] {
	case "none":
		return pack(&mintertypes.NoMinting{})
	case "unresolved":
		return &codectypes.Any{TypeUrl: "/verif.Unknown", Value: []byte{1}}
	case "nilcfg":
		return nil
	case "lin":
		return pack(&mintertypes.LinearMinting{Amount: intTok(toks[1])})
	case "exp":
		return pack(&mintertypes.ExponentialStepMinting{Amount: intTok(toks[1]), StepDuration: time.Duration(int64Tok(toks[2])), AmountMultiplier: decTok(toks[3])})
	}
	panic("bad minter cfg " + strings.Join(toks, " "))
}

func minterStateStr(s mintertypes.MinterState) string {
	return fmt.Sprintf("%d,%s,%s,%s,%d", s.SequenceId, intStr(s.AmountMinted), decStr(s.RemainderToMint), decStr(s.RemainderFromPreviousMinter), s.LastMintBlockTime.UnixNano())
}

func minterHistStr(k minterkeeper.Keeper, ctx sdk.Context) (string, []*mintertypes.MinterState) {
	h := k.GetAllMinterStateHistory(ctx)
	sort.Slice(h, func(i, j int) bool { return h[i].SequenceId < h[j].SequenceId })
	parts := make([]string, 0, len(h))
	for _, s := range h {
		parts = append(parts, minterStateStr(*s))
	}
	return "[" + strings.Join(parts, ";") + "]", h
}

func minterParamsStr(p mintertypes.Params) string {
	parts := []string{}
	for _, m := range p.Minters {
		e := "-"
		if m.EndTime != nil {
			e = fmt.Sprint(m.EndTime.UnixNano())
		}
		c := "?"
		cfg, err := m.GetMinterConfig()
		if err == nil {
			switch v := cfg.(type) {
			case *mintertypes.NoMinting:
				c = "none"
			case *mintertypes.LinearMinting:
				c = "lin/" + intStr(v.Amount)
			case *mintertypes.ExponentialStepMinting:
				c = fmt.Sprintf("exp/%s/%d/%s", intStr(v.Amount), int64(v.StepDuration), decStr(v.AmountMultiplier))
			}
		}
		parts = append(parts, fmt.Sprintf("%d/%s/%s", m.SequenceId, e, c))
	}
	return fmt.Sprintf("%s|%s|[%s]", esc(p.MintDenom), nanosOf(p.StartTime), strings.Join(parts, ";"))
}

func inflTok(s string) string {
	if s == mintertypes.UndefinedInflation {
		return "undef"
	}
	d, err := sdk.NewDecFromStr(s)
	if err != nil {
		return "unparsable:" + esc(s)
	}
	return decStr(d)
}

func execMinter(x *Exec, toks []string) string {
	f := mf(x)
	if strings.HasPrefix(toks[0], "m.up.") {
		if toks[0] == "m.up.migrate3" {
			f.updated = true
		}
		return execMinterMigrate(x, toks)
	}
	k := x.env.app.CfeminterKeeper
	switch toks[0] {
	case "m.cfg":
		st := time.Time{} // "zero": the unset start time
		if toks[2] != "zero" {
			st = timeOf(int64Tok(toks[2]))
		}
		f.raw = mintertypes.Params{MintDenom: unesc(toks[1]), StartTime: st}
		return "."
	case "m.period":
		if toks[1] == "nilminter" {
			f.raw.Minters = append(f.raw.Minters, nil)
			return "."
		}
		m := &mintertypes.Minter{SequenceId: uint32(int64Tok(toks[1]))}
		if toks[2] == "zero" {
			t := time.Time{} // an end time that is set, but to Go's zero time
			m.EndTime = &t
		} else if toks[2] != "-" {
			t := timeOf(int64Tok(toks[2]))
			m.EndTime = &t
		}
		m.Config = parseMinterCfg(toks[3:])
		f.raw.Minters = append(f.raw.Minters, m)
		return "."
	case "m.validate":
		p := cloneMinterParams(f.raw)
		res, _ := catch(func() error { return p.Validate() })
		if res == "ok" {
			return "ok p=" + minterParamsStr(p)
		}
		return res
	case "m.init":
		p := cloneMinterParams(f.raw)
		res, _ := catch(func() error { return k.SetParams(x.ctx, p) })
		if res != "ok" {
			return res
		}
		st := mintertypes.MinterState{SequenceId: uint32(int64Tok(toks[1])), AmountMinted: intTok(toks[2]),
			RemainderToMint: decTok(toks[3]), RemainderFromPreviousMinter: decTok(toks[4]), LastMintBlockTime: timeOf(int64Tok(toks[5]))}
		k.SetMinterState(x.ctx, st)
		sp := k.GetParams(x.ctx)
		f.initParams, f.initState = &sp, &st
		f.funded, f.cum, f.maxT, f.updated, f.blocks = new(big.Int), new(big.Int), 0, false, 0
		f.genesisLike = st.AmountMinted.IsZero() && st.RemainderToMint.IsZero() && st.RemainderFromPreviousMinter.IsZero() &&
			len(sp.Minters) > 0 && st.SequenceId == sp.Minters[0].SequenceId
		return "ok"
	case "m.fund":
		amt := intTok(toks[1])
		denom := k.MintDenom(x.ctx)
		if err := x.env.app.BankKeeper.MintCoins(x.ctx, mintertypes.ModuleName, sdk.NewCoins(sdk.NewCoin(denom, amt))); err != nil {
			panic(err)
		}
		f.funded.Add(f.funded, amt.BigInt())
		return "."
	case "m.block":
		t := int64Tok(toks[1])
		ctx := x.ctx.WithBlockTime(timeOf(t)).WithEventManager(sdk.NewEventManager())
		denom := k.MintDenom(x.ctx)
		before := x.env.app.BankKeeper.GetSupply(ctx, denom).Amount
		res, pmsg := catch(func() error { cfeminter.BeginBlocker(ctx, k); return nil })
		if res != "ok" {
			x.halted = true
			x.note("m.block panic: " + pmsg)
			return "panic"
		}
		after := x.env.app.BankKeeper.GetSupply(ctx, denom).Amount
		// C01: the bank's own supply invariant (supply = sum of all balances) after the mint
		if msg, broken := bankkeeper.TotalSupply(x.env.app.BankKeeper)(ctx); broken {
			x.hit("C01", "supply-equals-balances", "m.block", msg)
		}
		delta := after.Sub(before)
		evAmount, evInfl, nEv := "", "", 0
		for _, e := range ctx.EventManager().Events() {
			if strings.HasSuffix(e.Type, "cfeminter.Mint") {
				nEv++
				for _, a := range e.Attributes {
					v := strings.Trim(string(a.Value), "\"")
					switch string(a.Key) {
					case "amount":
						evAmount = v
					case "inflation":
						evInfl = v
					}
				}
			}
		}
		// C18 monitor: exactly one Mint event and it carries the supply change of the block
		if nEv != 1 || evAmount != delta.String() {
			x.hit("C18", "mint-event-amount", "mint-event", fmt.Sprintf("events=%d event.amount=%s supply-delta=%s", nEv, evAmount, delta))
		}
		// C02 monitor: no negative block amount
		if delta.IsNegative() {
			x.hit("C02", "negative-mint", "block-amount", "supply delta "+delta.String())
		}
		f.cum.Add(f.cum, delta.BigInt())
		if t > f.maxT {
			f.maxT = t
		}
		f.blocks++
		hs, _ := minterHistStr(k, ctx)
		return fmt.Sprintf("ok amt=%s ev=%s st=%s hist=%s infl=%s supply=%s", delta, evAmount, minterStateStr(k.GetMinterState(ctx)), hs, inflTok(evInfl), after)
	case "m.infl":
		ctx := x.ctx.WithBlockTime(timeOf(int64Tok(toks[1])))
		var out string
		res, _ := catch(func() error {
			r, err := k.Inflation(sdk.WrapSDKContext(ctx), &mintertypes.QueryInflationRequest{})
			if err != nil {
				return err
			}
			out = decStr(r.Inflation)
			return nil
		})
		if res == "ok" {
			return "ok infl=" + out
		}
		if res == "panic" {
			x.hit("C20", "query-panics", "cfeminter/Inflation", "Inflation query panicked: "+lastNote(x))
		}
		return res
	case "m.update":
		f.updated = true
		auth := authorityOf(x, toks[2])
		raw := cloneMinterParams(f.raw)
		ms := minterkeeper.NewMsgServerImpl(k)
		var res string
		if toks[1] == "minters" {
			msg := &mintertypes.MsgUpdateMintersParams{Authority: auth, StartTime: raw.StartTime, Minters: raw.Minters}
			res, _ = x.deliver(msg.ValidateBasic, func(ctx sdk.Context) error {
				r_, err := ms.UpdateMintersParams(sdk.WrapSDKContext(ctx), msg)
				noteResp(r_, err)
				return err
			})
		} else {
			msg := &mintertypes.MsgUpdateParams{Authority: auth, MintDenom: raw.MintDenom, StartTime: raw.StartTime, Minters: raw.Minters}
			res, _ = x.deliver(msg.ValidateBasic, func(ctx sdk.Context) error {
				r_, err := ms.UpdateParams(sdk.WrapSDKContext(ctx), msg)
				noteResp(r_, err)
				return err
			})
		}
		if res == "panic" {
			x.hit("C20", "message-panics", "m.update/"+toks[1], "handler or ValidateBasic panicked")
		}
		// C13 monitor: stored params always validate and contain the current minter
		sp := k.GetParams(x.ctx)
		if err := sp.Validate(); err != nil {
			x.hit("C13", "stored-params-valid", "cfeminter", err.Error())
		}
		if !sp.ContainsMinter(k.GetMinterState(x.ctx).SequenceId) {
			x.hit("C13", "current-minter-in-params", "cfeminter", "state sequence id not in stored minters")
		}
		if toks[2] != "gov" && res == "ok" {
			x.hit("C13", "authority", "cfeminter/"+toks[1], "update accepted from authority "+toks[2])
		}
		return res
	case "m.params":
		return "ok p=" + minterParamsStr(k.GetParams(x.ctx))
	case "m.end":
		minterEndMonitors(x, f)
		return "."
	}
	return "bad-op"
}

func authorityOf(x *Exec, tok string) string {
	switch tok {
	case "gov":
		return x.env.gov
	case "empty":
		return ""
	case "garbage":
		return "not-an-address"
	default:
		return sdk.AccAddress([]byte("verif-other-authority")).String()
	}
}

func cloneMinterParams(p mintertypes.Params) mintertypes.Params {
	q := mintertypes.Params{MintDenom: p.MintDenom, StartTime: p.StartTime}
	for _, m := range p.Minters {
		if m == nil {
			q.Minters = append(q.Minters, nil)
			continue
		}
		c := *m
		q.Minters = append(q.Minters, &c)
	}
	return q
}

// C02 monitors evaluated on the real code at the end of a scenario:
//   - path independence: replaying the same configuration from the same initial state with ONE
//     block at the latest block time mints the same cumulative amount;
//   - a finished linear period has minted exactly its configured amount.
func minterEndMonitors(x *Exec, f *minterFam) {
	k := x.env.app.CfeminterKeeper
	if f.initParams == nil || f.updated || f.blocks == 0 {
		return
	}
	_, hist := minterHistStr(k, x.ctx)
	for _, h := range hist {
		for _, m := range f.initParams.Minters {
			if m.SequenceId != h.SequenceId {
				continue
			}
			if cfg, err := m.GetMinterConfig(); err == nil {
				if lin, ok := cfg.(*mintertypes.LinearMinting); ok && f.genesisLike {
					if !h.AmountMinted.Equal(lin.Amount) {
						x.hit("C02", "linear-exact", "history-entry", fmt.Sprintf("seq %d minted %s configured %s", h.SequenceId, h.AmountMinted, lin.Amount))
					}
				}
			}
		}
	}
	if !f.genesisLike {
		return
	}
	ctx2 := x.env.scenarioCtx()
	if err := k.SetParams(ctx2, cloneMinterParams(*f.initParams)); err != nil {
		return
	}
	k.SetMinterState(ctx2, *f.initState)
	denom := f.initParams.MintDenom
	before := x.env.app.BankKeeper.GetSupply(ctx2, denom).Amount
	c := ctx2.WithBlockTime(timeOf(f.maxT))
	res, _ := catch(func() error { cfeminter.BeginBlocker(c, k); return nil })
	if res != "ok" {
		return
	}
	one := x.env.app.BankKeeper.GetSupply(ctx2, denom).Amount.Sub(before)
	if one.BigInt().Cmp(f.cum) != 0 {
		x.hit("C02", "path-independence", "cumulative", fmt.Sprintf("blocks minted %s, single block to T=%d minted %s", f.cum, f.maxT, one))
	}
}

// ---------------------------------------------------------------- generators

const sec = int64(1_000_000_000)

var t0 = baseTime.UnixNano()

func genAmount(g *Gen) string {
	switch g.intn(8) {
	case 0:
		return "0"
	case 1:
		return "1"
	case 2:
		return fmt.Sprint(1 + g.intn(1000))
	case 3:
		return "1000000"
	case 4:
		return new(big.Int).Add(new(big.Int).Exp(big.NewInt(10), big.NewInt(18), nil), big.NewInt(int64(g.intn(3)-1))).String()
	case 5:
		return new(big.Int).Exp(big.NewInt(10), big.NewInt(30), nil).String()
	default:
		return g.logBig(24).String()
	}
}

func genMult(g *Gen) string {
	switch g.intn(7) {
	case 0:
		return "0"
	case 1:
		return "500000000000000000"
	case 2:
		return "999999999999999999"
	case 3:
		return "1000000000000000000"
	case 4:
		return "333333333333333333"
	case 5:
		return "1"
	default:
		return fmt.Sprint(g.r.Int63n(1_000_000_000_000_000_001))
	}
}

func genStep(g *Gen) int64 {
	return g.pickI(sec, 7*sec, 3600*sec, 365*24*3600*sec, sec+1, 1_500_000_000, int64(1+g.intn(100))*sec)
}

// one period duration, sometimes not ms-aligned
func genDur(g *Gen) int64 {
	d := g.pickI(sec, 10*sec, 3600*sec, 86400*sec, 365*86400*sec, int64(1+g.intn(5000))*sec)
	if g.chance(0.3) {
		d += int64(g.intn(1_000_000_000))
	}
	return d
}

type genPeriod struct {
	seq  int
	end  int64 // 0 = none
	kind string
	step int64
}

// writes cfg + periods, returns the boundaries of interest
func genMinterConfig(g *Gen, compact bool) (start int64, periods []genPeriod) {
	start = t0 + int64(g.intn(1000))*sec
	if g.chance(0.3) {
		start += int64(g.intn(1_000_000_000))
	}
	n := 1 + g.intn(5)
	first := 1
	if g.chance(0.2) {
		first = 1 + g.intn(5)
	}
	cur := start
	g.emit("m.cfg %s %d", g.pick("umint", "umint", "ibc/ABCDEF0123", "m-test.x_1:z"), start)
	for i := 0; i < n; i++ {
		last := i == n-1
		p := genPeriod{seq: first + i}
		kinds := []string{"none", "lin", "exp", "exp"}
		if last {
			kinds = []string{"none", "exp", "exp"}
		}
		p.kind = kinds[g.intn(len(kinds))]
		if p.kind == "exp" {
			p.step = genStep(g)
			if compact {
				p.step = g.pickI(sec, 7*sec, 1_500_000_000, sec+1)
			}
		}
		if !last {
			if compact {
				cur += int64(1+g.intn(1500))*sec + int64(g.intn(2))*int64(g.intn(1_000_000_000))
			} else if p.kind == "exp" {
				// keep the number of steps small: the Go code loops once per passed step
				cur += p.step*int64(g.intn(40)) + g.r.Int63n(p.step) + 1
			} else {
				cur += genDur(g)
			}
			p.end = cur
		}
		endTok := "-"
		if p.end != 0 {
			endTok = fmt.Sprint(p.end)
		}
		switch p.kind {
		case "none":
			g.emit("m.period %d %s none", p.seq, endTok)
		case "lin":
			g.emit("m.period %d %s lin %s", p.seq, endTok, genAmount(g))
		case "exp":
			a := genAmount(g)
			if a == "0" {
				a = "1"
			}
			g.emit("m.period %d %s exp %s %d %s", p.seq, endTok, a, p.step, genMult(g))
		}
		g.count("period/" + p.kind)
		periods = append(periods, p)
	}
	return
}

// block times around / on / over period and step boundaries
func genBlockTimes(g *Gen, start int64, periods []genPeriod, n int) []int64 {
	var marks []int64
	marks = append(marks, start)
	prev := start
	for _, p := range periods {
		if p.step > 0 {
			for j := 1; j <= 3; j++ {
				if m := prev + int64(j)*p.step; p.end == 0 || m <= p.end {
					marks = append(marks, m)
				}
			}
		}
		if p.end != 0 {
			marks = append(marks, p.end)
			prev = p.end
		}
	}
	lastMark := prev
	for _, m := range marks {
		if m > lastMark {
			lastMark = m
		}
	}
	var ts []int64
	for len(ts) < n {
		m := marks[g.intn(len(marks))]
		switch g.intn(7) {
		case 0:
			ts = append(ts, m)
		case 1:
			ts = append(ts, m-1)
		case 2:
			ts = append(ts, m+1)
		case 3:
			ts = append(ts, m+int64(g.intn(2_000_000))-1_000_000)
		case 4:
			ts = append(ts, start+g.r.Int63n(lastMark-start+10*sec+1))
		case 5:
			beyond := 400 * 86400 * sec
			if lp := periods[len(periods)-1]; lp.step > 0 {
				beyond = 60 * lp.step
			}
			ts = append(ts, lastMark+g.r.Int63n(beyond))
		default:
			ts = append(ts, start-5*sec+g.r.Int63n(lastMark-start+20*sec+1))
		}
	}
	if g.chance(0.85) {
		sort.Slice(ts, func(i, j int) bool { return ts[i] < ts[j] })
	}
	return ts
}

func genMinter(g *Gen, n int) {
	for s := 0; s < n; s++ {
		g.emit("reset minter %d", s)
		start, periods := genMinterConfig(g, false)
		var ended *genPeriod
		if s%4 == 1 {
			for i := range periods {
				if periods[i].end != 0 && periods[i].kind != "none" {
					ended = &periods[i]
				}
			}
		}
		if s%8 == 3 {
			// directed shape: far into an exponential period (more than 1000 steps) whose multiplier keeps
			// changing the step amount: inflation and emission must still use the same step
			st0 := t0 + int64(g.intn(1000))*sec
			g.emit("m.cfg umint %d", st0)
			g.emit("m.period 1 - exp %s %d %s", g.pick("1000000000000", "31536000000000"), sec, g.pick("999000000000000000", "1001000000000000000"))
			g.emit("m.init 1 0 0 0 %d", st0)
			g.emit("m.fund 1000000000000000")
			tt := st0 + int64(1001+g.intn(600))*sec + int64(g.intn(1000))*1000000
			g.emit("m.block %d", tt)
			g.emit("m.infl %d", tt)
			g.emit("m.block %d", tt+600*1000000)
			g.emit("m.infl %d", tt+600*1000000)
			g.emit("m.end")
			g.count("shape/deep-exponential")
			continue
		}
		if ended != nil {
			// directed shape: a chain (re)started exactly at the end of a period whose state still
			// points at it: nothing is emitted from that instant on, the reported inflation must be zero
			g.emit("m.init %d 0 0 0 %d", ended.seq, ended.end)
			g.emit("m.fund %s", genAmount(g)+"1")
			g.emit("m.infl %d", ended.end)
			g.emit("m.block %d", ended.end)
			g.emit("m.infl %d", ended.end)
			g.count("init/at-period-end")
		} else if g.chance(0.9) {
			g.emit("m.init %d 0 0 0 %d", periods[0].seq, start-int64(g.intn(3))*sec)
			g.count("init/genesis-like")
		} else {
			p := periods[g.intn(len(periods))]
			g.emit("m.init %d %d %d %d %d", p.seq, g.intn(1000), g.r.Int63n(1_000_000_000_000_000_000), g.r.Int63n(1_000_000_000_000_000_000), start-sec)
			g.count("init/arbitrary")
		}
		if g.chance(0.7) {
			g.emit("m.fund %s", genAmount(g))
		}
		ts := genBlockTimes(g, start, periods, 3+g.intn(25))
		for _, t := range ts {
			g.emit("m.block %d", t)
			if g.chance(0.15) {
				g.emit("m.infl %d", t+int64(g.intn(3))*sec)
			}
		}
		g.emit("m.end")
		g.count("scenario")
	}
}

// parameter-update histories (C13, C10): blocks interleaved with full / minters-only updates from
// gov and non-gov authorities, valid and invalid payloads
func genMinterUpd(g *Gen, n int) {
	for s := 0; s < n; s++ {
		g.emit("reset minterupd %d", s)
		start, periods := genMinterConfig(g, true)
		g.emit("m.init %d 0 0 0 %d", periods[0].seq, start-sec)
		now := start
		if (s+g.shape)%3 == 0 {
			// directed shape: an otherwise valid update whose only flaw is one boundary value of the
			// current exponential period (step duration 0, amount 0), sent by governance, followed by
			// the inflation query and a block
			flaw := g.pick("step0", "amount0", "stepneg", "dupid", "gap", "endorder")
			g.emit("m.cfg umint %d", start)
			a, st := "1000", int64(sec)
			q := periods[0].seq
			switch flaw {
			case "step0":
				st = 0
			case "amount0":
				a = "0"
			case "stepneg":
				st = -1
			case "dupid":
				// a repeated sequence id in an otherwise well-formed list
				g.emit("m.period %d %d none", q, start+1000*sec)
				g.emit("m.period %d %d lin 5", q, start+2000*sec)
				q++
			case "gap":
				g.emit("m.period %d %d none", q, start+1000*sec)
				q += 2
			default:
				// end times not increasing
				g.emit("m.period %d %d none", q, start+2000*sec)
				g.emit("m.period %d %d lin 5", q+1, start+1000*sec)
				q += 2
			}
			g.emit("m.period %d - exp %s %d 500000000000000000", q, a, st)
			g.emit("m.update %s gov", g.pick("full", "minters"))
			g.emit("m.params")
			g.emit("m.fund 1000000")
			now += 10 * sec
			g.emit("m.infl %d", now)
			g.emit("m.block %d", now)
			g.count("update/boundary-" + flaw)
		}
		if (s+g.shape)%3 == 1 {
			// directed shape: an update that leaves the start time unset (Go's zero time) in front of a
			// linear period: valid, mints on the millisecond scale from year 1 on, and must survive an
			// export / import unchanged
			g.emit("m.cfg umint zero")
			g.emit("m.period %d %d lin %s", periods[0].seq, now+int64(1000+g.intn(5000))*sec, g.pick("1000000", "63113904000000000000000", "7"))
			g.emit("m.period %d - none", periods[0].seq+1)
			g.emit("m.update %s gov", g.pick("full", "minters"))
			g.emit("m.params")
			g.emit("m.fund 1000000")
			now += 10 * sec
			g.emit("m.block %d", now)
			g.emit("m.infl %d", now)
			g.count("update/zero-start-time")
		}
		if (s+g.shape)%3 == 2 && s%2 == 0 {
			// directed shape: a valid list submitted NOT in ascending sequence-id order (validation sorts it
			// before it is stored), then blocks up to, exactly on and beyond each period end with the
			// inflation query in every period
			q := periods[0].seq
			e1, e2 := now+1000*sec, now+2000*sec
			g.emit("m.cfg umint %d", start)
			second := fmt.Sprintf("m.period %d %d %s", q+1, e2, g.pick("exp 1000000 100000000000 500000000000000000", "lin 2000000", "exp 360000 60000000000 1000000000000000000"))
			first := fmt.Sprintf("m.period %d %d lin %s", q, e1, g.pick("500000", "1000000000"))
			third := fmt.Sprintf("m.period %d - %s", q+2, g.pick("none", "exp 1000 1000000000 900000000000000000"))
			switch g.intn(3) {
			case 0:
				g.emit(second); g.emit(first); g.emit(third)
			case 1:
				g.emit(third); g.emit(second); g.emit(first)
			default:
				g.emit(first); g.emit(third); g.emit(second)
			}
			g.emit("m.update %s gov", g.pick("full", "minters"))
			g.emit("m.params")
			g.emit("m.fund 1000000")
			for _, t := range []int64{now + 500*sec, e1, e1 + 250*sec, e1 + 500*sec + 7, e2, e2 + 100*sec} {
				g.emit("m.block %d", t)
				g.emit("m.infl %d", t)
			}
			now = e2 + 100*sec
			g.count("update/unsorted-minters")
		}
		if (s+g.shape)%3 == 2 && s%2 == 1 {
			// directed shape: the last period carries an end time that is SET to Go's zero time (what a JSON
			// client sends for an omitted field): not "no end time" — must be rejected like any other end time
			q := periods[0].seq
			g.emit("m.cfg umint %d", start)
			if g.chance(0.5) {
				g.emit("m.period %d %d none", q, now+1000*sec)
				q++
			}
			g.emit("m.period %d zero %s", q, g.pick("none", "exp 1000000 1000000000 500000000000000000"))
			g.emit("m.update %s gov", g.pick("full", "minters"))
			g.emit("m.params")
			g.emit("m.fund 1000000")
			for _, t := range []int64{now + 10*sec, now + 1000*sec, now + 1500*sec} {
				g.emit("m.block %d", t)
				g.emit("m.infl %d", t)
			}
			now += 1500 * sec
			g.count("update/zero-end-time")
		}
		for i := 0; i < 4+g.intn(10); i++ {
			switch g.intn(3) {
			case 0, 1:
				now += g.pickI(sec, 60*sec, 600*sec) + int64(g.intn(1000))
				g.emit("m.block %d", now)
			default:
				_, _ = genMinterConfigMutated(g, start, now)
				g.emit("m.update %s %s", g.pick("full", "minters"), g.pick("gov", "gov", "gov", "other", "empty", "garbage"))
				g.emit("m.params")
			}
		}
		g.emit("m.end")
	}
}

// a new configuration for an update: start/end times possibly in the past or future relative to
// `now`; sometimes deliberately invalid (missing ids, nil amounts, bad denom, unresolved config)
func genMinterConfigMutated(g *Gen, start, now int64) (int64, []genPeriod) {
	if g.chance(0.6) {
		return genMinterConfig(g, true)
	}
	ns := now + (int64(g.intn(601))-300)*sec
	denom := g.pick("umint", "umint2", "", "!", "u", "ab", "a23456789")
	g.emit("m.cfg %s %d", esc(denom), ns)
	n := 1 + g.intn(4)
	cur := ns
	seq := 1 + g.intn(3)
	var periods []genPeriod
	for i := 0; i < n; i++ {
		last := i == n-1
		endTok := "-"
		if !last || g.chance(0.1) {
			cur += (int64(g.intn(1000)) - 100) * sec
			endTok = fmt.Sprint(cur)
		}
		switch g.intn(9) {
		case 0:
			g.emit("m.period nilminter")
		case 1:
			g.emit("m.period %d %s nilcfg", seq, endTok)
		case 2:
			g.emit("m.period %d %s unresolved", seq, endTok)
		case 3:
			g.emit("m.period %d %s lin %s", seq, endTok, g.pick("-", "-5", "0", "100"))
		case 4:
			g.emit("m.period %d %s exp %s %d %s", seq, endTok, g.pick("-", "-1", "0", "7"), g.pickI(0, -1, sec), g.pick("-", "-1", "500000000000000000"))
		case 5:
			g.emit("m.period %d %s none", seq, endTok)
		default:
			g.emit("m.period %d %s exp %s %d %s", seq, endTok, genAmount(g)+"1", g.pickI(sec, 7*sec, 1_500_000_000), genMult(g))
		}
		periods = append(periods, genPeriod{seq: seq})
		if g.chance(0.85) {
			seq++
		} else {
			seq += g.intn(3)
		}
	}
	return ns, periods
}
