//go:build verif

package main

// C16: the parameter migrations of consensus version 2 -> 3 (x/cfeminter/migrations/v3,
// x/cfedistributor/migrations/v3) run on legacy parameter-store content.
//
//   m.up.cfg <denom> <start>                          legacy cfeminter parameters being assembled
//   m.up.period <seq> <end|-> <type> <lin> <exp>      lin: nil | amount ; exp: nil | amount/step/mult
//   m.up.migrate3                                     write them to the legacy subspace, run MigrateParams
//   d.up.migrate3                                     the same for the configuration assembled by d.sub/d.src/d.share

import (
	"fmt"
	"strings"
	"time"

	distrv3 "github.com/chain4energy/c4e-chain/x/cfedistributor/migrations/v3"
	distrtypes "github.com/chain4energy/c4e-chain/x/cfedistributor/types"
	minterv3 "github.com/chain4energy/c4e-chain/x/cfeminter/migrations/v3"
	mintertypes "github.com/chain4energy/c4e-chain/x/cfeminter/types"
	sdk "github.com/cosmos/cosmos-sdk/types"
	authtypes "github.com/cosmos/cosmos-sdk/x/auth/types"
	paramstypes "github.com/cosmos/cosmos-sdk/x/params/types"
)

func init() {
	generators["migrate"] = genMigrate
}

type legacyMinterFam struct {
	denom   string
	start   time.Time
	minters []*mintertypes.LegacyMinter
}

func lmf(x *Exec) *legacyMinterFam {
	if v, ok := x.fam["m.up"]; ok {
		return v.(*legacyMinterFam)
	}
	f := &legacyMinterFam{}
	x.fam["m.up"] = f
	return f
}

// the legacy subspace with its key table, as the v1.2.0 upgrade handler prepares it
func legacySubspace(x *Exec, module string, table func() paramstypes.KeyTable) paramstypes.Subspace {
	sub := x.env.app.GetSubspace(module)
	if !sub.HasKeyTable() {
		sub = sub.WithKeyTable(table())
	}
	return sub
}

func execMinterMigrate(x *Exec, toks []string) string {
	f := lmf(x)
	app := x.env.app
	switch toks[0] {
	case "m.up.cfg":
		f.denom, f.start, f.minters = unesc(toks[1]), timeOf(int64Tok(toks[2])), nil
		return "."
	case "m.up.period":
		m := &mintertypes.LegacyMinter{SequenceId: uint32(int64Tok(toks[1])), Type: unesc(toks[3])}
		if toks[2] != "-" {
			t := timeOf(int64Tok(toks[2]))
			m.EndTime = &t
		}
		if toks[4] != "nil" {
			m.LinearMinting = &mintertypes.LinearMinting{Amount: intTok(toks[4])}
		}
		if toks[5] != "nil" {
			p := strings.Split(toks[5], "/")
			m.ExponentialStepMinting = &mintertypes.ExponentialStepMinting{Amount: intTok(p[0]), StepDuration: time.Duration(int64Tok(p[1])), AmountMultiplier: decTok(p[2])}
		}
		f.minters = append(f.minters, m)
		return "."
	case "m.up.migrate3":
		sub := legacySubspace(x, mintertypes.ModuleName, mintertypes.ParamKeyTable)
		// an independent copy of what is written, for the monitors
		type lm struct {
			seq  uint32
			end  string
			kind string
		}
		var want []lm
		cfg := mintertypes.MinterConfig{StartTime: f.start}
		for _, m := range f.minters {
			c := *m
			cfg.Minters = append(cfg.Minters, &c)
			e := "-"
			if m.EndTime != nil {
				e = fmt.Sprint(m.EndTime.UnixNano())
			}
			kind := "none"
			switch m.Type {
			case mintertypes.LinearMintingType:
				if m.LinearMinting != nil {
					kind = "lin/" + intStr(m.LinearMinting.Amount)
				}
			case mintertypes.ExponentialStepMintingType:
				if m.ExponentialStepMinting != nil {
					kind = fmt.Sprintf("exp/%s/%d/%s", intStr(m.ExponentialStepMinting.Amount), int64(m.ExponentialStepMinting.StepDuration), decStr(m.ExponentialStepMinting.AmountMultiplier))
				}
			}
			want = append(want, lm{m.SequenceId, e, kind})
		}
		sub.Set(x.ctx, mintertypes.KeyMintDenom, f.denom)
		sub.Set(x.ctx, mintertypes.KeyMinterConfig, cfg)
		before := minterParamsStr(app.CfeminterKeeper.GetParams(x.ctx))
		res, _ := x.deliver(func() error { return nil }, func(ctx sdk.Context) error {
			return minterv3.MigrateParams(ctx, app.GetKey(mintertypes.StoreKey), sub, app.AppCodec())
		})
		np := app.CfeminterKeeper.GetParams(x.ctx)
		if res != "ok" {
			if after := minterParamsStr(np); after != before {
				x.hit("C16", "failed-migration-wrote", "cfeminter", "migration returned an error but the stored parameters changed: "+before+" -> "+after)
			}
			return res
		}
		if err := np.Validate(); err != nil {
			x.hit("C16", "migrated-params-validate", "cfeminter", err.Error())
		}
		// same schedule: denom, start, and per sequence id the same end and configuration
		same := np.MintDenom == f.denom && np.StartTime.Equal(f.start) && len(np.Minters) == len(want)
		if same {
			got := map[uint32]string{}
			for _, part := range strings.Split(strings.TrimSuffix(strings.SplitN(minterParamsStr(np), "|[", 2)[1], "]"), ";") {
				q := strings.SplitN(part, "/", 3)
				if len(q) == 3 {
					got[uint32(int64Tok(q[0]))] = q[1] + " " + q[2]
				}
			}
			for _, w := range want {
				if got[w.seq] != w.end+" "+w.kind {
					same = false
				}
			}
		}
		if !same {
			x.hit("C16", "migrated-same-schedule", "cfeminter", fmt.Sprintf("legacy %v (denom %s start %d) migrated to %s", want, f.denom, f.start.UnixNano(), minterParamsStr(np)))
		}
		return "ok p=" + minterParamsStr(np)
	}
	return "bad-op"
}

func execDistrMigrate(x *Exec, f *distrFam) string {
	app := x.env.app
	for _, s := range f.pending {
		if s.Destinations.BurnShare.IsNil() {
			return "?"
		}
		for _, a := range s.Sources {
			if a == nil {
				return "?"
			}
		}
		for _, sh := range s.Destinations.Shares {
			if sh == nil || sh.Share.IsNil() {
				return "?"
			}
		}
	}
	sub := legacySubspace(x, distrtypes.ModuleName, distrtypes.ParamKeyTable)
	legacy := cloneSubs(f.pending)
	want := distrParamsStr(distrtypes.Params{SubDistributors: cloneSubs(f.pending)})
	sub.Set(x.ctx, distrtypes.KeySubDistributors, legacy)
	before := distrParamsStr(f.keeper.GetParams(x.ctx))
	res, _ := x.deliver(func() error { return nil }, func(ctx sdk.Context) error {
		return distrv3.MigrateParams(ctx, app.GetKey(distrtypes.StoreKey), sub, app.AppCodec())
	})
	np := f.keeper.GetParams(x.ctx)
	if res != "ok" {
		if after := distrParamsStr(np); after != before {
			x.hit("C16", "failed-migration-wrote", "cfedistributor", "migration returned an error but the stored parameters changed")
		}
		return res
	}
	if err := np.Validate(); err != nil {
		x.hit("C16", "migrated-params-validate", "cfedistributor", err.Error())
	}
	if got := distrParamsStr(np); got != want {
		x.hit("C16", "migrated-same-shares", "cfedistributor", "legacy "+want+" migrated to "+got)
	}
	return "ok p=" + distrParamsStr(np)
}

// legacy parameter-store contents: mostly well-formed schedules (so that the migration succeeds and
// the migrated schedule is then driven over blocks), plus the legacy-specific malformations (type
// tag and configuration message disagree, unknown tag, both messages set, zero amounts)
func genMigrate(g *Gen, n int) {
	for sc := 0; sc < n; sc++ {
		g.emit("reset migrate %d", sc)
		if sc%3 == 2 {
			emitDistrFacts(g)
			subs := genDistrConfig(g)
			if g.chance(0.2) && len(subs) > 1 {
				g.r.Shuffle(len(subs), func(a, b int) { subs[a], subs[b] = subs[b], subs[a] })
			}
			emitDistrConfig(g, subs)
			g.emit("d.up.migrate3")
			g.emit("d.params")
			mainAddr := authtypes.NewModuleAddress(distrtypes.DistributorMainAccount).String()
			for i := 0; i < 1+g.intn(3); i++ {
				g.emit("d.credit %s %s", mainAddr, genInflowCoins(g))
				g.emit("d.bb")
			}
			g.emit("d.end")
			g.count("migrate/distributor")
			continue
		}
		// a current-format configuration and state to start from
		start, periods := genMinterConfig(g, true)
		g.emit("m.init %d 0 0 0 %d", periods[0].seq, start-sec)
		// the legacy content: a clean schedule, or one with legacy-specific malformations
		dirty := g.chance(0.4)
		bad := func(p float64) bool { return dirty && g.chance(p) }
		denom := g.pick("umint", "umint", "ibc/ABCDEF0123", "m-test.x_1:z")
		if bad(0.2) {
			denom = g.pick("", "!", "u")
		}
		lstart := start
		if g.chance(0.3) {
			lstart = start + int64(g.intn(100))*sec
		}
		g.emit("m.up.cfg %s %d", esc(denom), lstart)
		np := 1 + g.intn(5)
		seq := periods[0].seq
		if bad(0.1) {
			seq = g.intn(3)
		}
		cur := lstart
		var lines []string
		for i := 0; i < np; i++ {
			last := i == np-1
			endTok := "-"
			if !last || bad(0.1) {
				cur += int64(1+g.intn(1500))*sec + int64(g.intn(2))*int64(g.intn(1_000_000_000))
				if bad(0.1) {
					cur -= 3000 * sec
				}
				endTok = fmt.Sprint(cur)
			}
			lin, exp := "nil", "nil"
			ty := mintertypes.NoMintingType
			k := g.intn(9)
			if last && k <= 2 && !bad(0.3) {
				k = 3 // a linear period needs an end, the last one has none
			}
			switch {
			case k <= 2:
				ty, lin = mintertypes.LinearMintingType, genAmount(g)
				if bad(0.2) {
					lin = "-5"
				}
			case k <= 6:
				ty = mintertypes.ExponentialStepMintingType
				a, st, mu := genAmount(g)+"1", g.pickI(sec, 7*sec, 1_500_000_000, sec+1), genMult(g)
				if g.chance(0.1) {
					a = "0" // accepted by the legacy validation, rejected by the new one
				}
				if bad(0.15) {
					a = "-1"
				}
				if bad(0.15) {
					st = g.pickI(0, -1)
				}
				if bad(0.15) {
					mu = "-1"
				}
				exp = fmt.Sprintf("%s/%d/%s", a, st, mu)
			}
			if bad(0.25) {
				// tag and message disagree / both set / unknown tag
				ty = g.pick(mintertypes.LinearMintingType, mintertypes.ExponentialStepMintingType, mintertypes.NoMintingType, "BOGUS", "")
				if g.chance(0.6) {
					lin = "100"
				}
				if g.chance(0.6) {
					exp = fmt.Sprintf("1000/%d/500000000000000000", sec)
				}
			}
			lines = append(lines, fmt.Sprintf("m.up.period %d %s %s %s %s", seq, endTok, esc(ty), lin, exp))
			if !bad(0.15) {
				seq++
			} else {
				seq += g.intn(3)
			}
		}
		if g.chance(0.25) {
			g.r.Shuffle(len(lines), func(a, b int) { lines[a], lines[b] = lines[b], lines[a] })
		}
		for _, l := range lines {
			g.emit("%s", l)
		}
		g.emit("m.up.migrate3")
		g.emit("m.params")
		now := lstart
		for i := 0; i < 2+g.intn(5); i++ {
			now += g.pickI(sec, 60*sec, 600*sec) + int64(g.intn(1000))
			g.emit("m.block %d", now)
		}
		g.emit("m.end")
		g.count("migrate/minter")
	}
}
