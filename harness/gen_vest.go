//go:build verif

package main

import (
	"fmt"
	"math/big"
	"sort"
	"strings"

	vesttypes "github.com/chain4energy/c4e-chain/x/cfevesting/types"
	sdk "github.com/cosmos/cosmos-sdk/types"
	authtypes "github.com/cosmos/cosmos-sdk/x/auth/types"
	"github.com/cosmos/cosmos-sdk/crypto/keys/secp256k1"
	stakingtypes "github.com/cosmos/cosmos-sdk/x/staking/types"
)

func init() {
	generators["vest"] = genVest
	generators["split"] = genSplit
}

func vaddr(i int) string {
	return sdk.AccAddress([]byte(fmt.Sprintf("verif-vest-account-%02d", i))).String()
}

// address whose secp256k1 key the executor can re-derive (accounts "with a public key")
func keyedPriv(i int) *secp256k1.PrivKey {
	return secp256k1.GenPrivKeyFromSecret([]byte(fmt.Sprintf("verif-keyed-account-%d", i)))
}
func keyedAddr(i int) string { return sdk.AccAddress(keyedPriv(i).PubKey().Address()).String() }
func keyedPubFor(addr string) *secp256k1.PubKey {
	for i := 0; i < 16; i++ {
		if keyedAddr(i) == addr {
			return keyedPriv(i).PubKey().(*secp256k1.PubKey)
		}
	}
	return nil
}

func atok(a string) string {
	b := "0"
	if _, err := sdk.AccAddressFromBech32(a); err == nil {
		b = "1"
	}
	return esc(a) + ":" + b
}

func emitVestFacts(g *Gen) {
	env := genEnv()
	c, _ := env.baseCtx.CacheContext()
	app := env.app
	g.emit("v.denom %s", esc(app.CfevestingKeeper.Denom(c)))
	ma := app.AccountKeeper.GetModuleAccount(c, vesttypes.ModuleName)
	g.emit("v.modaddr %s", ma.GetAddress().String())
	ba := app.AccountKeeper.GetModuleAccount(c, stakingtypes.BondedPoolName)
	g.emit("v.bonded %s", ba.GetAddress().String())
	var bl []string
	for a := range app.BlockedModuleAccountAddrs() {
		bl = append(bl, a)
	}
	sort.Strings(bl)
	for _, a := range bl {
		g.emit("v.blocked %s", a)
	}
	g.emit("v.modacct %s %d", ma.GetAddress().String(), ma.GetAccountNumber())
	g.emit("v.modacct %s %d", ba.GetAddress().String(), ba.GetAccountNumber())
	for _, n := range []string{"fee_collector", "distribution", "cfeminter"} {
		if ai := app.AccountKeeper.GetAccount(c, authtypes.NewModuleAddress(n)); ai != nil {
			g.emit("v.modacct %s %d", ai.GetAddress().String(), ai.GetAccountNumber())
			if b := app.BankKeeper.GetAllBalances(c, ai.GetAddress()); !b.IsZero() {
				g.emit("v.bal0 %s %s", ai.GetAddress().String(), coinsStr(b))
			}
		}
	}
	if b := app.BankKeeper.GetAllBalances(c, ba.GetAddress()); !b.IsZero() {
		g.emit("v.bal0 %s %s", ba.GetAddress().String(), coinsStr(b))
	}
	c2, _ := c.CacheContext()
	g.emit("v.accnum %d", app.AccountKeeper.GetNextAccountNumber(c2))
}

type gPool struct {
	owner, name string
	lockEnd     int64
	locked      *big.Int
	vtype       string
}

func genFree(g *Gen) string {
	return g.pick("0", "1", "50000000000000000", "333333333333333333", "1000000000000000000", "999999999999999999", fmt.Sprint(g.r.Int63n(1_000_000_000_000_000_000)))
}

func genVest(g *Gen, n int) {
	for sc := 0; sc < n; sc++ {
		g.emit("reset vest %d", sc)
		emitVestFacts(g)
		now := t0 + int64(g.intn(100000))*sec + int64(g.intn(2))*int64(g.intn(1_000_000_000))
		g.emit("v.time %d", now)
		nvt := 1 + g.intn(3)
		var vts []string
		for i := 0; i < nvt; i++ {
			name := fmt.Sprintf("vt%d", i)
			vts = append(vts, name)
			g.emit("v.vt %s %d %d %s", name, g.pickI(0, 3600*sec, 86400*sec, int64(g.intn(100000))*sec+int64(g.intn(1000)), 73000*86400*sec),
				g.pickI(0, 86400*sec, 365*86400*sec, int64(g.intn(10000000))*sec, 73000*86400*sec), genFree(g))
		}
		owners := []string{vaddr(0), vaddr(1), keyedAddr(0)}
		fresh := 3
		den := "uc4e"
		if g.forceDenom || g.chance(0.2) {
			// the vesting denom is changed by governance before any pool exists
			den = "uvest"
			g.emit("v.updateDenom gov %s", den)
			g.count("setup/non-default-denom")
		}
		for _, o := range owners {
			if g.chance(0.85) {
				g.emit("v.fund %s [%s=%s]", o, den, g.logBig(20+g.intn(8)))
			}
		}
		if g.chance(0.3) {
			g.emit("v.acct %s basekey", owners[2])
		}
		var pools []gPool
		var cvas []string
		if g.chance(0.2) {
			g.emit("v.updateDenom %s %s", g.pick("gov", "gov", "other", "garbage"), g.pick("uc4e", "uc4e", "uvest", "!", "%e"))
		}
		if g.chance(0.15) {
			// a (genesis-style) pool whose owner is a blocked module address: its withdrawal transfer fails
			bo := authtypes.NewModuleAddress(g.pick("fee_collector", "distribution", "cfeminter")).String()
			amt := g.logBig(12)
			g.emit("v.genpool %s gp vt0 %d %d %s 0 0 %d", bo, now-10*sec, now+g.pickI(-5, 5, 100)*sec, amt, g.intn(2))
			owners = append(owners, bo)
			pools = append(pools, gPool{bo, "gp", now + 100*sec, amt, "vt0"})
			g.count("setup/blocked-owner-pool")
		}
		if g.chance(0.25) {
			// a continuous vesting account with locked coins that will try to create pools
			va := vaddr(7)
			ov := g.logBig(15)
			g.emit("v.acct %s cva [%s=%s] %d %d", va, den, ov, now/sec-g.pickI(0, 10, 1000), now/sec+g.pickI(1000, 100000))
			g.emit("v.fund %s [%s=%s]", va, den, new(big.Int).Add(ov, big.NewInt(int64(g.intn(1000)))))
			owners = append(owners, va)
			cvas = append(cvas, va)
			g.count("setup/vesting-owner")
		}
		nextTo := func() string {
			// recipient address in every account state
			switch g.intn(10) {
			case 0:
				return owners[g.intn(3)] // existing base account
			case 1:
				if len(cvas) > 0 {
					return cvas[g.intn(len(cvas))] // existing vesting account
				}
			case 2:
				return authtypes.NewModuleAddress(vesttypes.ModuleName).String() // module (blocked)
			case 3:
				return "garbage-address"
			}
			fresh++
			return vaddr(fresh)
		}
		// directed shapes (independent of how the random part below happens to fall): every 4th
		// scenario starts with an owner whose pools mature in an order different from their creation
		// order and is withdrawn in between; every 4th+1 with a vesting-account owner asking for a
		// pool above its spendable balance (bank transfer fails after the pre-check passed)
		switch (sc + g.shape) % 4 {
		case 0:
			o := vaddr(8)
			owners = append(owners, o)
			g.emit("v.fund %s [%s=%s]", o, den, "1000000000000000000000000000")
			durs := []int64{g.pickI(30*86400*sec, 3600*sec), g.pickI(sec, 60*sec), g.pickI(600*sec, 7200*sec)}
			for i, d := range durs {
				amt := g.logBig(6 + g.intn(14))
				g.emit("v.createPool %s s%d %s %d %s", atok(o), i, amt, d, vts[0])
				pools = append(pools, gPool{o, fmt.Sprintf("s%d", i), now + d, amt, vts[0]})
			}
			order := []int{1, 2, 0}
			for _, i := range order {
				now = pools[len(pools)-3+i].lockEnd + g.pickI(0, 1, sec)
				g.emit("v.time %d", now)
				g.emit("v.q.pools %s", o)
				g.emit("v.withdraw %s", atok(o))
				if g.chance(0.5) {
					fresh++
					g.emit("v.send %s %s s%d %s %d", atok(o), atok(vaddr(fresh)), (i+1)%3, g.pick("0", "1", "1000"), g.intn(2))
				}
			}
			// the name of a pool that has been paid out completely is asked for again: still taken (a second
			// pool of that name would make the exported genesis invalid)
			g.emit("v.createPool %s s1 %s %d %s", atok(o), g.pick("0", "1", "777"), g.pickI(sec, 3600*sec), vts[0])
			g.emit("v.q.pools %s", o)
			g.count("shape/staggered-lock-ends")
		case 1:
			va := vaddr(9)
			ov := g.logBig(15)
			extra := big.NewInt(int64(1 + g.intn(1000)))
			g.emit("v.acct %s cva [%s=%s] %d %d", va, den, ov, now/sec-g.pickI(0, 10), now/sec+g.pickI(100000, 10000000))
			g.emit("v.fund %s [%s=%s]", va, den, new(big.Int).Add(ov, extra))
			owners = append(owners, va)
			cvas = append(cvas, va)
			// above the spendable part, within the total balance
			g.emit("v.createPool %s big %s %d %s", atok(va), new(big.Int).Add(extra, big.NewInt(int64(1+g.intn(5)))), g.pickI(sec, 3600*sec), vts[0])
			g.emit("v.q.pools %s", va)
			g.emit("v.createPool %s ok %s %d %s", atok(va), extra, g.pickI(sec, 3600*sec), vts[0])
			pools = append(pools, gPool{va, "ok", now + 3600*sec, extra, vts[0]})
			g.emit("v.q.pools %s", va)
			// the owner of this ORDINARY pool is itself recorded as a genesis vesting account: accounts sent
			// from the pool are not genesis-derived (only the pool's own flag counts)
			g.emit("v.trace %s 1 0 0", va)
			fresh++
			g.emit("v.send %s %s ok 1 %d", atok(va), atok(vaddr(fresh)), g.intn(2))
			cvas = append(cvas, vaddr(fresh))
			g.emit("v.q.summary 1")
			g.emit("v.q.summary 0")
			g.count("shape/vesting-owner-above-spendable")
		case 2:
			// a vesting type whose lockup + vesting exceeds what one time.Duration holds (each is valid
			// on its own), used by restarting and non-restarting sends
			g.emit("v.vt vtlong %d %d %s", 73000*86400*sec, 73000*86400*sec, genFree(g))
			o := vaddr(8)
			owners = append(owners, o)
			g.emit("v.fund %s [%s=%s]", o, den, "1000000000000000000000000000")
			amt := g.logBig(8 + g.intn(12))
			g.emit("v.createPool %s long %s %d vtlong", atok(o), amt, g.pickI(sec, 3600*sec))
			pools = append(pools, gPool{o, "long", now + 3600*sec, amt, "vtlong"})
			for i := 0; i < 2; i++ {
				fresh++
				g.emit("v.send %s %s long %s %d", atok(o), atok(vaddr(fresh)), g.pick("1", "1000", new(big.Int).Div(amt, big.NewInt(3)).String()), 1-i)
				g.emit("v.q.locked %s", vaddr(fresh))
				cvas = append(cvas, vaddr(fresh))
			}
			// directed shape: a pool above 2^63 base units (amounts are big integers) that matures and is
			// withdrawn in full: query and payout agree, the event carries the whole amount
			bo := vaddr(13)
			g.emit("v.fund %s [%s=%s]", bo, den, "20000000000000000000")
			bd := g.pickI(sec, 30*sec)
			g.emit("v.createPool %s huge %s %d %s", atok(bo), g.pick("9223372036854775808", "9223372036854775809", "18446744073709551616"), bd, vts[0])
			now += bd
			g.emit("v.time %d", now)
			g.emit("v.q.pools %s", bo)
			g.emit("v.withdraw %s", atok(bo))
			g.emit("v.q.pools %s", bo)
			g.count("shape/long-vesting-type")
		case 3:
			if g.chance(0.5) {
				// directed shape (D38): an owner who spells its address in upper case. The pool is created (and
				// stored under the canonical spelling); at lock end the same spelling is refused by withdraw-all,
				// by the pool query and by a pool send - the lower-case spelling works
				o := vaddr(12)
				up := strings.ToUpper(o) + ":1"
				g.emit("v.fund %s [%s=%s]", o, den, "1000000")
				d := g.pickI(sec, 60*sec)
				g.emit("v.createPool %s cap %d %d %s", up, 1000+g.intn(5000), d, vts[0])
				g.emit("v.q.pools %s", o)
				now += d
				g.emit("v.time %d", now)
				g.emit("v.q.pools %s", strings.ToUpper(o))
				fresh++
				g.emit("v.send %s %s cap 1 1", up, atok(vaddr(fresh)))
				g.emit("v.withdraw %s", up)
				g.emit("v.withdraw %s", atok(o))
				g.count("shape/upper-case-owner")
			}
			// lock ends beyond what fits into int64 nanoseconds since 1970 (year 2262): a valid
			// duration of 236..292 years; nothing may be withdrawable before
			o := vaddr(8)
			owners = append(owners, o)
			g.emit("v.fund %s [%s=%s]", o, den, "1000000000000000000000000000")
			years := int64(240 + g.intn(50))
			amt := g.logBig(6 + g.intn(14))
			g.emit("v.createPool %s far %s %d %s", atok(o), amt, years*365*86400*sec, vts[0])
			pools = append(pools, gPool{o, "far", now + years*365*86400*sec, amt, vts[0]})
			g.emit("v.q.pools %s", o)
			g.emit("v.withdraw %s", atok(o))
			now += g.pickI(sec, 86400*sec, 400*86400*sec)
			g.emit("v.time %d", now)
			g.emit("v.q.pools %s", o)
			g.emit("v.withdraw %s", atok(o))
			g.count("shape/far-future-lock-end")
		}
		if sc%2 == 0 {
			// directed shape: direct creation with several denominations listed in non-ascending order
			// (the keeper sorts them itself): transferred exactly and vested linearly
			o := vaddr(11)
			g.emit("v.fund %s [aaa=1000,uc4e=1000,zzz=1000]", o)
			fresh++
			st := now/sec + int64(g.intn(100)) - 50
			en := st + g.pickI(1000, 86400)
			if g.chance(0.3) {
				en = g.pickI(9223372036854775807, 9223372036854775807-3600, 9223371974719179008) // "never": the largest end times
			}
			g.emit("v.createVA %s %s %s %d %d", atok(o), atok(vaddr(fresh)), g.pick("[zzz=5,aaa=7]", "[zzz=300,uc4e=20,aaa=1]", "[uc4e=9,aaa=9]"), st, en)
			g.emit("v.q.locked %s", vaddr(fresh))
			cvas = append(cvas, vaddr(fresh))
			g.count("shape/unsorted-multi-denom-createVA")
		}
		nops := 6 + g.intn(20)
		for i := 0; i < nops; i++ {
			switch g.intn(14) {
			case 0, 1, 2: // create pool
				o := owners[g.intn(len(owners))]
				name := fmt.Sprintf("p%d", g.intn(4))
				amt := g.pick("0", "1", g.logBig(12).String(), g.logBig(19).String(), g.logBig(24).String(), "5000000000000000000", "9223372036854775807", "9223372036854775808", "10000000000000000000", "-", "-5")
				dur := g.pickI(1, sec, 3600*sec, 30*86400*sec, 0, -1)
				vt := vts[g.intn(len(vts))]
				if g.chance(0.07) {
					vt = "missing"
				}
				if g.chance(0.05) {
					name = "%e"
				}
				g.emit("v.createPool %s %s %s %d %s", atok(o), name, amt, dur, vt)
				if a, ok := new(big.Int).SetString(amt, 10); ok && dur > 0 {
					pools = append(pools, gPool{o, name, now + dur, a, vt})
				}
				g.count("op/createPool")
			case 3, 4: // move time, often onto a lock end
				if len(pools) > 0 && g.chance(0.7) {
					p := pools[g.intn(len(pools))]
					now = p.lockEnd + g.pickI(-1, 0, 1, sec, -sec, 1000*sec)
				} else {
					now += g.pickI(1, sec, 3600*sec, 86400*sec, 400*86400*sec)
				}
				g.emit("v.time %d", now)
			case 5, 6: // withdraw
				o := owners[g.intn(len(owners))]
				if g.chance(0.05) {
					o = "garbage"
				}
				g.emit("v.q.pools %s", esc(o))
				g.emit("v.withdraw %s", atok(o))
				if g.chance(0.3) {
					g.emit("v.withdraw %s", atok(o)) // a repeated withdrawal pays zero
				}
				g.count("op/withdraw")
			case 7, 8, 9: // send to a new vesting account
				if len(pools) == 0 {
					continue
				}
				p := pools[g.intn(len(pools))]
				var amt string
				switch g.intn(7) {
				case 0:
					amt = "0"
				case 1:
					amt = "1"
				case 2:
					amt = p.locked.String()
				case 3:
					amt = new(big.Int).Add(p.locked, big.NewInt(1)).String()
				case 4:
					amt = "-"
				default:
					if p.locked.Sign() > 0 {
						amt = new(big.Int).Rand(g.r, p.locked).String()
					} else {
						amt = "0"
					}
				}
				to := nextTo()
				pn := p.name
				if g.chance(0.05) {
					pn = "nopool"
				}
				g.emit("v.send %s %s %s %s %d", atok(p.owner), atok(to), pn, amt, g.intn(2))
				if a, ok := new(big.Int).SetString(amt, 10); ok && a.Sign() >= 0 && a.Cmp(p.locked) <= 0 {
					p.locked.Sub(p.locked, a)
					if _, err := sdk.AccAddressFromBech32(to); err == nil {
						cvas = append(cvas, to)
					}
				}
				g.count("op/send")
			case 10: // create a vesting account directly
				o := owners[g.intn(3)]
				to := nextTo()
				start := now/sec + int64(g.intn(2000)) - 1000
				end := start + g.pickI(0, 1, 1000, 86400*365, -5)
				coins := g.pick("[uc4e="+g.logBig(10).String()+"]", "[uc4e=1]", "[]", "-", "[uc4e=-]", "[uc4e=0]", "[uc4e=-3]", "[uc4e=5,uc4e=6]", "[zz=1,aa=2]")
				g.emit("v.createVA %s %s %s %d %d", atok(o), atok(to), coins, start, end)
				if _, err := sdk.AccAddressFromBech32(to); err == nil {
					cvas = append(cvas, to)
				}
				g.count("op/createVA")
			case 11: // split / move from a vesting account
				if len(cvas) == 0 {
					continue
				}
				src := cvas[g.intn(len(cvas))]
				to := nextTo()
				switch g.intn(3) {
				case 0:
					g.emit("v.split %s %s %s", atok(src), atok(to), g.pick("[uc4e=1]", "[uc4e="+g.logBig(8).String()+"]", "[]", "-", "[uc4e=0]", "[uc4e=-]"))
				case 1:
					g.emit("v.move %s %s", atok(src), atok(to))
				default:
					g.emit("v.moveDenoms %s %s %s", atok(src), atok(to), g.pick("uc4e", "uc4e uother", "!", "uc4e uc4e", "%e", "%20uc4e", "uc4e%20", "uc4e%0A", "%09uc4e"))
				}
				if _, err := sdk.AccAddressFromBech32(to); err == nil {
					cvas = append(cvas, to)
				}
				g.count("op/split")
			case 12:
				g.emit("v.q.summary %d", g.intn(2))
				if g.chance(0.5) {
					g.emit("v.updateDenom %s %s", g.pick("gov", "gov", "other", "empty"), g.pick("uc4e", "uvest", "!", "%e", "ab"))
				}
			default:
				if len(cvas) > 0 {
					a := cvas[g.intn(len(cvas))]
					g.emit("v.q.locked %s", a)
					g.emit("v.q.spendable %s", a)
				}
			}
		}
		for _, o := range owners {
			g.emit("v.q.pools %s", o)
		}
		g.emit("v.q.summary 0")
		g.emit("v.end")
		g.count("scenario")
	}
}

// split / move / lineage scenarios: vesting accounts with amounts swept over 1..10^30, several
// denominations, delegated vesting, chains of splits, genesis and non-genesis lineage
func genSplit(g *Gen, n int) {
	for sc := 0; sc < n; sc++ {
		g.emit("reset split %d", sc)
		emitVestFacts(g)
		now := t0 + int64(g.intn(100000))*sec
		g.emit("v.time %d", now)
		g.emit("v.vt vt0 %d %d %s", g.pickI(0, 3600*sec), g.pickI(86400*sec, 365*86400*sec), genFree(g))
		nowS := now / sec
		var cvas []string
		fresh := 20
		// a genesis pool and an ordinary pool to derive accounts from
		owner := vaddr(10)
		g.emit("v.fund %s [uc4e=%s]", owner, "1000000000000000000000000000000000")
		g.emit("v.genpool %s gen vt0 %d %d %s 0 0 1", owner, now-1000*sec, now+g.pickI(-10, 1000, 100000)*sec, g.logBig(31))
		g.emit("v.createPool %s plain %s %d vt0", atok(owner), g.logBig(25), 1000*sec)
		if sc%2 == 0 {
			// directed shape: genesis pools that already have a history (withdrawn and sent > 0, still something
			// locked) and whose names differ only by letter case; they mature, are withdrawn (events per pool)
			// and are sent from by their exact names
			w1, s1 := 100+g.intn(900), 50+g.intn(100)
			g.emit("v.genpool %s Team vt0 %d %d %d %d %d 1", owner, now-1000*sec, now+50*sec, 5000+g.intn(5000), w1, s1)
			g.emit("v.genpool %s team vt0 %d %d %d %d %d 0", owner, now-1000*sec, now+100000*sec, 9000+g.intn(5000), s1, w1)
			to1, to2 := vaddr(fresh), vaddr(fresh+1)
			fresh += 2
			g.emit("v.send %s %s team %d 1", atok(owner), atok(to1), 1+g.intn(50))
			g.emit("v.send %s %s Team %d 0", atok(owner), atok(to2), 1+g.intn(50))
			g.emit("v.q.pools %s", owner)
			g.emit("v.time %d", now+60*sec)
			g.emit("v.withdraw %s", atok(owner))
			g.emit("v.q.pools %s", owner)
			g.emit("v.time %d", now)
			g.count("shape/genesis-pools-with-history")
		}
		for i := 0; i < 1+g.intn(3); i++ {
			a := vaddr(fresh)
			fresh++
			var ovs []string
			var funds []string
			denoms := []string{"uc4e"}
			if g.chance(0.4) {
				denoms = []string{"uatom", "uc4e"}
			}
			for _, d := range denoms {
				var ov *big.Int
				switch g.intn(5) {
				case 0:
					ov = big.NewInt(int64(1 + g.intn(10)))
				case 1:
					ov = new(big.Int).Add(bigOf("2000000000000000000"), big.NewInt(int64(g.intn(1000))))
				case 2:
					ov = bigOf("992770448696222202925153")
				default:
					ov = g.logBig(31)
				}
				ovs = append(ovs, d+"="+ov.String())
				funds = append(funds, d+"="+new(big.Int).Add(ov, big.NewInt(int64(g.intn(1000)))).String())
			}
			start := nowS + g.pickI(-1000, -1, 0, 1, 500, -86400*100)
			end := start + g.pickI(1, 2, 1000, 86400*365, 3, 7)
			g.emit("v.acct %s cva [%s] %d %d", a, strings.Join(ovs, ","), start, end)
			g.emit("v.fund %s [%s]", a, strings.Join(funds, ","))
			if g.chance(0.5) {
				g.emit("v.trace %s %d 0 0", a, g.intn(2)) // recorded (possibly genesis) account
			}
			cvas = append(cvas, a)
		}
		if g.chance(0.6) {
			to := vaddr(fresh)
			fresh++
			toTok := atok(to)
			if g.chance(0.35) {
				// the recipient spelt in upper case (valid bech32, same account): its record must be found
				// again when it later splits or moves (D35)
				toTok = strings.ToUpper(to) + ":1"
				g.count("pattern/uppercase-recipient")
			}
			g.emit("v.send %s %s %s %s %d", atok(owner), toTok, g.pick("gen", "plain"), g.logBig(20), g.intn(2))
			cvas = append(cvas, to)
		}
		if g.chance(0.25) {
			// rounding-critical split: odd original vesting above 4e18, exactly half time, one unit
			a := vaddr(fresh)
			fresh++
			ov := new(big.Int).Add(new(big.Int).Mul(g.logBig(12), bigOf("2000000000000000000")), bigOf("4000000000000000001"))
			half := g.pickI(1, 7, 500, 86400)
			g.emit("v.acct %s cva [uc4e=%s] %d %d", a, ov, nowS-half, nowS+half)
			g.emit("v.fund %s [uc4e=%s]", a, ov)
			to := vaddr(fresh)
			fresh++
			g.emit("v.q.locked %s", a)
			g.emit("v.split %s %s [uc4e=%s]", atok(a), atok(to), g.pick("1", "1", "2", "3", "5"))
			g.emit("v.q.locked %s", a)
			g.emit("v.q.spendable %s", a)
			cvas = append(cvas, a, to)
			g.count("pattern/half-time-odd")
		}
		if g.chance(0.25) {
			// delegated vesting exceeding what still vests: other denominations stay splittable
			a := vaddr(fresh)
			fresh++
			period := g.pickI(1000, 100000)
			g.emit("v.acct %s cva [uatom=%s,uc4e=1000000] %d %d", a, g.logBig(10), nowS, nowS+period)
			g.emit("v.fund %s [uatom=%s,uc4e=1000000]", a, "100000000000")
			g.emit("v.trace %s %d 0 0", a, g.intn(2))
			// a second recorded account with the same schedule that does not delegate
			b := vaddr(fresh)
			fresh++
			g.emit("v.acct %s cva [uc4e=1000000] %d %d", b, nowS, nowS+period)
			g.emit("v.fund %s [uc4e=1000000]", b)
			g.emit("v.trace %s %d 0 0", b, g.intn(2))
			g.emit("v.delegate %s uc4e %d", a, 500000+g.intn(500000))
			now += period * sec * int64(1+g.intn(3)) / 4
			g.emit("v.time %d", now)
			g.emit("v.q.summary 0")
			g.emit("v.q.summary 1")
			to := vaddr(fresh)
			fresh++
			g.emit("v.q.locked %s", a)
			switch g.intn(3) {
			case 0:
				g.emit("v.split %s %s [uatom=%s]", atok(a), atok(to), g.pick("1", "100", "1000"))
			case 1:
				g.emit("v.move %s %s", atok(a), atok(to))
			default:
				g.emit("v.moveDenoms %s %s uatom", atok(a), atok(to))
			}
			cvas = append(cvas, a)
			g.count("pattern/delegated-exceeds-vesting")
		}
		if sc%2 == 1 {
			// directed shape: a vesting account that has moved ALL of its (still fully locked) vesting away - its
			// original vesting is empty, but it still exists: a later split / move TO it must be refused
			x1, y1 := vaddr(fresh), vaddr(fresh+1)
			fresh += 2
			amt := 1000 + g.intn(100000)
			g.emit("v.acct %s cva [uc4e=%d] %d %d", x1, amt, nowS+g.pickI(100, 1000), nowS+g.pickI(2000, 100000))
			g.emit("v.fund %s [uc4e=%d]", x1, amt+g.intn(10))
			g.emit("v.move %s %s", atok(x1), atok(y1))
			g.emit("v.q.locked %s", x1)
			switch g.intn(3) {
			case 0:
				g.emit("v.split %s %s [uc4e=%d]", atok(y1), atok(x1), 1+g.intn(amt))
			case 1:
				g.emit("v.move %s %s", atok(y1), atok(x1))
			default:
				g.emit("v.moveDenoms %s %s uc4e", atok(y1), atok(x1))
			}
			g.emit("v.q.locked %s", x1)
			cvas = append(cvas, y1)
			g.count("shape/emptied-vesting-recipient")
		}
		if sc%3 == 2 {
			// directed shape (D37): a direct creation whose start lies so far before 1970 that end - start does
			// not fit into int64 (the SDK's vesting arithmetic then goes negative and NewCoin panics in every
			// later split / move of that account): must be refused
			src0 := vaddr(fresh)
			bad := vaddr(fresh + 1)
			to := vaddr(fresh + 2)
			fresh += 3
			g.emit("v.fund %s [uc4e=5000]", src0)
			g.emit("v.createVA %s %s [uc4e=1000] %d %d", atok(src0), atok(bad), g.pickI(-4611686018427387914, -9223372036854775807, -1), g.pickI(4611686018427387914, 9223372036854775807))
			g.emit("v.q.locked %s", bad)
			switch g.intn(3) {
			case 0:
				g.emit("v.split %s %s [uc4e=1]", atok(bad), atok(to))
			case 1:
				g.emit("v.move %s %s", atok(bad), atok(to))
			default:
				g.emit("v.moveDenoms %s %s uc4e", atok(bad), atok(to))
			}
			g.count("shape/start-before-1970")
		}
		if sc%3 == 1 {
			// directed shape: a DELAYED vesting account (another SDK vesting type) as sender of split /
			// move: rejected, and the account record stays what it is
			dv := vaddr(fresh)
			fresh++
			g.emit("v.acct %s dva [uc4e=%d] %d", dv, 1000+g.intn(1000), nowS+g.pickI(1000, 100000))
			g.emit("v.fund %s [uc4e=3000]", dv)
			g.emit("v.q.locked %s", dv)
			to := vaddr(fresh)
			fresh++
			switch g.intn(3) {
			case 0:
				g.emit("v.split %s %s [uc4e=%d]", atok(dv), atok(to), 1+g.intn(500))
			case 1:
				g.emit("v.move %s %s", atok(dv), atok(to))
			default:
				g.emit("v.moveDenoms %s %s uc4e", atok(dv), atok(to))
			}
			g.emit("v.q.locked %s", dv)
			// ... and as RECIPIENT of a split / move from a continuous vesting account: an existing account of
			// any kind is never written over
			if len(cvas) > 0 {
				src := cvas[g.intn(len(cvas))]
				switch g.intn(3) {
				case 0:
					g.emit("v.split %s %s [uc4e=%d]", atok(src), atok(dv), 1+g.intn(5))
				case 1:
					g.emit("v.move %s %s", atok(src), atok(dv))
				default:
					g.emit("v.moveDenoms %s %s uc4e", atok(src), atok(dv))
				}
				g.emit("v.q.locked %s", dv)
			}
			g.count("shape/delayed-vesting-sender")
		}
		if sc%3 == 0 {
			// directed shape: a recorded account that has delegated its WHOLE balance (bank balance 0,
			// everything still vesting) must still be counted by both summaries
			c := vaddr(fresh)
			fresh++
			amt := 1000000 + g.intn(1000000)
			g.emit("v.acct %s cva [uc4e=%d] %d %d", c, amt, nowS-g.pickI(0, 100), nowS+g.pickI(1000, 100000))
			g.emit("v.fund %s [uc4e=%d]", c, amt)
			g.emit("v.trace %s %d 0 0", c, g.intn(2))
			g.emit("v.delegate %s uc4e %d", c, amt)
			g.emit("v.q.summary 0")
			g.emit("v.q.summary 1")
			cvas = append(cvas, c)
			g.count("shape/whole-balance-delegated")
		}
		for i := 0; i < 4+g.intn(10); i++ {
			src := cvas[g.intn(len(cvas))]
			switch g.intn(9) {
			case 0:
				now += g.pickI(1, sec, 500*sec, 86400*sec, 86400*100*sec)
				g.emit("v.time %d", now)
			case 1:
				g.emit("v.delegate %s %s %s", src, g.pick("uc4e", "uc4e", "uatom"), g.pick("1", g.logBig(20).String(), g.logBig(30).String(), "0"))
			case 2, 3, 4:
				to := vaddr(fresh)
				fresh++
				if g.chance(0.2) {
					// an existing destination (another vesting account, the owner, or the sender itself)
					to = g.pick(cvas[g.intn(len(cvas))], owner, src)
				}
				amt := g.pick("1", "2", "5", g.logBig(6).String(), g.logBig(18).String(), g.logBig(24).String(), g.logBig(30).String())
				coins := "[uc4e=" + amt + "]"
				if g.chance(0.2) {
					coins = "[uatom=" + g.logBig(12).String() + ",uc4e=" + amt + "]"
				}
				g.emit("v.q.locked %s", src)
				g.emit("v.split %s %s %s", atok(src), atok(to), coins)
				cvas = append(cvas, to)
				g.count("op/split")
			case 5, 6:
				to := vaddr(fresh)
				fresh++
				if g.chance(0.2) {
					to = g.pick(cvas[g.intn(len(cvas))], owner, src)
				}
				g.emit("v.move %s %s", atok(src), atok(to))
				cvas = append(cvas, to)
				g.count("op/move")
			case 7:
				to := vaddr(fresh)
				fresh++
				g.emit("v.moveDenoms %s %s %s", atok(src), atok(to), g.pick("uc4e", "uatom", "uatom uc4e", "uc4e uatom", "unone", "%20uc4e", "uatom%20"))
				cvas = append(cvas, to)
				g.count("op/moveDenoms")
			default:
				g.emit("v.q.summary %d", g.intn(2))
			}
		}
		g.emit("v.q.summary 0")
		g.emit("v.q.summary 1")
		g.emit("v.end")
		g.count("scenario")
	}
}
