//go:build verif

package main

import (
	"fmt"
	"sort"
	"strings"
	"time"

	vestkeeper "github.com/chain4energy/c4e-chain/x/cfevesting/keeper"
	vesttypes "github.com/chain4energy/c4e-chain/x/cfevesting/types"
	mintertypes "github.com/chain4energy/c4e-chain/x/cfeminter/types"
	"github.com/cosmos/cosmos-sdk/crypto/keys/secp256k1"
	cryptotypes "github.com/cosmos/cosmos-sdk/crypto/types"
	sdk "github.com/cosmos/cosmos-sdk/types"
	authtypes "github.com/cosmos/cosmos-sdk/x/auth/types"
	sdkvesting "github.com/cosmos/cosmos-sdk/x/auth/vesting/types"
	bankkeeper "github.com/cosmos/cosmos-sdk/x/bank/keeper"
	banktypes "github.com/cosmos/cosmos-sdk/x/bank/types"
	stakingtypes "github.com/cosmos/cosmos-sdk/x/staking/types"
	abci "github.com/tendermint/tendermint/abci/types"
)

func init() {
	families["v"] = execVest
}

type vestFam struct {
	tracked  map[string]bool
	helperBk bankkeeper.Keeper
	bonded   string
}

func vf(x *Exec) *vestFam {
	if v, ok := x.fam["v"]; ok {
		return v.(*vestFam)
	}
	app := x.env.app
	hb := bankkeeper.NewBaseKeeper(app.AppCodec(), app.GetKey(banktypes.StoreKey), app.AccountKeeper, app.GetSubspace(banktypes.ModuleName), map[string]bool{})
	f := &vestFam{tracked: map[string]bool{}, helperBk: hb}
	x.fam["v"] = f
	return f
}

type addrTok struct {
	s  string
	ok bool
}

func parseAddrTok(t string) addrTok {
	k := strings.LastIndex(t, ":")
	a := addrTok{s: unesc(t[:k]), ok: t[k+1:] == "1"}
	_, err := sdk.AccAddressFromBech32(a.s)
	if (err == nil) != a.ok {
		panic("address token bech32 bit disagrees with the SDK: " + t)
	}
	return a
}

// coins with optional nil amounts; "-" = nil slice
func parseOptCoinsTok(s string) sdk.Coins {
	if s == "-" {
		return nil
	}
	inner := strings.TrimSuffix(strings.TrimPrefix(s, "["), "]")
	cs := sdk.Coins{}
	if inner == "" {
		return cs
	}
	for _, it := range strings.Split(inner, ",") {
		kv := strings.SplitN(it, "=", 2)
		cs = append(cs, sdk.Coin{Denom: unesc(kv[0]), Amount: intTok(kv[1])})
	}
	return cs
}

func (f *vestFam) track(a string) {
	if a != "" {
		f.tracked[a] = true
	}
}
func (f *vestFam) trackTok(a addrTok) {
	if a.ok {
		// balances and account records belong to the ACCOUNT: track it under its canonical spelling
		// (bech32 also accepts the all-upper-case form of the same address)
		if acc, err := sdk.AccAddressFromBech32(a.s); err == nil {
			f.track(acc.String())
			return
		}
		f.track(a.s)
	}
}

func vestStateStr(x *Exec, f *vestFam, ctx sdk.Context) string {
	app := x.env.app
	k := app.CfevestingKeeper
	// pools
	var pp []string
	for _, avp := range k.GetAllAccountVestingPools(ctx) {
		for _, p := range avp.VestingPools {
			g := 0
			if p.GenesisPool {
				g = 1
			}
			pp = append(pp, fmt.Sprintf("%s~%s~%s~%s~%s~%s~%s~%s~%d", avp.Owner, esc(p.Name), esc(p.VestingType), nanosOf(p.LockStart), nanosOf(p.LockEnd),
				p.InitiallyLocked, p.Withdrawn, p.Sent, g))
		}
	}
	addrs := make([]string, 0, len(f.tracked))
	for a := range f.tracked {
		addrs = append(addrs, a)
	}
	sort.Strings(addrs)
	var bb, aa []string
	for _, a := range addrs {
		acc, _ := sdk.AccAddressFromBech32(a)
		if b := app.BankKeeper.GetAllBalances(ctx, acc); !b.IsZero() {
			bb = append(bb, a+"~"+coinsStr(b))
		}
		if ai := app.AccountKeeper.GetAccount(ctx, acc); ai != nil {
			pk := "-"
			if ai.GetPubKey() != nil {
				pk = "pk"
			}
			ident := fmt.Sprintf("%d/%s", ai.GetSequence(), pk)
			switch v := ai.(type) {
			case *sdkvesting.ContinuousVestingAccount:
				aa = append(aa, fmt.Sprintf("%s~cva~%d~%s~%s~%d~%d~%s~%s", a, v.AccountNumber, ident, coinsStr(v.OriginalVesting), v.StartTime, v.EndTime, coinsStr(v.DelegatedVesting), coinsStr(v.DelegatedFree)))
			case *sdkvesting.DelayedVestingAccount:
				aa = append(aa, fmt.Sprintf("%s~dva~%d~%s~%s~0~%d~%s~%s", a, v.AccountNumber, ident, coinsStr(v.OriginalVesting), v.EndTime, coinsStr(v.DelegatedVesting), coinsStr(v.DelegatedFree)))
			case authtypes.ModuleAccountI:
				aa = append(aa, fmt.Sprintf("%s~module~%d~%s~[]~0~0~[]~[]", a, v.GetAccountNumber(), ident))
			case *authtypes.BaseAccount:
				aa = append(aa, fmt.Sprintf("%s~base~%d~%s~[]~0~0~[]~[]", a, v.AccountNumber, ident))
			default:
				aa = append(aa, fmt.Sprintf("%s~other:%T~%d~%s~[]~0~0~[]~[]", a, ai, ai.GetAccountNumber(), ident))
			}
		}
	}
	var tt []string
	for _, t := range k.GetAllVestingAccountTrace(ctx) {
		b := func(v bool) int {
			if v {
				return 1
			}
			return 0
		}
		tt = append(tt, fmt.Sprintf("%s~%d~%d~%d~%d", t.Address, t.Id, b(t.Genesis), b(t.FromGenesisPool), b(t.FromGenesisAccount)))
	}
	_, b1 := vestkeeper.NonNegativeVestingPoolAmountsInvariant(k)(ctx)
	_, b2 := vestkeeper.VestingPoolConsistentDataInvariant(k)(ctx)
	_, b3 := vestkeeper.ModuleAccountInvariant(k)(ctx)
	inv := func(b bool) string {
		if b {
			return "0"
		}
		return "1"
	}
	return fmt.Sprintf("pools=[%s] bal=[%s] acct=[%s] tr=[%s] cnt=%d inv=%s%s%s", strings.Join(pp, ";"), strings.Join(bb, ";"), strings.Join(aa, ";"),
		strings.Join(tt, ";"), k.GetVestingAccountTraceCount(ctx), inv(b1), inv(b2), inv(b3))
}

// withdrawn counter per owner~pool-name (summed over pools sharing a name) out of a state string
func poolsWithdrawn(state string) map[string]sdk.Int {
	out := map[string]sdk.Int{}
	pools := strings.TrimSuffix(strings.TrimPrefix(fieldOf(state, "pools"), "["), "]")
	if pools == "" {
		return out
	}
	for _, e := range strings.Split(pools, ";") {
		p := strings.Split(e, "~")
		if len(p) < 9 {
			continue
		}
		v, ok := sdk.NewIntFromString(p[6])
		if !ok {
			continue
		}
		key := strings.ToLower(p[0]) + "~" + p[1]
		if cur, ok := out[key]; ok {
			out[key] = cur.Add(v)
		} else {
			out[key] = v
		}
	}
	return out
}

func peekAccNum(x *Exec, ctx sdk.Context) uint64 {
	c, _ := ctx.CacheContext()
	return x.env.app.AccountKeeper.GetNextAccountNumber(c)
}

// delivers one vesting message with baseapp semantics and evaluates the per-message monitors
func vestDeliver(x *Exec, f *vestFam, op string, vb func() error, h func(ctx sdk.Context) (sdk.Int, error)) string {
	before := vestStateStr(x, f, x.ctx)
	accBefore := snapshotAccounts(x, f, x.ctx)
	supplyBefore := x.env.app.BankKeeper.GetSupply(x.ctx, x.env.app.CfevestingKeeper.Denom(x.ctx)).Amount
	defer func() {
		// C01: vesting messages never create or destroy coins
		after := x.env.app.BankKeeper.GetSupply(x.ctx, x.env.app.CfevestingKeeper.Denom(x.ctx)).Amount
		if !after.Equal(supplyBefore) {
			x.hit("C01", "message-changed-supply", op, fmt.Sprintf("supply %s -> %s", supplyBefore, after))
		}
		if msg, broken := bankkeeper.TotalSupply(x.env.app.BankKeeper)(x.ctx); broken {
			x.hit("C01", "supply-equals-balances", op, msg)
		}
	}()
	res, _ := catch(vb)
	paid := sdk.ZeroInt()
	var evs []string
	if res == "ok" {
		cc, write := x.ctx.CacheContext()
		cc = cc.WithEventManager(sdk.NewEventManager())
		res, _ = catch(func() error {
			p, err := h(cc)
			if err == nil {
				paid = p
			}
			return err
		})
		if res == "ok" {
			write()
			for _, e := range cc.EventManager().Events() {
				msg, err := sdk.ParseTypedEvent(abci.Event(e))
				if err != nil {
					continue
				}
				if w, ok := msg.(*vesttypes.WithdrawAvailable); ok {
					denom := x.env.app.CfevestingKeeper.Denom(cc)
					evs = append(evs, fmt.Sprintf("W~%s~%s~%s", w.Owner, esc(w.VestingPoolName), strings.TrimSuffix(w.Amount, denom)))
				}
			}
		} else if res == "err" {
			// C05: a rejected message must not leave effects even before the transaction rollback,
			// except the documented withdraw-first of send-to-vesting-account
			// (compared on pools and balances; account records created before a failing transfer in
			// create-vesting-account / split are likewise left to the rollback)
			dirty := vestStateStr(x, f, cc)
			if (fieldOf(dirty, "pools") != fieldOf(before, "pools") || fieldOf(dirty, "bal") != fieldOf(before, "bal")) && op != "v.send" {
				x.hit("C05", "rejected-message-dirty-state", op, "handler returned an error after changing state: "+firstDiff(before, dirty))
			}
		}
	}
	after := vestStateStr(x, f, x.ctx)
	if res == "ok" {
		// C18: every WithdrawAvailable event of an accepted message (withdraw-all, and the implicit
		// withdrawal of a pool send) reports, per pool, exactly what was withdrawn from that pool
		wb, wa := poolsWithdrawn(before), poolsWithdrawn(after)
		evSum := map[string]sdk.Int{}
		for _, e := range evs {
			p := strings.Split(e, "~")
			if len(p) < 4 {
				continue
			}
			v, ok := sdk.NewIntFromString(p[len(p)-1])
			if !ok {
				continue
			}
			key := strings.ToLower(p[1]) + "~" + p[2]
			if cur, ok := evSum[key]; ok {
				evSum[key] = cur.Add(v)
			} else {
				evSum[key] = v
			}
		}
		keys := map[string]bool{}
		for k := range wa {
			keys[k] = true
		}
		for k := range evSum {
			keys[k] = true
		}
		var sorted []string
		for k := range keys {
			sorted = append(sorted, k)
		}
		sort.Strings(sorted)
		for _, k := range sorted {
			delta := sdk.ZeroInt()
			if a, ok := wa[k]; ok {
				delta = a
			}
			if b, ok := wb[k]; ok {
				delta = delta.Sub(b)
			}
			ev := sdk.ZeroInt()
			if e, ok := evSum[k]; ok {
				ev = e
			}
			if !ev.Equal(delta) {
				x.hit("C18", "withdraw-events-per-pool", op, fmt.Sprintf("pool %s: events report %s, withdrawn from the pool %s", k, ev, delta))
				break
			}
		}
	}
	if res != "ok" && after != before {
		x.hit("C05", "rejected-message-changed-state", op, firstDiff(before, after))
	}
	// C05 / registered invariants
	if strings.HasSuffix(after, "inv=111") == false {
		x.hit("C05", "vesting-invariants", "registered-invariant", after[strings.LastIndex(after, "inv="):])
	}
	// C09: no pre-existing account record may change, except the sender's original vesting in split/move
	accAfter := snapshotAccounts(x, f, x.ctx)
	for a, rec := range accBefore {
		if accAfter[a] != rec {
			allowed := (op == "v.split" || op == "v.move" || op == "v.moveDenoms") && res == "ok" && sameButOV(rec, accAfter[a])
			if !allowed {
				x.hit("C09", "existing-account-changed", op, fmt.Sprintf("%s: %s -> %s", a, rec, accAfter[a]))
			}
		}
	}
	if res == "panic" {
		x.hit("C20", "message-panics", op, "handler or ValidateBasic panicked")
	}
	return fmt.Sprintf("%s paid=%s ev=[%s] %s", res, paid, strings.Join(evs, ";"), after)
}

func firstDiff(a, b string) string {
	fa, fb := strings.Fields(a), strings.Fields(b)
	for i := range fa {
		if i < len(fb) && fa[i] != fb[i] {
			return fa[i] + " -> " + fb[i]
		}
	}
	return "?"
}

// account records (without balances) of all tracked addresses
func snapshotAccounts(x *Exec, f *vestFam, ctx sdk.Context) map[string]string {
	m := map[string]string{}
	for a := range f.tracked {
		acc, _ := sdk.AccAddressFromBech32(a)
		if ai := x.env.app.AccountKeeper.GetAccount(ctx, acc); ai != nil {
			bz, _ := x.env.app.AppCodec().MarshalInterfaceJSON(ai)
			m[a] = string(bz)
		}
	}
	return m
}

// two JSON account records equal apart from original_vesting
func sameButOV(a, b string) bool {
	strip := func(s string) string {
		i := strings.Index(s, "\"original_vesting\"")
		if i < 0 {
			return s
		}
		j := strings.Index(s[i:], "]")
		return s[:i] + s[i+j+1:]
	}
	return strip(a) == strip(b)
}

func execVest(x *Exec, toks []string) string {
	f := vf(x)
	app := x.env.app
	k := app.CfevestingKeeper
	ms := vestkeeper.NewMsgServerImpl(k)
	switch toks[0] {
	case "v.denom":
		if err := k.SetParams(x.ctx, vesttypes.Params{Denom: unesc(toks[1])}); err != nil {
			panic(err)
		}
		return "."
	case "v.modaddr":
		app.AccountKeeper.GetModuleAccount(x.ctx, vesttypes.ModuleName)
		if authtypes.NewModuleAddress(vesttypes.ModuleName).String() != toks[1] {
			panic("v.modaddr fact wrong")
		}
		f.track(toks[1])
		return "."
	case "v.bonded":
		app.AccountKeeper.GetModuleAccount(x.ctx, stakingtypes.BondedPoolName)
		if authtypes.NewModuleAddress(stakingtypes.BondedPoolName).String() != toks[1] {
			panic("v.bonded fact wrong")
		}
		f.bonded = toks[1]
		f.track(toks[1])
		return "."
	case "v.blocked":
		if !app.BlockedModuleAccountAddrs()[toks[1]] {
			panic("v.blocked fact wrong")
		}
		return "."
	case "v.bal0":
		a, _ := sdk.AccAddressFromBech32(toks[1])
		if !app.BankKeeper.GetAllBalances(x.ctx, a).IsEqual(parseCoinsTok(toks[2])) {
			panic("v.bal0 fact wrong")
		}
		f.track(toks[1])
		return "."
	case "v.accnum":
		if fmt.Sprint(peekAccNum(x, x.ctx)) != toks[1] {
			panic(fmt.Sprintf("v.accnum fact wrong: app has %d", peekAccNum(x, x.ctx)))
		}
		return "."
	case "v.modacct":
		acc, _ := sdk.AccAddressFromBech32(toks[1])
		ai := app.AccountKeeper.GetAccount(x.ctx, acc)
		if ai == nil || fmt.Sprint(ai.GetAccountNumber()) != toks[2] {
			panic("v.modacct fact wrong")
		}
		f.track(toks[1])
		return "."
	case "v.vt":
		k.SetVestingType(x.ctx, vesttypes.VestingType{Name: unesc(toks[1]), LockupPeriod: time.Duration(int64Tok(toks[2])), VestingPeriod: time.Duration(int64Tok(toks[3])), Free: decTok(toks[4])})
		return "."
	case "v.time":
		x.ctx = x.ctx.WithBlockTime(timeOf(int64Tok(toks[1])))
		return "."
	case "v.fund":
		addr, err := sdk.AccAddressFromBech32(toks[1])
		if err != nil {
			panic(err)
		}
		coins := parseCoinsTok(toks[2])
		if err := app.BankKeeper.MintCoins(x.ctx, mintertypes.ModuleName, coins); err != nil {
			panic(err)
		}
		if err := f.helperBk.SendCoinsFromModuleToAccount(x.ctx, mintertypes.ModuleName, addr, coins); err != nil {
			panic(err)
		}
		f.track(toks[1])
		return "."
	case "v.acct":
		addr, err := sdk.AccAddressFromBech32(toks[1])
		if err != nil {
			panic(err)
		}
		f.track(toks[1])
		switch toks[2] {
		case "basekey":
			ai := app.AccountKeeper.GetAccount(x.ctx, addr)
			if ai == nil {
				ai = app.AccountKeeper.NewAccountWithAddress(x.ctx, addr)
			}
			var pub cryptotypes.PubKey = secp256k1.GenPrivKeyFromSecret([]byte("verif-key-for-" + toks[1])).PubKey()
			if kp := keyedPubFor(toks[1]); kp != nil {
				pub = kp
			}
			if err := ai.SetPubKey(pub); err != nil {
				panic(err)
			}
			if err := ai.SetSequence(5); err != nil {
				panic(err)
			}
			app.AccountKeeper.SetAccount(x.ctx, ai)
		case "cva":
			if app.AccountKeeper.GetAccount(x.ctx, addr) != nil {
				panic("v.acct cva on an existing account")
			}
			ba := app.AccountKeeper.NewAccountWithAddress(x.ctx, addr).(*authtypes.BaseAccount)
			bva := sdkvesting.NewBaseVestingAccount(ba, parseCoinsTok(toks[3]), int64Tok(toks[5]))
			app.AccountKeeper.SetAccount(x.ctx, sdkvesting.NewContinuousVestingAccountRaw(bva, int64Tok(toks[4])))
		case "dva":
			if app.AccountKeeper.GetAccount(x.ctx, addr) != nil {
				panic("v.acct dva on an existing account")
			}
			ba := app.AccountKeeper.NewAccountWithAddress(x.ctx, addr).(*authtypes.BaseAccount)
			bva := sdkvesting.NewBaseVestingAccount(ba, parseCoinsTok(toks[3]), int64Tok(toks[4]))
			app.AccountKeeper.SetAccount(x.ctx, sdkvesting.NewDelayedVestingAccountRaw(bva))
		}
		return "."
	case "v.genpool":
		owner := toks[1]
		f.track(owner)
		avp, found := k.GetAccountVestingPools(x.ctx, owner)
		if !found {
			avp = vesttypes.AccountVestingPools{Owner: owner}
		}
		p := &vesttypes.VestingPool{Name: unesc(toks[2]), VestingType: unesc(toks[3]), LockStart: timeOf(int64Tok(toks[4])), LockEnd: timeOf(int64Tok(toks[5])),
			InitiallyLocked: intTok(toks[6]), Withdrawn: intTok(toks[7]), Sent: intTok(toks[8]), GenesisPool: toks[9] == "1"}
		avp.VestingPools = append(avp.VestingPools, p)
		k.SetAccountVestingPools(x.ctx, avp)
		if lk := p.GetCurrentlyLocked(); lk.IsPositive() {
			coins := sdk.NewCoins(sdk.NewCoin(k.Denom(x.ctx), lk))
			if err := app.BankKeeper.MintCoins(x.ctx, mintertypes.ModuleName, coins); err != nil {
				panic(err)
			}
			if err := f.helperBk.SendCoinsFromModuleToModule(x.ctx, mintertypes.ModuleName, vesttypes.ModuleName, coins); err != nil {
				panic(err)
			}
		}
		return "."
	case "v.trace":
		f.track(toks[1])
		k.AppendVestingAccountTrace(x.ctx, vesttypes.VestingAccountTrace{Address: toks[1], Genesis: toks[2] == "1", FromGenesisPool: toks[3] == "1", FromGenesisAccount: toks[4] == "1"})
		return "."
	case "v.delegate":
		addr, _ := sdk.AccAddressFromBech32(toks[1])
		bonded := authtypes.NewModuleAddress(stakingtypes.BondedPoolName)
		amt := intTok(toks[3])
		var res string
		if !amt.IsPositive() || sdk.ValidateDenom(unesc(toks[2])) != nil {
			res = "err"
		} else {
			cc, write := x.ctx.CacheContext()
			res, _ = catch(func() error {
				return app.BankKeeper.DelegateCoins(cc, addr, bonded, sdk.NewCoins(sdk.NewCoin(unesc(toks[2]), amt)))
			})
			if res == "ok" {
				write()
			}
		}
		return res + " " + vestStateStr(x, f, x.ctx)
	case "v.createPool":
		o := parseAddrTok(toks[1])
		f.trackTok(o)
		msg := &vesttypes.MsgCreateVestingPool{Owner: o.s, Name: unesc(toks[2]), Amount: intTok(toks[3]), Duration: time.Duration(int64Tok(toks[4])), VestingType: unesc(toks[5])}
		return vestDeliver(x, f, toks[0], msg.ValidateBasic, func(ctx sdk.Context) (sdk.Int, error) {
			_, err := ms.CreateVestingPool(sdk.WrapSDKContext(ctx), msg)
			return sdk.ZeroInt(), err
		})
	case "v.withdraw":
		o := parseAddrTok(toks[1])
		f.trackTok(o)
		msg := &vesttypes.MsgWithdrawAllAvailable{Owner: o.s}
		var balBefore sdk.Int
		denom := k.Denom(x.ctx)
		if o.ok {
			a, _ := sdk.AccAddressFromBech32(o.s)
			balBefore = app.BankKeeper.GetBalance(x.ctx, a, denom).Amount
		}
		// C06: the pool query of the same block predicts what the withdrawal pays
		predicted := sdk.ZeroInt()
		if q, err := k.VestingPools(sdk.WrapSDKContext(x.ctx), &vesttypes.QueryVestingPoolsRequest{Owner: o.s}); err == nil {
			for _, p := range q.VestingPools {
				w, _ := sdk.NewIntFromString(p.Withdrawable)
				predicted = predicted.Add(w)
			}
		}
		out := vestDeliver(x, f, toks[0], msg.ValidateBasic, func(ctx sdk.Context) (sdk.Int, error) {
			r, err := ms.WithdrawAllAvailable(sdk.WrapSDKContext(ctx), msg)
			if err != nil {
				return sdk.ZeroInt(), err
			}
			return r.Withdrawn.Amount, nil
		})
		if strings.HasPrefix(out, "ok") && o.ok {
			a, _ := sdk.AccAddressFromBech32(o.s)
			got := app.BankKeeper.GetBalance(x.ctx, a, denom).Amount.Sub(balBefore)
			paid, _ := sdk.NewIntFromString(fieldOf(out, "paid"))
			if !got.Equal(paid) || !got.Equal(predicted) {
				x.hit("C06", "withdraw-pays-query", "withdraw", fmt.Sprintf("owner balance +%s, response %s, pool query predicted %s", got, paid, predicted))
			}
			// C18: per-pool events sum to the coins paid
			sum := sdk.ZeroInt()
			evs := strings.TrimSuffix(strings.TrimPrefix(fieldOf(out, "ev"), "["), "]")
			if evs != "" {
				for _, e := range strings.Split(evs, ";") {
					p := strings.Split(e, "~")
					v, _ := sdk.NewIntFromString(p[len(p)-1])
					sum = sum.Add(v)
				}
			}
			if !sum.Equal(got) {
				x.hit("C18", "withdraw-events-sum", "withdraw", fmt.Sprintf("events sum %s, paid %s", sum, got))
			}
		}
		if strings.HasPrefix(out, "err") && o.ok {
			// C06 (D38): the owner's withdraw-all is refused although, under the canonical spelling of the same
			// address, the module holds matured pools of this owner with something to withdraw
			if acc, err := sdk.AccAddressFromBech32(o.s); err == nil && acc.String() != o.s {
				if avp, found := k.GetAccountVestingPools(x.ctx, acc.String()); found {
					due := sdk.ZeroInt()
					for _, p := range avp.VestingPools {
						due = due.Add(vestkeeper.CalculateWithdrawable(x.ctx.BlockTime(), *p))
					}
					if due.IsPositive() {
						x.hit("C06", "withdraw-refused-matured", "owner-spelling", fmt.Sprintf("withdraw-all of %s refused; the pools stored for %s have %s withdrawable", o.s, acc.String(), due))
					}
				}
			}
		}
		return out
	case "v.send":
		o, t := parseAddrTok(toks[1]), parseAddrTok(toks[2])
		f.trackTok(o)
		f.trackTok(t)
		msg := &vesttypes.MsgSendToVestingAccount{Owner: o.s, ToAddress: t.s, VestingPoolName: unesc(toks[3]), Amount: intTok(toks[4]), RestartVesting: toks[5] == "1"}
		return vestDeliver(x, f, toks[0], msg.ValidateBasic, func(ctx sdk.Context) (sdk.Int, error) {
			_, err := ms.SendToVestingAccount(sdk.WrapSDKContext(ctx), msg)
			return sdk.ZeroInt(), err
		})
	case "v.createVA":
		o, t := parseAddrTok(toks[1]), parseAddrTok(toks[2])
		f.trackTok(o)
		f.trackTok(t)
		msg := &vesttypes.MsgCreateVestingAccount{FromAddress: o.s, ToAddress: t.s, Amount: parseOptCoinsTok(toks[3]), StartTime: int64Tok(toks[4]), EndTime: int64Tok(toks[5])}
		return vestDeliver(x, f, toks[0], msg.ValidateBasic, func(ctx sdk.Context) (sdk.Int, error) {
			_, err := ms.CreateVestingAccount(sdk.WrapSDKContext(ctx), msg)
			return sdk.ZeroInt(), err
		})
	case "v.split":
		o, t := parseAddrTok(toks[1]), parseAddrTok(toks[2])
		f.trackTok(o)
		f.trackTok(t)
		msg := &vesttypes.MsgSplitVesting{FromAddress: o.s, ToAddress: t.s, Amount: parseOptCoinsTok(toks[3])}
		return splitMonitored(x, f, toks[0], o, t, msg.Amount, msg.ValidateBasic, func(ctx sdk.Context) (sdk.Int, error) {
			_, err := ms.SplitVesting(sdk.WrapSDKContext(ctx), msg)
			return sdk.ZeroInt(), err
		})
	case "v.move":
		o, t := parseAddrTok(toks[1]), parseAddrTok(toks[2])
		f.trackTok(o)
		f.trackTok(t)
		msg := &vesttypes.MsgMoveAvailableVesting{FromAddress: o.s, ToAddress: t.s}
		var amt sdk.Coins
		if o.ok {
			a, _ := sdk.AccAddressFromBech32(o.s)
			catch(func() error { amt = app.BankKeeper.LockedCoins(x.ctx, a); return nil })
		}
		return splitMonitored(x, f, toks[0], o, t, amt, msg.ValidateBasic, func(ctx sdk.Context) (sdk.Int, error) {
			_, err := ms.MoveAvailableVesting(sdk.WrapSDKContext(ctx), msg)
			return sdk.ZeroInt(), err
		})
	case "v.moveDenoms":
		o, t := parseAddrTok(toks[1]), parseAddrTok(toks[2])
		f.trackTok(o)
		f.trackTok(t)
		var denoms []string
		for _, d := range toks[3:] {
			denoms = append(denoms, unesc(d))
		}
		msg := &vesttypes.MsgMoveAvailableVestingByDenoms{FromAddress: o.s, ToAddress: t.s, Denoms: denoms}
		var amt sdk.Coins
		if o.ok && msg.ValidateBasic() == nil {
			a, _ := sdk.AccAddressFromBech32(o.s)
			var lk sdk.Coins
			catch(func() error { lk = app.BankKeeper.LockedCoins(x.ctx, a); return nil })
			for _, d := range denoms {
				// the monitor's own expectation only uses well-formed denoms: a malformed one that slipped
				// through ValidateBasic must crash (or not) in the HANDLER under test, not here
				if sdk.ValidateDenom(d) != nil {
					continue
				}
				if v := lk.AmountOf(d); v.IsPositive() {
					amt = amt.Add(sdk.NewCoin(d, v))
				}
			}
		}
		return splitMonitored(x, f, toks[0], o, t, amt, msg.ValidateBasic, func(ctx sdk.Context) (sdk.Int, error) {
			_, err := ms.MoveAvailableVestingByDenoms(sdk.WrapSDKContext(ctx), msg)
			return sdk.ZeroInt(), err
		})
	case "v.q.pools":
		var out string
		res, _ := catch(func() error {
			q, err := k.VestingPools(sdk.WrapSDKContext(x.ctx), &vesttypes.QueryVestingPoolsRequest{Owner: toks[1]})
			if err != nil {
				return err
			}
			var pp []string
			for _, p := range q.VestingPools {
				pp = append(pp, fmt.Sprintf("%s~%s~%s~%s~%s", esc(p.Name), p.Withdrawable, p.CurrentlyLocked, p.SentAmount, p.InitiallyLocked.Amount))
			}
			out = "ok q=[" + strings.Join(pp, ";") + "]"
			return nil
		})
		if res != "ok" {
			if res == "panic" {
				x.hit("C20", "query-panics", toks[0], "VestingPools query panicked")
			}
			return res
		}
		return out
	case "v.q.summary":
		var out string
		res, _ := catch(func() error {
			if toks[1] == "1" {
				r, err := k.GenesisVestingsSummary(sdk.WrapSDKContext(x.ctx), &vesttypes.QueryGenesisVestingsSummaryRequest{})
				if err != nil {
					return err
				}
				out = fmt.Sprintf("ok all=%s pools=%s accts=%s deleg=%s", r.VestingAllAmount, r.VestingInPoolsAmount, r.VestingInAccountsAmount, r.DelegatedVestingAmount)
			} else {
				r, err := k.VestingsSummary(sdk.WrapSDKContext(x.ctx), &vesttypes.QueryVestingsSummaryRequest{})
				if err != nil {
					return err
				}
				out = fmt.Sprintf("ok all=%s pools=%s accts=%s deleg=%s", r.VestingAllAmount, r.VestingInPoolsAmount, r.VestingInAccountsAmount, r.DelegatedVestingAmount)
			}
			return nil
		})
		if res != "ok" {
			return res
		}
		vestSummaryMonitor(x, f, toks[1] == "1", out)
		return out
	case "v.q.locked":
		a, _ := sdk.AccAddressFromBech32(toks[1])
		var lk sdk.Coins
		if res, _ := catch(func() error { lk = app.BankKeeper.LockedCoins(x.ctx, a); return nil }); res != "ok" {
			return "panic"
		}
		return "ok locked=" + coinsStr(lk)
	case "v.q.spendable":
		a, _ := sdk.AccAddressFromBech32(toks[1])
		return "ok spendable=" + coinsStr(app.BankKeeper.SpendableCoins(x.ctx, a))
	case "v.updateDenom":
		msg := &vesttypes.MsgUpdateDenomParam{Authority: authorityOf(x, toks[1]), Denom: unesc(toks[2])}
		before := k.Denom(x.ctx)
		hadPools := len(k.GetAllAccountVestingPools(x.ctx)) > 0
		res, _ := x.deliver(msg.ValidateBasic, func(ctx sdk.Context) error {
			r_, err := ms.UpdateDenomParam(sdk.WrapSDKContext(ctx), msg)
			noteResp(r_, err)
			return err
		})
		after := k.Denom(x.ctx)
		if toks[1] != "gov" && (res == "ok" || after != before) {
			x.hit("C13", "authority", "cfevesting/denom", "update from authority "+toks[1]+" was accepted")
		}
		if hadPools && after != before {
			x.hit("C13", "denom-frozen", "cfevesting/denom", "vesting denom changed while pools exist")
		}
		if res != "ok" && after != before {
			x.hit("C13", "rejected-keeps", "cfevesting/denom", "rejected update changed the denom")
		}
		if r, _ := catch(func() error { return k.GetParams(x.ctx).Validate() }); r != "ok" {
			x.hit("C13", "stored-params-valid", "cfevesting", "stored vesting params do not validate")
		}
		if res == "panic" {
			x.hit("C20", "message-panics", toks[0], "handler or ValidateBasic panicked")
		}
		if res == "ok" {
			// whatever denom was accepted, the module's queries must keep working with it
			if r, _ := catch(func() error {
				_, err := k.VestingsSummary(sdk.WrapSDKContext(x.ctx), &vesttypes.QueryVestingsSummaryRequest{})
				return err
			}); r == "panic" {
				x.hit("C20", "query-panics", "VestingsSummary", "query panics after the accepted denom update to "+esc(after)+": "+lastNote(x))
			}
		}
		return res + " denom=" + esc(after)
	case "v.up.v2pool", "v.up.v1pool", "v.up.migrate3", "v.up.migrate2", "v.up.split", "v.up.traces", "v.up.accounts":
		return execUpgrade(x, f, toks)
	case "v.end":
		return "."
	}
	return "bad-op"
}

// C07 monitors around split / move on the real state
func splitMonitored(x *Exec, f *vestFam, op string, o, t addrTok, amt sdk.Coins, vb func() error, h func(ctx sdk.Context) (sdk.Int, error)) string {
	app := x.env.app
	var lockedBefore, spendBefore sdk.Coins
	var from sdk.AccAddress
	var fromAcc *sdkvesting.ContinuousVestingAccount
	if o.ok {
		from, _ = sdk.AccAddressFromBech32(o.s)
		// an account whose schedule makes the bank's own locked-coins computation panic (D37) must not stop
		// the monitor: the message is still delivered, and its panic is what gets reported
		if res, _ := catch(func() error {
			lockedBefore = app.BankKeeper.LockedCoins(x.ctx, from)
			spendBefore = app.BankKeeper.SpendableCoins(x.ctx, from)
			return nil
		}); res != "ok" {
			return vestDeliver(x, f, op, vb, h)
		}
		if v, ok := app.AccountKeeper.GetAccount(x.ctx, from).(*sdkvesting.ContinuousVestingAccount); ok {
			c := *v
			fromAcc = &c
		}
	}
	toExisted := false
	if t.ok {
		ta, _ := sdk.AccAddressFromBech32(t.s)
		toExisted = app.AccountKeeper.GetAccount(x.ctx, ta) != nil
	}
	out := vestDeliver(x, f, op, vb, h)
	okRes := strings.HasPrefix(out, "ok")
	if okRes && o.ok && t.ok {
		to, _ := sdk.AccAddressFromBech32(t.s)
		lockedAfter := app.BankKeeper.LockedCoins(x.ctx, from)
		spendAfter := app.BankKeeper.SpendableCoins(x.ctx, from)
		toLocked := app.BankKeeper.LockedCoins(x.ctx, to)
		for _, c := range amt {
			d := lockedBefore.AmountOf(c.Denom).Sub(lockedAfter.AmountOf(c.Denom))
			if !d.Equal(c.Amount) {
				x.hit("C07", "sender-locked-exact", op, fmt.Sprintf("%s: requested %s, sender locked went down by %s", c.Denom, c.Amount, d))
			}
			if !toLocked.AmountOf(c.Denom).Equal(c.Amount) {
				x.hit("C07", "recipient-locked-exact", op, fmt.Sprintf("%s: requested %s, recipient locked %s", c.Denom, c.Amount, toLocked.AmountOf(c.Denom)))
			}
		}
		if !spendAfter.IsEqual(spendBefore) {
			x.hit("C07", "sender-spendable-unchanged", op, fmt.Sprintf("spendable before %s after %s", spendBefore, spendAfter))
		}
		if ra, ok := app.AccountKeeper.GetAccount(x.ctx, to).(*sdkvesting.ContinuousVestingAccount); ok && fromAcc != nil {
			wantStart := x.ctx.BlockTime().Unix()
			if fromAcc.StartTime > wantStart {
				wantStart = fromAcc.StartTime
			}
			if ra.EndTime != fromAcc.EndTime || ra.StartTime != wantStart {
				x.hit("C07", "recipient-schedule", op, fmt.Sprintf("recipient start/end %d/%d, expected %d/%d", ra.StartTime, ra.EndTime, wantStart, fromAcc.EndTime))
			}
			// later times: the two accounts together lock what the sender alone would have
			newFrom, _ := app.AccountKeeper.GetAccount(x.ctx, from).(*sdkvesting.ContinuousVestingAccount)
			if newFrom != nil {
				for _, frac := range []int64{1, 2, 3} {
					tt := x.ctx.BlockTime().Unix() + (fromAcc.EndTime-x.ctx.BlockTime().Unix())*frac/4
					if tt <= x.ctx.BlockTime().Unix() {
						continue
					}
					at := time.Unix(tt, 0)
					for _, c := range amt {
						alone := fromAcc.GetVestingCoins(at).AmountOf(c.Denom)
						both := newFrom.GetVestingCoins(at).AmountOf(c.Denom).Add(ra.GetVestingCoins(at).AmountOf(c.Denom))
						bound := sdk.NewInt(3).Add(fromAcc.OriginalVesting.AmountOf(c.Denom).Add(c.Amount).Quo(sdk.NewIntFromBigInt(bigOf("1000000000000000000"))).AddRaw(1))
						if both.Sub(alone).Abs().GT(bound) {
							x.hit("C07", "later-time-drift", op, fmt.Sprintf("%s at %d: alone %s, together %s, bound %s", c.Denom, tt, alone, both, bound))
						}
					}
				}
			}
		}
	}
	// C07: any amount up to the locked, undelegated coins can be split (recipient absent, not blocked)
	if !okRes && o.ok && t.ok && fromAcc != nil && !toExisted && vb() == nil && len(amt) > 0 && amt.IsValid() && amt.IsAllLTE(lockedBefore) {
		ta, _ := sdk.AccAddressFromBech32(t.s)
		if !app.BankKeeper.BlockedAddr(ta) {
			x.hit("C07", "splittable", op, fmt.Sprintf("amount %s within locked %s was rejected", amt, lockedBefore))
		}
	}
	return out
}

// C17: the summary queries equal the sums recomputed from bank and account state
func vestSummaryMonitor(x *Exec, f *vestFam, genesisOnly bool, out string) {
	app := x.env.app
	k := app.CfevestingKeeper
	denom := k.Denom(x.ctx)
	inPools := sdk.ZeroInt()
	if genesisOnly {
		for _, avp := range k.GetAllAccountVestingPools(x.ctx) {
			for _, p := range avp.VestingPools {
				if p.GenesisPool {
					inPools = inPools.Add(p.GetCurrentlyLocked())
				}
			}
		}
	} else {
		inPools = app.BankKeeper.GetBalance(x.ctx, authtypes.NewModuleAddress(vesttypes.ModuleName), denom).Amount
	}
	vest, locked := sdk.ZeroInt(), sdk.ZeroInt()
	for _, t := range k.GetAllVestingAccountTrace(x.ctx) {
		if genesisOnly && !(t.Genesis || t.FromGenesisPool || t.FromGenesisAccount) {
			continue
		}
		a, err := sdk.AccAddressFromBech32(t.Address)
		if err != nil {
			continue
		}
		if cva, ok := app.AccountKeeper.GetAccount(x.ctx, a).(*sdkvesting.ContinuousVestingAccount); ok {
			vest = vest.Add(cva.GetVestingCoins(x.ctx.BlockTime()).AmountOf(denom))
			locked = locked.Add(app.BankKeeper.LockedCoins(x.ctx, a).AmountOf(denom))
		}
	}
	want := fmt.Sprintf("ok all=%s pools=%s accts=%s deleg=%s", vest.Add(inPools), inPools, vest, vest.Sub(locked))
	if want != out {
		x.hit("C17", "summary-recomputed", "summary", fmt.Sprintf("query %s, recomputed %s", out, want))
	}
}

func (f *vestFam) rebind(x *Exec) {
	app := x.env.app
	f.helperBk = bankkeeper.NewBaseKeeper(app.AppCodec(), app.GetKey(banktypes.StoreKey), app.AccountKeeper, app.GetSubspace(banktypes.ModuleName), map[string]bool{})
}
