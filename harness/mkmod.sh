#!/bin/sh
# Regenerates go.mod / go.sum of the harness from /repo's (same dependency versions, offline).
set -e
cd "$(dirname "$0")"
REPO=${REPO:-/repo}
{
  echo "module verifharness"
  echo
  sed -n '/^go /p' $REPO/go.mod
  echo
  echo "require github.com/chain4energy/c4e-chain v0.0.0"
  # all require blocks and replace directives of the repository, verbatim
  awk '/^require \(/{p=1} p{print} /^\)/{if(p){p=0;print ""}}' $REPO/go.mod
  awk '/^replace \(/{p=1} p{print} /^\)/{if(p){p=0;print ""}} /^replace [^(]/{print}' $REPO/go.mod
  echo "replace github.com/chain4energy/c4e-chain => $REPO"
} > go.mod
cp $REPO/go.sum go.sum
