//go:build verif

package main

import (
	"strings"
)

// family "a": the custom modules' part of BeginBlock in one step - cfeminter's BeginBlocker followed
// by cfedistributor's, on the same context (model: C4E/App.lean). The scenario sets both modules up
// with the ops of the minter and distributor families.
func init() {
	families["a"] = execApp
	generators["app"] = genApp
}

func execApp(x *Exec, toks []string) string {
	if toks[0] != "a.block" || len(toks) != 2 {
		return "bad-op"
	}
	m := families["m"](x, []string{"m.block", toks[1]})
	if !strings.HasPrefix(m, "ok") {
		return "panic"
	}
	d := families["d"](x, []string{"d.bb"})
	if !strings.HasPrefix(d, "ok") {
		return "panic"
	}
	return "ok amt=" + fieldOf(m, "amt") + " mst=" + fieldOf(m, "st") + " " + strings.TrimPrefix(d, "ok ")
}

// minter + distributor histories: a generated distributor configuration, a generated minter
// schedule, then blocks at increasing times with inflows into other sources and injected bank faults
func genApp(g *Gen, n int) {
	for sc := 0; sc < n; sc++ {
		g.emit("reset app %d", sc)
		emitDistrFacts(g)
		subs := genDistrConfig(g)
		emitDistrConfig(g, subs)
		g.emit("d.setparams")
		start, periods := genMinterConfig(g, false) // long steps: the Go code and the model loop once per passed step
		g.emit("m.init %d 0 0 0 %d", periods[0].seq, start-sec)
		now := start
		nb := 4 + g.intn(10)
		for b := 0; b < nb; b++ {
			now += g.pickI(sec, 7*sec, 60*sec) + int64(g.intn(1000)) // few steps per block: both sides loop once per passed step
			if g.chance(0.3) {
				g.emit("d.faults %d %d", g.intn(6), 6+g.intn(6))
				g.count("faults/block")
			}
			g.emit("a.block %d", now)
		}
		g.emit("d.end")
		g.emit("m.end")
		g.count("scenario")
	}
}
