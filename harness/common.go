//go:build verif

package main

import (
	"syscall"
	"bufio"
	"crypto/sha256"
	"encoding/hex"
	"encoding/json"
	"fmt"
	"math/big"
	"math/rand"
	"os"
	"runtime/debug"
	"sort"
	"strings"
	"time"

	sdkmath "cosmossdk.io/math"
	c4eapp "github.com/chain4energy/c4e-chain/app"
	appparams "github.com/chain4energy/c4e-chain/app/params"
	testapp "github.com/chain4energy/c4e-chain/testutil/app"
	sdk "github.com/cosmos/cosmos-sdk/types"
)

// ---------------------------------------------------------------- tokens

func esc(s string) string {
	if s == "" {
		return "%e"
	}
	var b strings.Builder
	for _, c := range []byte(s) {
		switch c {
		case ' ', '%', '\n', ',', ';', '=', '[', ']', ':':
			fmt.Fprintf(&b, "%%%02X", c)
		default:
			b.WriteByte(c)
		}
	}
	return b.String()
}

func hexVal(c byte) int {
	switch {
	case c >= '0' && c <= '9':
		return int(c - '0')
	case c >= 'a' && c <= 'f':
		return int(c-'a') + 10
	case c >= 'A' && c <= 'F':
		return int(c-'A') + 10
	}
	return 0
}

func unesc(s string) string {
	if s == "%e" {
		return ""
	}
	var b []byte
	for i := 0; i < len(s); i++ {
		if s[i] == '%' && i+2 < len(s) {
			b = append(b, byte(hexVal(s[i+1])*16+hexVal(s[i+2])))
			i += 2
		} else {
			b = append(b, s[i])
		}
	}
	return string(b)
}

func bigOf(s string) *big.Int {
	v, ok := new(big.Int).SetString(s, 10)
	if !ok {
		panic("bad int token: " + s)
	}
	return v
}

// optional sdk.Int: "-" is the nil Int
// nanoseconds since the Unix epoch without the int64 wrap-around of time.UnixNano (dates after 2262)
func nanosOf(t time.Time) string {
	n := new(big.Int).Mul(big.NewInt(t.Unix()), big.NewInt(1_000_000_000))
	return n.Add(n, big.NewInt(int64(t.Nanosecond()))).String()
}

func intTok(s string) sdkmath.Int {
	if s == "-" {
		return sdkmath.Int{}
	}
	return sdkmath.NewIntFromBigInt(bigOf(s))
}

// optional sdk.Dec given as 10^18-scaled integer: "-" is the nil Dec
func decTok(s string) sdk.Dec {
	if s == "-" {
		return sdk.Dec{}
	}
	return sdk.NewDecFromBigIntWithPrec(bigOf(s), sdk.Precision)
}

func decStr(d sdk.Dec) string {
	if d.IsNil() {
		return "-"
	}
	return d.BigInt().String()
}

func intStr(i sdkmath.Int) string {
	if i.IsNil() {
		return "-"
	}
	return i.String()
}

func int64Tok(s string) int64 {
	v := bigOf(s)
	if !v.IsInt64() {
		panic("int64 token out of range: " + s)
	}
	return v.Int64()
}

func timeOf(ns int64) time.Time { return time.Unix(0, ns).UTC() }

func coinsStr(c sdk.Coins) string {
	parts := make([]string, 0, len(c))
	for _, x := range c.Sort() {
		parts = append(parts, esc(x.Denom)+"="+x.Amount.String())
	}
	return "[" + strings.Join(parts, ",") + "]"
}

func decCoinsStr(c sdk.DecCoins) string {
	cc := append(sdk.DecCoins{}, c...)
	sort.Slice(cc, func(i, j int) bool { return cc[i].Denom < cc[j].Denom })
	parts := make([]string, 0, len(cc))
	for _, x := range cc {
		parts = append(parts, esc(x.Denom)+"="+decStr(x.Amount))
	}
	return "[" + strings.Join(parts, ",") + "]"
}

// ---------------------------------------------------------------- rng helpers

type Gen struct {
	r     *rand.Rand
	lines []string
	stats map[string]int
	// set by composing generators (genesis family) to steer a one-scenario sub-generator
	shape      int  // offset into the directed shapes of the sub-generator
	forceDenom bool // vest: use a non-default vesting denom
}

func newGen(seed int64) *Gen {
	return &Gen{r: rand.New(rand.NewSource(seed)), stats: map[string]int{}}
}
func (g *Gen) emit(format string, a ...interface{}) {
	g.lines = append(g.lines, fmt.Sprintf(format, a...))
}
func (g *Gen) count(k string)      { g.stats[k]++ }
func (g *Gen) intn(n int) int      { return g.r.Intn(n) }
func (g *Gen) chance(p float64) bool { return g.r.Float64() < p }
func (g *Gen) pick(xs ...string) string { return xs[g.r.Intn(len(xs))] }
func (g *Gen) pickI(xs ...int64) int64  { return xs[g.r.Intn(len(xs))] }

// log-uniform big integer in [1, 10^maxDigits)
func (g *Gen) logBig(maxDigits int) *big.Int {
	d := 1 + g.r.Intn(maxDigits)
	v := new(big.Int)
	for i := 0; i < d; i++ {
		v.Mul(v, big.NewInt(10))
		dig := g.r.Intn(10)
		if i == 0 && dig == 0 {
			dig = 1
		}
		v.Add(v, big.NewInt(int64(dig)))
	}
	return v
}

// ---------------------------------------------------------------- environment

type nopT struct{}

func (nopT) Errorf(format string, args ...interface{}) { panic(fmt.Sprintf(format, args...)) }
func (nopT) FailNow()                                  { panic("FailNow") }

type Env struct {
	app     *c4eapp.App
	baseCtx sdk.Context
	gov     string
}

var baseTime = time.Date(2022, 1, 1, 0, 0, 0, 0, time.UTC)

func newEnv() *Env {
	app, ctx, _ := testapp.SetupAppWithTime(1, baseTime)
	return &Env{app: app, baseCtx: ctx, gov: appparams.GetAuthority()}
}

// fresh, isolated context for one scenario
func (e *Env) scenarioCtx() sdk.Context {
	c, _ := e.baseCtx.CacheContext()
	return c.WithEventManager(sdk.NewEventManager())
}

// ---------------------------------------------------------------- executor

type MonHit struct {
	Property  string `json:"property"`
	Monitor   string `json:"monitor"`
	Signature string `json:"signature"`
	Scenario  int    `json:"scenario"`
	Line      int    `json:"line"`
	Detail    string `json:"detail"`
}

type Exec struct {
	rootEnv  *Env // the shared application instance (scenarios run on cache contexts of it)
	env      *Env
	ctx      sdk.Context
	out      *bufio.Writer
	hits     []MonHit
	scenario int
	lineNo   int
	halted   bool
	branches map[string]int // coverage: distinct (op, outcome-class) keys
	fam      map[string]interface{}
	notes    []string
	twin     bool     // replica mode (C11): outputs carry a state digest and a hash of error texts
	nested   bool     // a metamorphic re-run: end-of-scenario monitors are off
	scLines  []string // op lines of the current scenario (after its reset line)
	scOut    []string // their outputs
}

func (x *Exec) lastOutputs(n int) []string { return x.scOut }

func (x *Exec) hit(prop, monitor, sig, detail string) {
	x.hits = append(x.hits, MonHit{prop, monitor, sig, x.scenario, x.lineNo, detail})
}

func (x *Exec) cover(key string) { x.branches[key]++ }

// diagnostic notes (panic messages etc.), kept in the monitor file, not compared
func (x *Exec) note(s string) {
	if len(x.notes) < 200 {
		x.notes = append(x.notes, fmt.Sprintf("scenario %d line %d: %s", x.scenario, x.lineNo, s))
	}
}

type familyExec func(x *Exec, toks []string) string

var families = map[string]familyExec{}

// run executes op lines; one output line per op line.
func (x *Exec) run(lines []string) {
	for i, line := range lines {
		x.lineNo = i + 1
		t0 := time.Now()
		// watchdog: an op of the real code that does not finish is reported, not waited for
		// The watchdog fires on wall-clock time, but it only reports an op that has also CONSUMED processor
		// time: on a loaded machine a trivial op can sit unscheduled for longer than the limit (seen once in
		// session 5: two trivial ops "did not terminate" while a dozen other runs shared the cores). A starved
		// op is given more time, up to ten times the limit.
		cpu0 := processCPU()
		rearmed := 0
		var wd *time.Timer
		var fire func()
		fire = func() {
			if processCPU()-cpu0 < opTimeout()/2 && rearmed < 9 {
				rearmed++
				wd = time.AfterFunc(opTimeout(), fire)
				return
			}
			x.out.Flush()
			fmt.Fprintf(os.Stderr, "OP-TIMEOUT line %d: %s\n", i+1, line)
			os.Exit(3)
		}
		wd = time.AfterFunc(opTimeout(), fire)
		toks := strings.Fields(line)
		var out string
		switch {
		case len(toks) == 0 || strings.HasPrefix(toks[0], "#"):
			x.scLines = append(x.scLines, line)
			out = "."
		case toks[0] == "reset":
			if x.rootEnv == nil {
				x.rootEnv = x.env
			}
			x.env = x.rootEnv
			x.ctx = x.env.scenarioCtx()
			x.fam = map[string]interface{}{}
			x.halted = false
			x.scenario++
			x.scLines, x.scOut = nil, nil
			out = "."
		case x.halted:
			x.scLines = append(x.scLines, line)
			out = "halted"
		default:
			x.scLines = append(x.scLines, line)
			pfx := toks[0]
			if k := strings.Index(pfx, "."); k > 0 {
				pfx = pfx[:k]
			}
			f, ok := families[pfx]
			if !ok {
				out = "bad-op"
			} else {
				out = x.safe(f, toks)
			}
		}
		cls := out
		if k := strings.Index(cls, " "); k > 0 {
			cls = cls[:k]
		}
		// C10: begin-block processing of the custom modules must never panic (a panic halts the chain)
		if cls == "panic" && len(toks) > 0 && (toks[0] == "m.block" || toks[0] == "d.bb" || toks[0] == "a.block") {
			x.hit("C10", "beginblock-panic", toks[0], "BeginBlocker panicked: "+lastNote(x))
		}
		if len(toks) > 0 {
			x.cover(toks[0] + "/" + cls)
		}
		wd.Stop()
		if x.twin && len(toks) > 0 && (strings.HasPrefix(out, "ok") || strings.HasPrefix(out, "err") || strings.HasPrefix(out, "panic") || strings.HasPrefix(out, "valid")) {
			out += " dg=" + x.stateDigest() + " etx=" + shortHash(strings.Join(catchMsgs, "|")) + " rsp=" + shortHash(strings.Join(respMsgs, "|"))
		}
		catchMsgs = nil
		respMsgs = nil
		fmt.Fprintln(x.out, out)
		if !(len(toks) > 0 && toks[0] == "reset") {
			x.scOut = append(x.scOut, out)
		}
		if d := time.Since(t0); d > 500*time.Millisecond {
			fmt.Fprintf(os.Stderr, "slow op (%v) line %d: %s\n", d, x.lineNo, line)
		}
	}
}

// responses of successfully handled messages (the transaction result data): part of what replicas
// must agree on (C11)
var respMsgs []string

func noteResp(r interface{}, err error) {
	if err == nil && r != nil {
		respMsgs = append(respMsgs, fmt.Sprintf("%v", r))
	}
}

// a panic escaping a family executor is a harness-level problem, reported as such
func (x *Exec) safe(f familyExec, toks []string) (out string) {
	defer func() {
		if r := recover(); r != nil {
			out = fmt.Sprintf("harness-panic %s", esc(fmt.Sprint(r)))
			if os.Getenv("VERIF_DEBUG") != "" {
				fmt.Fprintf(os.Stderr, "harness panic: %v\n%s\n", r, debug.Stack())
			}
		}
	}()
	return f(x, toks)
}

// runs fn, converting a Go panic into ("panic", message)
func catch(fn func() error) (res string, msg string) {
	defer func() {
		if r := recover(); r != nil {
			res = "panic"
			msg = fmt.Sprint(r)
			catchMsgs = append(catchMsgs, "panic:"+msg)
			if os.Getenv("VERIF_DEBUG") != "" {
				fmt.Fprintf(os.Stderr, "recovered panic: %v\n%s\n", r, debug.Stack())
			}
		}
	}()
	if err := fn(); err != nil {
		catchMsgs = append(catchMsgs, err.Error())
		return "err", err.Error()
	}
	return "ok", ""
}

// error / panic texts seen while executing the current op (replica mode compares their hash)
var catchMsgs []string

func shortHash(s string) string {
	h := sha256.Sum256([]byte(s))
	return hex.EncodeToString(h[:6])
}

// digest of everything the scenario has written to the custom-module, bank and auth stores
// (entries that differ from the shared base state; the base itself contains per-process random
// validator keys and is therefore not comparable between processes)
func (x *Exec) stateDigest() string {
	h := sha256.New()
	for _, k := range []string{"cfevesting", "cfeminter", "cfedistributor", "cfesignature", "bank", "acc"} {
		key := x.env.app.GetKey(k)
		if key == nil {
			continue
		}
		base := x.env.baseCtx.KVStore(key)
		cur := x.ctx.KVStore(key)
		it := cur.Iterator(nil, nil)
		for ; it.Valid(); it.Next() {
			if bv := base.Get(it.Key()); bv == nil || string(bv) != string(it.Value()) {
				h.Write(it.Key())
				h.Write([]byte{0})
				h.Write(it.Value())
				h.Write([]byte{1})
			}
		}
		it.Close()
		bit := base.Iterator(nil, nil)
		for ; bit.Valid(); bit.Next() {
			if !cur.Has(bit.Key()) {
				h.Write(bit.Key())
				h.Write([]byte{2})
			}
		}
		bit.Close()
	}
	return hex.EncodeToString(h.Sum(nil)[:8])
}

// deliver: baseapp semantics for one message — ValidateBasic, then the handler on a cache
// context that is written only on success; a panic is recovered and rolls back.
func (x *Exec) deliver(validateBasic func() error, handler func(ctx sdk.Context) error) (string, string) {
	res, msg := catch(validateBasic)
	if res != "ok" {
		return res, "validate-basic: " + msg
	}
	cc, write := x.ctx.CacheContext()
	cc = cc.WithEventManager(sdk.NewEventManager())
	res, msg = catch(func() error { return handler(cc) })
	if res == "ok" {
		write()
		x.ctx.EventManager().EmitEvents(cc.EventManager().Events())
	}
	return res, msg
}

func writeJSON(path string, v interface{}) {
	b, err := json.MarshalIndent(v, "", " ")
	if err != nil {
		panic(err)
	}
	if err := os.WriteFile(path, b, 0o644); err != nil {
		panic(err)
	}
}

func readLines(path string) []string {
	b, err := os.ReadFile(path)
	if err != nil {
		panic(err)
	}
	s := strings.TrimRight(string(b), "\n")
	if s == "" {
		return nil
	}
	return strings.Split(s, "\n")
}

// processor time (user + system) consumed by this process so far
func processCPU() time.Duration {
	var ru syscall.Rusage
	if err := syscall.Getrusage(syscall.RUSAGE_SELF, &ru); err != nil {
		return 0
	}
	return time.Duration(ru.Utime.Nano() + ru.Stime.Nano())
}

func opTimeout() time.Duration {
	if v := os.Getenv("VERIF_OP_TIMEOUT_S"); v != "" {
		if n, err := time.ParseDuration(v + "s"); err == nil {
			return n
		}
	}
	return 20 * time.Second
}

func lastNote(x *Exec) string {
	if len(x.notes) == 0 {
		return ""
	}
	return x.notes[len(x.notes)-1]
}
