//go:build verif

package main

import (
	"fmt"
	"math/big"
	"sort"
	"strings"

	c4eapp "github.com/chain4energy/c4e-chain/app"
	distrtypes "github.com/chain4energy/c4e-chain/x/cfedistributor/types"
	sdk "github.com/cosmos/cosmos-sdk/types"
	authtypes "github.com/cosmos/cosmos-sdk/x/auth/types"
)

type gAcc struct{ typ, id string }

func (a gAcc) tok() string {
	b := "0"
	if _, err := sdk.AccAddressFromBech32(a.id); err == nil {
		b = "1"
	}
	return esc(a.typ) + "|" + esc(a.id) + "|" + b
}
func (a gAcc) key() string {
	if a.typ == distrtypes.Main {
		return "MAIN"
	}
	return a.typ + "-" + a.id
}

var genEnvCache *Env

func genEnv() *Env {
	if genEnvCache == nil {
		genEnvCache = newEnv()
	}
	return genEnvCache
}

// facts about the app every distributor scenario starts with
func emitDistrFacts(g *Gen) {
	env := genEnv()
	perms := c4eapp.GetMaccPerms()
	names := make([]string, 0, len(perms))
	for n := range perms {
		names = append(names, n)
	}
	sort.Strings(names)
	blocked := env.app.BlockedModuleAccountAddrs()
	for _, n := range names {
		burner := 0
		for _, p := range perms[n] {
			if p == authtypes.Burner {
				burner = 1
			}
		}
		addr := authtypes.NewModuleAddress(n)
		g.emit("d.module %s %s %d", esc(n), addr.String(), burner)
		if blocked[addr.String()] {
			g.emit("d.blocked %s", addr.String())
		}
		if b := env.app.BankKeeper.GetAllBalances(env.baseCtx, addr); !b.IsZero() {
			g.emit("d.bal0 %s %s", addr.String(), coinsStr(b))
		}
	}
	// the parameters the app starts with, stated explicitly so that both sides hold them
	g.emit("d.new")
	for _, s := range env.app.CfedistributorKeeper.GetParams(env.baseCtx).SubDistributors {
		g.emit("d.sub %s %s %s", esc(s.Name), decStr(s.Destinations.BurnShare), gAcc{s.Destinations.PrimaryShare.Type, s.Destinations.PrimaryShare.Id}.tok())
		for _, a := range s.Sources {
			g.emit("d.src %s", gAcc{a.Type, a.Id}.tok())
		}
		for _, sh := range s.Destinations.Shares {
			g.emit("d.share %s %s %s", esc(sh.Name), decStr(sh.Share), gAcc{sh.Destination.Type, sh.Destination.Id}.tok())
		}
	}
	g.emit("d.setparams")
}

func baseAddr(i int) string {
	return sdk.AccAddress([]byte(fmt.Sprintf("verif-base-account-%02d", i))).String()
}

var distrModules = []string{"fee_collector", "validators_rewards_collector", "green_energy_booster_collector", "governance_booster_collector", "gov"}

func genShareValue(g *Gen) *big.Int {
	switch g.intn(8) {
	case 0:
		return big.NewInt(0)
	case 1:
		return big.NewInt(1)
	case 2:
		return bigOf("333333333333333333")
	case 3:
		return bigOf("500000000000000000")
	case 4:
		return bigOf("50000000000000000")
	case 5:
		return bigOf("999999999999999999")
	default:
		return big.NewInt(g.r.Int63n(1_000_000_000_000_000_000))
	}
}

func genInflowCoins(g *Gen) string {
	denoms := []string{"uc4e", "ustake", "ibc/AAAA"}
	n := 1 + g.intn(2)
	if g.chance(0.15) {
		n = 3
	}
	perm := g.r.Perm(len(denoms))[:n]
	sort.Ints(perm)
	parts := []string{}
	for _, i := range perm {
		var amt string
		switch g.intn(7) {
		case 0:
			amt = "1"
		case 1:
			amt = "1000"
		case 2:
			amt = "1000000000000000001"
		case 3:
			amt = fmt.Sprint(1 + g.intn(10))
		case 4:
			amt = "9223372036854775808"
		default:
			amt = g.logBig(15).String()
		}
		parts = append(parts, esc(denoms[i])+"="+amt)
	}
	// sorted by denom
	sort.Strings(parts)
	return "[" + strings.Join(parts, ",") + "]"
}

type gSub struct {
	name    string
	sources []gAcc
	primary gAcc
	burn    *big.Int
	shares  []struct {
		name  string
		share *big.Int
		dest  gAcc
	}
}

func genDistrConfig(g *Gen) []gSub {
	mainAcc := gAcc{distrtypes.Main, g.pick("", "", "x")}
	internals := []string{"i1", "i2", "i3", "fee_collector", "green_energy_booster_collector"}
	if g.chance(0.3) {
		// ids that differ only by letter case are different accounts
		internals = []string{"i1", "I1", "Boosters", "boosters", "fee_collector"}
	}
	n := 1 + g.intn(5)
	var subs []gSub
	pending := map[string]gAcc{} // INTERNAL / MAIN used as destination, not yet consumed as a source
	var pendingOrder []string
	addPending := func(a gAcc) {
		if _, ok := pending[a.key()]; !ok {
			pending[a.key()] = a
			pendingOrder = append(pendingOrder, a.key())
		}
	}
	var mainAlias func() gAcc
	randDest := func(allowMain bool) gAcc {
		if g.chance(0.02) {
			return mainAlias()
		}
		switch g.intn(10) {
		case 0, 1, 2, 3:
			return gAcc{distrtypes.ModuleAccount, distrModules[g.intn(len(distrModules))]}
		case 4, 5:
			return gAcc{distrtypes.BaseAccount, baseAddr(g.intn(4))}
		case 6:
			// a blocked module address used as a base account: the payout fails naturally
			return gAcc{distrtypes.BaseAccount, authtypes.NewModuleAddress(distrModules[g.intn(4)]).String()}
		case 7, 8:
			return gAcc{distrtypes.InternalAccount, internals[g.intn(len(internals))]}
		default:
			if allowMain {
				return mainAcc
			}
			return gAcc{distrtypes.ModuleAccount, distrModules[g.intn(len(distrModules))]}
		}
	}
	mainAlias = func() gAcc {
		// an alias of the distributor's own main account: validation must reject it (D21)
		g.count("config/main-alias")
		if g.chance(0.5) {
			return gAcc{distrtypes.BaseAccount, authtypes.NewModuleAddress(distrtypes.DistributorMainAccount).String()}
		}
		return gAcc{distrtypes.ModuleAccount, distrtypes.DistributorMainAccount}
	}
	randSource := func() gAcc {
		if g.chance(0.03) {
			return mainAlias()
		}
		switch g.intn(6) {
		case 0, 1:
			return mainAcc
		case 2, 3:
			return gAcc{distrtypes.ModuleAccount, distrModules[g.intn(len(distrModules))]}
		case 4:
			return gAcc{distrtypes.BaseAccount, baseAddr(4 + g.intn(3))}
		default:
			if len(pendingOrder) > 0 {
				return pending[pendingOrder[g.intn(len(pendingOrder))]]
			}
			return mainAcc
		}
	}
	for i := 0; i < n; i++ {
		last := i == n-1
		s := gSub{name: fmt.Sprintf("sub%d", i)}
		if g.chance(0.05) {
			s.name = "sub0"
		}
		used := map[string]bool{}
		take := func(a gAcc) bool {
			if used[a.key()] {
				return false
			}
			used[a.key()] = true
			return true
		}
		if last {
			// consume everything still pending, MAIN last or first at random
			for _, k := range pendingOrder {
				if a, ok := pending[k]; ok && a.typ != distrtypes.Main && take(a) {
					s.sources = append(s.sources, a)
				}
			}
			take(mainAcc)
			if g.chance(0.5) {
				s.sources = append(s.sources, mainAcc)
			} else {
				s.sources = append([]gAcc{mainAcc}, s.sources...)
			}
			if g.chance(0.5) {
				if a := (gAcc{distrtypes.ModuleAccount, distrModules[g.intn(len(distrModules))]}); take(a) {
					s.sources = append(s.sources, a)
				}
			}
			pending = map[string]gAcc{}
			pendingOrder = nil
		} else {
			for k := 0; k < 1+g.intn(3); k++ {
				if a := randSource(); take(a) {
					s.sources = append(s.sources, a)
					if _, ok := pending[a.key()]; ok {
						delete(pending, a.key())
						var np []string
						for _, x := range pendingOrder {
							if x != a.key() {
								np = append(np, x)
							}
						}
						pendingOrder = np
					}
				}
			}
			if len(s.sources) == 0 {
				take(mainAcc)
				s.sources = append(s.sources, mainAcc)
			}
		}
		// destinations
		for tries := 0; tries < 10; tries++ {
			p := randDest(!last)
			if last && (p.typ == distrtypes.InternalAccount) {
				continue
			}
			if take(p) {
				s.primary = p
				break
			}
		}
		if s.primary.typ == "" {
			s.primary = gAcc{distrtypes.ModuleAccount, "validators_rewards_collector"}
			used[s.primary.key()] = true
		}
		if s.primary.typ == distrtypes.InternalAccount || s.primary.typ == distrtypes.Main {
			addPending(s.primary)
		}
		s.burn = big.NewInt(0)
		if g.chance(0.4) {
			s.burn = genShareValue(g)
		}
		total := new(big.Int).Set(s.burn)
		for k := 0; k < g.intn(4); k++ {
			d := randDest(!last)
			if last && d.typ == distrtypes.InternalAccount {
				continue
			}
			if !take(d) {
				continue
			}
			sh := genShareValue(g)
			total.Add(total, sh)
			s.shares = append(s.shares, struct {
				name  string
				share *big.Int
				dest  gAcc
			}{fmt.Sprintf("sh%d_%d", i, k), sh, d})
			if d.typ == distrtypes.InternalAccount || d.typ == distrtypes.Main {
				addPending(d)
			}
		}
		// keep the share sum below 1 most of the time
		one := bigOf("1000000000000000000")
		for total.Cmp(one) >= 0 && g.chance(0.9) {
			total = new(big.Int).Set(s.burn.Rsh(s.burn, 1))
			for k := range s.shares {
				s.shares[k].share = new(big.Int).Rsh(s.shares[k].share, 1)
				total.Add(total, s.shares[k].share)
			}
		}
		subs = append(subs, s)
	}
	return subs
}

func emitDistrConfig(g *Gen, subs []gSub) {
	g.emit("d.new")
	for _, s := range subs {
		g.emit("d.sub %s %s %s", esc(s.name), s.burn, s.primary.tok())
		for _, a := range s.sources {
			g.emit("d.src %s", a.tok())
		}
		for _, sh := range s.shares {
			g.emit("d.share %s %s %s", esc(sh.name), sh.share, sh.dest.tok())
		}
	}
}

// dust pattern: an internal account fed by a 10^-18-sized share and split again by several shares —
// amounts of a few 10^-18 units, where rounding instead of truncating over-allocates
func genDustConfig(g *Gen) []gSub {
	mainAcc := gAcc{distrtypes.Main, ""}
	i1 := gAcc{distrtypes.InternalAccount, "dust"}
	mk := func(name string, v *big.Int, d gAcc) struct {
		name  string
		share *big.Int
		dest  gAcc
	} {
		return struct {
			name  string
			share *big.Int
			dest  gAcc
		}{name, v, d}
	}
	a := gSub{name: "feed", sources: []gAcc{mainAcc}, primary: gAcc{distrtypes.ModuleAccount, "validators_rewards_collector"}, burn: big.NewInt(0)}
	a.shares = append(a.shares, mk("tiny", big.NewInt(int64(1+g.intn(9))), i1))
	b := gSub{name: "split", sources: []gAcc{i1}, primary: gAcc{distrtypes.ModuleAccount, "governance_booster_collector"}, burn: big.NewInt(0)}
	sh := g.pick("300000000000000000", "333333333333333333", "250000000000000000", "499999999999999999")
	for k := 0; k < 2+g.intn(2); k++ {
		if new(big.Int).Mul(bigOf(sh), big.NewInt(int64(k+1))).Cmp(bigOf("1000000000000000000")) < 0 {
			b.shares = append(b.shares, mk(fmt.Sprintf("d%d", k), bigOf(sh), gAcc{distrtypes.BaseAccount, baseAddr(k)}))
		}
	}
	return []gSub{a, b}
}

func genDistr(g *Gen, n int, faults bool) {
	for sc := 0; sc < n; sc++ {
		g.emit("reset distr %d", sc)
		emitDistrFacts(g)
		subs := genDistrConfig(g)
		dust := false
		if g.chance(0.1) {
			subs = genDustConfig(g)
			dust = true
			g.count("config/dust")
		}
		if g.chance(0.08) && len(subs) > 1 {
			// shuffled order: usually violates the ordering rule
			g.r.Shuffle(len(subs), func(i, j int) { subs[i], subs[j] = subs[j], subs[i] })
			g.count("config/shuffled")
		}
		if !dust && sc%5 == 2 {
			// directed shape: one address listed under both bech32 spellings as two destinations:
			// two records (and two store keys), one recipient
			other := vaddr(77)
			subs = []gSub{{name: "twospell", sources: []gAcc{{distrtypes.Main, ""}}, primary: gAcc{distrtypes.BaseAccount, other}, burn: big.NewInt(0)}}
			subs[0].shares = append(subs[0].shares, struct {
				name  string
				share *big.Int
				dest  gAcc
			}{"upper", bigOf("333333333333333333"), gAcc{distrtypes.BaseAccount, strings.ToUpper(other)}})
			g.count("shape/two-spellings-destinations")
		}
		chained := false
		if !dust && faults && sc%5 == 4 {
			// directed shape: a module account that is a DESTINATION of one sub-distributor and the SOURCE of
			// a later one (its state carries a fractional remainder, its bank balance the paid integer part),
			// and the sweep of exactly that account fails in one block: the remainder must stay booked
			subs = []gSub{
				{name: "up", sources: []gAcc{{distrtypes.Main, ""}}, primary: gAcc{distrtypes.ModuleAccount, "green_energy_booster_collector"}, burn: big.NewInt(0)},
				{name: "down", sources: []gAcc{{distrtypes.ModuleAccount, "green_energy_booster_collector"}}, primary: gAcc{distrtypes.BaseAccount, vaddr(78)}, burn: big.NewInt(0)},
			}
			subs[0].shares = append(subs[0].shares, struct {
				name  string
				share *big.Int
				dest  gAcc
			}{"part", bigOf(g.pick("333333333333333333", "100000000000000001")), gAcc{distrtypes.ModuleAccount, "governance_booster_collector"}})
			chained = true
			g.count("shape/chained-source-sweep-fault")
		}
		emitDistrConfig(g, subs)
		g.emit("d.setparams")
		if !dust && sc%5 == 0 {
			// directed shape (D36): a genesis whose non-burn state carries an empty account id (or the MAIN
			// type) - its store key would be the burn state's; must be refused by genesis validation
			n := 1 + g.intn(9)
			g.emit("d.gstate 0 %s [uc4e=%d000000000000000000]", g.pick("MAIN|%e|0", "INTERNAL_ACCOUNT|%e|0", "MODULE_ACCOUNT|%e|0"), n)
			g.emit("d.ginit")
			g.count("shape/genesis-state-empty-id")
		}
		if chained {
			mainA := authtypes.NewModuleAddress(distrtypes.DistributorMainAccount).String()
			g.emit("d.credit %s [uc4e=%d]", mainA, 1001+g.intn(1000)*3)
			g.emit("d.bb")
			g.emit("d.credit %s [uc4e=%d]", mainA, 1001+g.intn(1000)*3)
			g.emit("d.faults 0") // the first bank call of the block is the sweep of the chained account
			g.emit("d.bb")
			g.emit("d.bb")
		}
		// inflow targets: main, module and base sources
		var targets []string
		targets = append(targets, authtypes.NewModuleAddress(distrtypes.DistributorMainAccount).String())
		for _, s := range subs {
			for _, a := range s.sources {
				switch a.typ {
				case distrtypes.ModuleAccount:
					targets = append(targets, authtypes.NewModuleAddress(a.id).String())
				case distrtypes.BaseAccount:
					targets = append(targets, a.id)
				}
			}
			g.count(fmt.Sprintf("sub/sources=%d", len(s.sources)))
			g.count(fmt.Sprintf("sub/shares=%d", len(s.shares)))
			g.count("primary/" + s.primary.typ)
		}
		// directed shape: a BASE_ACCOUNT source that is a vesting account with locked coins (the bank
		// refuses to move its whole balance: the sweep fails, nothing may be booked)
		if !dust && sc%3 == 1 {
			for _, s := range subs {
				for _, a := range s.sources {
					if a.typ == distrtypes.BaseAccount {
						if _, err := sdk.AccAddressFromBech32(a.id); err == nil && a.id != targets[0] {
							lockAmt := 1 + g.intn(1000)
							g.emit("d.credit %s [uc4e=%d]", a.id, lockAmt+g.intn(1000))
							g.emit("d.lockacct %s [uc4e=%d]", a.id, lockAmt)
							g.count("shape/vesting-account-source")
						}
					}
				}
			}
		}
		nb := 2 + g.intn(6)
		for b := 0; b < nb; b++ {
			for k := 0; k < g.intn(3); k++ {
				if dust {
					g.emit("d.credit %s [uc4e=%d]", targets[0], 1+g.intn(3))
				} else {
					g.emit("d.credit %s %s", targets[g.intn(len(targets))], genInflowCoins(g))
				}
			}
			if faults && g.chance(0.6) {
				var ks []string
				switch g.intn(3) {
				case 0:
					ks = append(ks, fmt.Sprint(g.intn(6)))
				case 1:
					for i := 0; i < 12; i++ {
						if g.chance(0.4) {
							ks = append(ks, fmt.Sprint(i))
						}
					}
				default:
					for i := 0; i < 12; i++ {
						ks = append(ks, fmt.Sprint(i))
					}
				}
				g.emit("d.faults %s", strings.Join(ks, " "))
				g.count("faults/block")
			}
			g.emit("d.bb")
		}
		if faults {
			for b := 0; b < 3; b++ {
				g.emit("d.bb")
			}
		}
		g.emit("d.end")
		g.count("scenario")
	}
}

func init() {
	generators["distrupd"] = genDistrUpd
}

// parameter-update histories for the distributor (C13): full / single sub-distributor / share /
// burn-share updates from gov and other authorities, valid and invalid, interleaved with blocks
func genDistrUpd(g *Gen, n int) {
	for sc := 0; sc < n; sc++ {
		g.emit("reset distrupd %d", sc)
		emitDistrFacts(g)
		subs := genDistrConfig(g)
		emitDistrConfig(g, subs)
		g.emit("d.setparams")
		g.emit("d.params")
		mainAddr := authtypes.NewModuleAddress(distrtypes.DistributorMainAccount).String()
		if sc%3 == 0 {
			// directed shape: the all-upper-case bech32 spelling of an address is the same account -
			// the main account as BASE_ACCOUNT (must be rejected like its lower-case spelling) and one
			// address listed under both spellings as two destinations (two records, one recipient)
			up := strings.ToUpper(mainAddr)
			g.emit("d.new")
			g.emit("d.sub upmain 0 %s", gAcc{distrtypes.ModuleAccount, "green_energy_booster_collector"}.tok())
			g.emit("d.src %s", gAcc{distrtypes.Main, ""}.tok())
			if g.chance(0.5) {
				g.emit("d.src %s", gAcc{distrtypes.BaseAccount, up}.tok())
			} else {
				g.emit("d.share upshare 100000000000000000 %s", gAcc{distrtypes.BaseAccount, up}.tok())
			}
			g.emit("d.update full gov")
			g.emit("d.params")
			other := vaddr(77)
			g.emit("d.new")
			g.emit("d.sub twospell 0 %s", gAcc{distrtypes.BaseAccount, other}.tok())
			g.emit("d.src %s", gAcc{distrtypes.Main, ""}.tok())
			g.emit("d.share upper 333333333333333333 %s", gAcc{distrtypes.BaseAccount, strings.ToUpper(other)}.tok())
			g.emit("d.update full gov")
			g.emit("d.params")
			for b := 0; b < 3; b++ {
				g.emit("d.credit %s [uc4e=%d]", mainAddr, 1+g.intn(1000))
				g.emit("d.bb")
			}
			g.count("shape/upper-case-bech32")
		}
		if sc%3 == 2 {
			// directed shape: share names must be unique across the whole list INCLUDING the implicit
			// "<name>_primary" names - here an earlier sub-distributor uses a later one's primary name
			g.emit("d.new")
			g.emit("d.sub alpha 0 %s", gAcc{distrtypes.ModuleAccount, "green_energy_booster_collector"}.tok())
			g.emit("d.src %s", gAcc{distrtypes.Main, ""}.tok())
			g.emit("d.share %s 100000000000000000 %s", g.pick("beta_primary", "alpha_primary"), gAcc{distrtypes.ModuleAccount, "governance_booster_collector"}.tok())
			g.emit("d.sub beta 0 %s", gAcc{distrtypes.ModuleAccount, "validators_rewards_collector"}.tok())
			g.emit("d.src %s", gAcc{distrtypes.Main, ""}.tok())
			g.emit("d.update full gov")
			g.emit("d.params")
			g.count("shape/primary-name-clash")
		}
		if sc%3 == 1 {
			// directed shape: single-value updates that are valid ON THEIR OWN (0 <= x < 1) but push the
			// sum of burn share and named shares of that sub-distributor to 1 or above; then blocks with
			// coins in the main account (an accepted update of this kind makes BeginBlocker panic)
			g.emit("d.new")
			g.emit("d.sub summed 300000000000000000 %s", gAcc{distrtypes.ModuleAccount, "green_energy_booster_collector"}.tok())
			g.emit("d.src %s", gAcc{distrtypes.Main, ""}.tok())
			g.emit("d.share half 500000000000000000 %s", gAcc{distrtypes.ModuleAccount, "governance_booster_collector"}.tok())
			g.emit("d.update full gov")
			g.emit("d.params")
			if g.chance(0.5) {
				g.emit("d.update burn gov summed %s", g.pick("500000000000000000", "999999999999999999", "500000000000000001"))
			} else {
				g.emit("d.update share gov summed half %s", g.pick("700000000000000000", "999999999999999999", "700000000000000001"))
			}
			g.emit("d.params")
			for b := 0; b < 3; b++ {
				g.emit("d.credit %s [uc4e=%d]", mainAddr, 1000+g.intn(100000))
				g.emit("d.bb")
			}
			g.count("shape/single-value-update-sum")
		}
		for i := 0; i < 3+g.intn(8); i++ {
			auth := g.pick("gov", "gov", "gov", "gov", "other", "empty", "garbage")
			switch g.intn(6) {
			case 0:
				ns := genDistrConfig(g)
				if g.chance(0.2) && len(ns) > 1 {
					g.r.Shuffle(len(ns), func(a, b int) { ns[a], ns[b] = ns[b], ns[a] })
				}
				emitDistrConfig(g, ns)
				if g.chance(0.25) {
					g.emit("d.update full-then-fail %s", auth)
				} else {
					g.emit("d.update full %s", auth)
					if auth == "gov" {
						subs = ns
					}
				}
			case 1:
				// replace one sub-distributor: same name, freshly generated body (often breaks the ordering rule)
				ns := genDistrConfig(g)
				one := ns[g.intn(len(ns))]
				if len(subs) > 0 && g.chance(0.8) {
					one.name = subs[g.intn(len(subs))].name
				}
				emitDistrConfig(g, []gSub{one})
				g.emit("d.update sub %s %d", auth, 0)
			case 2:
				g.emit("d.update sub %s 1", auth)
			case 3:
				sn, dn := "sub0", "sh0_0"
				if len(subs) > 0 {
					s := subs[g.intn(len(subs))]
					sn = s.name
					if len(s.shares) > 0 {
						dn = s.shares[g.intn(len(s.shares))].name
					}
				}
				g.emit("d.update share %s %s %s %s", auth, g.pick(esc(sn), esc(sn), "%e", "nosuch"), g.pick(esc(dn), esc(dn), "%e", "nosuch"),
					g.pick(genShareValue(g).String(), genShareValue(g).String(), "-", "-1", "1000000000000000000", "999999999999999999"))
			case 4:
				sn := "sub0"
				if len(subs) > 0 {
					sn = subs[g.intn(len(subs))].name
				}
				g.emit("d.update burn %s %s %s", auth, g.pick(esc(sn), esc(sn), "%e", "nosuch"),
					g.pick(genShareValue(g).String(), genShareValue(g).String(), "-", "-1", "1000000000000000000", "999999999999999999"))
			default:
				g.emit("d.credit %s %s", mainAddr, genInflowCoins(g))
				g.emit("d.bb")
			}
			g.emit("d.params")
		}
		g.emit("d.bb")
		g.emit("d.end")
		g.count("scenario")
	}
}
