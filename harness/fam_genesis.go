//go:build verif

package main

import (
	"encoding/json"
	"fmt"
	"sort"
	"strings"

	c4eapp "github.com/chain4energy/c4e-chain/app"
	appparams "github.com/chain4energy/c4e-chain/app/params"
	"github.com/chain4energy/c4e-chain/x/cfedistributor"
	distrtypes "github.com/chain4energy/c4e-chain/x/cfedistributor/types"
	"github.com/chain4energy/c4e-chain/x/cfeminter"
	mintertypes "github.com/chain4energy/c4e-chain/x/cfeminter/types"
	"github.com/chain4energy/c4e-chain/x/cfesignature"
	sigtypes "github.com/chain4energy/c4e-chain/x/cfesignature/types"
	"github.com/chain4energy/c4e-chain/x/cfevesting"
	vesttypes "github.com/chain4energy/c4e-chain/x/cfevesting/types"
	"github.com/cosmos/cosmos-sdk/simapp"
	sdk "github.com/cosmos/cosmos-sdk/types"
	authtypes "github.com/cosmos/cosmos-sdk/x/auth/types"
	bankkeeper "github.com/cosmos/cosmos-sdk/x/bank/keeper"
	banktypes "github.com/cosmos/cosmos-sdk/x/bank/types"
	abci "github.com/tendermint/tendermint/abci/types"
	"github.com/tendermint/tendermint/libs/log"
	tmproto "github.com/tendermint/tendermint/proto/tendermint/types"
	dbm "github.com/tendermint/tm-db"
)

func init() {
	families["g"] = execGenesis
	generators["genesis"] = genGenesis
}

// per-module genesis JSON of the four custom modules plus bank and auth
func moduleExports(app *c4eapp.App, ctx sdk.Context) map[string]string {
	cdc := app.AppCodec()
	out := map[string]string{}
	out[vesttypes.ModuleName] = string(cdc.MustMarshalJSON(cfevesting.ExportGenesis(ctx, app.CfevestingKeeper)))
	out[mintertypes.ModuleName] = string(cdc.MustMarshalJSON(cfeminter.ExportGenesis(ctx, app.CfeminterKeeper)))
	out[distrtypes.ModuleName] = string(cdc.MustMarshalJSON(cfedistributor.ExportGenesis(ctx, app.CfedistributorKeeper)))
	out[sigtypes.ModuleName] = string(cdc.MustMarshalJSON(cfesignature.ExportGenesis(ctx, app.CfesignatureKeeper)))
	out["bank"] = string(cdc.MustMarshalJSON(app.BankKeeper.ExportGenesis(ctx)))
	out["auth"] = string(cdc.MustMarshalJSON(authExport(app, ctx)))
	return out
}

// raw key/value dump of a module store (to see what a genesis export does NOT carry)
func storeDump(app *c4eapp.App, ctx sdk.Context, storeKey string) map[string]string {
	m := map[string]string{}
	it := ctx.KVStore(app.GetKey(storeKey)).Iterator(nil, nil)
	defer it.Close()
	for ; it.Valid(); it.Next() {
		m[string(it.Key())] = string(it.Value())
	}
	return m
}

func execGenesis(x *Exec, toks []string) string {
	switch toks[0] {
	case "g.fresh":
		// a dedicated application instance for this scenario; ops write to its deliver state
		x.env = newEnv()
		x.ctx = x.env.baseCtx.WithEventManager(sdk.NewEventManager())
		x.fam = map[string]interface{}{"g": true}
		return "."
	case "g.settle":
		cfedistributor.BeginBlocker(x.ctx, x.env.app.CfedistributorKeeper)
		return "."
	case "g.exportimport":
		return exportImport(x)
	case "g.vestgenesis":
		return vestGenesisCheck(x, toks)
	case "g.end":
		return "."
	}
	return "bad-op"
}

// C05 / C12: the vesting module refuses to start from a genesis whose module account is not
// exactly backed by the pools (surplus or deficit given in base units of the vesting denom)
func vestGenesisCheck(x *Exec, toks []string) string {
	app := x.env.app
	cc, _ := x.ctx.CacheContext()
	k := app.CfevestingKeeper
	gs := cfevesting.ExportGenesis(cc, k)
	delta := intTok(toks[1])
	denom := k.Denom(cc)
	hb := bankkeeper.NewBaseKeeper(app.AppCodec(), app.GetKey(banktypes.StoreKey), app.AccountKeeper, app.GetSubspace(banktypes.ModuleName), map[string]bool{})
	if delta.IsPositive() {
		coins := sdk.NewCoins(sdk.NewCoin(denom, delta))
		if err := app.BankKeeper.MintCoins(cc, mintertypes.ModuleName, coins); err != nil {
			panic(err)
		}
		if err := hb.SendCoinsFromModuleToModule(cc, mintertypes.ModuleName, vesttypes.ModuleName, coins); err != nil {
			panic(err)
		}
	} else if delta.IsNegative() {
		coins := sdk.NewCoins(sdk.NewCoin(denom, delta.Neg()))
		if err := hb.SendCoinsFromModuleToModule(cc, vesttypes.ModuleName, mintertypes.ModuleName, coins); err != nil {
			return "skip" // the module account does not hold that much
		}
	}
	// variant "dup": an owner listed a second time under the all-upper-case spelling of its address
	// (a valid bech32 string, a different store key), with the module account funded for both records:
	// after InitGenesis the module account must still be exactly backed by what is stored
	dup := len(toks) > 2 && toks[2] == "dup"
	if dup {
		var extra sdk.Int = sdk.ZeroInt()
		n := len(gs.AccountVestingPools)
		for i := 0; i < n; i++ {
			avp := gs.AccountVestingPools[i]
			if avp == nil || avp.Owner != strings.ToLower(avp.Owner) || len(avp.VestingPools) == 0 {
				continue
			}
			if _, err := sdk.AccAddressFromBech32(avp.Owner); err != nil {
				continue
			}
			cp := vesttypes.AccountVestingPools{Owner: strings.ToUpper(avp.Owner)}
			for _, p := range avp.VestingPools {
				q := *p
				cp.VestingPools = append(cp.VestingPools, &q)
				extra = extra.Add(q.GetCurrentlyLocked())
			}
			gs.AccountVestingPools = append(gs.AccountVestingPools, &cp)
			break
		}
		if extra.IsPositive() {
			coins := sdk.NewCoins(sdk.NewCoin(denom, extra))
			if err := app.BankKeeper.MintCoins(cc, mintertypes.ModuleName, coins); err != nil {
				panic(err)
			}
			if err := hb.SendCoinsFromModuleToModule(cc, mintertypes.ModuleName, vesttypes.ModuleName, coins); err != nil {
				panic(err)
			}
		}
	}
	res, _ := catch(func() error {
		cfevesting.InitGenesis(cc, k, *gs, app.AccountKeeper, app.BankKeeper, app.StakingKeeper)
		return nil
	})
	if dup && res == "ok" {
		// the registered invariant on the state InitGenesis produced
		locked := sdk.ZeroInt()
		for _, avp := range k.GetAllAccountVestingPools(cc) {
			for _, p := range avp.VestingPools {
				locked = locked.Add(p.GetCurrentlyLocked())
			}
		}
		bal := app.BankKeeper.GetBalance(cc, authtypes.NewModuleAddress(vesttypes.ModuleName), denom).Amount
		if !bal.Equal(locked) {
			x.hit("C05", "genesis-backing", "vesting-init-genesis-dup-owner", fmt.Sprintf("after InitGenesis the module account holds %s, the stored pools lock %s", bal, locked))
		}
	}
	if delta.IsZero() != (res == "ok") {
		x.hit("C05", "genesis-backing", "vesting-init-genesis", fmt.Sprintf("module balance off by %s: InitGenesis outcome %s", delta, res))
	}
	return res
}

func exportImport(x *Exec) string {
	app1 := x.env.app
	height := x.ctx.BlockHeight()
	blockTime := x.ctx.BlockTime()
	// the block is finished and committed, then the operator exports
	var exported []byte
	res, msg := catch(func() error {
		app1.EndBlock(abci.RequestEndBlock{Height: height})
		app1.Commit()
		e, err := app1.ExportAppStateAndValidators(false, nil)
		if err != nil {
			return err
		}
		exported = e.AppState
		return nil
	})
	if res != "ok" {
		x.note("export failed: " + msg)
		x.hit("C12", "genesis-roundtrip", "export-fails", msg)
		return res + " stage=export"
	}
	committed := app1.BaseApp.NewContext(true, tmproto.Header{Height: app1.LastBlockHeight()})
	before := moduleExports(app1, committed)
	stores1 := map[string]map[string]string{}
	for _, sk := range []string{vesttypes.StoreKey, mintertypes.StoreKey, distrtypes.StoreKey, sigtypes.StoreKey} {
		stores1[sk] = storeDump(app1, committed, sk)
	}
	// the exported genesis must validate
	var gs c4eapp.GenesisState
	if err := json.Unmarshal(exported, &gs); err != nil {
		panic(err)
	}
	enc := c4eapp.MakeEncodingConfig()
	valid := "1"
	if r, m := catch(func() error { return c4eapp.ModuleBasics.ValidateGenesis(enc.Marshaler, enc.TxConfig, gs) }); r != "ok" {
		valid = "0"
		sig := "exported-genesis-invalid"
		if strings.Contains(m, "vesting start-time cannot be before end-time") {
			// D28: vesting accounts with start >= end (every pool send without restart) do not pass the
			// SDK's genesis validation although InitChain accepts them
			sig = "exported-genesis-invalid/vesting-account-start-not-before-end"
		}
		x.hit("C12", "genesis-roundtrip", sig, m)
	}
	// fresh chain from the export
	db := dbm.NewMemDB()
	app2 := c4eapp.New(log.NewNopLogger(), db, nil, true, map[int64]bool{}, c4eapp.DefaultNodeHome, 0, appparams.EncodingConfig(enc), simapp.EmptyAppOptions{})
	res, msg = catch(func() error {
		app2.InitChain(abci.RequestInitChain{Validators: []abci.ValidatorUpdate{}, ConsensusParams: simapp.DefaultConsensusParams, AppStateBytes: exported, Time: blockTime, InitialHeight: height + 1})
		return nil
	})
	if res != "ok" {
		x.note("import failed: " + msg)
		sig := "import-fails"
		if strings.Contains(msg, "expected module account was") {
			// D29: x/gov InitGenesis requires the gov module balance to equal the deposits; a distributor
			// configuration paying into the gov module account makes the exported genesis unimportable
			sig = "import-fails/gov-module-balance-not-deposits"
		}
		x.hit("C12", "genesis-roundtrip", sig, msg)
		x.halted = true
		return res + " stage=import"
	}
	ctx2 := app2.BaseApp.NewContext(false, tmproto.Header{Height: height + 1, Time: blockTime}).WithEventManager(sdk.NewEventManager())
	after := moduleExports(app2, ctx2)
	var differ []string
	for m, js := range before {
		if after[m] != js {
			differ = append(differ, m)
			x.hit("C12", "genesis-roundtrip", "reexport-differs/"+m, firstJSONDiff(js, after[m]))
		}
	}
	// custom-module data that the genesis did not carry
	for sk, d1 := range stores1 {
		d2 := storeDump(app2, ctx2, sk)
		lost := map[string]bool{}
		for k := range d1 {
			if _, ok := d2[k]; !ok {
				lost[prefixOfKey(sk, k)] = true
			}
		}
		var ps []string
		for p := range lost {
			ps = append(ps, p)
		}
		sort.Strings(ps)
		for _, p := range ps {
			x.hit("C12", "genesis-roundtrip", sk+"/lost-prefix:"+p, fmt.Sprintf("keys with prefix %s of the %s store are missing after export/import (%d keys lost in total)", p, sk, len(d1)-len(d2)))
		}
	}
	sort.Strings(differ)
	// continue on the restored chain
	x.env = &Env{app: app2, baseCtx: ctx2, gov: x.env.gov}
	x.ctx = ctx2
	for k := range x.fam {
		if rb, ok := x.fam[k].(interface{ rebind(x *Exec) }); ok {
			rb.rebind(x)
		}
	}
	_ = valid
	if len(differ) == 0 {
		return "ok same=all"
	}
	return "ok same=differ:" + strings.Join(differ, ",")
}

func prefixOfKey(storeKey, k string) string {
	if storeKey == sigtypes.StoreKey {
		for _, p := range []string{string(sigtypes.SignatureKey), string(sigtypes.PayloadLinkKey)} {
			if strings.HasPrefix(k, p) {
				return p
			}
		}
	}
	if len(k) > 0 {
		return fmt.Sprintf("0x%02x", k[0])
	}
	return "?"
}

func firstJSONDiff(a, b string) string {
	n := len(a)
	if len(b) < n {
		n = len(b)
	}
	i := 0
	for i < n && a[i] == b[i] {
		i++
	}
	lo := i - 60
	if lo < 0 {
		lo = 0
	}
	hiA, hiB := i+80, i+80
	if hiA > len(a) {
		hiA = len(a)
	}
	if hiB > len(b) {
		hiB = len(b)
	}
	return fmt.Sprintf("…%s  ≠  …%s", a[lo:hiA], b[lo:hiB])
}

// ---------------------------------------------------------------- generator: histories of the
// other families on a dedicated app, with export → import at random points

func genGenesis(g *Gen, n int) {
	for sc := 0; sc < n; sc++ {
		sub := newGen(g.r.Int63())
		// rotate through the families (and through the directed shapes of the vesting generator; every
		// other vesting scenario runs under a non-default vesting denom) instead of drawing them
		rot := []string{"vest", "minter", "distr", "split", "vest", "distrfaults", "sig", "minterupd"}
		kind := rot[sc%len(rot)]
		sub.shape = sc / len(rot) * 2
		if kind == "vest" && sc%len(rot) == 4 {
			sub.shape++
			sub.forceDenom = (sc/len(rot))%2 == 0
		}
		if kind == "minterupd" {
			// parameter updates, rotating through the directed update shapes (incl. an unset start time)
			sub.shape = 1 + sc/len(rot)
		}
		generators[kind](sub, 1)
		lines := sub.lines
		g.emit("reset genesis %d %s", sc, kind)
		g.emit("g.fresh")
		// candidate insertion points: after state-changing ops, never inside a configuration block
		var cut []int
		for i, l := range lines {
			t := strings.Fields(l)[0]
			switch {
			case t == "m.block", t == "d.bb", t == "s.store", t == "s.publish":
				cut = append(cut, i)
			case strings.HasPrefix(t, "v.") && !strings.HasPrefix(t, "v.q.") && t != "v.time" && t != "v.vt" && t != "v.fund" && t != "v.acct" && t != "v.end" && !isFactLine(t):
				cut = append(cut, i)
			}
		}
		at := map[int]bool{}
		if len(cut) > 0 {
			at[cut[g.intn(len(cut))]] = true // one export/import per scenario (the restored app has no open block to end)
		}
		stop := false
		for i, l := range lines {
			if i == 0 || stop {
				continue // the sub-scenario's own reset line
			}
			t := strings.Fields(l)
			if strings.HasSuffix(t[0], ".end") {
				continue // metamorphic re-runs are not meaningful across app instances
			}
			if t[0] == "v.delegate" {
				continue // bank-level delegation without staking records cannot be exported
			}
			if t[0] == "v.vt" {
				// genesis carries vesting-type periods in whole units: keep them whole seconds
				t[2] = fmt.Sprint(int64Tok(t[2]) / sec * sec)
				t[3] = fmt.Sprint(int64Tok(t[3]) / sec * sec)
				l = strings.Join(t, " ")
			}
			g.emit("%s", l)
			if at[i] {
				if kind == "minter" || kind == "minterupd" {
					g.emit("g.settle") // the distributor's BeginBlocker follows the minter's in every real block
				}
				g.emit("g.exportimport")
				g.count("exportimport/" + kind)
				if kind == "sig" {
					// known finding D5: the registry is not part of the genesis; nothing to continue with
					stop = true
				}
			}
		}
		if !stop && (kind == "vest" || kind == "split") {
			g.emit("g.vestgenesis %s", g.pick("0", "0", "1", "7", "1000000"))
			g.emit("g.vestgenesis 0 dup")
		}
		g.emit("g.end")
		g.count("scenario/" + kind)
	}
}

func isFactLine(t string) bool {
	switch t {
	case "v.denom", "v.modaddr", "v.bonded", "v.blocked", "v.modacct", "v.bal0", "v.accnum":
		return true
	}
	return false
}

func authExport(app *c4eapp.App, ctx sdk.Context) *authtypes.GenesisState {
	return app.AccountKeeper.ExportGenesis(ctx)
}
