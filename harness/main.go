//go:build verif

// verifharness: drives the real c4e-chain code on line-protocol op files (DESIGN §5.1).
//
//	verifharness gen  <family> <seed> <nScenarios> <out.ops>     write generated scenarios
//	verifharness exec <in.ops> <out.impl> <out.mon.json>         run them on the real code
package main

import (
	"bufio"
	"flag"
	"fmt"
	"os"
	"runtime/pprof"
	"strconv"
	"strings"
	"testing"
)

type genFunc func(g *Gen, n int)

var generators = map[string]genFunc{}

func main() {
	testing.Init()
	cpuprof := flag.String("cpuprofile", "", "write cpu profile")
	flag.Parse()
	if *cpuprof != "" {
		pf, _ := os.Create(*cpuprof)
		pprof.StartCPUProfile(pf)
		defer pprof.StopCPUProfile()
	}
	args := flag.Args()
	if len(args) < 1 {
		fmt.Fprintln(os.Stderr, "usage: verifharness gen|exec ...")
		os.Exit(2)
	}
	switch args[0] {
	case "gen":
		fam, seedS, nS, out := args[1], args[2], args[3], args[4]
		seed, _ := strconv.ParseInt(seedS, 10, 64)
		n, _ := strconv.Atoi(nS)
		gf, ok := generators[fam]
		if !ok {
			fmt.Fprintln(os.Stderr, "unknown family", fam)
			os.Exit(2)
		}
		g := newGen(seed)
		gf(g, n)
		if err := os.WriteFile(out, []byte(strings.Join(g.lines, "\n")+"\n"), 0o644); err != nil {
			panic(err)
		}
		writeJSON(out+".stats.json", g.stats)
	case "exec":
		in, outPath, monPath := args[1], args[2], args[3]
		lines := readLines(in)
		f, err := os.Create(outPath)
		if err != nil {
			panic(err)
		}
		w := bufio.NewWriterSize(f, 1<<20)
		x := &Exec{env: newEnv(), out: w, branches: map[string]int{}, fam: map[string]interface{}{}, twin: os.Getenv("VERIF_TWIN") != ""}
		x.ctx = x.env.scenarioCtx()
		x.run(lines)
		w.Flush()
		f.Close()
		hits := x.hits
		if hits == nil {
			hits = []MonHit{}
		}
		writeJSON(monPath, map[string]interface{}{"hits": hits, "branches": x.branches, "scenarios": x.scenario, "lines": len(lines), "notes": x.notes})
	default:
		fmt.Fprintln(os.Stderr, "unknown subcommand", args[0])
		os.Exit(2)
	}
}
