module verifharness

go 1.19

require github.com/chain4energy/c4e-chain v0.0.0
require (
	cosmossdk.io/errors v1.0.0-beta.7
	cosmossdk.io/math v1.0.0-beta.3
	github.com/armon/go-metrics v0.4.1
	github.com/cosmos/cosmos-proto v1.0.0-alpha8
	github.com/cosmos/cosmos-sdk v0.46.10
	github.com/cosmos/go-bip39 v1.0.0
	github.com/cosmos/ibc-go/v5 v5.2.0
	github.com/gogo/protobuf v1.3.3
	github.com/golang/protobuf v1.5.3
	github.com/gorilla/mux v1.8.0
	github.com/grpc-ecosystem/grpc-gateway v1.16.0
	github.com/ory/dockertest/v3 v3.9.1
	github.com/spf13/cast v1.5.0
	github.com/spf13/cobra v1.6.1
	github.com/spf13/pflag v1.0.5
	github.com/spf13/viper v1.14.0
	github.com/stretchr/testify v1.8.1
	github.com/tendermint/tendermint v0.34.26
	github.com/tendermint/tm-db v0.6.7
	google.golang.org/genproto v0.0.0-20230223222841-637eb2293923
	google.golang.org/grpc v1.53.0
	google.golang.org/protobuf v1.28.2-0.20220831092852-f930b1dc76e8
	gopkg.in/yaml.v2 v2.4.0
)

require (
	cloud.google.com/go v0.107.0 // indirect
	cloud.google.com/go/compute v1.18.0 // indirect
	cloud.google.com/go/compute/metadata v0.2.3 // indirect
	cloud.google.com/go/iam v0.11.0 // indirect
	cloud.google.com/go/storage v1.27.0 // indirect
	filippo.io/edwards25519 v1.0.0-rc.1 // indirect
	github.com/99designs/go-keychain v0.0.0-20191008050251-8e49817e8af4 // indirect
	github.com/99designs/keyring v1.2.1 // indirect
	github.com/Azure/go-ansiterm v0.0.0-20210617225240-d185dfc1b5a1 // indirect
	github.com/ChainSafe/go-schnorrkel v0.0.0-20200405005733-88cbf1b4c40d // indirect
	github.com/Microsoft/go-winio v0.6.0 // indirect
	github.com/Nvveen/Gotty v0.0.0-20120604004816-cd527374f1e5 // indirect
	github.com/Workiva/go-datastructures v1.0.53 // indirect
	github.com/aws/aws-sdk-go v1.40.45 // indirect
	github.com/beorn7/perks v1.0.1 // indirect
	github.com/bgentry/go-netrc v0.0.0-20140422174119-9fd32a8b3d3d // indirect
	github.com/bgentry/speakeasy v0.1.1-0.20220910012023-760eaf8b6816 // indirect
	github.com/btcsuite/btcd/btcec/v2 v2.3.2 // indirect
	github.com/cenkalti/backoff/v4 v4.1.3 // indirect
	github.com/cespare/xxhash v1.1.0 // indirect
	github.com/cespare/xxhash/v2 v2.2.0 // indirect
	github.com/chzyer/readline v0.0.0-20180603132655-2972be24d48e // indirect
	github.com/cockroachdb/apd/v2 v2.0.2 // indirect
	github.com/coinbase/rosetta-sdk-go v0.7.9 // indirect
	github.com/confio/ics23/go v0.9.0 // indirect
	github.com/containerd/continuity v0.3.0 // indirect
	github.com/cosmos/btcutil v1.0.5 // indirect
	github.com/cosmos/gorocksdb v1.2.0 // indirect
	github.com/cosmos/iavl v0.19.5 // indirect
	github.com/cosmos/ledger-cosmos-go v0.12.2 // indirect
	github.com/creachadair/taskgroup v0.3.2 // indirect
	github.com/danieljoos/wincred v1.1.2 // indirect
	github.com/davecgh/go-spew v1.1.1 // indirect
	github.com/decred/dcrd/dcrec/secp256k1/v4 v4.0.1 // indirect
	github.com/desertbit/timer v0.0.0-20180107155436-c41aec40b27f // indirect
	github.com/dgraph-io/badger/v2 v2.2007.4 // indirect
	github.com/dgraph-io/ristretto v0.1.0 // indirect
	github.com/dgryski/go-farm v0.0.0-20200201041132-a6ae2369ad13 // indirect
	github.com/docker/cli v20.10.14+incompatible // indirect
	github.com/docker/docker v20.10.19+incompatible // indirect
	github.com/docker/go-connections v0.4.0 // indirect
	github.com/docker/go-units v0.5.0 // indirect
	github.com/dustin/go-humanize v1.0.1-0.20200219035652-afde56e7acac // indirect
	github.com/dvsekhvalnov/jose2go v1.5.0 // indirect
	github.com/felixge/httpsnoop v1.0.1 // indirect
	github.com/fsnotify/fsnotify v1.6.0 // indirect
	github.com/go-kit/kit v0.12.0 // indirect
	github.com/go-kit/log v0.2.1 // indirect
	github.com/go-logfmt/logfmt v0.5.1 // indirect
	github.com/go-playground/validator/v10 v10.4.1 // indirect
	github.com/godbus/dbus v0.0.0-20190726142602-4481cbc300e2 // indirect
	github.com/gogo/gateway v1.1.0 // indirect
	github.com/golang/glog v1.0.0 // indirect
	github.com/golang/groupcache v0.0.0-20210331224755-41bb18bfe9da // indirect
	github.com/golang/snappy v0.0.4 // indirect
	github.com/google/btree v1.0.1 // indirect
	github.com/google/go-cmp v0.5.9 // indirect
	github.com/google/gofuzz v1.2.0 // indirect
	github.com/google/orderedcode v0.0.1 // indirect
	github.com/google/shlex v0.0.0-20191202100458-e7afc7fbc510 // indirect
	github.com/google/uuid v1.3.0 // indirect
	github.com/googleapis/enterprise-certificate-proxy v0.2.3 // indirect
	github.com/googleapis/gax-go/v2 v2.7.0 // indirect
	github.com/gorilla/handlers v1.5.1 // indirect
	github.com/gorilla/websocket v1.5.0 // indirect
	github.com/grpc-ecosystem/go-grpc-middleware v1.3.0 // indirect
	github.com/gsterjov/go-libsecret v0.0.0-20161001094733-a6f4afe4910c // indirect
	github.com/gtank/merlin v0.1.1 // indirect
	github.com/gtank/ristretto255 v0.1.2 // indirect
	github.com/hashicorp/go-cleanhttp v0.5.2 // indirect
	github.com/hashicorp/go-getter v1.6.1 // indirect
	github.com/hashicorp/go-immutable-radix v1.3.1 // indirect
	github.com/hashicorp/go-safetemp v1.0.0 // indirect
	github.com/hashicorp/go-version v1.6.0 // indirect
	github.com/hashicorp/golang-lru v0.5.5-0.20210104140557-80c98217689d // indirect
	github.com/hashicorp/hcl v1.0.0 // indirect
	github.com/hdevalence/ed25519consensus v0.0.0-20220222234857-c00d1f31bab3 // indirect
	github.com/imdario/mergo v0.3.13 // indirect
	github.com/improbable-eng/grpc-web v0.15.0 // indirect
	github.com/inconshreveable/mousetrap v1.0.1 // indirect
	github.com/jmespath/go-jmespath v0.4.0 // indirect
	github.com/jmhodges/levigo v1.0.0 // indirect
	github.com/klauspost/compress v1.15.11 // indirect
	github.com/lib/pq v1.10.6 // indirect
	github.com/libp2p/go-buffer-pool v0.1.0 // indirect
	github.com/magiconair/properties v1.8.6 // indirect
	github.com/manifoldco/promptui v0.9.0 // indirect
	github.com/mattn/go-colorable v0.1.13 // indirect
	github.com/mattn/go-isatty v0.0.16 // indirect
	github.com/matttproud/golang_protobuf_extensions v1.0.2-0.20181231171920-c182affec369 // indirect
	github.com/mimoo/StrobeGo v0.0.0-20210601165009-122bf33a46e0 // indirect
	github.com/minio/highwayhash v1.0.2 // indirect
	github.com/mitchellh/go-homedir v1.1.0 // indirect
	github.com/mitchellh/go-testing-interface v1.0.0 // indirect
	github.com/mitchellh/mapstructure v1.5.0 // indirect
	github.com/moby/term v0.0.0-20220808134915-39b0c02b01ae // indirect
	github.com/mtibben/percent v0.2.1 // indirect
	github.com/onsi/gomega v1.26.0 // indirect
	github.com/opencontainers/go-digest v1.0.0 // indirect
	github.com/opencontainers/image-spec v1.1.0-rc2 // indirect
	github.com/opencontainers/runc v1.1.3 // indirect
	github.com/pelletier/go-toml v1.9.5 // indirect
	github.com/pelletier/go-toml/v2 v2.0.5 // indirect
	github.com/petermattis/goid v0.0.0-20180202154549-b0b1615b78e5 // indirect
	github.com/pkg/errors v0.9.1 // indirect
	github.com/pmezard/go-difflib v1.0.0 // indirect
	github.com/prometheus/client_golang v1.14.0 // indirect
	github.com/prometheus/client_model v0.3.0 // indirect
	github.com/prometheus/common v0.37.0 // indirect
	github.com/prometheus/procfs v0.8.0 // indirect
	github.com/rakyll/statik v0.1.7 // indirect
	github.com/rcrowley/go-metrics v0.0.0-20201227073835-cf1acfcdf475 // indirect
	github.com/regen-network/cosmos-proto v0.3.1 // indirect
	github.com/rogpeppe/go-internal v1.9.0 // indirect
	github.com/rs/cors v1.8.2 // indirect
	github.com/rs/zerolog v1.27.0 // indirect
	github.com/sasha-s/go-deadlock v0.3.1 // indirect
	github.com/sirupsen/logrus v1.9.0 // indirect
	github.com/spf13/afero v1.9.2 // indirect
	github.com/spf13/jwalterweatherman v1.1.0 // indirect
	github.com/subosito/gotenv v1.4.1 // indirect
	github.com/syndtr/goleveldb v1.0.1-0.20210819022825-2ae1ddf74ef7 // indirect
	github.com/tendermint/go-amino v0.16.0 // indirect
	github.com/tidwall/btree v1.5.0 // indirect
	github.com/ulikunitz/xz v0.5.8 // indirect
	github.com/xeipuuv/gojsonpointer v0.0.0-20180127040702-4e3ac2762d5f // indirect
	github.com/xeipuuv/gojsonreference v0.0.0-20180127040603-bd5ef7bd5415 // indirect
	github.com/xeipuuv/gojsonschema v1.2.0 // indirect
	github.com/zondax/hid v0.9.1 // indirect
	github.com/zondax/ledger-go v0.14.1 // indirect
	go.etcd.io/bbolt v1.3.6 // indirect
	go.opencensus.io v0.24.0 // indirect
	golang.org/x/crypto v0.5.0 // indirect
	golang.org/x/exp v0.0.0-20220722155223-a9213eeb770e // indirect
	golang.org/x/mod v0.7.0 // indirect
	golang.org/x/net v0.7.0 // indirect
	golang.org/x/oauth2 v0.5.0 // indirect
	golang.org/x/sys v0.5.0 // indirect
	golang.org/x/term v0.5.0 // indirect
	golang.org/x/text v0.7.0 // indirect
	golang.org/x/tools v0.4.0 // indirect
	golang.org/x/xerrors v0.0.0-20220907171357-04be3eba64a2 // indirect
	google.golang.org/api v0.110.0 // indirect
	google.golang.org/appengine v1.6.7 // indirect
	gopkg.in/ini.v1 v1.67.0 // indirect
	gopkg.in/yaml.v3 v3.0.1 // indirect
	nhooyr.io/websocket v1.8.6 // indirect
	sigs.k8s.io/yaml v1.3.0 // indirect
)

replace (
	github.com/gogo/protobuf => github.com/regen-network/protobuf v1.3.3-alpha.regen.1
	// use informal system fork of tendermint
	github.com/tendermint/tendermint => github.com/informalsystems/tendermint v0.34.26
	k8s.io/kubernetes/staging/src/k8s.io/apimachinery => k8s.io/apimachinery v0.27.0-alpha.2
)

replace github.com/chain4energy/c4e-chain => /repo
