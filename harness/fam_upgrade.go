//go:build verif

package main

import (
	"fmt"
	"math/big"
	"sort"
	"strings"
	"time"

	v120 "github.com/chain4energy/c4e-chain/app/upgrades/v120"
	vestv1 "github.com/chain4energy/c4e-chain/x/cfevesting/migrations/v1"
	vestv2 "github.com/chain4energy/c4e-chain/x/cfevesting/migrations/v2"
	vestv3 "github.com/chain4energy/c4e-chain/x/cfevesting/migrations/v3"
	vesttypes "github.com/chain4energy/c4e-chain/x/cfevesting/types"
	mintertypes "github.com/chain4energy/c4e-chain/x/cfeminter/types"
	"github.com/cosmos/cosmos-sdk/store/prefix"
	sdk "github.com/cosmos/cosmos-sdk/types"
	sdkvesting "github.com/cosmos/cosmos-sdk/x/auth/vesting/types"
)

func init() {
	generators["upgrade"] = genUpgrade
}

func fundVestingModule(x *Exec, f *vestFam, amt sdk.Int) {
	if !amt.IsPositive() {
		return
	}
	app := x.env.app
	coins := sdk.NewCoins(sdk.NewCoin(app.CfevestingKeeper.Denom(x.ctx), amt))
	if err := app.BankKeeper.MintCoins(x.ctx, mintertypes.ModuleName, coins); err != nil {
		panic(err)
	}
	if err := f.helperBk.SendCoinsFromModuleToModule(x.ctx, mintertypes.ModuleName, vesttypes.ModuleName, coins); err != nil {
		panic(err)
	}
}

func vtsStr(x *Exec) string {
	vts := x.env.app.CfevestingKeeper.GetAllVestingTypes(x.ctx).VestingTypes
	sort.Slice(vts, func(i, j int) bool { return vts[i].Name < vts[j].Name })
	var pp []string
	for _, v := range vts {
		pp = append(pp, fmt.Sprintf("%s~%d~%d~%s", esc(v.Name), int64(v.LockupPeriod), int64(v.VestingPeriod), decStr(v.Free)))
	}
	return "[" + strings.Join(pp, ";") + "]"
}

type poolSnap struct {
	owner string
	p     vesttypes.VestingPool
}

func allPools(x *Exec) []poolSnap {
	var out []poolSnap
	for _, avp := range x.env.app.CfevestingKeeper.GetAllAccountVestingPools(x.ctx) {
		for _, p := range avp.VestingPools {
			out = append(out, poolSnap{avp.Owner, *p})
		}
	}
	return out
}

func lockedTotal(ps []poolSnap) sdk.Int {
	t := sdk.ZeroInt()
	for _, p := range ps {
		t = t.Add(p.p.GetCurrentlyLocked())
	}
	return t
}

func execUpgrade(x *Exec, f *vestFam, toks []string) string {
	app := x.env.app
	k := app.CfevestingKeeper
	cdc := app.AppCodec()
	store := x.ctx.KVStore(app.GetKey(vesttypes.StoreKey))
	switch toks[0] {
	case "v.up.v2pool":
		// previous-format (v2) record: no genesis flag
		owner := toks[1]
		f.track(owner)
		ps := prefix.NewStore(store, vestv2.AccountVestingPoolsKeyPrefix)
		var acc vestv2.AccountVestingPools
		if bz := ps.Get([]byte(owner)); bz != nil {
			cdc.MustUnmarshal(bz, &acc)
		}
		acc.Address = owner
		p := &vestv2.VestingPool{Name: unesc(toks[2]), VestingType: unesc(toks[3]), LockStart: timeOf(int64Tok(toks[4])), LockEnd: timeOf(int64Tok(toks[5])),
			InitiallyLocked: intTok(toks[6]), Withdrawn: intTok(toks[7]), Sent: intTok(toks[8])}
		acc.VestingPools = append(acc.VestingPools, p)
		ps.Set([]byte(owner), cdc.MustMarshal(&acc))
		fundVestingModule(x, f, p.InitiallyLocked.Sub(p.Withdrawn).Sub(p.Sent))
		return "."
	case "v.up.v1pool":
		owner := toks[1]
		f.track(owner)
		ps := prefix.NewStore(store, vestv1.AccountVestingPoolsKeyPrefix)
		var acc vestv1.AccountVestingPools
		if bz := ps.Get([]byte(owner)); bz != nil {
			cdc.MustUnmarshal(bz, &acc)
		}
		acc.Address = owner
		p := &vestv1.VestingPool{Id: int32(len(acc.VestingPools)), Name: unesc(toks[2]), VestingType: unesc(toks[3]), LockStart: timeOf(int64Tok(toks[4])), LockEnd: timeOf(int64Tok(toks[5])),
			Vested: intTok(toks[6]), Withdrawn: intTok(toks[7]), Sent: sdk.ZeroInt(), LastModification: timeOf(int64Tok(toks[4])),
			LastModificationWithdrawn: intTok(toks[8]), LastModificationVested: intTok(toks[9])}
		acc.VestingPools = append(acc.VestingPools, p)
		ps.Set([]byte(owner), cdc.MustMarshal(&acc))
		fundVestingModule(x, f, p.LastModificationVested.Sub(p.LastModificationWithdrawn))
		return "."
	case "v.up.migrate3":
		// the records before the migration, decoded with the previous-format types
		var before []poolSnap
		{
			it := prefix.NewStore(store, vestv2.AccountVestingPoolsKeyPrefix).Iterator(nil, nil)
			for ; it.Valid(); it.Next() {
				var acc vestv2.AccountVestingPools
				cdc.MustUnmarshal(it.Value(), &acc)
				for _, p := range acc.VestingPools {
					before = append(before, poolSnap{acc.Address, vesttypes.VestingPool{Name: p.Name, VestingType: p.VestingType, LockStart: p.LockStart, LockEnd: p.LockEnd,
						InitiallyLocked: p.InitiallyLocked, Withdrawn: p.Withdrawn, Sent: p.Sent}})
				}
			}
			it.Close()
		}
		res, _ := catch(func() error { return vestv3.MigrateStore(x.ctx, app.GetKey(vesttypes.StoreKey), cdc) })
		after := allPools(x)
		// C16: every pool field preserved, genesis flag false, owners kept
		if res == "ok" {
			if len(before) != len(after) {
				x.hit("C16", "migrate-v3-fieldwise", "pool-count", fmt.Sprintf("%d pools before, %d after", len(before), len(after)))
			} else {
				for i := range before {
					b, a := before[i], after[i]
					if a.owner != b.owner || a.p.Name != b.p.Name || a.p.VestingType != b.p.VestingType || !a.p.LockStart.Equal(b.p.LockStart) || !a.p.LockEnd.Equal(b.p.LockEnd) ||
						!a.p.InitiallyLocked.Equal(b.p.InitiallyLocked) || !a.p.Withdrawn.Equal(b.p.Withdrawn) || !a.p.Sent.Equal(b.p.Sent) || a.p.GenesisPool {
						x.hit("C16", "migrate-v3-fieldwise", "pool-field", fmt.Sprintf("%s/%s changed: %v -> %v", b.owner, b.p.Name, b.p, a.p))
					}
				}
			}
		}
		return res + " " + vestStateStr(x, f, x.ctx)
	case "v.up.migrate2":
		res, _ := catch(func() error { return vestv2.MigrateStore(x.ctx, app.GetKey(vesttypes.StoreKey), cdc) })
		return res + " " + vestStateStr(x, f, x.ctx)
	case "v.up.split":
		before := allPools(x)
		stateBefore := vestStateStr(x, f, x.ctx) + vtsStr(x)
		// facts: the four lock ends are LockStart.AddDate(...) of the owner's validators pool
		for _, p := range before {
			if p.owner == v120.ValidatorsVestingPoolOwner && p.p.Name == "Validators pool" {
				want := []time.Time{p.p.LockStart.AddDate(3, 0, 0), p.p.LockStart.AddDate(2, 3, 0), p.p.LockStart.AddDate(1, 6, 0), p.p.LockStart.AddDate(2, 0, 0)}
				for i, w := range want {
					if fmt.Sprint(w.UnixNano()) != toks[1+i] {
						panic(fmt.Sprintf("v.up.split AddDate fact %d wrong: %d", i, w.UnixNano()))
					}
				}
			}
		}
		res, _ := catch(func() error { return v120.ModifyVestingPoolsState(x.ctx, app) })
		after := allPools(x)
		stateAfter := vestStateStr(x, f, x.ctx) + vtsStr(x)
		changed := 0
		if stateAfter != stateBefore {
			changed = 1
		}
		// C16 monitors: total locked preserved; module backing holds; all-or-nothing; history kept
		if !lockedTotal(before).Equal(lockedTotal(after)) {
			x.hit("C16", "split-conserves", "total-locked", fmt.Sprintf("total locked %s -> %s", lockedTotal(before), lockedTotal(after)))
		}
		if !strings.Contains(stateAfter, "inv=111") {
			x.hit("C16", "split-conserves", "vesting-invariants", stateAfter[strings.LastIndex(stateAfter, "inv="):strings.LastIndex(stateAfter, "inv=")+7])
		}
		if changed == 1 {
			names := map[string]bool{}
			for _, p := range after {
				if p.owner == v120.ValidatorsVestingPoolOwner {
					names[p.p.Name] = true
				}
			}
			_, e1 := k.GetVestingType(x.ctx, "Validator round")
			complete := names["Validator round pool"] && names["VC round pool"] && names["Early-bird round pool"] && names["Public round pool"] &&
				names["Strategic reserve short term round pool"] && e1 == nil && len(after) == len(before)+4
			if !complete {
				x.hit("C16", "split-all-or-nothing", "partial-split", "the state changed but the split is not complete")
			}
			// every pool that existed before keeps its sent / withdrawn history; pools keep their position
			// in the owner's list (new pools are appended), so they are matched by owner and position
			pos := map[string]int{}
			byOwner := func(ps []poolSnap) map[string][]poolSnap {
				m := map[string][]poolSnap{}
				for _, p := range ps {
					m[p.owner] = append(m[p.owner], p)
				}
				return m
			}
			bo, ao := byOwner(before), byOwner(after)
			_ = pos
			for owner, bl := range bo {
				al := ao[owner]
				for i, b := range bl {
					if i >= len(al) || !al[i].p.Sent.Equal(b.p.Sent) || !al[i].p.Withdrawn.Equal(b.p.Withdrawn) {
						x.hit("C16", "split-conserves", "history", fmt.Sprintf("sent/withdrawn of pool %q of %s changed", b.p.Name, owner))
					}
				}
			}
		}
		return fmt.Sprintf("%s changed=%d vts=%s %s", res, changed, vtsStr(x), vestStateStr(x, f, x.ctx))
	case "v.up.traces":
		res, _ := catch(func() error { v120.UpdateVestingAccountTraces(x.ctx, app); return nil })
		return res + " " + vestStateStr(x, f, x.ctx)
	case "v.up.accounts":
		addrs := []string{v120.Account1, v120.Account2, v120.Account3, v120.Account4}
		type snap struct {
			ov, dv, df   string
			start, end   int64
			isCva, exist bool
			js           string
		}
		snaps := map[string]snap{}
		for i, a := range addrs {
			f.track(a)
			aa, _ := sdk.AccAddressFromBech32(a)
			ai := app.AccountKeeper.GetAccount(x.ctx, aa)
			s := snap{exist: ai != nil}
			if ai != nil {
				bz, _ := cdc.MarshalInterfaceJSON(ai)
				s.js = string(bz)
			}
			if c, ok := ai.(*sdkvesting.ContinuousVestingAccount); ok {
				s.isCva, s.ov, s.dv, s.df, s.start, s.end = true, c.OriginalVesting.String(), c.DelegatedVesting.String(), c.DelegatedFree.String(), c.StartTime, c.EndTime
				// the one-year shift is a fact about the calendar in UTC: every node must compute the same value (D34)
				ws, we := time.Unix(c.StartTime, 0).UTC().AddDate(1, 0, 0).Unix(), time.Unix(c.EndTime, 0).UTC().AddDate(1, 0, 0).Unix()
				if fmt.Sprint(ws) != toks[1+2*i] || fmt.Sprint(we) != toks[2+2*i] {
					panic(fmt.Sprintf("v.up.accounts AddDate fact wrong for %s: %d %d", a, ws, we))
				}
			}
			snaps[a] = s
		}
		res, _ := catch(func() error { return v120.ModifyVestingAccountsState(x.ctx, app) })
		for _, a := range addrs {
			aa, _ := sdk.AccAddressFromBech32(a)
			ai := app.AccountKeeper.GetAccount(x.ctx, aa)
			s := snaps[a]
			if c, ok := ai.(*sdkvesting.ContinuousVestingAccount); ok && s.isCva {
				if c.OriginalVesting.String() != s.ov || c.DelegatedVesting.String() != s.dv || c.DelegatedFree.String() != s.df {
					x.hit("C16", "accounts-keep-amounts", "amounts", a+" amounts changed by the schedule shift")
				}
			} else if s.exist {
				bz, _ := cdc.MarshalInterfaceJSON(ai)
				if string(bz) != s.js {
					x.hit("C16", "accounts-keep-amounts", "non-vesting-account", a+" is not a continuous vesting account but was changed")
				}
			}
		}
		return res + " " + vestStateStr(x, f, x.ctx)
	}
	return "bad-op"
}

// ---------------------------------------------------------------- generator

func genUpgrade(g *Gen, n int) {
	sumAmt := bigOf("72000000000000")
	for sc := 0; sc < n; sc++ {
		g.emit("reset upgrade %d", sc)
		emitVestFacts(g)
		now := t0 + int64(g.intn(100000))*sec
		g.emit("v.time %d", now)
		switch g.intn(5) {
		case 0, 1: // validators-pool split
			if g.chance(0.85) {
				g.emit("v.vt Validators %d %d %s", 365*86400*sec, 365*86400*sec, "50000000000000000")
			}
			g.emit("v.vt Advisors %d %d 0", 100*86400*sec, 100*86400*sec)
			if sc%2 == 1 {
				// directed shape: a type with one of the NEW names exists already
				g.emit("v.vt %s %d %d %s", esc(g.pick("Validator round", "Validator round", "VC round", "Public round")), 7*86400*sec, 9*86400*sec, "250000000000000000")
				g.count("shape/new-type-name-exists")
			}
			owner := "c4e1p0smw03cwhqn05fkalfpcr0ngqv5jrpnx2cp54"
			ls := now - int64(g.intn(400))*86400*sec
			hasOwner := g.chance(0.9)
			if hasOwner {
				if g.chance(0.9) {
					var ini string
					wd, sent := g.logBig(10), g.logBig(10)
					used := new(big.Int).Add(wd, sent)
					switch g.intn(5) {
					case 0:
						ini = new(big.Int).Add(new(big.Int).Sub(sumAmt, big.NewInt(1)), used).String()
					case 1:
						ini = new(big.Int).Add(sumAmt, used).String()
					case 2:
						ini = new(big.Int).Add(new(big.Int).Add(sumAmt, used), g.logBig(14)).String()
					case 3:
						ini = new(big.Int).Add(g.logBig(12), used).String()
					default:
						ini = new(big.Int).Add(new(big.Int).Mul(sumAmt, big.NewInt(3)), used).String()
					}
					g.emit("v.genpool %s %s Validators %d %d %s %s %s 0", owner, esc(g.pick("Validators pool", "Validators pool", "Validators pool", "Other pool")), ls, ls+int64(g.intn(1000))*86400*sec, ini, wd, sent)
				}
				if g.chance(0.7) {
					g.emit("v.genpool %s %s Advisors %d %d %s 0 0 0", owner, esc("Advisors pool"), ls, ls+100*86400*sec, g.logBig(12))
				}
				if sc%3 == 0 {
					// directed shape: the owner already has a pool named like one of the pools the split
					// creates (and possibly like the renamed validators pool): its coins must stay on the books
					wd2, sent2 := g.logBig(8), g.logBig(8)
					ini2 := new(big.Int).Add(g.logBig(13), new(big.Int).Add(wd2, sent2))
					g.emit("v.genpool %s %s Advisors %d %d %s %s %s 0", owner,
						esc(g.pick("VC round pool", "Early-bird round pool", "Public round pool", "Strategic reserve short term round pool", "Validator round pool")),
						ls, ls+50*86400*sec, ini2, wd2, sent2)
					g.count("shape/split-target-name-exists")
				}
			}
			// other owners, some with the old type
			for i := 0; i < g.intn(3); i++ {
				g.emit("v.genpool %s %s %s %d %d %s 0 0 0", vaddr(60+i), "p", esc(g.pick("Validators", "Advisors")), ls, ls+86400*sec, g.logBig(12))
			}
			t := timeOf(ls)
			g.emit("v.up.split %d %d %d %d", t.AddDate(3, 0, 0).UnixNano(), t.AddDate(2, 3, 0).UnixNano(), t.AddDate(1, 6, 0).UnixNano(), t.AddDate(2, 0, 0).UnixNano())
			g.emit("v.q.pools %s", owner)
			if hasOwner {
				g.emit("v.send %s %s %s %s %d", atok(owner), atok(vaddr(70)), esc(g.pick("VC round pool", "Validator round pool", "Advisors pool", "Validators pool")), g.logBig(9), g.intn(2))
				now += int64(g.intn(1200)) * 86400 * sec
				g.emit("v.time %d", now)
				g.emit("v.withdraw %s", atok(owner))
			}
			g.count("scenario/split")
		case 2: // v2 -> v3 store migration
			for i := 0; i < 1+g.intn(4); i++ {
				o := vaddr(60 + g.intn(3))
				ini := g.logBig(15)
				wd := new(big.Int).Rand(g.r, ini)
				sent := new(big.Int).Rand(g.r, new(big.Int).Sub(ini, wd))
				if g.chance(0.3) {
					sent = new(big.Int).Sub(ini, wd) // a used-up pool: nothing locked any more, history must survive
				}
				g.emit("v.up.v2pool %s %s %s %d %d %s %s %s", o, fmt.Sprintf("p%d", i), esc(g.pick("Validators", "Advisors", "x y")), now-int64(g.intn(100))*sec, now+int64(g.intn(100000))*sec, ini, wd, sent)
			}
			if sc%2 == 0 {
				// directed shape: two entries whose owner strings are the two valid spellings of ONE address
				o := vaddr(63)
				g.emit("v.up.v2pool %s low Advisors %d %d %s 0 0", o, now-10*sec, now+1000*sec, g.logBig(12))
				g.emit("v.up.v2pool %s up Advisors %d %d %s 0 0", strings.ToUpper(o), now-10*sec, now+1000*sec, g.logBig(12))
				g.count("shape/owner-both-spellings")
			}
			g.emit("v.up.migrate3")
			g.emit("v.q.summary 1")
			g.count("scenario/migrate3")
		case 3: // v1 -> v2 store migration
			for i := 0; i < 1+g.intn(3); i++ {
				o := vaddr(60 + i)
				for j := 0; j < 1+g.intn(2); j++ {
					vested := g.logBig(15)
					lmv := new(big.Int).Rand(g.r, vested)
					lmw := new(big.Int).Rand(g.r, new(big.Int).Add(lmv, big.NewInt(1)))
					wd := new(big.Int).Add(lmw, big.NewInt(int64(g.intn(5))))
					g.emit("v.up.v1pool %s %s %s %d %d %s %s %s %s", o, fmt.Sprintf("q%d", j), "Validators", now-100*sec, now+int64(g.intn(100000))*sec, vested, wd, lmw, lmv)
				}
			}
			g.emit("v.up.migrate2")
			g.count("scenario/migrate2")
		default: // traces and shifted accounts
			accs := []string{"c4e1dsm96gwcv35m4rqd93pzcsztpkrqe0ev7getj8", "c4e10wjj2qmn4zjg2sdxq9mfyj5v4yukwyhzdtf2zp", "c4e1zrd0783g8qa5659apw5tpuqmz2ct6j20t4ymx3", "c4e1y8lndj6jz5z93g4xd05nmwyc3wtn39dfgfx7r7"}
			var facts []string
			for ai, a := range accs {
				kind := g.intn(4)
				if ai == 0 {
					kind = 2 // the first hard-coded account always is a vesting account (directed shape D34 below)
				}
				switch kind {
				case 0:
					facts = append(facts, "0", "0") // absent
				case 1:
					g.emit("v.fund %s [uc4e=5]", a) // plain base account
					facts = append(facts, "0", "0")
				default:
					// directed shape (D34): instants whose calendar date differs between time zones on the eve of a leap day
					// (2023-02-28 20:00 UTC is already 1 March in Asia) and around a daylight-saving switch (2023-03-11 02:00 UTC)
					st := now/sec - int64(g.intn(1000)) + g.pickI(0, 86400*59, 86400*200, 1677614400-now/sec, 1678500000-now/sec)
					if ai == 0 {
						st = 1677614400 - int64(g.intn(1000))
					}
					en := st + g.pickI(1, 1000, 86400*365, 86400*366)
					ov := g.logBig(20)
					g.emit("v.acct %s cva [uc4e=%s] %d %d", a, ov, st, en)
					g.emit("v.fund %s [uc4e=%s]", a, ov)
					if g.chance(0.5) {
						g.emit("v.delegate %s uc4e %s", a, new(big.Int).Add(new(big.Int).Rand(g.r, ov), big.NewInt(1)))
					}
					facts = append(facts, fmt.Sprint(time.Unix(st, 0).UTC().AddDate(1, 0, 0).Unix()), fmt.Sprint(time.Unix(en, 0).UTC().AddDate(1, 0, 0).Unix()))
				}
				if g.chance(0.6) {
					g.emit("v.trace %s 0 0 0", a)
				}
			}
			for _, a := range []string{"c4e13e303u43k7mng4927axuhve0plgsyxc4xky63k", "c4e1z5h0squtynr8rhwl0mzqdcd0wgmfyvpqmx3y2r", vaddr(61)} {
				if g.chance(0.7) {
					g.emit("v.trace %s 0 0 0", a)
				}
			}
			g.emit("v.up.traces")
			g.emit("v.up.accounts %s", strings.Join(facts, " "))
			g.emit("v.q.summary 1")
			g.count("scenario/accounts")
		}
		g.emit("v.end")
	}
}
