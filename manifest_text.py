NOTE = ("Trusted: Lean 4.33 kernel (axioms propext, Classical.choice, Quot.sound only, audited per theorem on every run); "
        "the hand-written Lean model is tied to /repo only by the correspondence check (Go harness executing the real keepers "
        "+ Lean driver on the same op lines, projected outputs diffed) — a divergence on an input the generators never produce is not seen; "
        "cosmos-sdk Dec/Int/Coins/bank/auth semantics are modelled, not verified; 315-bit Dec overflow and Duration saturation not modelled.")
TEXT = {
 "C02": dict(
   text="Theorems over the Lean model of Keeper.mint / AmountToMint (C4E/Props/C02.lean): remainder-carry identity; path independence, non-negativity and linear exactness as far as proved (see evidence.theorems). The model is re-validated against the real keeper on every run (per-block amount, minter state, history) and metamorphic monitors (single-jump vs. many blocks, linear exactness, non-negative blocks) run on the real code.",
   note=NOTE, technique="Lean 4 theorems over an executable model + differential correspondence check against the Go keeper"),
}
NA_REASON = {}
