NOTE = ("Trusted: Lean 4.33 kernel (axioms propext, Classical.choice, Quot.sound only, audited per theorem on every run); "
        "the hand-written Lean model is tied to /repo only by the correspondence check (Go harness executing the real keepers "
        "+ Lean driver on the same op lines, projected outputs diffed) — a divergence on an input the generators never produce is not seen; "
        "cosmos-sdk Dec/Int/Coins/bank/auth semantics are modelled, not verified; 315-bit Dec overflow and Duration saturation not modelled.")
TEXT = {
 "C02": dict(
   text="Theorems over the Lean model of Keeper.mint / AmountToMint (C4E/Props/C02.lean): remainder-carry identity; path independence, non-negativity and linear exactness as far as proved (see evidence.theorems). The model is re-validated against the real keeper on every run (per-block amount, minter state, history) and metamorphic monitors (single-jump vs. many blocks, linear exactness, non-negative blocks) run on the real code.",
   note=NOTE, technique="Lean 4 theorems over an executable model + differential correspondence check against the Go keeper"),
 "C03": dict(
   text="Theorem books_after_block (C4E/Props/C03.lean, from C4E/Distr1.lean): for the single-denomination core of the repaired BeginBlocker, every configuration meeting the distilled validation facts, every inflow and every pattern of failing bank calls leaves all recorded remains non-negative and summing exactly to the main balance. The faithful multi-denomination model (C4E/Distributor.lean) is re-validated against the real keeper on every run (states, main balance, invariant verdicts), and the two registered invariants plus an independent recomputation of the books are evaluated on the real state after every block. The multi-denomination lift is by correspondence, not proved (books_step_full stays visible).",
   note=NOTE, technique="Lean 4 invariant proof (all configs / inflows / fault patterns, per denomination) + differential correspondence + invariant monitors on the Go keeper"),
 "C04": dict(
   text="Theorems (C4E/Props/C04.lean): the whole inflow of a sub-distributor execution is allocated (states + MAIN) with nothing negative; each share is the 18-digit truncation of share x inflow (never above, less than 1e-18 below). Exact per-destination amounts of the faithful model are compared with the real keeper on every run (states, balances, burned coins: any difference is a failing input), and source-order independence is checked metamorphically on the real code.",
   note=NOTE, technique="Lean 4 theorems on share allocation + exact differential comparison against the Go keeper + metamorphic source-order monitor"),
 "C14": dict(
   text="Theorem books_under_faults (C4E/Props/C14.lean): the C03 identity holds after every block for every pattern of failing sweeps, payouts and burns; a failed payout stores the state unchanged; a failed sweep leaves the source untouched. On the real keeper a fault-injecting bank wrapper fails chosen calls; invariants are evaluated after every block and final balances are compared with a fault-free twin run (<= 1 base unit). Known finding D25 (source shared by two sub-distributors) is reported as KNOWN-FINDING.",
   note=NOTE, technique="Lean 4 invariant proof over arbitrary fault oracles + fault-injection differential runs and fault-free twin comparison on the Go keeper"),
 "C05": dict(
   text="Theorems (C4E/Props/C05.lean): withdrawals and sends keep every pool solvent (0 <= withdrawn, sent; withdrawn+sent <= initially locked); what a withdrawal pays is exactly the decrease of the pools' locked sum; a rejected message leaves the state untouched (deliver). The backing identity (module balance = sum of locked) over whole histories is carried by the correspondence runs (model pools, balances and invariant verdicts vs the real keeper after every message) and by the three registered invariants evaluated on the real state; a monitor also flags handlers that fail after writing pools or balances (pre-rollback).",
   note=NOTE, technique="Lean 4 lemmas on pool solvency / rollback + differential correspondence + registered-invariant monitors on the Go keeper"),
 "C06": dict(
   text="Theorems (C4E/Props/C06.lean): nothing is withdrawable before lock end, everything at/after it (boundary included); two withdrawals pay together exactly what one at the later time pays, a repeated withdrawal of a matured pool pays zero; the query reports the function the withdrawal pays from. Correspondence compares paid amount, pools and balances exactly; a monitor on the real code checks owner balance delta = response = same-block pool query.",
   note=NOTE, technique="Lean 4 theorems on the time-lock function + exact differential comparison + query/withdraw monitor on the Go keeper"),
 "C07": dict(
   text="Theorem unlock_exact (C4E/Props/C07.lean, kernel-checked with three non-linear integer lemmas): for every original vesting >= 1, every 18-digit vesting scalar in [0,1) and every 1 <= u <= still-vesting, the repaired split arithmetic lowers the sender's still-vesting coins by exactly u and never makes the original vesting negative; orig_over_releases is a decide-checked witness that the unchanged arithmetic released u+1. Correspondence compares account records and balances after split/move exactly; monitors on the real state check sender locked delta, spendable unchanged, recipient locked/schedule, later-time drift bound and splittability.",
   note=NOTE, technique="Lean 4 proof of the split arithmetic (nlinarith, all amounts and times) + exact differential comparison + exactness monitors on the Go keeper"),
 "C08": dict(
   text="Theorems (C4E/Props/C08.lean): the vesting part computed by the pool send equals floor(amount*(1-free)) exactly for every amount >= 0 and free in [0,1], lies in [0, amount], is amount for free=0 and 0 for free=1; start is max(lockEnd, now). Account records, balances and pool counters after send / direct creation are compared exactly with the real keeper.",
   note=NOTE, technique="Lean 4 theorems on the vesting-part formula + exact differential comparison against the Go keeper"),
 "C09": dict(
   text="Theorems (C4E/Props/C09.lean): the two primitives that write account records in the vesting handlers never touch another address's record, and direct creation, pool send and split/move reject an existing recipient before anything is written. The full statement over deliver stays visible (existing_untouched_full). On the real chain state a monitor compares the JSON auth record of every pre-existing address before and after every message (only the sender's original vesting may change in a successful split/move).",
   note=NOTE, technique="Lean 4 lemmas on account-record writes + byte-level auth-record monitor on the Go keeper over all target-address states"),
 "C17": dict(
   text="Theorems (C4E/Props/C17.lean): the trace written for a split/move recipient is genesis-derived exactly when the sender's is, for a pool-send recipient exactly when the pool is a genesis pool, and this is preserved along chains of any depth; summary shape (total = pools + accounts, delegated = vesting - locked). Traces and both summary queries are compared exactly with the real keeper, and a monitor recomputes the summaries from bank and auth state.",
   note=NOTE, technique="Lean 4 lineage lemmas (induction over chain depth) + exact differential comparison + recomputation monitor"),
 "C18": dict(
   text="Theorems (C4E/Props/C18.lean): withdrawal events (one per paying pool, carrying that pool's amount) add up to the coins paid; no event for a pool that paid nothing. Mint, Distribution/Burn and WithdrawAvailable event payloads of the real code are compared exactly with the model's, and monitors check mint event = supply delta and withdrawal events sum = owner balance delta.",
   note=NOTE, technique="Lean 4 theorem on event sums + exact differential comparison of typed event payloads"),
 "C19": dict(
   text="Theorems (C4E/Props/C19.lean): inflation is zero before start, for no-minting and for an ended exponential period; for a linear period inflation*supply brackets amount*year/period within the two integer truncations; the exponential rate uses the same per-step amount as the minting function. The Inflation query and the Mint event's inflation are compared exactly with the model.",
   note=NOTE, technique="Lean 4 theorems on the inflation formula + exact differential comparison against the Go keeper"),
}
NA_REASON = {}
