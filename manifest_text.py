NOTE = ("Trusted: Lean 4.33 kernel (axioms propext, Classical.choice, Quot.sound only, audited per theorem on every run); "
        "the hand-written Lean model is tied to /repo only by the correspondence check (Go harness executing the real keepers "
        "+ Lean driver on the same op lines, projected outputs diffed) — a divergence on an input the generators never produce is not seen; "
        "cosmos-sdk Dec/Int/Coins/bank/auth semantics are modelled, not verified; 315-bit Dec overflow and Duration saturation not modelled.")
TEXT = {
 "C02": dict(
   text="Theorems over the Lean model of Keeper.mint / AmountToMint (C4E/Props/C02.lean): remainder-carry identity; path independence, non-negativity and linear exactness as far as proved (see evidence.theorems). The model is re-validated against the real keeper on every run (per-block amount, minter state, history) and metamorphic monitors (single-jump vs. many blocks, linear exactness, non-negative blocks) run on the real code.",
   note=NOTE, technique="Lean 4 theorems over an executable model + differential correspondence check against the Go keeper"),
 "C03": dict(
   text="Theorem books_after_block (C4E/Props/C03.lean, from C4E/Distr1.lean): for the single-denomination core of the repaired BeginBlocker, every configuration meeting the distilled validation facts, every inflow and every pattern of failing bank calls leaves all recorded remains non-negative and summing exactly to the main balance. The faithful multi-denomination model (C4E/Distributor.lean) is re-validated against the real keeper on every run (states, main balance, invariant verdicts), and the two registered invariants plus an independent recomputation of the books are evaluated on the real state after every block. The multi-denomination lift is by correspondence, not proved (books_step_full stays visible).",
   note=NOTE, technique="Lean 4 invariant proof (all configs / inflows / fault patterns, per denomination) + differential correspondence + invariant monitors on the Go keeper"),
 "C04": dict(
   text="Theorems (C4E/Props/C04.lean): the whole inflow of a sub-distributor execution is allocated (states + MAIN) with nothing negative; each share is the 18-digit truncation of share x inflow (never above, less than 1e-18 below). Exact per-destination amounts of the faithful model are compared with the real keeper on every run (states, balances, burned coins: any difference is a failing input), and source-order independence is checked metamorphically on the real code.",
   note=NOTE, technique="Lean 4 theorems on share allocation + exact differential comparison against the Go keeper + metamorphic source-order monitor"),
 "C14": dict(
   text="Theorem books_under_faults (C4E/Props/C14.lean): the C03 identity holds after every block for every pattern of failing sweeps, payouts and burns; a failed payout stores the state unchanged; a failed sweep leaves the source untouched. On the real keeper a fault-injecting bank wrapper fails chosen calls; invariants are evaluated after every block and final balances are compared with a fault-free twin run (<= 1 base unit). Known finding D25 (source shared by two sub-distributors) is reported as KNOWN-FINDING.",
   note=NOTE, technique="Lean 4 invariant proof over arbitrary fault oracles + fault-injection differential runs and fault-free twin comparison on the Go keeper"),
}
NA_REASON = {}
