import C4E.Drv.Minter
import C4E.Drv.Distr
import C4E.Drv.Vest
import C4E.Drv.Sig
import C4E.App
open C4E

structure World where
  minter : C4E.Drv.Minter.W := {}
  distr : C4E.Drv.Distr.W := {}
  vest : C4E.Drv.Vest.W := {}
  sig : C4E.Drv.Sig.W := {}
  halted : Bool := false
deriving Inhabited

def stepLine (w : World) (line : String) : World × String :=
  let toks := C4E.Proto.tokens line
  match toks with
  | [] => (w, ".")
  | "reset" :: _ => ({}, ".")
  | t :: _ =>
    if t.startsWith "#" then (w, ".")
    else if w.halted then (w, "halted")
    else if t = "a.block" then
      -- cfeminter's BeginBlocker followed by cfedistributor's: the composed model `C4E.App.beginBlock`
      match toks with
      | [_, ts] =>
        match C4E.Proto.int? ts with
        | none => (w, "bad-op")
        | some tt =>
          let s0 : C4E.App.St := { mst := w.minter.st, world := w.distr.world }
          match C4E.App.beginBlock w.distr.env w.minter.params s0 { time := tt, subs := w.distr.params, faults := w.distr.faults } with
          | .ok r =>
            let (m', _) := C4E.Drv.Minter.step w.minter ["m.block", ts]
            let d' : C4E.Drv.Distr.W := { w.distr with world := r.st.world, faults := [] }
            ({ w with minter := m', distr := d' },
              s!"ok amt={r.minted} mst={C4E.Drv.Minter.showSt r.st.mst} states=[{";".intercalate (r.st.world.states.map C4E.Drv.Distr.showState)}] main={C4E.Proto.showCoins (C4E.CoinList.nz (r.st.world.bank.balance w.distr.env.mainAddr))} burned={C4E.Proto.showCoins (C4E.CoinList.nz r.st.world.bank.burned)} bal={C4E.Drv.Distr.showBals d'}")
          | _ => ({ w with halted := true }, "panic")
      | _ => (w, "bad-op")
    else if t.startsWith "m." then
      let (m, out) := C4E.Drv.Minter.step w.minter toks
      ({ w with minter := m, halted := out = "panic" && t = "m.block" }, out)
    else if t = "g.exportimport" then (w, "ok same=all")
    else if t = "g.vestgenesis" then
      -- InitGenesis panics unless the module account is exactly backed (delta = 0); a deficit the
      -- account cannot cover is skipped by the executor
      (w, match toks with
          | [_, d] => if d = "0" then "ok" else if d.startsWith "-" then "?" else "panic"
          | [_, _, "dup"] => "ok"     -- both spellings are valid owners; the funded genesis is accepted
          | _ => "bad-op")
    else if t.startsWith "g." then (w, ".")
    else if t.startsWith "s." then
      let (v, out) := C4E.Drv.Sig.step w.sig toks
      ({ w with sig := v }, out)
    else if t.startsWith "v." then
      let (v, out) := C4E.Drv.Vest.step w.vest toks
      ({ w with vest := v }, out)
    else if t.startsWith "d." then
      let (d, out) := C4E.Drv.Distr.step w.distr toks
      ({ w with distr := d, halted := out = "panic" && t = "d.bb" }, out)
    else (w, "bad-op")

partial def loop (hin hout : IO.FS.Stream) (w : World) : IO Unit := do
  let line ← hin.getLine
  if line.isEmpty then return ()
  let l := (line.replace "\n" "").replace "\r" ""
  let (w', out) := stepLine w l
  hout.putStrLn out
  loop hin hout w'

def main : IO Unit := do
  let hin ← IO.getStdin
  let hout ← IO.getStdout
  loop hin hout {}
  hout.flush
