import C4E.Basic
import C4E.Dec
import C4E.Denom
import C4E.Proto
import C4E.Minter
import C4E.Drv.Minter
