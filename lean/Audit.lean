/-
  Audit: prints, as JSON lines, every theorem whose name starts with the namespace given in the
  environment variable C4E_NS (e.g. C4E.Props.C02) together with the axioms it depends on.
  Run: C4E_NS=C4E.Props.C02 lake env lean Audit.lean
-/
import Lean
import C4E.Props.All
open Lean Elab Command

def strToName (s : String) : Name :=
  (s.splitOn ".").foldl (fun n p => Name.mkStr n p) Name.anonymous

run_cmd do
  let some nsStr ← (IO.getEnv "C4E_NS" : IO _) | throwError "C4E_NS not set"
  let nss := (nsStr.splitOn ",").map strToName
  let env ← getEnv
  let mut names : Array Name := #[]
  for (n, ci) in env.constants.map₁.toList do
    if nss.any (fun ns => ns.isPrefixOf n) && !n.isInternal then
      match ci with
      | .thmInfo _ => names := names.push n
      | _ => pure ()
  let sorted := names.qsort (fun a b => a.toString < b.toString)
  for n in sorted do
    let axs ← collectAxioms n
    let axl := axs.toList.map (fun a => "\"" ++ a.toString ++ "\"")
    IO.println ("{\"theorem\": \"" ++ n.toString ++ "\", \"axioms\": [" ++ ", ".intercalate axl ++ "]}")
