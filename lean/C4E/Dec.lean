/-
  C4E.Dec — cosmos-sdk v0.46.10 `sdk.Dec` (18-digit fixed point on big.Int) and `sdk.Int`
  arithmetic, modelled on unbounded `Int`.  A `Dec` value `d` is represented by the integer
  `d.i` (value × 10^18), exactly like the Go struct.  Every function mirrors the Go function named
  in its comment (types/decimal.go).  The 315-bit overflow panics of `Dec` are NOT modelled
  (DESIGN §8).
-/
import C4E.Basic
namespace C4E

/-- precisionReuse = 10^18 -/
def P : Int := 1000000000000000000

theorem P_pos : 0 < P := by unfold P; omega

namespace Dec

/-- `chopPrecisionAndRound` for a non-negative argument: quotient by 10^18, banker's rounding. -/
def roundNonneg (d : Int) : Int :=
  let q := d / P
  let r := d % P
  if r = 0 then q
  else if 2 * r < P then q
  else if 2 * r > P then q + 1
  else if q % 2 = 0 then q else q + 1

/-- `chopPrecisionAndRound` -/
def chopRound (d : Int) : Int :=
  if d < 0 then - roundNonneg (-d) else roundNonneg d

/-- `chopPrecisionAndTruncate` (big.Int.Quo truncates toward zero) -/
def chopTrunc (d : Int) : Int := d.tdiv P

/-- `NewDecFromInt` -/
def ofInt (n : Int) : Int := n * P
/-- `Dec.Mul` -/
def mul (a b : Int) : Int := chopRound (a * b)
/-- `Dec.MulTruncate` -/
def mulTrunc (a b : Int) : Int := chopTrunc (a * b)
/-- `Dec.MulInt` / `Dec.MulInt64` -/
def mulInt (a n : Int) : Int := a * n
/-- `Dec.Quo` (panics on zero divisor in Go; callers guard) -/
def quo (a b : Int) : Int := chopRound ((a * P * P).tdiv b)
/-- `Dec.QuoTruncate` -/
def quoTrunc (a b : Int) : Int := chopTrunc ((a * P * P).tdiv b)
/-- `Dec.QuoInt` / `Dec.QuoInt64` -/
def quoInt (a n : Int) : Int := a.tdiv n
/-- `Dec.TruncateInt` -/
def truncInt (a : Int) : Int := a.tdiv P
/-- `Dec.TruncateDec` -/
def truncDec (a : Int) : Int := (a.tdiv P) * P
/-- `Dec.RoundInt` -/
def roundInt (a : Int) : Int := chopRound a
/-- fractional part `d - d.TruncateDec()` -/
def frac (a : Int) : Int := a - truncDec a

/-! ### basic lemmas (non-negative arguments: `tdiv` = floor division) -/

theorem truncInt_nonneg_eq {d : Int} (h : 0 ≤ d) : truncInt d = d / P := by
  unfold truncInt; exact Int.tdiv_eq_ediv_of_nonneg h

theorem frac_nonneg_eq {d : Int} (h : 0 ≤ d) : frac d = d % P := by
  unfold frac truncDec; rw [Int.tdiv_eq_ediv_of_nonneg h]
  have := Int.emod_add_mul_ediv d P
  unfold P at *; omega

theorem frac_bounds {d : Int} (h : 0 ≤ d) : 0 ≤ frac d ∧ frac d < P := by
  rw [frac_nonneg_eq h]
  exact ⟨Int.emod_nonneg _ (by unfold P; omega), Int.emod_lt_of_pos _ P_pos⟩

theorem truncInt_nonneg {d : Int} (h : 0 ≤ d) : 0 ≤ truncInt d := by
  rw [truncInt_nonneg_eq h]; exact Int.ediv_nonneg h (Int.le_of_lt P_pos)

theorem truncInt_mono {a b : Int} (ha : 0 ≤ a) (hab : a ≤ b) : truncInt a ≤ truncInt b := by
  rw [truncInt_nonneg_eq ha, truncInt_nonneg_eq (by omega)]
  exact Int.ediv_le_ediv P_pos hab

theorem truncInt_small {r : Int} (h0 : 0 ≤ r) (h1 : r < P) : truncInt r = 0 := by
  rw [truncInt_nonneg_eq h0]; exact Int.ediv_eq_zero_of_lt h0 h1

theorem truncInt_ofInt (n : Int) : truncInt (ofInt n) = n := by
  unfold truncInt ofInt; exact Int.mul_tdiv_cancel _ (by unfold P; omega)

theorem truncInt_ofInt_add {n r : Int} (hn : 0 ≤ n) (h0 : 0 ≤ r) (h1 : r < P) :
    truncInt (ofInt n + r) = n := by
  have hnn : 0 ≤ ofInt n + r := by
    unfold ofInt; have := Int.mul_nonneg hn (Int.le_of_lt P_pos); omega
  rw [truncInt_nonneg_eq hnn]; unfold ofInt
  rw [Int.add_comm, Int.add_mul_ediv_right _ _ (by unfold P; omega), Int.ediv_eq_zero_of_lt h0 h1]
  omega

/-- the remainder-carry identity behind C02: truncating, carrying the fraction, truncating again
    is the same as truncating the sum once. -/
theorem carry (x y r : Int) (hx : 0 ≤ x) (hy : 0 ≤ y) (hr : 0 ≤ r) :
    truncInt (x + r) + truncInt (y + frac (x + r)) = truncInt (x + y + r) := by
  have h1 : 0 ≤ x + r := by omega
  have hf : frac (x + r) = (x + r) % P := frac_nonneg_eq h1
  have hf0 : 0 ≤ (x + r) % P := Int.emod_nonneg _ (by unfold P; omega)
  rw [hf, truncInt_nonneg_eq h1, truncInt_nonneg_eq (by omega), truncInt_nonneg_eq (by omega)]
  unfold P at *
  omega

/-- decomposition `d = trunc(d)·P + frac(d)` -/
theorem trunc_add_frac (d : Int) : ofInt (truncInt d) + frac d = d := by
  unfold ofInt truncInt frac truncDec; omega

/-! ### rounding bounds: `|2P·round(x) − 2x| ≤ P` -/

theorem roundNonneg_bounds {d : Int} (_h : 0 ≤ d) :
    2 * P * roundNonneg d ≤ 2 * d + P ∧ 2 * d - P ≤ 2 * P * roundNonneg d := by
  have hdm := Int.emod_add_mul_ediv d P
  have hr0 : 0 ≤ d % P := Int.emod_nonneg _ (by unfold P; omega)
  have hr1 : d % P < P := Int.emod_lt_of_pos _ P_pos
  unfold roundNonneg
  simp only []
  generalize d / P = q at *
  generalize d % P = r at *
  have hPq : P * q = d - r := by omega
  split
  · constructor <;> (rw [Int.mul_assoc, hPq]; unfold P at *; omega)
  · split
    · constructor <;> (rw [Int.mul_assoc, hPq]; unfold P at *; omega)
    · split
      · have : 2 * P * (q + 1) = 2 * (d - r) + 2 * P := by
          rw [Int.mul_assoc, Int.mul_add, hPq]; omega
        constructor <;> (rw [this]; unfold P at *; omega)
      · split
        · constructor <;> (rw [Int.mul_assoc, hPq]; unfold P at *; omega)
        · have : 2 * P * (q + 1) = 2 * (d - r) + 2 * P := by
            rw [Int.mul_assoc, Int.mul_add, hPq]; omega
          constructor <;> (rw [this]; unfold P at *; omega)

theorem chopRound_bounds (d : Int) :
    2 * P * chopRound d ≤ 2 * d + P ∧ 2 * d - P ≤ 2 * P * chopRound d := by
  unfold chopRound
  split
  · have := roundNonneg_bounds (d := -d) (by omega)
    rw [Int.mul_neg]; omega
  · exact roundNonneg_bounds (by omega)

theorem roundNonneg_nonneg {d : Int} (h : 0 ≤ d) : 0 ≤ roundNonneg d := by
  have hq : 0 ≤ d / P := Int.ediv_nonneg h (Int.le_of_lt P_pos)
  unfold roundNonneg; simp only []
  repeat' split
  all_goals omega

theorem chopRound_nonneg {d : Int} (h : 0 ≤ d) : 0 ≤ chopRound d := by
  unfold chopRound; rw [if_neg (by omega)]; exact roundNonneg_nonneg h

theorem roundNonneg_mono {a b : Int} (_ha : 0 ≤ a) (hab : a ≤ b) : roundNonneg a ≤ roundNonneg b := by
  have hqa := Int.emod_add_mul_ediv a P
  have hqb := Int.emod_add_mul_ediv b P
  have ha0 : 0 ≤ a % P := Int.emod_nonneg _ (by unfold P; omega)
  have ha1 : a % P < P := Int.emod_lt_of_pos _ P_pos
  have hb0 : 0 ≤ b % P := Int.emod_nonneg _ (by unfold P; omega)
  have hb1 : b % P < P := Int.emod_lt_of_pos _ P_pos
  have hq : a / P ≤ b / P := Int.ediv_le_ediv P_pos hab
  unfold roundNonneg; simp only []
  generalize a / P = qa at *
  generalize b / P = qb at *
  generalize a % P = ra at *
  generalize b % P = rb at *
  by_cases hqq : qa = qb
  · subst hqq
    have hr : ra ≤ rb := by omega
    repeat' split
    all_goals (unfold P at *; omega)
  · have hlt : qa + 1 ≤ qb := by omega
    repeat' split
    all_goals omega

end Dec
end C4E
