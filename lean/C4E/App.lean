/-
  C4E.App — the custom modules' part of `BeginBlock` as one step: cfeminter first, cfedistributor
  second (`app.go` SetOrderBeginBlockers; regenerated tie fact `minterBeforeDistributor`).  The
  minter's `MintCoins` + `SendMintedCoins` put the minted coins of the mint denomination on the
  distributor's main account (`collectorName`), which is what the distributor then distributes.
-/
import C4E.Minter
import C4E.Distributor
namespace C4E.App
open C4E C4E.CoinList

/-- `MintCoins(cfeminter, coins)` + `SendMintedCoins`: `sdk.NewCoins` drops a zero coin and an empty
    coin set is skipped, otherwise the amount is added to the main account's balance -/
def creditMain (e : Distr.Env) (b : Distr.Bank) (denom : String) (amt : Int) : Distr.Bank :=
  if amt = 0 then b
  else { b with bal := b.bal.set e.mainAddr (CoinList.add (b.balance e.mainAddr) [(denom, amt)]) }

/-- what varies from block to block: the block time, the distributor configuration in force and the
    bank calls that fail -/
structure Block where
  time : Int
  subs : List Distr.SubD
  faults : List Nat

structure St where
  mst : Minter.St
  world : Distr.World

structure StepRes where
  st : St
  minted : Int
  events : List Distr.Event

/-- one `BeginBlock` of the two modules (a minter error is a panic of `BeginBlocker`) -/
def beginBlock (e : Distr.Env) (p : Minter.Params) (s : St) (b : Block) : Outcome StepRes :=
  match Minter.beginBlock p s.mst b.time with
  | .ok r =>
    match Distr.beginBlock e b.subs { s.world with bank := creditMain e s.world.bank p.denom r.amount } b.faults with
    | .ok br => .ok { st := { mst := r.st, world := br.world }, minted := r.amount, events := br.events }
    | .err => .err
    | .panic => .panic
  | .err => .err
  | .panic => .panic

/-- a run of blocks under fixed minter parameters -/
def run (e : Distr.Env) (p : Minter.Params) : St → List Block → Outcome St
  | s, [] => .ok s
  | s, b :: rest =>
    match beginBlock e p s b with
    | .ok r => run e p r.st rest
    | .err => .err
    | .panic => .panic

end C4E.App
