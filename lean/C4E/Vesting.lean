/-
  C4E.Vesting — executable model of x/cfevesting (keeper/vesting.go, vesting_account_split.go,
  msg_server_*.go, grpc_query_*.go, invariants.go) together with the slice of x/auth
  (account records, ContinuousVestingAccount formulas) and x/bank (balances, locked coins,
  send) the handlers rely on.  Repaired behaviour: D1 (integer division in the split), D3
  (per-pool events), D11, D16, D20.  Times are Int nanoseconds; vesting-account start/end are
  Int seconds (`time.Unix()` = floor).
-/
import C4E.Coins
import C4E.Denom
namespace C4E.Vest
open C4E C4E.CoinList

def unixSec (t : Int) : Int := t / 1000000000

/-! ## auth / bank slice -/

inductive AcctKind where
  | base
  | cva
  | module
  | dva      -- DelayedVestingAccount: everything locked until the end time
deriving Repr, DecidableEq, Inhabited

/-- account record; `ident` stands for (account number, sequence, public key) of the embedded
    BaseAccount — compared as a whole by C09 -/
structure Acct where
  kind : AcctKind
  num : Nat
  ident : String := "0/-"       -- "sequence/pubkey" as an opaque token
  ov : Coins := []              -- OriginalVesting
  startS : Int := 0
  endS : Int := 0
  dv : Coins := []              -- DelegatedVesting
  df : Coins := []              -- DelegatedFree
deriving Repr, DecidableEq, Inhabited

/-- `ContinuousVestingAccount.GetVestedCoins` -/
def vestedCoins (a : Acct) (t : Int) : Coins :=
  let u := unixSec t
  if u ≤ a.startS then []
  else if u ≥ a.endS then a.ov
  else
    let s := Dec.quo (Dec.ofInt (u - a.startS)) (Dec.ofInt (a.endS - a.startS))
    a.ov.map (fun kv => (kv.1, Dec.roundInt (Dec.mul (Dec.ofInt kv.2) s)))

/-- `Coins.Sub`-style subtraction dropping zero results; none = panic (negative) -/
def coinsSub? (a b : Coins) : Option Coins := CoinList.sub? a b

def coinsMin (a b : Coins) : Coins :=
  nz (a.map (fun kv => (kv.1, if amountOf b kv.1 < kv.2 then amountOf b kv.1 else kv.2)))

/-- `GetVestingCoins` (none = panic in Coins.Sub) -/
def vestingCoins (a : Acct) (t : Int) : Option Coins := coinsSub? (nz a.ov) (nz (vestedCoins a t))

/-- `LockedCoins` for a continuous vesting account -/
def lockedCoinsCva (a : Acct) (t : Int) : Option Coins :=
  match vestingCoins a t with
  | none => none
  | some v => coinsSub? v (coinsMin v a.dv)

/-- `Coins.IsValid` : sorted strictly, positive amounts, valid denoms (empty is valid) -/
def coinsValid : Coins → Bool
  | [] => true
  | [(d, v)] => validDenom d && v > 0
  | (d1, v1) :: (d2, v2) :: rest => validDenom d1 && v1 > 0 && d1 < d2 && coinsValid ((d2, v2) :: rest)

structure VType where
  name : String
  lockup : Int
  vesting : Int
  free : Int
deriving Repr, DecidableEq, Inhabited

structure Pool where
  name : String
  vtype : String
  lockStart : Int
  lockEnd : Int
  initially : Int
  withdrawn : Int
  sent : Int
  genesisPool : Bool := false
deriving Repr, DecidableEq, Inhabited

def Pool.locked (p : Pool) : Int := p.initially - p.sent - p.withdrawn

structure Trace where
  id : Nat
  address : String
  genesis : Bool
  fromGenesisPool : Bool
  fromGenesisAccount : Bool
deriving Repr, DecidableEq, Inhabited

def Trace.isGenesisOrFromGenesis (t : Trace) : Bool := t.genesis || t.fromGenesisPool || t.fromGenesisAccount

structure State where
  denom : String := "uc4e"
  vtypes : List VType := []
  pools : AList (List Pool) := []      -- owner ↦ pools, in store (owner-key) order
  traces : AList Trace := []           -- address ↦ trace
  traceCount : Nat := 0
  accts : AList Acct := []
  bal : AList Coins := []
  blocked : List String := []
  modAddr : String := ""               -- address of the cfevesting module account
  nextNum : Nat := 0
  now : Int := 0
deriving Repr, Inhabited

def State.balance (s : State) (a : String) : Coins := (s.bal.get? a).getD []

/-- bank `LockedCoins(addr)`; none = panic -/
def State.locked (s : State) (a : String) : Option Coins :=
  match s.accts.get? a with
  | some acc =>
    if acc.kind = .cva then lockedCoinsCva acc s.now
    else if acc.kind = .dva then
      -- `DelayedVestingAccount.LockedCoins`: original vesting until the end time, less delegated vesting
      let vesting := if unixSec s.now ≥ acc.endS then [] else nz acc.ov
      coinsSub? vesting (coinsMin vesting acc.dv)
    else some []
  | none => some []

/-- effect of a successful `SendCoins`: balances move; an absent recipient gets a base account -/
def State.applySend (s : State) (src dst : String) (c : Coins) : State :=
  let b1 := s.bal.set src (CoinList.add (s.balance src) (neg c))
  let b2 := b1.set dst (CoinList.add ((b1.get? dst).getD []) c)
  { s with bal := b2,
           accts := if (s.accts.get? dst).isSome then s.accts else s.accts.set dst { kind := .base, num := s.nextNum },
           nextNum := if (s.accts.get? dst).isSome then s.nextNum else s.nextNum + 1 }

/-- `subUnlockedCoins` + `addCoins` + account creation of `SendCoins` -/
def State.send (s : State) (src dst : String) (c : Coins) : Outcome State :=
  if !coinsValid c then .err else
  match s.locked src with
  | none => .panic
  | some lk =>
    -- per coin: spendable = balance − locked (Coin.Sub panics when negative)
    if c.any (fun kv => amountOf (s.balance src) kv.1 - amountOf lk kv.1 < 0) then .panic else
    if c.any (fun kv => amountOf (s.balance src) kv.1 - amountOf lk kv.1 < kv.2) then .err else
    .ok (s.applySend src dst c)

/-- `SendCoinsFromModuleToAccount(cfevesting, dst, c)` -/
def State.sendFromModule (s : State) (dst : String) (c : Coins) : Outcome State :=
  if s.blocked.contains dst then .err else s.send s.modAddr dst c

def sortPools (m : AList (List Pool)) : AList (List Pool) := sortBy (fun a b => a.1 < b.1) m

def State.setPools (s : State) (owner : String) (ps : List Pool) : State :=
  { s with pools := sortPools (s.pools.set owner ps) }

def State.appendTrace (s : State) (addr : String) (fromPool fromAcc : Bool) : State :=
  { s with traces := sortBy (fun a b => a.1 < b.1)
             (s.traces.set addr { id := s.traceCount, address := addr, genesis := false,
                                  fromGenesisPool := fromPool, fromGenesisAccount := fromAcc }),
           traceCount := s.traceCount + 1 }

/-! ## messages -/

/-- address token: the string and the SDK's bech32 verdict -/
structure Addr where
  s : String
  ok : Bool
deriving Repr, DecidableEq, Inhabited

inductive Msg where
  | createPool (owner : Addr) (name : String) (amount : Option Int) (duration : Int) (vtype : String)
  | withdraw (owner : Addr)
  | send (owner to : Addr) (pool : String) (amount : Option Int) (restart : Bool)
  | createVA (src to : Addr) (amount : Option (List (String × Option Int))) (startS endS : Int)
  | split (src to : Addr) (amount : Option (List (String × Option Int)))
  | move (src to : Addr)
  | moveDenoms (src to : Addr) (denoms : List String)
deriving Repr, Inhabited

inductive Ev where
  | withdraw (owner pool : String) (amount : Int)
  | newFromPool (owner to pool : String) (amount : Int) (restart : Bool)
deriving Repr, DecidableEq, Inhabited

structure Res where
  st : State
  evs : List Ev := []
  paid : Int := 0
deriving Inhabited

def anyNil (c : List (String × Option Int)) : Bool := c.any (·.2.isNone)
def unopt (c : List (String × Option Int)) : Coins := c.map (fun kv => (kv.1, kv.2.getD 0))

/-- ValidateBasic of each message (ok = true) -/
def validateBasic : Msg → Bool
  | .createPool owner name amount duration _ =>
    name ≠ "" && (match amount with | none => false | some a => !(a < 0)) && !(duration ≤ 0) && owner.ok
  | .withdraw owner => owner.ok
  | .send owner to pool amount _ =>
    pool ≠ "" && (match amount with | none => false | some a => !(a < 0)) && owner.s ≠ to.s && owner.ok && to.ok
  | .createVA src to amount startS endS =>
    (match amount with
     | none => false
     | some c => !anyNil c && !(unopt c).any (·.2 < 0)) && src.s ≠ to.s && !(startS > endS) &&
      -- D37 repair: the vesting span must fit into int64 (the SDK computes EndTime - StartTime in int64)
      !(endS - startS > 9223372036854775807) && src.ok && to.ok
  | .split src to amount =>
    (match amount with
     | none => false
     | some c => !anyNil c && coinsValid (unopt c)) && src.ok && to.ok
  | .move src to => src.ok && to.ok
  | .moveDenoms src to denoms =>
    src.ok && to.ok && denoms.length ≠ 0 && denoms.all (fun d => d.length ≠ 0 && validDenom d) &&
    denoms.eraseDups.length = denoms.length

/-- `CalculateWithdrawable` -/
def withdrawable (now : Int) (p : Pool) : Int := if now ≥ p.lockEnd then p.locked else 0

/-- `Keeper.WithdrawAllAvailable` -/
def withdrawAll (s : State) (owner : Addr) : Outcome Res :=
  if !owner.ok then .err else
  match s.pools.get? owner.s with
  | none => .err
  | some ps =>
    if ps.length = 0 then .err else
    let ps' := ps.map (fun p => { p with withdrawn := p.withdrawn + withdrawable s.now p })
    let total := sumInts (ps.map (withdrawable s.now))
    let evs := ps.filterMap (fun p => if withdrawable s.now p > 0 then some (Ev.withdraw owner.s p.name (withdrawable s.now p)) else none)
    let sent : Outcome State :=
      if total > 0 then
        if !validDenom s.denom then .panic else s.sendFromModule owner.s [(s.denom, total)]
      else .ok s
    match sent with
    | .ok s1 =>
      if !validDenom s.denom then .panic else   -- result := sdk.NewCoin(denom, toWithdraw)
      .ok { st := s1.setPools owner.s ps', evs := evs, paid := total }
    | .err => .err
    | .panic => .panic

/-- `newContinuousVestingAccount` -/
def newCva (s : State) (to : String) (ov : Coins) (startS endS : Int) : State :=
  { s with accts := s.accts.set to { kind := .cva, num := s.nextNum, ov := ov, startS := startS, endS := endS },
           nextNum := s.nextNum + 1 }

/-- `Keeper.newVestingAccount` -/
def newVestingAccount (s : State) (to : String) (amount free lockEnd vestingEnd : Int) : Outcome State :=
  if !validDenom s.denom || amount < 0 then .panic else       -- sdk.NewCoin
  if s.blocked.contains to then .err else
  if (s.accts.get? to).isSome then .err else
  let ovAmt := Dec.truncInt (Dec.ofInt amount - Dec.mul (Dec.ofInt amount) free)
  if ovAmt < 0 then .panic else
  let start := if lockEnd < s.now then s.now else lockEnd
  let s1 := newCva s to (nz [(s.denom, ovAmt)]) (unixSec start) (unixSec vestingEnd)
  match s1.sendFromModule to (nz [(s.denom, amount)]) with
  | .ok s2 => .ok s2
  | .err => .err
  | .panic => .panic

/-- the LAST pool named `name` (the Go loop overwrites its pointer on every match) -/
def lastNamed (name : String) : List Pool → Option Pool
  | [] => none
  | p :: ps =>
    match lastNamed name ps with
    | some q => some q
    | none => if p.name = name then some p else none

/-- adds `amount` to `Sent` of the LAST pool named `name` (the Go loop keeps the last match);
    the flag says whether some pool was updated -/
def bumpLast (name : String) (amount : Int) : List Pool → List Pool × Bool
  | [] => ([], false)
  | p :: ps =>
    let r := bumpLast name amount ps
    if r.2 then (p :: r.1, true)
    else if p.name = name then ({ p with sent := p.sent + amount } :: r.1, true)
    else (p :: r.1, false)

/-- `Keeper.SendToNewVestingAccount` -/
def sendToNew (s : State) (owner to : Addr) (pool : String) (amount : Int) (restart : Bool) : Outcome Res :=
  if !(validateBasic (.send owner to pool (some amount) restart)) then .err else
  match withdrawAll s owner with
  | .err => .err
  | .panic => .panic
  | .ok w =>
    let s1 := w.st
    match s1.pools.get? owner.s with
    | none => .err
    | some ps =>
      if ps.length = 0 then .err else
      match lastNamed pool ps with
      | none => .err
      | some p =>
        if p.locked < amount then .err else
        match s1.vtypes.find? (·.name = p.vtype) with
        | none => .err
        | some vt =>
          let r := if restart then newVestingAccount s1 to.s amount vt.free (s1.now + vt.lockup) (s1.now + vt.lockup + vt.vesting)
                   else newVestingAccount s1 to.s amount vt.free p.lockEnd p.lockEnd
          match r with
          | .err => .err
          | .panic => .panic
          | .ok s2 =>
            -- the loop keeps the LAST pool with that name; `Sent` is added to that one
            let ps' := (bumpLast pool amount ps).1
            let s3 := (s2.setPools owner.s ps').appendTrace to.s p.genesisPool false
            .ok { st := s3, evs := w.evs ++ [Ev.newFromPool owner.s to.s pool amount restart], paid := w.paid }

/-- `Keeper.CreateVestingPool` / `addVestingPool` -/
def createPool (s : State) (owner : Addr) (name : String) (amount : Int) (duration : Int) (vtype : String) : Outcome Res :=
  if (s.vtypes.find? (·.name = vtype)).isNone then .err else
  if !(validateBasic (.createPool owner name (some amount) duration vtype)) then .err else
  if !validDenom s.denom then .panic else       -- GetBalance(denom) on an invalid denom / NewCoin
  if amountOf (s.balance owner.s) s.denom < amount then .err else
  let ps := (s.pools.get? owner.s).getD []
  if ps.any (·.name = name) then .err else
  let p : Pool := { name := name, vtype := vtype, lockStart := s.now, lockEnd := s.now + duration,
                    initially := amount, withdrawn := 0, sent := 0 }
  match s.send owner.s s.modAddr (nz [(s.denom, amount)]) with
  | .ok s1 => .ok { st := s1.setPools owner.s (ps ++ [p]) }
  | .err => .err
  | .panic => .panic

/-- `Keeper.CreateVestingAccount` -/
def createVA (s : State) (src to : Addr) (amount : List (String × Option Int)) (startS endS : Int) : Outcome Res :=
  if !(validateBasic (.createVA src to (some amount) startS endS)) then .err else
  let c := unopt amount
  if s.blocked.contains to.s then .err else
  if (s.accts.get? to.s).isSome then .err else
  -- `amount.Sort()` sorts the slice in place: the bank transfer below sees the sorted coins
  let s1 := newCva s to.s (sortBy (fun a b => a.1 < b.1) c) startS endS
  match s1.send src.s to.s (sortBy (fun a b => a.1 < b.1) c) with
  | .ok s2 => .ok { st := s2 }
  | .err => .err
  | .panic => .panic

/-- one iteration of the per-coin loop of `UnlockUnbondedContinuousVestingAccountCoins`;
    `acc` / `vc` are the account and its vesting coins as captured before the loop -/
def unlockStep (now : Int) (acc : Acct) (vc : Coins) (r : Outcome Acct) (kv : String × Int) : Outcome Acct :=
  match r with
  | .ok a =>
    if kv.2 > 0 then
      let vcd := amountOf vc kv.1
      if vcd = 0 then .panic else
      let diff := (kv.2 * amountOf acc.ov kv.1).tdiv vcd
      match coinsSub? a.ov [(kv.1, diff)] with
      | none => .panic
      | some ov1 =>
        match vestingCoins { a with ov := ov1 } now with
        | none => .panic
        | some vc1 =>
          if vcd - amountOf vc1 kv.1 < kv.2 then
            match coinsSub? ov1 [(kv.1, 1)] with
            | none => .panic
            | some ov2 => .ok { a with ov := ov2 }
          else .ok { a with ov := ov1 }
    else .ok a
  | .err => .err
  | .panic => .panic

/-- `UnlockUnbondedContinuousVestingAccountCoins` (D1 repaired: integer division) -/
def unlockUnbonded (s : State) (owner : String) (amt : Coins) : Outcome (State × Acct) :=
  if !coinsValid amt then .err else
  match s.accts.get? owner with
  | none => .err
  | some acc =>
    if acc.kind ≠ .cva then .err else
    match lockedCoinsCva acc s.now with
    | none => .panic
    | some locked =>
      if !(amt.all (fun kv => kv.2 ≤ amountOf locked kv.1)) then .err else
      match vestingCoins acc s.now with
      | none => .panic
      | some vc =>
        match amt.foldl (unlockStep s.now acc vc) (.ok acc) with
        | .ok a => .ok ({ s with accts := s.accts.set owner a }, a)
        | .err => .err
        | .panic => .panic

/-- `splitVestingCoins` -/
def splitCoins (s : State) (src to : String) (amount : Coins) : Outcome Res :=
  if amount.length = 0 then .err else
  if s.blocked.contains to then .err else
  if (s.accts.get? to).isSome then .err else
  match unlockUnbonded s src amount with
  | .err => .err
  | .panic => .panic
  | .ok (s1, vacc) =>
    let startS := if vacc.startS > unixSec s.now then vacc.startS else unixSec s.now
    let s2 := newCva s1 to (sortBy (fun a b => a.1 < b.1) amount) startS vacc.endS
    match s2.send src to amount with
    | .err => .err
    | .panic => .panic
    | .ok s3 =>
      match s3.traces.get? src with
      | some tr => .ok { st := s3.appendTrace to tr.fromGenesisPool (tr.genesis || tr.fromGenesisAccount) }
      | none => .ok { st := s3 }

/-- message handlers (msg server level, after ValidateBasic) -/
def handle (s : State) : Msg → Outcome Res
  | .createPool owner name amount duration vtype =>
    match amount with
    | none => .err
    | some a => createPool s owner name a duration vtype
  | .withdraw owner => withdrawAll s owner
  | .send owner to pool amount restart =>
    match amount with
    | none => .err
    | some a => sendToNew s owner to pool a restart
  | .createVA src to amount startS endS =>
    match amount with
    | none => .err
    | some c => if anyNil c then .err else createVA s src to c startS endS
  | .split src to amount =>
    match amount with
    | none => .err
    | some c =>
      if anyNil c then .err else
      if !(validateBasic (.split src to (some c))) then .err else
      splitCoins s src.s to.s (unopt c)
  | .move src to =>
    if !(src.ok && to.ok) then .err else
    match s.locked src.s with
    | none => .panic
    | some lk => splitCoins s src.s to.s lk
  | .moveDenoms src to denoms =>
    if !(validateBasic (.moveDenoms src to denoms)) then .err else
    match s.locked src.s with
    | none => .panic
    | some lk =>
      let amount := denoms.foldl (fun acc d =>
        if amountOf lk d > 0 then CoinList.add acc [(d, amountOf lk d)] else acc) []
      splitCoins s src.s to.s amount

/-- baseapp delivery: ValidateBasic, then the handler; state is kept only on success -/
def deliver (s : State) (m : Msg) : State × Outcome Res :=
  if !validateBasic m then (s, .err) else
  match handle s m with
  | .ok r => (r.st, .ok r)
  | .err => (s, .err)
  | .panic => (s, .panic)

/-- `MsgUpdateDenomParam` (ValidateBasic + handler): none = rejected, nothing changes -/
def updateDenom (s : State) (authOk : Bool) (d : String) : Option State :=
  if !authOk || d.length = 0 || !validDenom d then none
  else if s.pools.length > 0 then none
  else some { s with denom := d }

/-! ## queries -/

structure Summary where
  all : Int
  inPools : Int
  inAccounts : Int
  delegated : Int
deriving Repr, DecidableEq, Inhabited

/-- `createVestingsSummary` -/
def summary (s : State) (genesisOnly : Bool) : Option Summary :=
  let inPools :=
    if genesisOnly then
      sumInts (s.pools.map (fun kv => sumInts ((kv.2.filter (·.genesisPool)).map Pool.locked)))
    else amountOf (s.balance s.modAddr) s.denom
  let step (acc : Option (Int × Int)) (kv : String × Trace) : Option (Int × Int) :=
    match acc with
    | none => none
    | some (v, l) =>
      if genesisOnly && !kv.2.isGenesisOrFromGenesis then some (v, l) else
      match s.accts.get? kv.1 with
      | some a =>
        if a.kind = .cva then
          match vestingCoins a s.now, lockedCoinsCva a s.now with
          | some vc, some lk => some (v + amountOf vc s.denom, l + amountOf lk s.denom)
          | _, _ => none
        else some (v, l)
      | none => some (v, l)
  match s.traces.foldl step (some (0, 0)) with
  | none => none
  | some (v, l) => some { all := v + inPools, inPools := inPools, inAccounts := v, delegated := v - l }

/-! ## registered invariants -/

def invNonNegative (s : State) : Bool :=
  s.pools.all (fun kv => kv.2.all (fun p => !(p.withdrawn < 0) && !(p.sent < 0) && !(p.initially < 0)))
def invConsistent (s : State) : Bool :=
  s.pools.all (fun kv => kv.2.all (fun p => !(p.withdrawn + p.sent > p.initially)))
def lockedSum (s : State) : Int := sumInts (s.pools.map (fun kv => sumInts (kv.2.map Pool.locked)))
def invModuleAccount (s : State) : Bool := amountOf (s.balance s.modAddr) s.denom = lockedSum s

/-- bank `DelegateCoins` + `TrackDelegation` for one denom (used to set up delegated vesting) -/
def delegate (s : State) (addr : String) (denom : String) (amount : Int) (pool : String) : Outcome State :=
  if amount ≤ 0 || !validDenom denom then .err else
  if amountOf (s.balance addr) denom < amount then .err else
  match s.accts.get? addr with
  | none => .err
  | some a =>
    let bal := s.balance addr
    let b1 := s.bal.set addr (CoinList.add bal [(denom, -amount)])
    let b2 := b1.set pool (CoinList.add ((b1.get? pool).getD []) [(denom, amount)])
    if a.kind = .cva then
      match vestingCoins a s.now with
      | none => .panic
      | some vc =>
        if amount = 0 || amountOf bal denom < amount then .panic else
        let v := amountOf vc denom
        let dvd := amountOf a.dv denom
        let m := if v - dvd > 0 then v - dvd else 0
        let x := if m < amount then m else amount
        let y := amount - x
        let a1 := { a with dv := if x ≠ 0 then CoinList.add a.dv [(denom, x)] else a.dv,
                           df := if y ≠ 0 then CoinList.add a.df [(denom, y)] else a.df }
        .ok { s with bal := b2, accts := s.accts.set addr a1 }
    else .ok { s with bal := b2 }

end C4E.Vest
