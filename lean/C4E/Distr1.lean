/-
  C4E.Distr1 — single-denomination core of the distributor's BeginBlocker (repaired algorithm:
  MAIN source evaluated first, lookup by type+id, MAIN shares deducted) over plain integers
  (amounts are 10^18-scaled), with ARBITRARY patterns of failing bank calls, and the proof that
  the books are balanced after every block (C03 / C14a).  Core Lean only.
-/
import C4E.Dec
namespace C4E.Distr1
open C4E

inductive AT | main | module | base | internal
deriving DecidableEq, Repr

structure Acc where
  ty : AT
  id : String
deriving DecidableEq, Repr

structure Share where
  share : Int      -- scaled by P
  dest : Acc
deriving Repr

structure Sub where
  sources : List Acc
  primary : Acc
  burn : Int
  shares : List Share
deriving Repr

/-- a state: `none` account = burn state -/
structure St where
  acc : Option Acc
  rem : Int
deriving Repr

def sumRem : List St → Int
  | [] => 0
  | s :: rest => s.rem + sumRem rest

def allNonneg : List St → Prop
  | [] => True
  | s :: rest => 0 ≤ s.rem ∧ allNonneg rest

/-- add `x` to the state with key `k` (first match) or append a new one -/
def addTo : List St → Option Acc → Int → List St
  | [], k, x => [⟨k, x⟩]
  | s :: rest, k, x => if s.acc = k then ⟨s.acc, s.rem + x⟩ :: rest else s :: addTo rest k x

/-- take (and zero) the remains of the state with key `k` -/
def takeFrom : List St → Option Acc → Int × List St
  | [], _ => (0, [])
  | s :: rest, k => if s.acc = k then (s.rem, ⟨s.acc, 0⟩ :: rest)
                    else let r := takeFrom rest k; (r.1, s :: r.2)

theorem sumRem_addTo (l : List St) (k : Option Acc) (x : Int) : sumRem (addTo l k x) = sumRem l + x := by
  induction l with
  | nil => simp [addTo, sumRem]
  | cons s rest ih =>
    unfold addTo; split
    · simp only [sumRem]; omega
    · simp only [sumRem, ih]; omega

theorem nonneg_addTo (l : List St) (k : Option Acc) (x : Int) (h : allNonneg l) (hx : 0 ≤ x) :
    allNonneg (addTo l k x) := by
  induction l with
  | nil => simp [addTo, allNonneg, hx]
  | cons s rest ih =>
    obtain ⟨h1, h2⟩ := h
    unfold addTo; split
    · exact ⟨by show 0 ≤ s.rem + x; omega, h2⟩
    · exact ⟨h1, ih h2⟩

theorem takeFrom_spec (l : List St) (k : Option Acc) (h : allNonneg l) :
    sumRem (takeFrom l k).2 = sumRem l - (takeFrom l k).1 ∧ 0 ≤ (takeFrom l k).1 ∧ allNonneg (takeFrom l k).2 := by
  induction l with
  | nil => simp [takeFrom, sumRem, allNonneg]
  | cons s rest ih =>
    obtain ⟨h1, h2⟩ := h
    unfold takeFrom; split
    · refine ⟨by simp only [sumRem]; omega, h1, ⟨Int.le_refl 0, h2⟩⟩
    · obtain ⟨i1, i2, i3⟩ := ih h2
      refine ⟨by simp only [sumRem, i1]; omega, i2, ⟨h1, i3⟩⟩

/-- world: recorded states, main balance (Dec-scaled), balances of other real accounts -/
structure World where
  states : List St
  main : Int
  bal : Acc → Int

def U (w : World) : Int := w.main - sumRem w.states

/-- one non-main source: sweep its balance into main (unless the bank call fails) and re-queue its remains -/
def prepOne (fail : Bool) (w : World) (src : Acc) : Int × World :=
  let swept := if src.ty = AT.internal ∨ fail then 0 else w.bal src
  let w1 : World := if src.ty = AT.internal ∨ fail then w
                    else { w with main := w.main + w.bal src, bal := fun a => if a = src then 0 else w.bal a }
  let r := takeFrom w1.states (some src)
  (swept + r.1, { w1 with states := r.2 })

def prepOthers (fails : List Bool) : World → List Acc → Int × World
  | w, [] => (0, w)
  | w, src :: rest =>
    if src.ty = AT.main then prepOthers fails w rest
    else
      let r1 := prepOne (fails.headD false) w src
      let r2 := prepOthers fails.tail r1.2 rest
      (r1.1 + r2.1, r2.2)

def hasMain (l : List Acc) : Bool := l.any (fun a => a.ty = AT.main)

/-- repaired algorithm: the MAIN source is evaluated first -/
def prepare (fails : List Bool) (w : World) (sources : List Acc) : Int × World :=
  let x0 := if hasMain sources then U w else 0
  let r := prepOthers fails w sources
  (x0 + r.1, r.2)

def mulTrunc (x s : Int) : Int := (x * s) / P   -- x, s ≥ 0

/-- allocate named shares; returns (states, allocated to states, left in main) -/
def allocShares (x : Int) : List St → List Share → List St × Int × Int
  | sts, [] => (sts, 0, 0)
  | sts, sh :: rest =>
    let c := mulTrunc x sh.share
    if sh.dest.ty = AT.main then
      let r := allocShares x sts rest; (r.1, r.2.1, r.2.2 + c)
    else
      let r := allocShares x (if c = 0 then sts else addTo sts (some sh.dest) c) rest
      (r.1, r.2.1 + c, r.2.2)

def distribute (x : Int) (sts : List St) (sub : Sub) : List St × Int :=
  let r := allocShares x sts sub.shares
  let b := mulTrunc x sub.burn
  let sts1 := if b = 0 then r.1 else addTo r.1 none b
  let dflt := x - r.2.1 - r.2.2 - b
  if sub.primary.ty = AT.main then (sts1, r.2.2 + dflt)
  else (addTo sts1 (some sub.primary) dflt, r.2.2)

def sumShares : List Share → Int
  | [] => 0
  | s :: r => s.share + sumShares r

def sharesOk : List Share → Prop
  | [] => True
  | s :: r => 0 ≤ s.share ∧ sharesOk r

theorem mulTrunc_nonneg {x s : Int} (hx : 0 ≤ x) (hs : 0 ≤ s) : 0 ≤ mulTrunc x s := by
  unfold mulTrunc; exact Int.ediv_nonneg (Int.mul_nonneg hx hs) (by unfold P; omega)

theorem mulTrunc_le {x s : Int} (hx : 0 ≤ x) : mulTrunc x s * P ≤ x * s := by
  unfold mulTrunc; exact Int.ediv_mul_le _ (by unfold P; omega)

/-- allocation accounting: Σ states grows by exactly what is allocated to states; everything is ≥ 0;
    and P·(toStates + toMain) ≤ x·Σshares -/
theorem allocShares_spec (x : Int) (hx : 0 ≤ x) :
    ∀ (shs : List Share) (sts : List St), allNonneg sts → sharesOk shs →
      let r := allocShares x sts shs
      sumRem r.1 = sumRem sts + r.2.1 ∧ allNonneg r.1 ∧ 0 ≤ r.2.1 ∧ 0 ≤ r.2.2 ∧
      (r.2.1 + r.2.2) * P ≤ x * sumShares shs := by
  intro shs
  induction shs with
  | nil => intro sts h _; simp [allocShares, sumShares, h]
  | cons sh rest ih =>
    intro sts hnn hok
    obtain ⟨hs0, hokr⟩ := hok
    have hc0 := mulTrunc_nonneg hx hs0
    have hcl := mulTrunc_le (s := sh.share) hx
    unfold allocShares
    by_cases hm : sh.dest.ty = AT.main
    · simp only [hm, if_true]
      obtain ⟨i1, i2, i3, i4, i5⟩ := ih sts hnn hokr
      refine ⟨i1, i2, i3, by omega, ?_⟩
      simp only [sumShares]
      have : x * (sh.share + sumShares rest) = x * sh.share + x * sumShares rest := Int.mul_add _ _ _
      have e : (((allocShares x sts rest).2.1) + ((allocShares x sts rest).2.2 + mulTrunc x sh.share)) * P
          = ((allocShares x sts rest).2.1 + (allocShares x sts rest).2.2) * P + mulTrunc x sh.share * P := by
        rw [← Int.add_assoc, Int.add_mul]
      omega
    · simp only [hm, if_false]
      have hnn' : allNonneg (if mulTrunc x sh.share = 0 then sts else addTo sts (some sh.dest) (mulTrunc x sh.share)) := by
        split
        · exact hnn
        · exact nonneg_addTo _ _ _ hnn hc0
      have hsum' : sumRem (if mulTrunc x sh.share = 0 then sts else addTo sts (some sh.dest) (mulTrunc x sh.share))
            = sumRem sts + mulTrunc x sh.share := by
        split
        · omega
        · exact sumRem_addTo _ _ _
      obtain ⟨i1, i2, i3, i4, i5⟩ := ih _ hnn' hokr
      refine ⟨by omega, i2, by omega, i4, ?_⟩
      simp only [sumShares]
      have : x * (sh.share + sumShares rest) = x * sh.share + x * sumShares rest := Int.mul_add _ _ _
      generalize hA : (allocShares x (if mulTrunc x sh.share = 0 then sts else addTo sts (some sh.dest) (mulTrunc x sh.share)) rest) = A at *
      have e : ((A.2.1 + mulTrunc x sh.share) + A.2.2) * P = (A.2.1 + A.2.2) * P + mulTrunc x sh.share * P := by
        rw [Int.add_mul, Int.add_mul, Int.add_mul]; omega
      omega

structure WOk (w : World) : Prop where
  nn : allNonneg w.states
  bal : ∀ a, 0 ≤ w.bal a
  u : 0 ≤ U w

theorem prepOne_spec (fail : Bool) (w : World) (src : Acc) (h : WOk w) :
    let r := prepOne fail w src
    U r.2 = U w + r.1 ∧ 0 ≤ r.1 ∧ allNonneg r.2.states ∧ (∀ a, 0 ≤ r.2.bal a) := by
  unfold prepOne
  by_cases hc : src.ty = AT.internal ∨ fail = true
  · simp only [hc, if_true]
    obtain ⟨t1, t2, t3⟩ := takeFrom_spec w.states (some src) h.nn
    refine ⟨by simp only [U, t1]; omega, by omega, t3, h.bal⟩
  · simp only [hc, if_false]
    obtain ⟨t1, t2, t3⟩ := takeFrom_spec w.states (some src) h.nn
    have hb := h.bal src
    refine ⟨by simp only [U, t1]; omega, by omega, t3, ?_⟩
    intro a
    show 0 ≤ (if a = src then 0 else w.bal a)
    split
    · exact Int.le_refl 0
    · exact h.bal a

theorem prepOthers_spec (fails : List Bool) :
    ∀ (srcs : List Acc) (w : World), WOk w →
      let r := prepOthers fails w srcs
      U r.2 = U w + r.1 ∧ 0 ≤ r.1 ∧ allNonneg r.2.states ∧ (∀ a, 0 ≤ r.2.bal a) := by
  intro srcs
  induction srcs generalizing fails with
  | nil => intro w h; simp [prepOthers, h.nn, h.bal]
  | cons src rest ih =>
    intro w h
    unfold prepOthers
    by_cases hm : src.ty = AT.main
    · simp only [hm, if_true]; exact ih fails w h
    · simp only [hm, if_false]
      obtain ⟨p1, p2, p3, p4⟩ := prepOne_spec (fails.headD false) w src h
      have h1 : WOk (prepOne (fails.headD false) w src).2 := ⟨p3, p4, by have := h.u; omega⟩
      obtain ⟨q1, q2, q3, q4⟩ := ih fails.tail _ h1
      exact ⟨by omega, by omega, q3, q4⟩

def subOk (sub : Sub) : Prop := sharesOk sub.shares ∧ 0 ≤ sub.burn ∧ sumShares sub.shares + sub.burn ≤ P

def mainInShares : List Share → Bool
  | [] => false
  | sh :: rest => decide (sh.dest.ty = AT.main) || mainInShares rest

def hasMainDest (sub : Sub) : Bool := decide (sub.primary.ty = AT.main) || mainInShares sub.shares

theorem allocShares_noMain (x : Int) : ∀ (shs : List Share) (sts : List St),
    mainInShares shs = false → (allocShares x sts shs).2.2 = 0 := by
  intro shs
  induction shs with
  | nil => intro sts _; rfl
  | cons sh rest ih =>
    intro sts h
    simp only [mainInShares, Bool.or_eq_false_iff, decide_eq_false_iff_not] at h
    unfold allocShares
    simp only [h.1, if_false]
    exact ih _ h.2

theorem le_of_mul_P {a x : Int} (h : a * P ≤ x * P) : a ≤ x :=
  Int.le_of_mul_le_mul_right h (by unfold P; omega)

theorem distribute_spec (x : Int) (hx : 0 ≤ x) (sts : List St) (sub : Sub)
    (hnn : allNonneg sts) (hok : subOk sub) :
    let r := distribute x sts sub
    sumRem r.1 = sumRem sts + (x - r.2) ∧ allNonneg r.1 ∧ 0 ≤ r.2 ∧ r.2 ≤ x ∧
    (hasMainDest sub = false → r.2 = 0) := by
  obtain ⟨hsh, hb0, hsum⟩ := hok
  obtain ⟨a1, a2, a3, a4, a5⟩ := allocShares_spec x hx sub.shares sts hnn hsh
  have hbn := mulTrunc_nonneg hx hb0
  have hbl := mulTrunc_le (s := sub.burn) hx
  -- total allocated ≤ x
  have htot : (allocShares x sts sub.shares).2.1 + (allocShares x sts sub.shares).2.2 + mulTrunc x sub.burn ≤ x := by
    apply le_of_mul_P
    have h1 : x * (sumShares sub.shares + sub.burn) ≤ x * P := Int.mul_le_mul_of_nonneg_left hsum hx
    have h2 : x * (sumShares sub.shares + sub.burn) = x * sumShares sub.shares + x * sub.burn := Int.mul_add _ _ _
    have h3 : ((allocShares x sts sub.shares).2.1 + (allocShares x sts sub.shares).2.2 + mulTrunc x sub.burn) * P
        = ((allocShares x sts sub.shares).2.1 + (allocShares x sts sub.shares).2.2) * P + mulTrunc x sub.burn * P := Int.add_mul _ _ _
    omega
  generalize hA : allocShares x sts sub.shares = A at *
  have hnn1 : allNonneg (if mulTrunc x sub.burn = 0 then A.1 else addTo A.1 none (mulTrunc x sub.burn)) := by
    split
    · exact a2
    · exact nonneg_addTo _ _ _ a2 hbn
  have hsum1 : sumRem (if mulTrunc x sub.burn = 0 then A.1 else addTo A.1 none (mulTrunc x sub.burn))
      = sumRem A.1 + mulTrunc x sub.burn := by
    split
    · omega
    · exact sumRem_addTo _ _ _
  unfold distribute
  rw [hA]
  by_cases hp : sub.primary.ty = AT.main
  · simp only [hp, if_true]
    refine ⟨by omega, hnn1, by omega, by omega, ?_⟩
    intro h; simp [hasMainDest, hp] at h
  · simp only [hp, if_false]
    refine ⟨by rw [sumRem_addTo]; omega, nonneg_addTo _ _ _ hnn1 (by omega), a4, by omega, ?_⟩
    intro h
    simp only [hasMainDest, Bool.or_eq_false_iff] at h
    have := allocShares_noMain x sub.shares sts h.2
    rw [hA] at this; exact this

def subStep (fails : List Bool) (w : World) (sub : Sub) : World :=
  let r := prepare fails w sub.sources
  if r.1 = 0 then r.2
  else { r.2 with states := (distribute r.1 r.2.states sub).1 }

theorem subStep_spec (fails : List Bool) (w : World) (sub : Sub) (h : WOk w) (hok : subOk sub) :
    WOk (subStep fails w sub) ∧
    (hasMainDest sub = false →
      U (subStep fails w sub) = (if hasMain sub.sources then 0 else U w)) := by
  obtain ⟨p1, p2, p3, p4⟩ := prepOthers_spec fails sub.sources w h
  have hu := h.u
  unfold subStep prepare
  generalize hR : prepOthers fails w sub.sources = R at *
  generalize hx0 : (if hasMain sub.sources = true then U w else 0) = x0
  have hx0' : (x0 = U w ∧ hasMain sub.sources = true) ∨ (x0 = 0 ∧ hasMain sub.sources = false) := by
    by_cases hh : hasMain sub.sources = true
    · left; simp [hh] at hx0; exact ⟨hx0.symm, hh⟩
    · right; simp [hh] at hx0; exact ⟨hx0.symm, by simpa using hh⟩
  have hx : 0 ≤ x0 + R.1 := by rcases hx0' with ⟨e, _⟩ | ⟨e, _⟩ <;> omega
  by_cases hz : x0 + R.1 = 0
  · simp only [hz, if_true]
    refine ⟨⟨p3, p4, by omega⟩, ?_⟩
    intro _
    rcases hx0' with ⟨e, hm⟩ | ⟨e, hm⟩
    · simp only [hm, if_true]; omega
    · simp only [hm]; simp only [Bool.false_eq_true, if_false]; omega
  · simp only [hz, if_false]
    obtain ⟨d1, d2, d3, d4, d5⟩ := distribute_spec (x0 + R.1) hx R.2.states sub p3 hok
    refine ⟨⟨d2, p4, ?_⟩, ?_⟩
    · show 0 ≤ R.2.main - sumRem (distribute (x0 + R.1) R.2.states sub).1
      rw [d1]
      have hUR : U R.2 = R.2.main - sumRem R.2.states := rfl
      rcases hx0' with ⟨e, _⟩ | ⟨e, _⟩ <;> omega
    · intro hmd
      have := d5 hmd
      show R.2.main - sumRem (distribute (x0 + R.1) R.2.states sub).1 = _
      rw [d1, this]
      have hUR : U R.2 = R.2.main - sumRem R.2.states := rfl
      rcases hx0' with ⟨e, hm⟩ | ⟨e, hm⟩
      · simp only [hm, if_true]; omega
      · simp only [hm]; simp only [Bool.false_eq_true, if_false]; omega

/-- ordering rule distilled from ValidateSubDistributors: scanning the list, the last occurrence of MAIN is as a source -/
def closed : Bool → List Sub → Bool
  | pending, [] => !pending
  | pending, sub :: rest =>
    closed (if hasMainDest sub then true else if hasMain sub.sources then false else pending) rest

def allSubOk : List Sub → Prop
  | [] => True
  | s :: r => subOk s ∧ allSubOk r

def runSubs (φ : Sub → List Bool) : World → List Sub → World
  | w, [] => w
  | w, sub :: rest => runSubs φ (subStep (φ sub) w sub) rest

theorem runSubs_spec (φ : Sub → List Bool) :
    ∀ (subs : List Sub) (w : World) (pending : Bool), WOk w → allSubOk subs →
      (pending = false → U w = 0) → closed pending subs = true →
      WOk (runSubs φ w subs) ∧ U (runSubs φ w subs) = 0 := by
  intro subs
  induction subs with
  | nil =>
    intro w pending h _ hp hc
    simp only [closed, Bool.not_eq_true'] at hc
    exact ⟨h, hp hc⟩
  | cons sub rest ih =>
    intro w pending h hall hp hc
    obtain ⟨hok, hrest⟩ := hall
    obtain ⟨s1, s2⟩ := subStep_spec (φ sub) w sub h hok
    simp only [closed] at hc
    simp only [runSubs]
    apply ih _ _ s1 hrest _ hc
    intro hpend
    by_cases hmd : hasMainDest sub = true
    · simp [hmd] at hpend
    · have hmd' : hasMainDest sub = false := by simpa using hmd
      rw [s2 hmd']
      by_cases hms : hasMain sub.sources = true
      · simp [hms]
      · simp only [hmd', hms] at hpend
        simp only [hms]; exact hp (by simpa using hpend)

def eligible (s : St) : Bool :=
  decide (s.acc.map (·.ty) ≠ some AT.internal) && decide (P ≤ s.rem)

/-- end-of-block payout of integer parts (single denom): books are untouched whatever fails -/
def payout : List Bool → Int → List St → Int × List St
  | _, main, [] => (main, [])
  | fails, main, s :: rest =>
    if (eligible s && !(fails.headD false)) = true then
      ((payout fails.tail (main - (s.rem / P) * P) rest).1,
        ⟨s.acc, s.rem - (s.rem / P) * P⟩ :: (payout fails.tail (main - (s.rem / P) * P) rest).2)
    else
      ((payout fails.tail main rest).1, s :: (payout fails.tail main rest).2)

theorem payout_spec : ∀ (sts : List St) (fails : List Bool) (main : Int), allNonneg sts →
    (payout fails main sts).1 - sumRem (payout fails main sts).2 = main - sumRem sts ∧
    allNonneg (payout fails main sts).2 := by
  intro sts
  induction sts with
  | nil => intro _ _ _; simp [payout, sumRem, allNonneg]
  | cons s rest ih =>
    intro fails main h
    obtain ⟨h1, h2⟩ := h
    by_cases hc : (eligible s && !(fails.headD false)) = true
    · obtain ⟨i1, i2⟩ := ih fails.tail (main - s.rem / P * P) h2
      simp only [payout, hc, if_true]
      refine ⟨by simp only [sumRem]; omega, ?_, i2⟩
      show 0 ≤ s.rem - s.rem / P * P
      have := Int.ediv_mul_le s.rem (show P ≠ 0 by unfold P; omega); omega
    · obtain ⟨i1, i2⟩ := ih fails.tail main h2
      have hc' : (eligible s && !(fails.headD false)) = false := by simpa using hc
      simp only [payout, hc', Bool.false_eq_true, if_false]
      exact ⟨by simp only [sumRem]; omega, h1, i2⟩

def beginBlock (φ : Sub → List Bool) (ψ : List Bool) (w : World) (subs : List Sub) : World :=
  let w1 := runSubs φ w subs
  let r := payout ψ w1.main w1.states
  { w1 with main := r.1, states := r.2 }

/-- C03 core (single denomination, repaired algorithm): for every configuration satisfying the distilled
    validation facts, every inflow (U ≥ 0 at block start) and EVERY pattern of failing bank calls,
    after the block the recorded remains are non-negative and sum exactly to the main balance. -/
theorem books_after_block (φ : Sub → List Bool) (ψ : List Bool) (w : World) (subs : List Sub)
    (h : WOk w) (hall : allSubOk subs) (hc : closed true subs = true) :
    U (beginBlock φ ψ w subs) = 0 ∧ allNonneg (beginBlock φ ψ w subs).states := by
  obtain ⟨r1, r2⟩ := runSubs_spec φ subs w true h hall (by intro h; cases h) hc
  obtain ⟨p1, p2⟩ := payout_spec (runSubs φ w subs).states ψ (runSubs φ w subs).main r1.nn
  refine ⟨?_, p2⟩
  show (payout ψ _ _).1 - sumRem (payout ψ _ _).2 = 0
  rw [p1]; exact r2

end C4E.Distr1
