/-
  C4E.Signature — executable model of x/cfesignature (keeper/signature.go, msg_server_*.go,
  grpc_query_verify_signature.go, grpc_query_create_storage_key.go, util/*.go) as repaired by
  D2, D9, D22.  sha256-hex (`H`) and the x509 pipeline of `isValidSignature` (`chk`: base64
  decode, algorithm lookup, PEM/certificate parse, CheckSignature) are PARAMETERS: nothing is
  assumed about them except where a theorem states a hypothesis.
-/
import C4E.Basic
namespace C4E.Sig

structure SigRec where
  signature : String
  algorithm : String
  certificate : String
  timestamp : String
deriving Repr, DecidableEq, Inhabited

structure State where
  links : AList String := []      -- Payload-Value- prefix: key ↦ value
  sigs : AList SigRec := []       -- Signature-Value- prefix: storage key ↦ record
deriving Repr, DecidableEq, Inhabited

/-- `util.HashConcat` -/
def hashConcat : List String → String
  | [] => ""
  | [a] => a
  | a :: rest => a ++ ":" ++ hashConcat rest

/-- `MsgPublishReferencePayloadLink` handler: an empty key is rejected (D27 repair: it used to
    panic in the KV store), an existing key is rejected (write-once) -/
def publish (s : State) (key value : String) : Outcome State :=
  if key = "" then .err
  else if (s.links.get? key).isSome then .err
  else .ok { s with links := s.links.set key value }

/-- `MsgStoreSignature` handler with the three fields already extracted from the JSON
    (`jsonOk = false`: the JSON does not parse) -/
def store (s : State) (storageKey : String) (jsonOk : Bool) (sg alg cert ts : String) : Outcome State :=
  if storageKey = "" then .err      -- D27 repair
  else if !jsonOk then .err
  else .ok { s with sigs := s.sigs.set storageKey { signature := sg, algorithm := alg, certificate := cert, timestamp := ts } }

section
variable (H : String → String) (chk : String → String → String → String → Bool)
-- chk cert alg payload signature

/-- `CreateStorageKey` query; `refLen` is `len(referenceId)` in bytes -/
def storageKey (addr ref : String) (refLen : Nat) : Option String :=
  if refLen ≠ 64 then none
  else if addr = "" then none
  else some (H (hashConcat [addr, ref]))

inductive Verdict where
  | valid (signature algorithm certificate timestamp : String)
  | invalid
deriving Repr, DecidableEq, Inhabited

/-- `VerifySignature` query -/
def verify (s : State) (addr ref : String) (refLen : Nat) : Verdict :=
  match storageKey H addr ref refLen with
  | none => .invalid
  | some k =>
    match s.sigs.get? k with
    | none => .invalid
    | some r =>
      match s.links.get? (H ref) with
      | none => .invalid
      | some l =>
        if chk r.certificate r.algorithm (H (hashConcat [addr, ref, l])) r.signature
        then .valid r.signature r.algorithm r.certificate r.timestamp
        else .invalid
end

inductive Op where
  | publish (key value : String)
  | store (storageKey : String) (jsonOk : Bool) (sg alg cert ts : String)
deriving Repr, Inhabited

/-- delivery with rollback: errors and panics leave the state unchanged -/
def step (s : State) : Op → State
  | .publish k v => match publish s k v with | .ok s' => s' | _ => s
  | .store k j a b c d => match store s k j a b c d with | .ok s' => s' | _ => s

def run (s : State) (ops : List Op) : State := ops.foldl step s

end C4E.Sig
