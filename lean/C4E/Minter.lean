/-
  C4E.Minter — executable model of x/cfeminter (types/minter.go, keeper/mint.go, keeper/keeper.go,
  abci.go, msg_server_update_params.go, genesis.go).  Times are Int nanoseconds since the epoch;
  `sdk.Dec` values are 10^18-scaled Ints (C4E.Dec).
-/
import C4E.Dec
import C4E.Denom
namespace C4E.Minter
open C4E

/-- `time.Time.UnixMilli` (floor) -/
def ms (t : Int) : Int := t / 1000000
/-- `const year = time.Hour * 24 * 365` in ns -/
def year : Int := 31536000000000000

/-! ## configuration as it arrives in messages / genesis (may be malformed) -/

inductive RawCfg where
  | nilCfg                 -- Config == nil
  | unresolved             -- Any whose cached value is not a MinterConfigI
  | noMint
  | lin (amount : Option Int)
  | exp (amount : Option Int) (step : Int) (mult : Option Int)
deriving Repr, DecidableEq, Inhabited

structure RawMinter where
  isNil : Bool := false     -- nil *Minter in the slice
  seq : Nat
  endT : Option Int
  cfg : RawCfg
deriving Repr, DecidableEq, Inhabited

structure RawParams where
  denom : String
  start : Int
  minters : List RawMinter
deriving Repr, DecidableEq, Inhabited

/-! ## validated configuration -/

inductive Cfg where
  | noMint
  | lin (amount : Int)
  | exp (amount : Int) (step : Int) (mult : Int)
deriving Repr, DecidableEq, Inhabited

structure M where
  seq : Nat
  endT : Option Int
  cfg : Cfg
deriving Repr, DecidableEq, Inhabited

structure Params where
  denom : String
  start : Int
  minters : List M
deriving Repr, DecidableEq, Inhabited

/-- `MinterState` -/
structure St where
  seq : Nat
  minted : Int        -- AmountMinted (sdk.Int)
  remToMint : Int     -- RemainderToMint (Dec)
  remPrev : Int       -- RemainderFromPreviousMinter (Dec)
  last : Int          -- LastMintBlockTime
deriving Repr, DecidableEq, Inhabited

/-! ## validation (`Params.Validate`) -/

/-- `Minter.validate` + config `Validate` : returns the clean config or none -/
def cleanCfg (m : RawMinter) : Option Cfg :=
  match m.cfg with
  | .nilCfg => none
  | .unresolved => none
  | .noMint => some .noMint
  | .lin a =>
    if m.endT.isNone then none else
    match a with
    | none => none
    | some a => if a < 0 then none else some (.lin a)
  | .exp a step mult =>
    match a with
    | none => none
    | some a =>
      if a < 0 then none else if ¬ (0 < a) then none else
      match mult with
      | none => none
      | some mu => if mu < 0 then none else if step ≤ 0 then none else some (.exp a step mu)

/-- `validateMinterOrderingId` fails -/
def idBad (id seq : Nat) : Bool := if id = 0 then decide (seq ≤ 0) else decide (seq ≠ id + 1)
/-- `validateEndTimeExistance` fails: the last minter has an end time, or another one has none -/
def endExistBad (isLast : Bool) (e : Option Int) : Bool := (isLast && e.isSome) || (!isLast && e.isNone)
/-- `validateMintersEndTimeValue` fails (only when lastPos > 0, and not for the last position) -/
def endValueBad (multi isLast : Bool) (e : Option Int) (prevEnd : Int) : Bool :=
  multi && !isLast && (match e with | some e => decide (e ≤ prevEnd) | none => false)

/-- the per-position loop of `ValidateParamsMinters` over the list already sorted by sequence id.
    `id` = last seen id (0 = none yet), `prevEnd` = end time of the previous minter (start for i=0),
    `multi` = lastPos > 0. Returns the cleaned minters. -/
def validateLoop (multi : Bool) : Nat → Int → List RawMinter → Option (List M)
  | _, _, [] => some []
  | id, prevEnd, m :: rest =>
    if idBad id m.seq then none else
    if endExistBad rest.isEmpty m.endT then none else
    if endValueBad multi rest.isEmpty m.endT prevEnd then none else
    match cleanCfg m with
    | none => none
    | some c =>
      match validateLoop multi m.seq (m.endT.getD prevEnd) rest with
      | none => none
      | some ms => some ({ seq := m.seq, endT := m.endT, cfg := c } :: ms)

/-- `sort.Sort(BySequenceId)` — any sort gives the same accept/reject and, when accepted
    (ids strictly consecutive), the same order. -/
def sortMinters (l : List RawMinter) : List RawMinter :=
  sortBy (fun a b => a.seq < b.seq) l

/-- `Params.ValidateParamsMinters` -/
def validateMinters (start : Int) (ms : List RawMinter) : Option (List M) :=
  if ms.length < 1 then none else
  if ms.any (·.isNil) then none else
  let s := sortMinters ms
  validateLoop (s.length > 1) 0 start s

/-- `Params.Validate` (with the D23 repair: the denom must be a well-formed denom) -/
def validate (p : RawParams) : Option Params :=
  if p.denom.length = 0 then none else
  if !validDenom p.denom then none else
  match validateMinters p.start p.minters with
  | none => none
  | some ms => some { denom := p.denom, start := p.start, minters := ms }

def containsMinter (ms : List M) (id : Nat) : Bool := ms.any (·.seq = id)

/-! ## schedule arithmetic (`AmountToMint`, `CalculateInflation`) -/

/-- exponential step amount: e 0 = amount, e (k+1) = e k · mult (banker-rounded `Dec.Mul`) -/
def expE (a mult : Int) : Nat → Int
  | 0 => Dec.ofInt a
  | k + 1 => Dec.mul (expE a mult k) mult

def expSum (a mult : Int) : Nat → Int
  | 0 => 0
  | k + 1 => expSum a mult k + expE a mult k

/-- `LinearMinting.AmountToMint` (division by a zero ms-period panics in Go: see `linPanics`) -/
def linAmount (a start e t : Int) : Int :=
  if t > e then Dec.ofInt a
  else if t < start then 0
  else Dec.quoInt (Dec.mulInt (Dec.ofInt a) (ms t - ms start)) (ms e - ms start)

def linPanics (start e t : Int) : Bool :=
  !(t > e) && !(t < start) && (ms e - ms start = 0)

/-- `now` of `ExponentialStepMinting.AmountToMint`: the block time clamped at the period end -/
def expNow (e : Option Int) (t : Int) : Int :=
  match e with
  | some e => if t > e then e else t
  | none => t

/-- `ExponentialStepMinting.AmountToMint` -/
def expAmount (a step mult start : Int) (e : Option Int) (t : Int) : Int :=
  let now := expNow e t
  let passed := now - start
  let n := passed.tdiv step
  let nn := n.toNat
  let curStart := start + n * step
  expSum a mult nn + Dec.quoInt (Dec.mulInt (expE a mult nn) (now - curStart)) step

/-- `Minter.AmountToMint` -/
def amountToMint (m : M) (start t : Int) : Int :=
  match m.cfg with
  | .noMint => 0
  | .lin a => match m.endT with
    | some e => linAmount a start e t
    | none => 0   -- unreachable for validated params (Go: nil dereference)
  | .exp a step mult => expAmount a step mult start m.endT t

def amountPanics (m : M) (start t : Int) : Bool :=
  match m.cfg with
  | .lin _ => match m.endT with
    | some e => linPanics start e t
    | none => true
  | _ => false

/-- Go's `time.Time.Sub` saturates at the largest / smallest `time.Duration` (about ±292 years) -/
def satDur (x : Int) : Int :=
  if x > 9223372036854775807 then 9223372036854775807
  else if x < -9223372036854775808 then -9223372036854775808 else x

/-- `Minter.CalculateInflation` (Dec) -/
def inflation (m : M) (supply start t : Int) : Outcome Int :=
  if start > t then .ok 0 else
  match m.cfg with
  | .noMint => .ok 0
  | .lin a =>
    if supply ≤ 0 then .ok 0 else
    match m.endT with
    | none => .panic
    | some e =>
      -- D33 repair: a linear period whose end has been reached reports no inflation (as the exponential one)
      if t ≥ e then .ok 0 else
      -- `periodDuration := endTime.Sub(minterStart)`
      if satDur (e - start) = 0 then .panic else
      .ok (Dec.quoInt (Dec.quoInt (Dec.mulInt (Dec.ofInt a) year) (satDur (e - start))) supply)
  | .exp a step mult =>
    if supply ≤ 0 then .ok 0 else
    if (match m.endT with | some e => decide (t ≥ e) | none => false) then .ok 0 else
    let n := ((t - start).tdiv step).toNat
    .ok (Dec.quoInt (Dec.quoInt (Dec.mulInt (expE a mult n) year) step) supply)

/-! ## `getCurrentAndPreviousMinter` — the Go loop as a fold -/

def curPrevStep (id : Nat) (acc : Option M × Option M) (m : M) : Option M × Option M :=
  let cur := if m.seq = id then some m else acc.1
  let prev := match acc.2 with
    | none => if m.seq < id then some m else none
    | some p => if m.seq < id ∧ m.seq > p.seq then some m else some p
  (cur, prev)

def getCurPrev (ms : List M) (id : Nat) : Option M × Option M :=
  ms.foldl (curPrevStep id) (none, none)

/-! ## `Keeper.mint` -/

structure MintRes where
  amount : Int
  st : St
  hist : List St     -- history entries written by this call, oldest first
deriving Repr, DecidableEq, Inhabited

/-- start of the current period: the schedule start, or the previous period's end -/
def periodStart (p : Params) (prev : Option M) : Int :=
  match prev with
  | none => p.start
  | some pm => pm.endT.getD 0   -- Go dereferences *EndTime; validated params: never nil

/-- the previous period has no end time (Go: nil dereference) -/
def prevEndMissing (prev : Option M) : Bool :=
  match prev with
  | some pm => pm.endT.isNone
  | none => false

/-- `Keeper.mint` with recursion fuel (levels are bounded by the number of minters because the
    sequence id strictly increases and must be present in the list). -/
def mintAux : Nat → Params → St → Int → Outcome MintRes
  | 0, _, _, _ => .panic      -- unreachable: fuel = |minters| + 1
  | fuel + 1, p, st, t =>
    match getCurPrev p.minters st.seq with
    | (none, _) => .err
    | (some cur, prev) =>
      let start := periodStart p prev
      if prevEndMissing prev then .panic else
      if amountPanics cur start t then .panic else
      let expected := amountToMint cur start t + st.remPrev
      let amount := Dec.truncInt expected - st.minted
      if amount < 0 then .ok { amount := 0, st := st, hist := [] } else
      let remainder := Dec.frac expected
      if !validDenom p.denom then .panic else   -- sdk.NewCoin
      let st1 : St := { st with minted := st.minted + amount, last := t, remToMint := remainder }
      if (match cur.endT with | none => true | some e => decide (t < e)) then
        .ok { amount := amount, st := st1, hist := [] }
      else
        let st2 : St := { seq := st.seq + 1, minted := 0, remToMint := 0, remPrev := remainder, last := t }
        match mintAux fuel p st2 t with
        | .ok r => .ok { amount := r.amount + amount, st := r.st, hist := st1 :: r.hist }
        | .err => .err
        | .panic => .panic

/-- `Keeper.Mint` -/
def mint (p : Params) (st : St) (t : Int) : Outcome MintRes :=
  if t < p.start then .ok { amount := 0, st := st, hist := [] }
  else if st.last ≥ t then .ok { amount := 0, st := st, hist := [] }
  else mintAux (p.minters.length + 1) p st t

/-- `GetCurrentInflation` given the bank supply of the mint denom -/
def currentInflation (p : Params) (st : St) (supply t : Int) : Outcome Int :=
  match getCurPrev p.minters st.seq with
  | (none, _) => .err
  | (some cur, prev) =>
    match prev with
    | none => inflation cur supply p.start t
    | some pm => match pm.endT with
      | none => .panic
      | some e => inflation cur supply e t

/-- `BeginBlocker`: an error from Mint panics (chain halt) -/
def beginBlock (p : Params) (st : St) (t : Int) : Outcome MintRes :=
  match mint p st t with
  | .ok r => .ok r
  | .err => .panic
  | .panic => .panic

/-! ## parameter updates (`Keeper.UpdateParams`) -/

/-- returns the new params, or none when rejected (state unchanged) -/
def updateParams (authorityOk : Bool) (st : St) (np : RawParams) : Option Params :=
  if !authorityOk then none else
  if !(np.minters.any (fun m => !m.isNil && m.seq = st.seq)) then none else
  validate np

/-- `MinterState.Validate` -/
def stateValid (minted remToMint remPrev : Option Int) : Bool :=
  match minted, remToMint, remPrev with
  | some a, some b, some c => a ≥ 0 && b ≥ 0 && c ≥ 0
  | _, _, _ => false

end C4E.Minter
