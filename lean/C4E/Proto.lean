/-
  C4E.Proto — token-level helpers of the line protocol (DESIGN Appendix A).
-/
import C4E.Basic
namespace C4E.Proto

def hexVal (c : Char) : Nat :=
  if c ≥ '0' && c ≤ '9' then c.toNat - '0'.toNat
  else if c ≥ 'a' && c ≤ 'f' then c.toNat - 'a'.toNat + 10
  else if c ≥ 'A' && c ≤ 'F' then c.toNat - 'A'.toNat + 10
  else 0

/-- percent-decoding: `%e` is the empty string, `%XX` a byte (ASCII only in practice) -/
def unescAux : List Char → List Char
  | [] => []
  | '%' :: a :: b :: rest => Char.ofNat (hexVal a * 16 + hexVal b) :: unescAux rest
  | c :: rest => c :: unescAux rest

def unesc (s : String) : String :=
  if s = "%e" then "" else String.ofList (unescAux s.toList)

def escChar (c : Char) : String :=
  if c = ' ' then "%20" else if c = '%' then "%25" else if c = '\n' then "%0A"
  else if c = ',' then "%2C" else if c = ';' then "%3B" else if c = '=' then "%3D"
  else if c = '[' then "%5B" else if c = ']' then "%5D" else if c = ':' then "%3A"
  else c.toString

def esc (s : String) : String :=
  if s = "" then "%e" else String.join (s.toList.map escChar)

def int? (s : String) : Option Int := s.toInt?
def optInt? (s : String) : Option (Option Int) :=
  if s = "-" then some none else (s.toInt?).map some
def nat? (s : String) : Option Nat := s.toNat?

def showOptInt : Option Int → String
  | none => "-"
  | some i => toString i

def tokens (line : String) : List String :=
  (line.splitOn " ").filter (· ≠ "")

/-- coins token `[denom=amt,denom=amt]` (denoms percent-escaped) -/
def parseCoins (s : String) : Option (List (String × Int)) :=
  if !s.startsWith "[" || !s.endsWith "]" then none else
  let inner := String.ofList ((s.toList.drop 1).dropLast)
  if inner = "" then some [] else
  (inner.splitOn ",").foldr (fun item acc =>
    match acc, item.splitOn "=" with
    | some l, [d, a] => (a.toInt?).map (fun v => (unesc d, v) :: l)
    | _, _ => none) (some [])

def showCoins (l : List (String × Int)) : String :=
  "[" ++ ",".intercalate (l.map fun kv => esc kv.1 ++ "=" ++ toString kv.2) ++ "]"

end C4E.Proto
