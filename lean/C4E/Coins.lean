/-
  C4E.Coins — `sdk.Coins` / `sdk.DecCoins` (types/coin.go, types/dec_coin.go, v0.46.10) as
  denom-sorted association lists.  `DecCoins` amounts are 10^18-scaled Ints.
  `amountOf` sums over ALL entries of a denom, so the algebraic lemmas need no sortedness.
-/
import C4E.Dec
namespace C4E

abbrev CoinList := List (String × Int)
abbrev Coins := CoinList
abbrev DecCoins := CoinList

namespace CoinList

def amountOf : CoinList → String → Int
  | [], _ => 0
  | (k, v) :: rest, d => (if k = d then v else 0) + amountOf rest d

def nz (l : CoinList) : CoinList := l.filter (fun kv => kv.2 != 0)

/-- `DecCoins.safeAdd` / `Coins.safeAdd`: merge of two denom-sorted lists dropping zero results -/
def add : CoinList → CoinList → CoinList
  | [], b => nz b
  | a :: ra, [] => nz (a :: ra)
  | (ka, va) :: ra, (kb, vb) :: rb =>
    if ka < kb then
      (if va != 0 then [(ka, va)] else []) ++ add ra ((kb, vb) :: rb)
    else if ka = kb then
      (if va + vb != 0 then [(ka, va + vb)] else []) ++ add ra rb
    else
      (if vb != 0 then [(kb, vb)] else []) ++ add ((ka, va) :: ra) rb
termination_by a b => a.length + b.length

def neg (l : CoinList) : CoinList := l.map (fun kv => (kv.1, -kv.2))

def isAnyNegative (l : CoinList) : Bool := l.any (fun kv => kv.2 < 0)

/-- `DecCoins.Sub` : none = panic("negative coin amount") -/
def sub? (a b : CoinList) : Option CoinList :=
  let d := add a (neg b)
  if isAnyNegative d then none else some d

/-- `IsZero` -/
def isZero (l : CoinList) : Bool := l.all (fun kv => kv.2 == 0)
/-- `IsAllPositive` -/
def isAllPositive (l : CoinList) : Bool := !l.isEmpty && l.all (fun kv => kv.2 > 0)

/-- `DecCoins.MulDecTruncate` -/
def mulDecTruncate (l : DecCoins) (d : Int) : DecCoins :=
  if d = 0 then [] else
  l.foldl (fun res kv =>
    let p := Dec.mulTrunc kv.2 d
    if p != 0 then add res [(kv.1, p)] else res) []

/-- `DecCoins.TruncateDecimal` : (integer coins, fractional change) -/
def truncateDecimal (l : DecCoins) : Coins × DecCoins :=
  l.foldl (fun (acc : Coins × DecCoins) kv =>
    let t := Dec.truncInt kv.2
    let c := kv.2 - Dec.ofInt t
    (if t != 0 then add acc.1 [(kv.1, t)] else acc.1,
     if c != 0 then add acc.2 [(kv.1, c)] else acc.2)) ([], [])

/-- `NewDecCoinsFromCoins` on an already sanitised coin set -/
def toDec (l : Coins) : DecCoins := l.map (fun kv => (kv.1, Dec.ofInt kv.2))

/-- `checkIfAnyCoinIsGTE1` (x/cfedistributor) -/
def anyGTE1 (l : DecCoins) : Bool := l.any (fun kv => kv.2 ≥ P)

/-- `Coins.IsAllGTE`-style: every coin of `b` is covered by `a` -/
def covers (a b : Coins) : Bool := b.all (fun kv => amountOf a kv.1 ≥ kv.2)

/-! ### algebra through `amountOf` -/

theorem amountOf_append (a b : CoinList) (d : String) :
    amountOf (a ++ b) d = amountOf a d + amountOf b d := by
  induction a with
  | nil => simp [amountOf]
  | cons kv rest ih =>
    obtain ⟨k, v⟩ := kv
    simp only [List.cons_append, amountOf, ih]; omega

theorem amountOf_nz (l : CoinList) (d : String) : amountOf (nz l) d = amountOf l d := by
  induction l with
  | nil => rfl
  | cons kv rest ih =>
    obtain ⟨k, v⟩ := kv
    unfold nz at *
    by_cases hv : v = 0
    · subst hv; simp [List.filter, amountOf, ih]
    · have : ((k, v).2 != 0) = true := by simp [hv]
      simp only [List.filter, this, amountOf, ih]

private theorem amountOf_opt (c : Bool) (k : String) (v : Int) (d : String) (h : c = false → v = 0) :
    amountOf (if c then [(k, v)] else []) d = (if k = d then v else 0) := by
  cases c with
  | true => simp [amountOf]
  | false => have := h rfl; subst this; simp [amountOf]

theorem amountOf_add (a b : CoinList) (d : String) :
    amountOf (add a b) d = amountOf a d + amountOf b d := by
  fun_induction add a b with
  | case1 b => simp [amountOf_nz, amountOf]
  | case2 a ra => simp [amountOf_nz, amountOf]
  | case3 ka va ra kb vb rb h ih =>
    rw [amountOf_append, ih, amountOf_opt _ _ _ _ (by simp)]
    simp only [amountOf]; omega
  | case4 va ra kb vb rb h1 ih =>
    rw [amountOf_append, ih, amountOf_opt _ _ _ _ (by simp)]
    simp only [amountOf]
    by_cases hk : kb = d <;> simp [hk] <;> omega
  | case5 ka va ra kb vb rb h1 h2 ih =>
    rw [amountOf_append, ih, amountOf_opt _ _ _ _ (by simp)]
    simp only [amountOf]; omega

theorem amountOf_neg (a : CoinList) (d : String) : amountOf (neg a) d = - amountOf a d := by
  induction a with
  | nil => simp [neg, amountOf]
  | cons kv rest ih =>
    obtain ⟨k, v⟩ := kv
    unfold neg at *
    simp only [List.map, amountOf, ih]
    by_cases hk : k = d <;> simp [hk]; omega

theorem amountOf_sub {a b c : CoinList} (h : sub? a b = some c) (d : String) :
    amountOf c d = amountOf a d - amountOf b d := by
  unfold sub? at h
  simp only [] at h
  split at h
  · cases h
  · cases h; rw [amountOf_add, amountOf_neg]; omega

end CoinList
end C4E
