/-
  C4E.Bridge — executable bridge between the two distributor models.

  `C4E.Distributor` is the faithful multi-denomination model that the correspondence check
  compares with the Go keeper on every run.  `C4E.Distr1` is the single-denomination core on which
  C03 / C04 / C10 / C14 are PROVED (`books_after_block`, `subStep_spec`, `payout_spec`).  This
  module runs both on the same block: the faithful world is projected on one denomination, the
  pattern of failing bank calls is read off the faithful execution, and after every
  sub-distributor and after the payout the two worlds are compared.  The driver prints the verdict
  on every `d.bb` line (`br=`), so every generated block that is compared with the Go code is also
  compared with the proved core: Go ⇄ Distributor ⇄ Distr1.

  A block is skipped (`br=skip`) only when two different configured source accounts resolve to
  the same bank address (Distr1 keeps balances per configured account, not per address) or when
  the faithful model does not finish the block.
-/
import C4E.Distributor
import C4E.Distr1
namespace C4E.Bridge
open C4E C4E.CoinList

def convTy (t : String) : Distr1.AT :=
  if t = Distr.tMain then .main else if t = Distr.tModule then .module
  else if t = Distr.tBase then .base else .internal

def convAcc (a : Distr.Account) : Distr1.Acc := ⟨convTy a.type, if a.type = Distr.tMain then "" else a.id⟩

def convSub (s : Distr.SubD) : Distr1.Sub :=
  { sources := (s.sources.filterMap id).map convAcc, primary := convAcc s.primary,
    burn := s.burnShare.getD 0, shares := s.shares.map fun sh => ⟨sh.share.getD 0, convAcc sh.dest⟩ }

def addrOf (e : Distr.Env) (a : Distr1.Acc) : Option String :=
  match a.ty with
  | .module => e.modAddr? a.id
  | .base => some (Distr.canonAddr a.id)
  | _ => none

def stKey (s : Distr.DState) : Option Distr1.Acc := if s.burn then none else s.account.map convAcc

def projState (d : String) (s : Distr.DState) : Distr1.St := ⟨stKey s, amountOf s.remains d⟩

/-- the faithful world seen in one denomination (amounts 10^18-scaled) -/
def proj (e : Distr.Env) (w : Distr.World) (d : String) : Distr1.World :=
  { states := w.states.map (projState d),
    main := amountOf (w.bank.balance e.mainAddr) d * P,
    bal := fun a => match addrOf e a with
      | some ad => amountOf (w.bank.balance ad) d * P
      | none => 0 }

def remOf (sts : List Distr1.St) (k : Option Distr1.Acc) : Int :=
  sts.foldl (fun acc s => if s.acc = k then acc + s.rem else acc) 0

/-- same main balance, same remains per key, same balances of the configured sources -/
def agree (e : Distr.Env) (d : String) (srcs : List Distr1.Acc) (w1 : Distr1.World) (wf : Distr.World) : Bool :=
  let p := proj e wf d
  let keys := (w1.states.map (·.acc) ++ p.states.map (·.acc)).eraseDups
  decide (w1.main = p.main) && keys.all (fun k => decide (remOf w1.states k = remOf p.states k)) &&
  srcs.all (fun a => decide (w1.bal a = p.bal a))

/-- one sub-distributor of the faithful `BeginBlocker` loop -/
def subBlock (e : Distr.Env) (w : Distr.World) (s : Distr.SubD) : Outcome Distr.World :=
  match Distr.prepareCoins e w (s.sources.filterMap id) with
  | .ok (coins, w1) =>
    if !isZero coins then
      match Distr.startDistribution w1.states coins s with
      | .ok (sts, _) => .ok { w1 with states := sts }
      | .err => .err
      | .panic => .panic
    else .ok w1
  | .err => .err
  | .panic => .panic

/-- which sweeps of the non-MAIN sources failed, read off the faithful execution: a sweep failed
    when the bank was called and nothing arrived in the main account (fault oracle or bank error,
    e.g. a vesting account whose spendable balance does not cover its whole balance) -/
def sweepFlags (e : Distr.Env) : Distr.World → List Distr.Account → List Bool
  | _, [] => []
  | w, src :: rest =>
    if src.type = Distr.tMain then sweepFlags e w rest
    else
      match Distr.prepareNotMain e w src with
      | .ok (_, w1) =>
        -- failed: the bank was called and nothing reached the main account (injected fault or bank error)
        (decide (w1.callIdx > w.callIdx) && (w.faults.contains w.callIdx ||
            w1.bank.balance e.mainAddr == w.bank.balance e.mainAddr)) :: sweepFlags e w1 rest
      | _ => []

inductive Verdict where
  | ok
  | skip
  | diff (denom stage : String)
deriving Repr, DecidableEq, Inhabited

def Verdict.show : Verdict → String
  | .ok => "ok"
  | .skip => "skip"
  | .diff d s => s!"DIFF:{d}:{s}"

/-- the sub-distributor loop on both models -/
def runSubs (e : Distr.Env) (d : String) (srcs : List Distr1.Acc) :
    List Distr.SubD → Nat → Distr.World → Distr1.World → Except Verdict (Distr.World × Distr1.World)
  | [], _, wf, w1 => .ok (wf, w1)
  | s :: rest, i, wf, w1 =>
    let flags := sweepFlags e wf (s.sources.filterMap id)
    match subBlock e wf s with
    | .ok wf' =>
      let w1' := Distr1.subStep flags w1 (convSub s)
      if agree e d srcs w1' wf' then runSubs e d srcs rest (i + 1) wf' w1'
      else .error (.diff d s!"sub{i}")
    | _ => .error .skip

/-- the payout loop of the faithful model; returns the world and the keys whose payout failed -/
def payouts (e : Distr.Env) : List Distr.DState → Distr.World → List Distr.DState → List (Option Distr1.Acc) →
    Option (Distr.World × List Distr.DState × List (Option Distr1.Acc))
  | [], w, stored, failed => some (w, stored, failed)
  | s :: rest, w, stored, failed =>
    match Distr.payoutOne e w s with
    | .ok (s', w1) => payouts e rest w1 (stored ++ [s']) (if s' = s then stKey s :: failed else failed)
    | _ => none

def sourceAccs (subs : List Distr.SubD) : List Distr1.Acc :=
  ((subs.map fun s => ((s.sources.filterMap id).filter (·.type ≠ Distr.tMain)).map convAcc).flatten).eraseDups

/-- two different configured sources share one bank address -/
def aliased (e : Distr.Env) (srcs : List Distr1.Acc) : Bool :=
  let addrs := srcs.filterMap (addrOf e)
  addrs.eraseDups.length ≠ addrs.length || addrs.contains e.mainAddr

def denomsOf (e : Distr.Env) (w : Distr.World) (srcs : List Distr1.Acc) : List String :=
  ((w.bank.balance e.mainAddr).map (·.1) ++ (w.states.map fun s => s.remains.map (·.1)).flatten ++
   (srcs.filterMap (addrOf e)).flatMap (fun a => (w.bank.balance a).map (·.1))).eraseDups

def bridgeDenom (e : Distr.Env) (subs : List Distr.SubD) (w0 : Distr.World) (faults : List Nat) (srcs : List Distr1.Acc)
    (d : String) : Verdict :=
  let wf0 : Distr.World := { w0 with callIdx := 0, faults := faults }
  match runSubs e d srcs subs 0 wf0 (proj e wf0 d) with
  | .error v => v
  | .ok (wf, w1) =>
    match payouts e wf.states wf [] [] with
    | none => .skip
    | some (wf2, stored, failed) =>
      let ψ := w1.states.map (fun st => failed.contains st.acc)
      let r := Distr1.payout ψ w1.main w1.states
      let w1' : Distr1.World := { w1 with main := r.1, states := r.2 }
      if agree e d [] w1' { wf2 with states := Distr.storeStates stored } then .ok else .diff d "payout"

/-! ### the hypotheses of `Distr1.books_after_block`, as Boolean checks -/

def sharesOkB : List Distr1.Share → Bool
  | [] => true
  | s :: r => decide (0 ≤ s.share) && sharesOkB r

def subOkB (s : Distr1.Sub) : Bool :=
  sharesOkB s.shares && decide (0 ≤ s.burn) && decide (Distr1.sumShares s.shares + s.burn ≤ P)

def allSubOkB : List Distr1.Sub → Bool
  | [] => true
  | s :: r => subOkB s && allSubOkB r

def nonnegB : List Distr1.St → Bool
  | [] => true
  | s :: r => decide (0 ≤ s.rem) && nonnegB r

/-- configuration hypotheses (`allSubOk`, `closed`) -/
def cfgHyps (subs : List Distr.SubD) : Bool :=
  allSubOkB (subs.map convSub) && Distr1.closed true (subs.map convSub)

/-- world hypotheses (`WOk`) on the projection; balances are checked on the configured sources
    (all other accounts are never read) -/
def worldHyps (e : Distr.Env) (w : Distr.World) (srcs : List Distr1.Acc) (d : String) : Bool :=
  let p := proj e w d
  nonnegB p.states && srcs.all (fun a => decide (0 ≤ p.bal a)) && decide (0 ≤ Distr1.U p)

/-- bridge verdict for one block: `DIFF:<denom>:hyp` means stored (validated) parameters or a
    reachable world do not meet the hypotheses under which the core theorem is proved -/
def bridge (e : Distr.Env) (subs : List Distr.SubD) (w0 : Distr.World) (faults : List Nat) : Verdict :=
  let srcs := sourceAccs subs
  if aliased e srcs then .skip else
  if Distr.paramsValid e subs && !cfgHyps subs then .diff "-" "hyp-config" else
  (denomsOf e w0 srcs).foldl (fun v d =>
    if v = .ok then
      if Distr.paramsValid e subs && !worldHyps e w0 srcs d then .diff d "hyp-world"
      else bridgeDenom e subs w0 faults srcs d
    else v) .ok

/-- the two conclusions of `Distr1.books_after_block`, evaluated on the projection of the
    faithful result (used by the driver as a cross-check of the registered invariants) -/
def booksHold (e : Distr.Env) (w : Distr.World) (d : String) : Bool :=
  let p := proj e w d
  decide (Distr1.U p = 0) && p.states.all (fun s => decide (0 ≤ s.rem))

end C4E.Bridge
