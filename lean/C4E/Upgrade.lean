/-
  C4E.Upgrade — model of app/upgrades/v120 (vestings_upgrades.go, accounts_upgrades.go) and of the
  cfevesting store migrations v1→v2 and v2→v3.  Calendar arithmetic (`time.AddDate`) is not
  modelled: the shifted instants enter as facts checked by the executor against Go's `time`.
-/
import C4E.Vesting
import C4E.Minter
import C4E.Distributor
namespace C4E.Upgrade
open C4E C4E.Vest

def owner := "c4e1p0smw03cwhqn05fkalfpcr0ngqv5jrpnx2cp54"
def oldTypeName := "Validators"
def validatorRoundType := "Validator round"
def oldPoolName := "Validators pool"
def advisorsPoolName := "Advisors pool"
def validatorRoundPool := "Validator round pool"
def vcAmt : Int := 15000000 * 1000000
def ebAmt : Int := 8000000 * 1000000
def pubAmt : Int := 9000000 * 1000000
def stratAmt : Int := 40000000 * 1000000
def sum : Int := vcAmt + ebAmt + pubAmt + stratAmt
def day : Int := 86400000000000

/-- the four new vesting types -/
def newTypes : List VType :=
  [ { name := "VC round", lockup := 548 * day, vesting := 548 * day, free := 50000000000000000 },
    { name := "Early-bird round", lockup := 456 * day, vesting := 365 * day, free := 100000000000000000 },
    { name := "Public round", lockup := 274 * day, vesting := 274 * day, free := 150000000000000000 },
    { name := "Strategic reserve short term round", lockup := 365 * day, vesting := 365 * day, free := 200000000000000000 } ]

def setType (vts : List VType) (vt : VType) : List VType := vts.filter (·.name ≠ vt.name) ++ [vt]

/-- `splitVestingPool`: none = error (not enough locked) -/
def splitOne (v : Pool) (name vtype : String) (amt lockEnd : Int) : Option (Pool × Pool) :=
  if v.locked - amt < 0 then none else
  some ({ v with initially := v.initially - amt },
        { name := name, vtype := vtype, lockStart := v.lockStart, lockEnd := lockEnd, initially := amt,
          withdrawn := 0, sent := 0, genesisPool := true })

/-- `ModifyVestingPoolsState`; `les` are the four lock ends (LockStart.AddDate facts).
    Returns the new (types, owner's pools) or none when nothing is changed. -/
def modifyPools (vts : List VType) (ps : List Pool) (les : Int × Int × Int × Int) : Option (List VType × List Pool) :=
  -- the LAST pool named "Validators pool" is the one that is split
  match (ps.zipIdx.filter (fun q => q.1.name = oldPoolName)).getLast? with
  | none => none
  | some (v, idx) =>
    if v.locked < sum then none else
    match vts.find? (·.name = oldTypeName) with
    | none => none
    | some vt =>
      let vts1 := setType (vts.filter (·.name ≠ oldTypeName)) { vt with name := validatorRoundType }
      let vts2 := newTypes.foldl setType vts1
      let v0 : Pool := { v with name := validatorRoundPool, vtype := validatorRoundType, genesisPool := true }
      match splitOne v0 "VC round pool" "VC round" vcAmt les.1 with
      | none => none
      | some (v1, p1) =>
      match splitOne v1 "Early-bird round pool" "Early-bird round" ebAmt les.2.1 with
      | none => none
      | some (v2, p2) =>
      match splitOne v2 "Public round pool" "Public round" pubAmt les.2.2.1 with
      | none => none
      | some (v3, p3) =>
      match splitOne v3 "Strategic reserve short term round pool" "Strategic reserve short term round" stratAmt les.2.2.2 with
      | none => none
      | some (v4, p4) =>
        let ps1 := ps.zipIdx.map (fun q =>
          if q.2 = idx then v4
          else if q.1.name = advisorsPoolName then { q.1 with genesisPool := true } else q.1)
        some (vts2, ps1 ++ [p1, p2, p3, p4])

/-- v2 → v3 store migration of one pool: every field kept, `genesisPool = false` -/
def migrateV3Pool (p : Pool) : Pool := { p with genesisPool := false }

/-- v1 → v2 store migration of one pool (old fields: vested, withdrawn, lastModWithdrawn, lastModVested) -/
def migrateV2Pool (name vtype : String) (ls le vested withdrawn lmw lmv : Int) : Pool :=
  { name := name, vtype := vtype, lockStart := ls, lockEnd := le, initially := vested, withdrawn := withdrawn,
    sent := lmw + vested - withdrawn - lmv }

def genesisAddrs : List String :=
  ["c4e1z5h0squtynr8rhwl0mzqdcd0wgmfyvpqmx3y2r", "c4e1x6umuffxgcrgqqqdncwn2t8qdnc2muvultxmza",
   "c4e1wrhuuwjjmkjx3lxs08ych9ddgdzvujgdr6hnwv", "c4e12rxujjj4th90t8z30gnre5tv4zmguuqvtn2u02",
   "c4e1zvkxuvk8t6wju76pxkp3f4kk447sjm2kdsgvwy", "c4e13qamrx863pa72ku88d3ykypdh0ar6rjycnpkl2",
   "c4e1f57wax48ttw068e6lgag9fse62d4m3e24u0sph", "c4e1jxlv64qf8rvy8zayl7m2m8a0jzhxkfj9aw96f3",
   "c4e1cpnh73765mx3q87lxacqwvwxn4s8ppry458xp4", "c4e1argfhnzzxjft426tnj4crjsu8lqp0av3x8gjey",
   "c4e1w8hdxd6g7vzupll9ynmenjkln9rs4kcq0mdesf", "c4e12znccp5u8zx9qy4u9gmpxjge9reaxy80qfm295",
   "c4e1t45l2pnk5uwj2qqjw4f6rcy6jw5f9lkplmp49e", "c4e1nmfgexjj3yvvrnc2n7yyahgxsm0vqcm57dqx5f",
   "c4e1ej2es5fjztqjcd4pwa0zyvaevtjd2y5wq2vaaq", "c4e1dsm96gwcv35m4rqd93pzcsztpkrqe0ev7getj8",
   "c4e10wjj2qmn4zjg2sdxq9mfyj5v4yukwyhzdtf2zp", "c4e1zrd0783g8qa5659apw5tpuqmz2ct6j20t4ymx3",
   "c4e1y8lndj6jz5z93g4xd05nmwyc3wtn39dfgfx7r7", "c4e12845qa79cwlvf3jdcnfq2jy2jfmzslcg52lv3g"]
def fromPoolAddrs : List String :=
  ["c4e13e303u43k7mng4927axuhve0plgsyxc4xky63k", "c4e1twh6302lzcvn7lr3x0fjwfkgryn9ac5c6v2zaj",
   "c4e19je7lmu4yzrpzh7gksj3uhku4as8at6lk36qe7", "c4e1nm50zycnm9yf33rv8n6lpks24usxzahk5usl7e"]

/-- `UpdateVestingAccountTraces` -/
def updateTrace (t : Trace) : Trace :=
  if genesisAddrs.contains t.address then { t with genesis := true }
  else if fromPoolAddrs.contains t.address then { t with fromGenesisPool := true }
  else t

def shiftedAccounts : List String :=
  ["c4e1dsm96gwcv35m4rqd93pzcsztpkrqe0ev7getj8", "c4e10wjj2qmn4zjg2sdxq9mfyj5v4yukwyhzdtf2zp",
   "c4e1zrd0783g8qa5659apw5tpuqmz2ct6j20t4ymx3", "c4e1y8lndj6jz5z93g4xd05nmwyc3wtn39dfgfx7r7"]

/-- `upgradeVestingAccounnt`: only the schedule of a continuous vesting account moves -/
def shiftAccount (a : Acct) (newStart newEnd : Int) : Acct :=
  if a.kind = .cva then { a with startS := newStart, endS := newEnd } else a

/-! ## parameter migrations of consensus version 2 → 3 (x/cfeminter/migrations/v3/params.go,
    x/cfedistributor/migrations/v3/params.go) -/

def tNo := "NO_MINTING"
def tLin := "LINEAR_MINTING"
def tExp := "EXPONENTIAL_STEP_MINTING"

/-- `types.LegacyMinter`: a type tag and two optional configuration messages -/
structure LegacyM where
  seq : Nat
  endT : Option Int
  type : String
  lin : Option Int := none                    -- LinearMinting{Amount}
  exp : Option (Int × Int × Int) := none      -- ExponentialStepMinting{Amount, StepDuration, AmountMultiplier}
deriving Repr, DecidableEq, Inhabited

/-- `LegacyMinter.validate` -/
def legacyMinterOk (m : LegacyM) : Bool :=
  if m.type = tNo then m.lin.isNone && m.exp.isNone
  else if m.type = tLin then
    m.exp.isNone && m.endT.isSome && (match m.lin with | some a => !(a < 0) | none => false)
  else if m.type = tExp then
    m.lin.isNone && (match m.exp with | some (a, st, mu) => !(a < 0) && !(mu < 0) && !(st ≤ 0) | none => false)
  else false

/-- the per-position loop of `MinterConfig.Validate` (same ordering rules as the new parameters) -/
def legacyLoop (multi : Bool) : Nat → Int → List LegacyM → Bool
  | _, _, [] => true
  | id, prevEnd, m :: rest =>
    !Minter.idBad id m.seq && !Minter.endExistBad rest.isEmpty m.endT &&
    !Minter.endValueBad multi rest.isEmpty m.endT prevEnd && legacyMinterOk m &&
    legacyLoop multi m.seq (m.endT.getD prevEnd) rest

def sortLegacy (l : List LegacyM) : List LegacyM := sortBy (fun a b => a.seq < b.seq) l

/-- `MinterConfig.Validate` -/
def legacyValid (start : Int) (ms : List LegacyM) : Bool :=
  !(ms.length < 1) && legacyLoop ((sortLegacy ms).length > 1) 0 start (sortLegacy ms)

/-- the new minter written by the migration: the configuration message selected by the type tag,
    packed into an `Any` (anything that is not exponential or linear becomes `NoMinting`) -/
def legacyToRaw (m : LegacyM) : Minter.RawMinter :=
  { seq := m.seq, endT := m.endT,
    cfg := if m.type = tExp then
             (match m.exp with | some (a, st, mu) => .exp (some a) st (some mu) | none => .nilCfg)
           else if m.type = tLin then
             (match m.lin with | some a => .lin (some a) | none => .nilCfg)
           else .noMint }

/-- `v3.MigrateParams` of x/cfeminter: none = the migration returns an error (nothing is written) -/
def migrateMinterV3 (denom : String) (start : Int) (ms : List LegacyM) : Option Minter.Params :=
  if !legacyValid start ms then none else
  -- `Validate` sorted the legacy slice in place; the new minters are built in that order
  Minter.validate { denom := denom, start := start, minters := (sortLegacy ms).map legacyToRaw }

/-- `v3.MigrateParams` of x/cfedistributor: the stored list is validated and rewritten unchanged -/
def migrateDistrV3 (e : Distr.Env) (subs : List Distr.SubD) : Option (List Distr.SubD) :=
  if Distr.paramsValid e subs then some subs else none

end C4E.Upgrade
