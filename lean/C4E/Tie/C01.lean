/-
  Tie facts for C01 (regenerated from /repo on every run, compared by the kernel):
  the only call site of bank MintCoins is the minter's keeper, the only BurnCoins call site is the
  distributor's `BurnCoinsForSpecifiedModuleAccount`; vesting and signature code reaches the bank
  only through Send*; the minter's BeginBlocker runs before the distributor's.
-/
import C4E.Generated.Facts
namespace C4E.Props.C01

def expectedBankMutators : List String := [
  "x/cfedistributor/keeper/distribution.go:prepareCoinToDistributeForModuleAccount:SendCoinsFromModuleToModule",
  "x/cfedistributor/keeper/distribution.go:sendCoinsToModuleAccount:SendCoinsFromModuleToModule",
  "x/cfedistributor/keeper/keeper.go:BurnCoinsForSpecifiedModuleAccount:BurnCoins",
  "x/cfedistributor/keeper/keeper.go:SendCoinsFromModuleAccount:SendCoinsFromModuleToAccount",
  "x/cfedistributor/keeper/keeper.go:SendCoinsFromModuleToModule:SendCoinsFromModuleToModule",
  "x/cfedistributor/keeper/keeper.go:SendCoinsToModuleAccount:SendCoinsFromAccountToModule",
  "x/cfeminter/keeper/keeper.go:MintCoins:MintCoins",
  "x/cfeminter/keeper/keeper.go:SendMintedCoins:SendCoinsFromModuleToModule",
  "x/cfeminter/keeper/mint.go:mint:MintCoins",
  "x/cfevesting/keeper/msg_server_split_vesting.go:splitVestingCoins:SendCoins",
  "x/cfevesting/keeper/vesting.go:CreateVestingAccount:SendCoins",
  "x/cfevesting/keeper/vesting.go:WithdrawAllAvailable:SendCoinsFromModuleToAccount",
  "x/cfevesting/keeper/vesting.go:addVestingPool:SendCoinsFromAccountToModule",
  "x/cfevesting/keeper/vesting.go:newVestingAccount:SendCoinsFromModuleToAccount"]

theorem tie_bank_mutators : Generated.bankMutators = expectedBankMutators := by decide

theorem tie_minter_before_distributor :
    Generated.beginBlockOrder.take 4 = ["upgradetypes.ModuleName", "capabilitytypes.ModuleName", "cfemintermoduletypes.ModuleName", "cfedistributormoduletypes.ModuleName"] := by
  decide

end C4E.Props.C01
