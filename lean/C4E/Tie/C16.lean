/-
  Tie facts for C16: the orchestration around the migrations, which behaviour of the individual
  migration functions cannot pin down — the v1.2.0 upgrade handler gives the four custom modules'
  legacy parameter subspaces a key table, runs the module migrations, and then applies the three
  vesting updates, in this order; each module registers its migrations for consensus versions 1 and
  2 and reports the current version; each migrator calls the parameter / store migrations.
  Regenerated from /repo's source on every run (extract/main.go); a change in these call sequences
  breaks this theorem.
-/
import C4E.Generated.Facts
namespace C4E.Props.C16

theorem tie_upgrade_orchestration : Generated.upgradeCalls = [
  "app/upgrades/v120/upgrades.go:CreateUpgradeHandler:case cfedistributormoduletypes.ModuleName",
  "app/upgrades/v120/upgrades.go:CreateUpgradeHandler:case cfemintermoduletypes.ModuleName",
  "app/upgrades/v120/upgrades.go:CreateUpgradeHandler:case cfevestingmoduletypes.ModuleName",
  "app/upgrades/v120/upgrades.go:CreateUpgradeHandler:case cfesignaturetypes.ModuleName",
  "app/upgrades/v120/upgrades.go:CreateUpgradeHandler:WithKeyTable(keyTable)",
  "app/upgrades/v120/upgrades.go:CreateUpgradeHandler:RunMigrations",
  "app/upgrades/v120/upgrades.go:CreateUpgradeHandler:UpdateVestingAccountTraces",
  "app/upgrades/v120/upgrades.go:CreateUpgradeHandler:ModifyVestingPoolsState",
  "app/upgrades/v120/upgrades.go:CreateUpgradeHandler:ModifyVestingAccountsState",
  "x/cfedistributor/keeper/migrations.go:Migrate1to2:MigrateParams",
  "x/cfedistributor/keeper/migrations.go:Migrate1to2:MigrateStore",
  "x/cfedistributor/keeper/migrations.go:Migrate2to3:MigrateParams",
  "x/cfedistributor/module.go:ConsensusVersion:return 3",
  "x/cfedistributor/module.go:RegisterServices:RegisterMigration(types.ModuleName,1,mig.Migrate1to2)",
  "x/cfedistributor/module.go:RegisterServices:RegisterMigration(types.ModuleName,2,mig.Migrate2to3)",
  "x/cfeminter/keeper/migrations.go:Migrate1to2:MigrateParams",
  "x/cfeminter/keeper/migrations.go:Migrate1to2:MigrateStore",
  "x/cfeminter/keeper/migrations.go:Migrate2to3:MigrateParams",
  "x/cfeminter/module.go:ConsensusVersion:return 3",
  "x/cfeminter/module.go:RegisterServices:RegisterMigration(types.ModuleName,1,mig.Migrate1to2)",
  "x/cfeminter/module.go:RegisterServices:RegisterMigration(types.ModuleName,2,mig.Migrate2to3)",
  "x/cfesignature/module.go:ConsensusVersion:return 2",
  "x/cfevesting/keeper/migrations.go:Migrate1to2:MigrateStore",
  "x/cfevesting/keeper/migrations.go:Migrate2to3:MigrateParams",
  "x/cfevesting/keeper/migrations.go:Migrate2to3:MigrateStore",
  "x/cfevesting/module.go:ConsensusVersion:return 3",
  "x/cfevesting/module.go:RegisterServices:RegisterMigration(types.ModuleName,1,mig.Migrate1to2)",
  "x/cfevesting/module.go:RegisterServices:RegisterMigration(types.ModuleName,2,mig.Migrate2to3)"] := by
  decide

end C4E.Props.C16
