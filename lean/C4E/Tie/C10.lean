/-
  Tie facts for C10: no narrowing Int64()/Uint64() conversion of an sdk.Int / sdk.Dec that is not
  preceded by an IsInt64-style guard in the same function (D24), and the BeginBlock order.
-/
import C4E.Generated.Facts
namespace C4E.Props.C10

theorem tie_no_unguarded_int64 : Generated.unguardedInt64 = [] := by decide

theorem tie_minter_before_distributor :
    Generated.beginBlockOrder.take 4 = ["upgradetypes.ModuleName", "capabilitytypes.ModuleName", "cfemintermoduletypes.ModuleName", "cfedistributormoduletypes.ModuleName"] := by
  decide

end C4E.Props.C10
