/-
  Tie facts for C09: the complete list of account-record writers (SetAccount / RemoveAccount) in
  non-test code of x/ and app/ — the model's `newCva`, `unlockUnbonded`, the signature module's
  CreateAccount and the v1.2.0 upgrade are all of them.
-/
import C4E.Generated.Facts
namespace C4E.Props.C09

theorem tie_account_writers : Generated.accountWriters = [
  "app/upgrades/v120/accounts_upgrades.go:upgradeVestingAccounnt:SetAccount",
  "x/cfesignature/keeper/msg_server_create_account.go:CreateAccount:SetAccount",
  "x/cfevesting/keeper/vesting.go:newContinuousVestingAccount:SetAccount",
  "x/cfevesting/keeper/vesting_account_split.go:UnlockUnbondedContinuousVestingAccountCoins:SetAccount"] := by
  decide

end C4E.Props.C09
