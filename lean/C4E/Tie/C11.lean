/-
  Tie facts for C11: every source of nondeterminism visible in the source of x/ and app/
  (range over a map, wall clock, randomness, goroutines, select) — re-enumerated on every run.
  Expected and reviewed: two copies of the permission table in app.go (order-insensitive map
  builds), the key collection in validateLastOccurrence (sorted before use since D13), wall-clock
  reads that only feed telemetry timers and the default-genesis / default-params constructors (also
  through the package variable `DefaultStartTime = time.Now()`, whose only reader is `DefaultParams`),
  and crypto/rand in the
  CreateReferenceId *query* (not part of consensus).
-/
import C4E.Generated.Facts
namespace C4E.Props.C11

theorem tie_nondet_sites : Generated.nondetSites = [
  "app/app.go:GetMaccPerms:range-over-map",
  "app/app.go:ModuleAccountAddrs:range-over-map",
  "x/cfedistributor/abci.go:BeginBlocker:time.Now",
  "x/cfedistributor/types/sub_distributor.go:validateLastOccurrence:range-over-map",
  "x/cfeminter/abci.go:BeginBlocker:time.Now",
  "x/cfeminter/types/genesis.go:DefaultGenesis:time.Now",
  "x/cfeminter/types/params.go:DefaultParams:reads-wallclock-var:DefaultStartTime",
  "x/cfesignature/keeper/grpc_query_create_reference_id.go:CreateReferenceId:rand.Read"] := by
  decide

end C4E.Props.C11
