/-
  Tie facts for C20: the complete list of Msg and Query handlers of the four custom modules — a
  handler the model / boundary sweep does not know is a tie failure, not a silent gap.
-/
import C4E.Generated.Facts
namespace C4E.Props.C20

theorem tie_handlers : Generated.handlers = [
  "x/cfedistributor/keeper.Keeper.Params",
  "x/cfedistributor/keeper.Keeper.States",
  "x/cfedistributor/keeper.msgServer.UpdateParams",
  "x/cfedistributor/keeper.msgServer.UpdateSubDistributorBurnShareParam",
  "x/cfedistributor/keeper.msgServer.UpdateSubDistributorDestinationShareParam",
  "x/cfedistributor/keeper.msgServer.UpdateSubDistributorParam",
  "x/cfeminter/keeper.Keeper.Inflation",
  "x/cfeminter/keeper.Keeper.Params",
  "x/cfeminter/keeper.Keeper.State",
  "x/cfeminter/keeper.msgServer.UpdateMintersParams",
  "x/cfeminter/keeper.msgServer.UpdateParams",
  "x/cfesignature/keeper.Keeper.CreateReferenceId",
  "x/cfesignature/keeper.Keeper.CreateReferencePayloadLink",
  "x/cfesignature/keeper.Keeper.CreateStorageKey",
  "x/cfesignature/keeper.Keeper.GetAccountInfo",
  "x/cfesignature/keeper.Keeper.GetReferencePayloadLink",
  "x/cfesignature/keeper.Keeper.Params",
  "x/cfesignature/keeper.Keeper.VerifyReferencePayloadLink",
  "x/cfesignature/keeper.Keeper.VerifySignature",
  "x/cfesignature/keeper.Keeper.isValidSignature",
  "x/cfesignature/keeper.msgServer.CreateAccount",
  "x/cfesignature/keeper.msgServer.PublishReferencePayloadLink",
  "x/cfesignature/keeper.msgServer.StoreSignature",
  "x/cfevesting/keeper.Keeper.GenesisVestingsSummary",
  "x/cfevesting/keeper.Keeper.Params",
  "x/cfevesting/keeper.Keeper.VestingPools",
  "x/cfevesting/keeper.Keeper.VestingType",
  "x/cfevesting/keeper.Keeper.VestingsSummary",
  "x/cfevesting/keeper.msgServer.CreateVestingAccount",
  "x/cfevesting/keeper.msgServer.CreateVestingPool",
  "x/cfevesting/keeper.msgServer.MoveAvailableVesting",
  "x/cfevesting/keeper.msgServer.MoveAvailableVestingByDenoms",
  "x/cfevesting/keeper.msgServer.SendToVestingAccount",
  "x/cfevesting/keeper.msgServer.SplitVesting",
  "x/cfevesting/keeper.msgServer.UpdateDenomParam",
  "x/cfevesting/keeper.msgServer.WithdrawAllAvailable"] := by
  decide

theorem tie_no_unguarded_int64 : Generated.unguardedInt64 = [] := by decide

end C4E.Props.C20
