/-
  C4E.Basic — outcome type, small list/string helpers shared by the executable model.
  Core Lean only (no Mathlib): the driver is compiled as a `lean_exe`.
-/
namespace C4E

/-- What a Go call can do: return normally, return an error, or panic.
    Error codes/texts are deliberately not modelled (no property speaks about them). -/
inductive Outcome (α : Type) where
  | ok (a : α)
  | err
  | panic
deriving Repr, DecidableEq, Inhabited

namespace Outcome
def bind {α β} (o : Outcome α) (f : α → Outcome β) : Outcome β :=
  match o with
  | ok a => f a
  | err => err
  | panic => panic
instance : Monad Outcome where
  pure := ok
  bind := bind
def isOk {α} : Outcome α → Bool
  | ok _ => true
  | _ => false
def isPanic {α} : Outcome α → Bool
  | panic => true
  | _ => false
def tag {α} : Outcome α → String
  | ok _ => "ok"
  | err => "err"
  | panic => "panic"
end Outcome

/-- Association-list map with string keys, kept in insertion order unless stated otherwise. -/
abbrev AList (α : Type) := List (String × α)

namespace AList
def get? {α} (m : AList α) (k : String) : Option α :=
  match m with
  | [] => none
  | (k', v) :: rest => if k' = k then some v else get? rest k
def set {α} (m : AList α) (k : String) (v : α) : AList α :=
  match m with
  | [] => [(k, v)]
  | (k', v') :: rest => if k' = k then (k, v) :: rest else (k', v') :: set rest k v
def erase {α} (m : AList α) (k : String) : AList α :=
  m.filter (fun p => p.1 ≠ k)
def contains {α} (m : AList α) (k : String) : Bool := (get? m k).isSome
end AList

/-- insertion sort by a key (stable); used for canonical printing and store iteration order -/
def insertBy {α} (lt : α → α → Bool) (x : α) : List α → List α
  | [] => [x]
  | y :: ys => if lt x y then x :: y :: ys else y :: insertBy lt x ys
def sortBy {α} (lt : α → α → Bool) (l : List α) : List α :=
  l.foldr (insertBy lt) []

def sumInts (l : List Int) : Int := l.foldl (· + ·) 0

theorem sumInts_cons_aux (l : List Int) (a : Int) : l.foldl (· + ·) a = a + l.foldl (· + ·) 0 := by
  induction l generalizing a with
  | nil => simp
  | cons x xs ih => simp only [List.foldl_cons]; rw [ih (a + x), ih (0 + x)]; omega

@[simp] theorem sumInts_nil : sumInts [] = 0 := rfl
@[simp] theorem sumInts_cons (x : Int) (l : List Int) : sumInts (x :: l) = x + sumInts l := by
  unfold sumInts; simp only [List.foldl_cons]; rw [sumInts_cons_aux]; omega
theorem sumInts_append (a b : List Int) : sumInts (a ++ b) = sumInts a + sumInts b := by
  induction a with
  | nil => simp
  | cons x xs ih => simp [ih]; omega

end C4E
