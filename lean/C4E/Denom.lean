/-
  C4E.Denom — `sdk.ValidateDenom`: regex `[a-zA-Z][a-zA-Z0-9/:._-]{2,127}` (types/coin.go).
-/
import C4E.Basic
namespace C4E

def isAlpha (c : Char) : Bool := (c ≥ 'a' && c ≤ 'z') || (c ≥ 'A' && c ≤ 'Z')
def isDenomChar (c : Char) : Bool :=
  isAlpha c || (c ≥ '0' && c ≤ '9') || c = '/' || c = ':' || c = '.' || c = '_' || c = '-'

/-- `sdk.ValidateDenom d == nil` -/
def validDenom (d : String) : Bool :=
  match d.toList with
  | [] => false
  | c :: rest => isAlpha c && rest.all isDenomChar && 2 ≤ rest.length && rest.length ≤ 127

end C4E
