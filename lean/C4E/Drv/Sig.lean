/-
  Line-protocol adapter for the signature family (s.* ops).  sha256 and the x509 pipeline are
  tables of facts supplied in the op file (each fact is checked against the real functions by
  the Go executor).
-/
import C4E.Signature
import C4E.Proto
namespace C4E.Drv.Sig
open C4E C4E.Sig C4E.Proto

structure W where
  st : State := {}
  hashT : AList String := []
  chkT : List (String × String × String × String) := []   -- (cert, alg, payload, sig) that verify
  timeStr : String := ""
  accts : AList Bool := []       -- address ↦ has public key  (accounts created in this scenario)
deriving Inhabited

def W.H (w : W) (x : String) : String := (w.hashT.get? x).getD ("?unhashed:" ++ x)
def W.chk (w : W) (cert alg payload sg : String) : Bool := w.chkT.contains (cert, alg, payload, sg)

def showLinks (s : State) : String :=
  "[" ++ ";".intercalate ((sortBy (fun a b => a.1 < b.1) s.links).map fun kv => esc kv.1 ++ "~" ++ esc kv.2) ++ "]"

def showSigs (s : State) : String :=
  "[" ++ ";".intercalate ((sortBy (fun a b => esc a.1 < esc b.1) s.sigs).map fun kv =>
    s!"{esc kv.1}~{esc kv.2.signature}~{esc kv.2.algorithm}~{esc kv.2.certificate}~{esc kv.2.timestamp}") ++ "]"

def addrOk (tok : String) : Bool := tok.endsWith ":1"
def addrStr (tok : String) : String :=
  match tok.splitOn ":" with
  | [a, _] => unesc a
  | _ => ""

def step (w : W) (toks : List String) : W × String :=
  match toks with
  | ["s.time", _, str] => ({ w with timeStr := unesc str }, ".")
  | ["s.hash", x, h] => ({ w with hashT := w.hashT.set (unesc x) h }, ".")
  | ["s.chk", cert, alg, payload, sg, v] =>
    if v = "1" then ({ w with chkT := (unesc cert, unesc alg, unesc payload, unesc sg) :: w.chkT }, ".") else (w, ".")
  | ["s.publish", creator, key, value] =>
    if !addrOk creator then (w, "err links=" ++ showLinks w.st) else
    match publish w.st (unesc key) (unesc value) with
    | .ok s => ({ w with st := s }, "ok links=" ++ showLinks s)
    | .err => (w, "err links=" ++ showLinks w.st)
    | .panic => (w, "panic links=" ++ showLinks w.st)
  | ["s.store", creator, sk, _json, jsonOk, sg, alg, cert] =>
    if !addrOk creator then (w, "err sigs=" ++ showSigs w.st) else
    match store w.st (unesc sk) (jsonOk = "1") (unesc sg) (unesc alg) (unesc cert) w.timeStr with
    | .ok s => ({ w with st := s }, "ok sigs=" ++ showSigs s)
    | .err => (w, "err sigs=" ++ showSigs w.st)
    | .panic => (w, "panic sigs=" ++ showSigs w.st)
  | ["s.storekey", addr, ref, len] =>
    match storageKey w.H (unesc addr) (unesc ref) (len.toNat?.getD 0) with
    | some k => (w, "ok key=" ++ k)
    | none => (w, "err")
  | ["s.verify", addr, ref, len] =>
    match verify w.H w.chk w.st (unesc addr) (unesc ref) (len.toNat?.getD 0) with
    | .valid sg alg cert ts => (w, s!"valid sig={esc sg} alg={esc alg} cert={esc cert} ts={esc ts}")
    | .invalid => (w, "err")
  | ["s.acct", a, kind] =>
    -- the executor creates the account if absent and SETS a key for "basekey"; an existing key is kept
    ({ w with accts := w.accts.set a (kind = "basekey" || (w.accts.get? a).getD false) }, ".")
  | ["s.createAccount", creator, target, _pk, cls] =>
    let t := addrStr target
    let cur := fun (w : W) => match w.accts.get? t with
      | some true => "present/key" | some false => "present/nokey" | none => "absent"
    -- ValidateBasic: creator address; handler: target address parses, account must not exist,
    -- the key must decode and belong to the address (D9 repair)
    if !addrOk creator || !addrOk target || (w.accts.get? t).isSome || cls ≠ "match" then (w, "err acct=" ++ cur w)
    else
      let w' := { w with accts := w.accts.set t true }
      (w', "ok acct=" ++ cur w')
  | ["s.accountInfo", a] =>
    match w.accts.get? (unesc a) with
    | some k => (w, s!"ok found=1 pk={if k then 1 else 0}")
    | none => (w, "ok found=0 pk=0")
  | ["s.end"] => (w, ".")
  | _ => (w, "bad-op")

end C4E.Drv.Sig
