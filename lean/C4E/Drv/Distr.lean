/-
  Line-protocol adapter for the distributor family (d.* ops).
-/
import C4E.Distributor
import C4E.Bridge
import C4E.Upgrade
import C4E.Proto
namespace C4E.Drv.Distr
open C4E C4E.Distr C4E.Proto C4E.CoinList

structure W where
  env : Env := { modules := [], blocked := [] }
  pending : List SubD := []          -- configuration being assembled by d.sub/d.src/d.share
  params : List SubD := []           -- stored parameters
  world : World := {}
  faults : List Nat := []
  tracked : List String := []        -- addresses whose balances are printed
  gstates : List DState := []        -- genesis states being assembled by d.gstate
deriving Inhabited

/-- account token `TYPE|id|b` -/
def parseAccount (s : String) : Option Account :=
  match s.splitOn "|" with
  | [t, id, b] => some { type := unesc t, id := unesc id, bech32Ok := b = "1" }
  | _ => none

def track (w : W) (a : String) : W :=
  if w.tracked.contains a then w else { w with tracked := sortBy (· < ·) (a :: w.tracked) }

def trackAccount (e : Env) (w : W) (a : Account) : W :=
  if a.type = tBase && a.bech32Ok then track w (canonAddr a.id)
  else if a.type = tModule then match e.modAddr? a.id with
    | some addr => track w addr
    | none => w
  else w

def showState (s : DState) : String :=
  s!"{esc (stateKey s)}~{if s.burn then 1 else 0}~{showCoins s.remains}"

def showEvent : Event → String
  | .distribution sub sh amt => s!"D~{esc sub}~{esc sh}~{showCoins amt}"
  | .burn sub amt => s!"B~{esc sub}~{showCoins amt}"

def showBals (w : W) : String :=
  "[" ++ ";".intercalate ((w.tracked.filterMap fun a =>
    let b := nz (w.world.bank.balance a)
    if b.isEmpty then none else some (a ++ "~" ++ showCoins b))) ++ "]"

def showAccount (a : Account) : String := s!"{esc a.type}|{esc a.id}"

def showParams (subs : List SubD) : String :=
  "[" ++ ";".intercalate (subs.map fun s =>
    s!"{esc s.name}~{showOptInt s.burnShare}~{showAccount s.primary}~<{",".intercalate (s.sources.map fun a => match a with | some a => showAccount a | none => "nil")}>~<{",".intercalate (s.shares.map fun sh => s!"{esc sh.name}/{showOptInt sh.share}/{showAccount sh.dest}")}>") ++ "]"

def updLast (l : List SubD) (f : SubD → SubD) : List SubD :=
  match l.reverse with
  | [] => []
  | x :: xs => (f x :: xs).reverse

def step (w : W) (toks : List String) : W × String :=
  match toks with
  | ["d.module", name, addr, burner] =>
    let w := { w with env := { w.env with modules := w.env.modules ++ [{ name := unesc name, addr := addr, burner := burner = "1" }] } }
    (track w addr, ".")
  | ["d.blocked", addr] => ({ w with env := { w.env with blocked := addr :: w.env.blocked } }, ".")
  | ["d.bal0", addr, coins] =>
    match parseCoins coins with
    | some c => ({ track w addr with world := { w.world with bank := { w.world.bank with bal := w.world.bank.bal.set addr c } } }, ".")
    | none => (w, "bad-op")
  | ["d.lockacct", addr, coins] =>
    match parseCoins coins with
    | some c => ({ w with world := { w.world with bank := { w.world.bank with locked := w.world.bank.locked.set addr c } } }, ".")
    | none => (w, "bad-op")
  | ["d.new"] => ({ w with pending := [] }, ".")
  | ["d.sub", name, burn, prim] =>
    match optInt? burn, parseAccount prim with
    | some b, some p =>
      (trackAccount w.env { w with pending := w.pending ++ [{ name := unesc name, sources := [], primary := p, burnShare := b, shares := [] }] } p, ".")
    | _, _ => (w, "bad-op")
  | ["d.src", "nil"] => ({ w with pending := updLast w.pending (fun s => { s with sources := s.sources ++ [none] }) }, ".")
  | ["d.src", a] =>
    match parseAccount a with
    | some a => (trackAccount w.env { w with pending := updLast w.pending (fun s => { s with sources := s.sources ++ [some a] }) } a, ".")
    | none => (w, "bad-op")
  | ["d.share", "nil"] =>
    ({ w with pending := updLast w.pending (fun s => { s with shares := s.shares ++ [{ isNil := true, name := "", share := none, dest := default }] }) }, ".")
  | ["d.share", name, share, a] =>
    match optInt? share, parseAccount a with
    | some sh, some a =>
      (trackAccount w.env { w with pending := updLast w.pending (fun s => { s with shares := s.shares ++ [{ name := unesc name, share := sh, dest := a }] }) } a, ".")
    | _, _ => (w, "bad-op")
  | ["d.validate"] => (w, if paramsValid w.env w.pending then "ok" else "err")
  | ["d.setparams"] =>
    if paramsValid w.env w.pending then ({ w with params := w.pending }, "ok") else (w, "err")
  | ["d.credit", addr, coins] =>
    match parseCoins coins with
    | some c =>
      let w := track w addr
      let b := w.world.bank
      ({ w with world := { w.world with bank := { b with bal := b.bal.set addr (CoinList.add (b.balance addr) c) } } }, ".")
    | none => (w, "bad-op")
  | ["d.gstate", burn, acct, coins] =>
    match (if acct = "-" then some none else (parseAccount acct).map some), parseCoins coins with
    | some a, some c => ({ w with gstates := w.gstates ++ [{ account := a, burn := burn = "1", remains := c }] }, ".")
    | _, _ => (w, "bad-op")
  | ["d.ginit"] =>
    -- `GenesisState.Validate` on the stored parameters and the assembled states, then `InitGenesis`
    if genesisValid w.env w.params w.gstates then
      let sts := initStates w.gstates
      ({ w with world := { w.world with states := sts }, gstates := [] }, s!"ok states=[{";".intercalate (sts.map showState)}]")
    else ({ w with gstates := [] }, "err")
  | "d.faults" :: ks =>
    ({ w with faults := ks.filterMap nat? }, ".")
  | ["d.bb"] =>
    match beginBlock w.env w.params w.world w.faults with
    | .ok r =>
      let w' := { w with world := r.world, faults := [] }
      let inv1 := nonNegativeStates r.world.states
      let inv2 := stateSumMatchesBalance w.env r.world
      let br := (C4E.Bridge.bridge w.env w.params w.world w.faults).show
      -- the external hypotheses of the whole-block theorems (C03.faithful_block_books, C10.distributor_block_completes),
      -- evaluated on this scenario's environment and stored parameters
      let hyp := if !paramsValid w.env w.params then "na" else if envOkB w.env && bech32FactsB w.params then "ok" else "FAIL"
      (w', s!"ok br={br} hyp={hyp} states=[{";".intercalate (r.world.states.map showState)}] main={showCoins (nz (r.world.bank.balance w.env.mainAddr))} ev=[{";".intercalate (r.events.map showEvent)}] burned={showCoins (nz r.world.bank.burned)} bal={showBals w'} inv={if inv1 then 1 else 0}{if inv2 then 1 else 0} calls={r.world.callIdx}")
    | _ => (w, "panic")
  | ["d.update", "full", auth] =>
    match updateFull w.env (auth = "gov") w.pending with
    | some ns => ({ w with params := ns }, "ok")
    | none => (w, "err")
  | ["d.update", "full-then-fail", _auth] => (w, "err")   -- rolled back whatever the update did
  | ["d.update", "sub", auth, isNil] =>
    let sub := if isNil = "1" then none else w.pending.head?
    match updateSub w.env (auth = "gov") w.params sub with
    | some ns => ({ w with params := ns }, "ok")
    | none => (w, "err")
  | ["d.update", "share", auth, subName, destName, share] =>
    match optInt? share with
    | some sh =>
      match updateShare w.env (auth = "gov") w.params (unesc subName) (unesc destName) sh with
      | some ns => ({ w with params := ns }, "ok")
      | none => (w, "err")
    | none => (w, "bad-op")
  | ["d.update", "burn", auth, subName, burn] =>
    match optInt? burn with
    | some b =>
      match updateBurn w.env (auth = "gov") w.params (unesc subName) b with
      | some ns => ({ w with params := ns }, "ok")
      | none => (w, "err")
    | none => (w, "bad-op")
  | ["d.up.migrate3"] =>
    -- nil entries / nil decimals do not survive the JSON encoding of the legacy parameter store
    if w.pending.any (fun s => s.burnShare.isNone || s.sources.any (·.isNone) ||
        s.shares.any (fun sh => sh.isNil || sh.share.isNone)) then (w, "?") else
    match C4E.Upgrade.migrateDistrV3 w.env w.pending with
    | some ns => ({ w with params := ns }, "ok p=" ++ showParams ns)
    | none => (w, "err")
  | ["d.params"] => (w, "ok p=" ++ showParams w.params)
  | ["d.end"] => (w, ".")
  | _ => (w, "bad-op")

end C4E.Drv.Distr
