/-
  Line-protocol adapter for the vesting family (v.* ops).
-/
import C4E.Vesting
import C4E.Upgrade
import C4E.Proto
namespace C4E.Drv.Vest
open C4E C4E.Vest C4E.Proto C4E.CoinList

structure W where
  st : State := {}
  tracked : List String := []
  bonded : String := ""
deriving Inhabited

def track (w : W) (a : String) : W :=
  if a = "" || w.tracked.contains a then w else { w with tracked := sortBy (· < ·) (a :: w.tracked) }

/-- address token `<string>:<0|1>` -/
def parseAddr (s : String) : Option Addr :=
  match s.splitOn ":" with
  | [a, b] => some { s := unesc a, ok := b = "1" }
  | _ => none

/-- the ACCOUNT behind an address token: bech32 admits an all-upper-case spelling, the SDK decodes
    both spellings to the same account (`AccAddress.String()` is the lower-case one) -/
def parseAcct (s : String) : Option Addr :=
  (parseAddr s).map fun a => if a.ok then { a with s := a.s.toLower } else a

def trackAddr (w : W) (a : Addr) : W := if a.ok then track w a.s.toLower else w

/-- coins with optional (nil) amounts: `-` = nil slice, `[d=5,e=-]` -/
def parseOptCoins (s : String) : Option (Option (List (String × Option Int))) :=
  if s = "-" then some none else
  if !s.startsWith "[" || !s.endsWith "]" then none else
  let inner := String.ofList ((s.toList.drop 1).dropLast)
  if inner = "" then some (some []) else
  ((inner.splitOn ",").foldr (fun item acc =>
    match acc, item.splitOn "=" with
    | some l, [d, a] => (optInt? a).map (fun v => (unesc d, v) :: l)
    | _, _ => none) (some [])).map some

def showPool (owner : String) (p : Pool) : String :=
  s!"{owner}~{esc p.name}~{esc p.vtype}~{p.lockStart}~{p.lockEnd}~{p.initially}~{p.withdrawn}~{p.sent}~{if p.genesisPool then 1 else 0}"

def showPools (s : State) : String :=
  "[" ++ ";".intercalate (s.pools.foldr (fun kv acc => kv.2.map (showPool kv.1) ++ acc) []) ++ "]"

def showBals (w : W) : String :=
  "[" ++ ";".intercalate (w.tracked.filterMap fun a =>
    let b := nz (w.st.balance a)
    if b.isEmpty then none else some (a ++ "~" ++ showCoins b)) ++ "]"

def kindStr : AcctKind → String
  | .base => "base" | .cva => "cva" | .module => "module" | .dva => "dva"

def showAcct (addr : String) (a : Acct) : String :=
  s!"{addr}~{kindStr a.kind}~{a.num}~{a.ident}~{showCoins (nz a.ov)}~{a.startS}~{a.endS}~{showCoins (nz a.dv)}~{showCoins (nz a.df)}"

def showAccts (w : W) : String :=
  "[" ++ ";".intercalate (w.tracked.filterMap fun a => (w.st.accts.get? a).map (showAcct a)) ++ "]"

def showTraces (s : State) : String :=
  "[" ++ ";".intercalate (s.traces.map fun kv =>
    s!"{kv.1}~{kv.2.id}~{if kv.2.genesis then 1 else 0}~{if kv.2.fromGenesisPool then 1 else 0}~{if kv.2.fromGenesisAccount then 1 else 0}") ++ "]"

def showEv : Ev → Option String
  | .withdraw o p a => some s!"W~{o}~{esc p}~{a}"
  | .newFromPool _ _ _ _ _ => none

def b01 (b : Bool) : String := if b then "1" else "0"

def showState (w : W) : String :=
  s!"pools={showPools w.st} bal={showBals w} acct={showAccts w} tr={showTraces w.st} cnt={w.st.traceCount} inv={b01 (invNonNegative w.st)}{b01 (invConsistent w.st)}{b01 (invModuleAccount w.st)}"

def runMsg (w : W) (m : Msg) : W × String :=
  let (st, r) := deliver w.st m
  let w' := { w with st := st }
  match r with
  | .ok res =>
    -- only MsgWithdrawAllAvailableResponse carries the withdrawn amount
    let paid := match m with | .withdraw _ => res.paid | _ => 0
    (w', s!"ok paid={paid} ev=[{";".intercalate (res.evs.filterMap showEv)}] {showState w'}")
  | .err => (w', s!"err paid=0 ev=[] {showState w'}")
  | .panic => (w', s!"panic paid=0 ev=[] {showState w'}")

def step (w : W) (toks : List String) : W × String :=
  match toks with
  | ["v.denom", d] => ({ w with st := { w.st with denom := unesc d } }, ".")
  | ["v.modaddr", a] => (track { w with st := { w.st with modAddr := a } } a, ".")
  | ["v.bonded", a] => (track { w with bonded := a } a, ".")
  | ["v.blocked", a] => ({ w with st := { w.st with blocked := a :: w.st.blocked } }, ".")
  | ["v.bal0", a, coins] =>
    match parseCoins coins with
    | some c => (track { w with st := { w.st with bal := w.st.bal.set a c } } a, ".")
    | none => (w, "bad-op")
  | ["v.accnum", n] =>
    match nat? n with
    | some n => ({ w with st := { w.st with nextNum := n } }, ".")
    | none => (w, "bad-op")
  | ["v.modacct", a, n] =>
    match nat? n with
    | some n => (track { w with st := { w.st with accts := w.st.accts.set a { kind := .module, num := n, ident := "0/-" } } } a, ".")
    | none => (w, "bad-op")
  | ["v.vt", name, lockup, vesting, free] =>
    match int? lockup, int? vesting, int? free with
    | some l, some v, some f =>
      ({ w with st := { w.st with vtypes := w.st.vtypes.filter (·.name ≠ unesc name) ++ [{ name := unesc name, lockup := l, vesting := v, free := f }] } }, ".")
    | _, _, _ => (w, "bad-op")
  | ["v.time", t] =>
    match int? t with
    | some t => ({ w with st := { w.st with now := t } }, ".")
    | none => (w, "bad-op")
  | ["v.fund", a, coins] =>
    match parseCoins coins with
    | some c =>
      let w := track w a
      let s := w.st
      let (accts, num) := if (s.accts.get? a).isSome then (s.accts, s.nextNum)
                          else (s.accts.set a { kind := .base, num := s.nextNum, ident := "0/-" }, s.nextNum + 1)
      ({ w with st := { s with bal := s.bal.set a (CoinList.add (s.balance a) c), accts := accts, nextNum := num } }, ".")
    | none => (w, "bad-op")
  | ["v.acct", a, "basekey"] =>
    let w := track w a
    let s := w.st
    match s.accts.get? a with
    | some acc => ({ w with st := { s with accts := s.accts.set a { acc with ident := "5/pk" } } }, ".")
    | none => ({ w with st := { s with accts := s.accts.set a { kind := .base, num := s.nextNum, ident := "5/pk" }, nextNum := s.nextNum + 1 } }, ".")
  | ["v.acct", a, "cva", ov, startS, endS] =>
    match parseCoins ov, int? startS, int? endS with
    | some ov, some ss, some es =>
      let w := track w a
      let s := w.st
      ({ w with st := { s with accts := s.accts.set a { kind := .cva, num := s.nextNum, ident := "0/-", ov := ov, startS := ss, endS := es }, nextNum := s.nextNum + 1 } }, ".")
    | _, _, _ => (w, "bad-op")
  | ["v.acct", a, "dva", ov, endS] =>
    match parseCoins ov, int? endS with
    | some ov, some es =>
      let w := track w a
      let s := w.st
      ({ w with st := { s with accts := s.accts.set a { kind := .dva, num := s.nextNum, ident := "0/-", ov := ov, startS := 0, endS := es }, nextNum := s.nextNum + 1 } }, ".")
    | _, _ => (w, "bad-op")
  | ["v.genpool", owner, name, vtype, ls, le, ini, wd, sent, gen] =>
    match int? ls, int? le, int? ini, int? wd, int? sent with
    | some ls, some le, some ini, some wd, some sent =>
      let w := track w owner
      let s := w.st
      let p : Pool := { name := unesc name, vtype := unesc vtype, lockStart := ls, lockEnd := le, initially := ini, withdrawn := wd, sent := sent, genesisPool := gen = "1" }
      let s1 := s.setPools owner (((s.pools.get? owner).getD []) ++ [p])
      ({ w with st := { s1 with bal := s1.bal.set s1.modAddr (CoinList.add (s1.balance s1.modAddr) (nz [(s1.denom, p.locked)])) } }, ".")
    | _, _, _, _, _ => (w, "bad-op")
  | ["v.trace", a, g, fp, fa] =>
    let s := w.st
    let s1 := s.appendTrace a (fp = "1") (fa = "1")
    let s2 := { s1 with traces := s1.traces.map (fun kv => if kv.1 = a then (kv.1, { kv.2 with genesis := g = "1" }) else kv) }
    ({ w with st := s2 }, ".")
  | ["v.delegate", a, d, amt] =>
    match int? amt with
    | some amt =>
      match delegate w.st a (unesc d) amt w.bonded with
      | .ok s => ({ w with st := s }, "ok " ++ showState { w with st := s })
      | .err => (w, "err " ++ showState w)
      | .panic => (w, "panic " ++ showState w)
    | none => (w, "bad-op")
  | ["v.createPool", owner, name, amt, dur, vt] =>
    -- `addVestingPool` keeps the pools under `accAddress.String()`: the canonical spelling
    match parseAcct owner, optInt? amt, int? dur with
    | some o, some a, some d => runMsg (trackAddr w o) (.createPool o (unesc name) a d (unesc vt))
    | _, _, _ => (w, "bad-op")
  | ["v.withdraw", owner] =>
    match parseAddr owner with
    | some o =>
      -- `WithdrawAllAvailable` looks the pools up under the RAW owner string of the message: for the
      -- upper-case spelling of an owner whose pools were created by message there is nothing (D38)
      if o.ok && o.s ≠ o.s.toLower && (w.st.pools.get? o.s).isNone then (trackAddr w o, s!"err paid=0 ev=[] {showState (trackAddr w o)}")
      else runMsg (trackAddr w o) (.withdraw o)
    | none => (w, "bad-op")
  | ["v.send", owner, to, pool, amt, restart] =>
    match parseAddr owner, parseAcct to, optInt? amt with
    | some o, some t, some a =>
      -- same raw lookup in `SendToNewVestingAccount` (after ValidateBasic)
      if o.ok && o.s ≠ o.s.toLower && (w.st.pools.get? o.s).isNone && validateBasic (.send o t (unesc pool) a (restart = "1")) then
        (trackAddr (trackAddr w o) t, s!"err paid=0 ev=[] {showState (trackAddr (trackAddr w o) t)}")
      else runMsg (trackAddr (trackAddr w o) t) (.send o t (unesc pool) a (restart = "1"))
    | _, _, _ => (w, "bad-op")
  | ["v.createVA", src, to, coins, ss, es] =>
    match parseAcct src, parseAcct to, parseOptCoins coins, int? ss, int? es with
    | some f, some t, some c, some ss, some es => runMsg (trackAddr (trackAddr w f) t) (.createVA f t c ss es)
    | _, _, _, _, _ => (w, "bad-op")
  | ["v.split", src, to, coins] =>
    match parseAcct src, parseAcct to, parseOptCoins coins with
    | some f, some t, some c => runMsg (trackAddr (trackAddr w f) t) (.split f t c)
    | _, _, _ => (w, "bad-op")
  | ["v.move", src, to] =>
    match parseAcct src, parseAcct to with
    | some f, some t => runMsg (trackAddr (trackAddr w f) t) (.move f t)
    | _, _ => (w, "bad-op")
  | "v.moveDenoms" :: src :: to :: denoms =>
    match parseAcct src, parseAcct to with
    | some f, some t => runMsg (trackAddr (trackAddr w f) t) (.moveDenoms f t (denoms.map unesc))
    | _, _ => (w, "bad-op")
  | ["v.q.pools", owner] =>
    match w.st.pools.get? owner with
    | none => (w, "err")
    | some ps => (w, "ok q=[" ++ ";".intercalate (ps.map fun p => s!"{esc p.name}~{withdrawable w.st.now p}~{p.locked}~{p.sent}~{p.initially}") ++ "]")
  | ["v.q.summary", g] =>
    match summary w.st (g = "1") with
    | some r => (w, s!"ok all={r.all} pools={r.inPools} accts={r.inAccounts} deleg={r.delegated}")
    | none => (w, "panic")
  | ["v.q.locked", a] =>
    match w.st.locked a with
    | some l => (w, "ok locked=" ++ showCoins (nz l))
    | none => (w, "panic")
  | ["v.q.spendable", a] =>
    match w.st.locked a with
    | some l =>
      let bal := w.st.balance a
      let d := CoinList.add bal (neg l)
      (w, "ok spendable=" ++ showCoins (if isAnyNegative d then [] else nz d))
    | none => (w, "panic")
  | ["v.updateDenom", auth, d] =>
    match updateDenom w.st (auth = "gov") (unesc d) with
    | some s => ({ w with st := s }, "ok denom=" ++ esc s.denom)
    | none => (w, "err denom=" ++ esc w.st.denom)
  | ["v.up.split", l1, l2, l3, l4] =>
    match int? l1, int? l2, int? l3, int? l4 with
    | some a, some b, some c, some d =>
      let showVts := fun (s : State) => "[" ++ ";".intercalate ((sortBy (fun x y => x.name < y.name) s.vtypes).map fun v => s!"{esc v.name}~{v.lockup}~{v.vesting}~{v.free}") ++ "]"
      match w.st.pools.get? Upgrade.owner with
      | none => (w, s!"ok changed=0 vts={showVts w.st} {showState w}")
      | some ps =>
        match Upgrade.modifyPools w.st.vtypes ps (a, b, c, d) with
        | none => (w, s!"ok changed=0 vts={showVts w.st} {showState w}")
        | some (vts, ps') =>
          let w' := { w with st := ({ w.st with vtypes := vts }).setPools Upgrade.owner ps' }
          (w', s!"ok changed=1 vts={showVts w'.st} {showState w'}")
    | _, _, _, _ => (w, "bad-op")
  | ["v.up.traces"] =>
    let w' := { w with st := { w.st with traces := w.st.traces.map (fun kv => (kv.1, Upgrade.updateTrace kv.2)) } }
    (w', "ok " ++ showState w')
  | "v.up.accounts" :: rest =>
    -- rest: for each of the four hard-coded accounts the (start, end) a shifted schedule would get
    let nums := rest.filterMap int?
    let pairs := [(nums.getD 0 0, nums.getD 1 0), (nums.getD 2 0, nums.getD 3 0), (nums.getD 4 0, nums.getD 5 0), (nums.getD 6 0, nums.getD 7 0)]
    let accts := (Upgrade.shiftedAccounts.zip pairs).foldl (fun (m : AList Acct) ap =>
      match m.get? ap.1 with
      | some a => m.set ap.1 (Upgrade.shiftAccount a ap.2.1 ap.2.2)
      | none => m) w.st.accts
    let w' := Upgrade.shiftedAccounts.foldl track { w with st := { w.st with accts := accts } }
    (w', "ok " ++ showState w')
  | ["v.up.v2pool", owner, name, vtype, ls, le, ini, wd, sent] =>
    match int? ls, int? le, int? ini, int? wd, int? sent with
    | some ls, some le, some ini, some wd, some sent =>
      let p : Pool := { name := unesc name, vtype := unesc vtype, lockStart := ls, lockEnd := le, initially := ini, withdrawn := wd, sent := sent }
      let s1 := w.st.setPools owner (((w.st.pools.get? owner).getD []) ++ [p])
      ({ track w owner with st := { s1 with bal := s1.bal.set s1.modAddr (CoinList.add (s1.balance s1.modAddr) (nz [(s1.denom, p.locked)])) } }, ".")
    | _, _, _, _, _ => (w, "bad-op")
  | ["v.up.migrate3"] =>
    let w' := { w with st := { w.st with pools := w.st.pools.map (fun kv => (kv.1, kv.2.map Upgrade.migrateV3Pool)) } }
    (w', "ok " ++ showState w')
  | ["v.up.v1pool", owner, name, vtype, ls, le, vested, wd, lmw, lmv] =>
    match int? ls, int? le, int? vested, int? wd, int? lmw, int? lmv with
    | some ls, some le, some ve, some wd, some lmw, some lmv =>
      let p := Upgrade.migrateV2Pool (unesc name) (unesc vtype) ls le ve wd lmw lmv
      let s1 := w.st.setPools owner (((w.st.pools.get? owner).getD []) ++ [p])
      ({ track w owner with st := { s1 with bal := s1.bal.set s1.modAddr (CoinList.add (s1.balance s1.modAddr) (nz [(s1.denom, lmv - lmw)])) } }, ".")
    | _, _, _, _, _, _ => (w, "bad-op")
  | ["v.up.migrate2"] => (w, "ok " ++ showState w)
  | ["v.end"] => (w, ".")
  | _ => (w, "bad-op")

end C4E.Drv.Vest
