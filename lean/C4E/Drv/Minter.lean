/-
  Line-protocol adapter for the minter family (m.* ops).
-/
import C4E.Minter
import C4E.Upgrade
import C4E.Proto
namespace C4E.Drv.Minter
open C4E C4E.Minter C4E.Proto

structure W where
  legacyDenom : String := ""
  legacyStart : Int := 0
  legacy : List C4E.Upgrade.LegacyM := []
  raw : RawParams := { denom := "", start := 0, minters := [] }
  params : Params := { denom := "", start := 0, minters := [] }
  st : St := { seq := 0, minted := 0, remToMint := 0, remPrev := 0, last := 0 }
  hist : List St := []
  supply : AList Int := []
  halted : Bool := false
deriving Inhabited

def supOf (w : W) : Int := (w.supply.get? w.params.denom).getD 0

def parseCfg : List String → Option RawCfg
  | ["none"] => some .noMint
  | ["unresolved"] => some .unresolved
  | ["nilcfg"] => some .nilCfg
  -- a nil `Int` / `Dec` inside a config cannot survive packing into the `Any` (the SDK's
  -- `MarshalTo` replaces a nil amount by zero in place), so "-" reaches `Validate` as 0
  | ["lin", a] => (optInt? a).map (fun a => .lin (some (a.getD 0)))
  | ["exp", a, step, mult] => do
      let a ← optInt? a; let s ← int? step; let m ← optInt? mult
      pure (.exp (some (a.getD 0)) s (some (m.getD 0)))
  | _ => none

def showSt (s : St) : String :=
  s!"{s.seq},{s.minted},{s.remToMint},{s.remPrev},{s.last}"

def histSet (h : List St) (s : St) : List St :=
  sortBy (fun a b => a.seq < b.seq) (s :: h.filter (·.seq ≠ s.seq))

def showHist (h : List St) : String :=
  "[" ++ ";".intercalate (h.map showSt) ++ "]"

def showParams (p : Params) : String :=
  let showCfg : Cfg → String
    | .noMint => "none"
    | .lin a => s!"lin/{a}"
    | .exp a s m => s!"exp/{a}/{s}/{m}"
  s!"{esc p.denom}|{p.start}|[" ++ ";".intercalate (p.minters.map fun m => s!"{m.seq}/{showOptInt m.endT}/{showCfg m.cfg}") ++ "]"

def step (w : W) (toks : List String) : W × String :=
  match toks with
  | ["m.cfg", denom, start] =>
    -- "zero" is Go's zero `time.Time` (1 January of year 1), far outside the int64 nanosecond range
    match (if start = "zero" then some (-62135596800000000000 : Int) else int? start) with
    | some s => ({ w with raw := { denom := unesc denom, start := s, minters := [] } }, ".")
    | none => (w, "bad-op")
  | "m.period" :: "nilminter" :: [] =>
    ({ w with raw := { w.raw with minters := w.raw.minters ++ [{ isNil := true, seq := 0, endT := none, cfg := .nilCfg }] } }, ".")
  | "m.period" :: seq :: e :: rest =>
    match nat? seq, (if e = "zero" then some (some (-62135596800000000000 : Int)) else optInt? e), parseCfg rest with
    | some seq, some e, some c =>
      ({ w with raw := { w.raw with minters := w.raw.minters ++ [{ seq := seq, endT := e, cfg := c }] } }, ".")
    | _, _, _ => (w, "bad-op")
  | ["m.init", seq, minted, remTo, remPrev, last] =>
    match nat? seq, int? minted, int? remTo, int? remPrev, int? last with
    | some seq, some mi, some rt, some rp, some la =>
      match validate w.raw with
      | none => (w, "err")
      | some p =>
        ({ w with params := p, st := { seq := seq, minted := mi, remToMint := rt, remPrev := rp, last := la },
                  hist := [], supply := [], halted := false }, "ok")
    | _, _, _, _, _ => (w, "bad-op")
  | ["m.validate"] =>
    match validate w.raw with
    | none => (w, "err")
    | some p => (w, "ok p=" ++ showParams p)
  | ["m.fund", amt] =>
    match int? amt with
    | some a => ({ w with supply := w.supply.set w.params.denom (supOf w + a) }, ".")
    | none => (w, "bad-op")
  | ["m.block", t] =>
    match int? t with
    | none => (w, "bad-op")
    | some t =>
      match beginBlock w.params w.st t with
      | .ok r =>
        let hist := r.hist.foldl histSet w.hist
        let w' := { w with st := r.st, hist := hist, supply := w.supply.set w.params.denom (supOf w + r.amount) }
        let infl := match currentInflation w'.params w'.st (supOf w') t with
          | .ok i => toString i
          | .err => "undef"
          | .panic => "PANIC"
        (w', s!"ok amt={r.amount} ev={r.amount} st={showSt r.st} hist={showHist hist} infl={infl} supply={supOf w'}")
      | _ => (w, "panic")
  | ["m.infl", t] =>
    match int? t with
    | none => (w, "bad-op")
    | some t =>
      match currentInflation w.params w.st (supOf w) t with
      | .ok i => (w, s!"ok infl={i}")
      | .err => (w, "err")
      | .panic => (w, "panic")
  | ["m.update", kind, auth] =>
    -- kind: full (MsgUpdateParams) | minters (MsgUpdateMintersParams keeps the stored denom)
    let raw := if kind = "minters" then { w.raw with denom := w.params.denom } else w.raw
    -- ValidateBasic: authority must be gov; params must validate (minters only for `minters`)
    let authOk := auth = "gov"
    let vbOk := authOk && (if kind = "minters" then (validateMinters raw.start raw.minters).isSome
                           else (validate raw).isSome)
    if !vbOk then (w, "err") else
    match updateParams authOk w.st raw with
    | none => (w, "err")
    | some p => ({ w with params := p }, "ok")
  | ["m.up.cfg", denom, start] =>
    match int? start with
    | some s => ({ w with legacyDenom := unesc denom, legacyStart := s, legacy := [] }, ".")
    | none => (w, "bad-op")
  | ["m.up.period", seq, e, ty, lin, exp] =>
    let linV : Option (Option Int) := if lin = "nil" then some none else (int? lin).map some
    let expV : Option (Option (Int × Int × Int)) :=
      if exp = "nil" then some none else
      match exp.splitOn "/" with
      | [a, st, mu] => match int? a, int? st, int? mu with
        | some a, some st, some mu => some (some (a, st, mu))
        | _, _, _ => none
      | _ => none
    match nat? seq, optInt? e, linV, expV with
    | some seq, some e, some l, some x =>
      ({ w with legacy := w.legacy ++ [{ seq := seq, endT := e, type := unesc ty, lin := l, exp := x }] }, ".")
    | _, _, _, _ => (w, "bad-op")
  | ["m.up.migrate3"] =>
    match C4E.Upgrade.migrateMinterV3 w.legacyDenom w.legacyStart w.legacy with
    | some p => ({ w with params := p }, "ok p=" ++ showParams p)
    | none => (w, "err")
  | ["m.params"] => (w, "ok p=" ++ showParams w.params)
  | ["m.end"] => (w, ".")
  | _ => (w, "bad-op")

end C4E.Drv.Minter
