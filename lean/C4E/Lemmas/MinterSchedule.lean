/-
  C02 core: the schedule potential.  `mintGo` is the Go recursion of `Keeper.mint` over the list of
  remaining periods (head = current); `total` is the integer part of the cumulative schedule with
  remainders carried across period boundaries.  `mintGo_spec`: one block mints
  `total(t) − minted` ≥ 0 and leaves a state from which every later time mints the rest.
-/
import C4E.Lemmas.MinterArith
namespace C4E.Minter
open C4E

/-- what the proof needs from a period `m` starting at `start` -/
structure Good (m : M) (start : Int) : Prop where
  nonneg : ∀ t, start ≤ t → 0 ≤ amountToMint m start t
  mono : ∀ t t', start ≤ t → t ≤ t' → amountToMint m start t ≤ amountToMint m start t'
  clamp : ∀ e t, m.endT = some e → e ≤ t → amountToMint m start t = amountToMint m start e
  zero : amountToMint m start start = 0
  endAfter : ∀ e, m.endT = some e → start < e
  noPanic : ∀ t, start ≤ t → amountPanics m start t = false

/-- what validation (plus "linear periods span at least one millisecond") gives for a period -/
def CfgOk (m : M) (start : Int) : Prop :=
  (∀ e, m.endT = some e → start < e) ∧
  match m.cfg with
  | .noMint => True
  | .lin a => 0 ≤ a ∧ ∃ e, m.endT = some e ∧ ms start < ms e
  | .exp a step mult => 0 ≤ a ∧ 0 < step ∧ 0 ≤ mult

theorem expNow_ge (e : Option Int) (start t : Int) (ht : start ≤ t) (he : ∀ x, e = some x → start < x) : start ≤ expNow e t := by
  unfold expNow
  cases e with
  | none => exact ht
  | some x => have := he x rfl; simp only []; split <;> omega

theorem expNow_mono (e : Option Int) (t t' : Int) (h : t ≤ t') : expNow e t ≤ expNow e t' := by
  unfold expNow
  cases e with
  | none => exact h
  | some x => simp only []; split <;> split <;> omega

theorem expNow_clamp (x t : Int) (h : x ≤ t) : expNow (some x) t = x := by
  unfold expNow; simp only []; split <;> omega

theorem good_of_cfgOk (m : M) (start : Int) (h : CfgOk m start) : Good m start := by
  obtain ⟨hend, hc⟩ := h
  cases hcfg : m.cfg with
  | noMint =>
    refine ⟨?_, ?_, ?_, ?_, hend, ?_⟩ <;> intros <;> simp [amountToMint, amountPanics, hcfg]
  | lin a =>
    rw [hcfg] at hc
    obtain ⟨ha, e, he, hms⟩ := hc
    have hse := hend e he
    have hD : 0 < ms e - ms start := by omega
    have hP := P_pos
    have haP : 0 ≤ Dec.ofInt a := by unfold Dec.ofInt; exact Int.mul_nonneg ha (Int.le_of_lt hP)
    -- value inside the period
    have hin : ∀ t, start ≤ t → t ≤ e →
        amountToMint m start t = (Dec.ofInt a * (ms t - ms start)) / (ms e - ms start) := by
      intro t h1 h2
      have hnum : 0 ≤ Dec.ofInt a * (ms t - ms start) := Int.mul_nonneg haP (by have := ms_mono h1; omega)
      simp only [amountToMint, hcfg, he, linAmount, Dec.quoInt, Dec.mulInt]
      rw [if_neg (by omega), if_neg (by omega), Int.tdiv_eq_ediv_of_nonneg hnum]
    have hout : ∀ t, e < t → amountToMint m start t = Dec.ofInt a := by
      intro t h1
      simp only [amountToMint, hcfg, he, linAmount]
      rw [if_pos h1]
    have hle : ∀ t, start ≤ t → t ≤ e → (Dec.ofInt a * (ms t - ms start)) / (ms e - ms start) ≤ Dec.ofInt a := by
      intro t h1 h2
      have h3 : Dec.ofInt a * (ms t - ms start) ≤ Dec.ofInt a * (ms e - ms start) :=
        Int.mul_le_mul_of_nonneg_left (by have := ms_mono h2; omega) haP
      have := Int.ediv_le_ediv hD h3
      rwa [Int.mul_ediv_cancel _ (Int.ne_of_gt hD)] at this
    refine ⟨?_, ?_, ?_, ?_, hend, ?_⟩
    · intro t ht
      by_cases h2 : t ≤ e
      · rw [hin t ht h2]
        exact Int.ediv_nonneg (Int.mul_nonneg haP (by have := ms_mono ht; omega)) (Int.le_of_lt hD)
      · rw [hout t (by omega)]; exact haP
    · intro t t' ht htt
      by_cases h1 : t' ≤ e
      · rw [hin t ht (by omega), hin t' (by omega) h1]
        exact Int.ediv_le_ediv hD (Int.mul_le_mul_of_nonneg_left (by have := ms_mono htt; omega) haP)
      · rw [hout t' (by omega)]
        by_cases h2 : t ≤ e
        · rw [hin t ht h2]; exact hle t ht h2
        · rw [hout t (by omega)]; exact Int.le_refl _
    · intro e' t he' het
      rw [he] at he'; cases he'
      by_cases h1 : t ≤ e
      · have : t = e := by omega
        rw [this]
      · rw [hout t (by omega), hin e (by omega) (Int.le_refl e)]
        exact (Int.mul_ediv_cancel _ (Int.ne_of_gt hD)).symm
    · rw [hin start (Int.le_refl _) (by omega)]
      simp
    · intro t ht
      simp only [amountPanics, hcfg, he, linPanics]
      have : ¬ (ms e - ms start = 0) := by omega
      simp [this]
  | exp a step mult =>
    rw [hcfg] at hc
    obtain ⟨ha, hs, hm⟩ := hc
    have hval : ∀ t, start ≤ t → amountToMint m start t = expF a step mult (expNow m.endT t - start) := by
      intro t ht
      simp only [amountToMint, hcfg]
      exact expAmount_eq a step mult start m.endT t ha hm hs (expNow_ge m.endT start t ht hend)
    refine ⟨?_, ?_, ?_, ?_, hend, ?_⟩
    · intro t ht
      rw [hval t ht]
      exact expF_nonneg a step mult _ ha hm hs (by have := expNow_ge m.endT start t ht hend; omega)
    · intro t t' ht htt
      rw [hval t ht, hval t' (by omega)]
      have h1 := expNow_ge m.endT start t ht hend
      have h2 := expNow_mono m.endT t t' htt
      exact expF_mono a step mult _ _ ha hm hs (by omega) (by omega)
    · intro e t he het
      have hse := hend e he
      rw [hval t (by omega), hval e (by omega), he, expNow_clamp e t het, expNow_clamp e e (Int.le_refl e)]
    · rw [hval start (Int.le_refl _)]
      have : expNow m.endT start = start := by
        unfold expNow
        cases he : m.endT with
        | none => rfl
        | some x => have := hend x he; simp only []; rw [if_neg (by omega)]
      rw [this, Int.sub_self, expF_zero]
    · intro t _; simp [amountPanics, hcfg]

/-! ### the potential -/

structure MSt where
  start : Int
  ms : List M
  minted : Int
  rem : Int

def mintGo : Int → List M → Int → Int → Int → Int × MSt
  | start, [], minted, rem, _ => (0, ⟨start, [], minted, rem⟩)
  | start, m :: rest, minted, rem, t =>
    let exp := amountToMint m start t + rem
    let amount := Dec.truncInt exp - minted
    if amount < 0 then (0, ⟨start, m :: rest, minted, rem⟩) else
    match m.endT with
    | none => (amount, ⟨start, m :: rest, minted + amount, rem⟩)
    | some e =>
      if t < e then (amount, ⟨start, m :: rest, minted + amount, rem⟩)
      else
        let r := mintGo e rest 0 (Dec.frac exp) t
        (r.1 + amount, r.2)

/-- integer part of the cumulative schedule at `t`, for the remaining periods from `start`, with
    the fractional remainder `rem` carried in -/
def total : Int → List M → Int → Int → Int
  | _, [], _, _ => 0
  | start, m :: rest, rem, t =>
    match m.endT with
    | none => Dec.truncInt (amountToMint m start t + rem)
    | some e =>
      if t < e then Dec.truncInt (amountToMint m start t + rem)
      else Dec.truncInt (amountToMint m start e + rem) + total e rest (Dec.frac (amountToMint m start e + rem)) t

/-- remaining periods are well-formed: every period is `Good` from where it starts; only the last
    one may lack an end -/
def WF : Int → List M → Prop
  | _, [] => False
  | start, m :: rest => Good m start ∧ match m.endT with
    | none => rest = []
    | some e => WF e rest

theorem mintGo_spec :
    ∀ (ms : List M) (start minted rem tl t : Int),
      WF start ms → 0 ≤ rem → rem < P → start ≤ tl → tl ≤ t →
      (∀ m rest, ms = m :: rest → minted = Dec.truncInt (amountToMint m start tl + rem) ∧
          (∀ e, m.endT = some e → tl < e ∨ tl = start)) →
      let r := mintGo start ms minted rem t
      0 ≤ r.1 ∧ r.1 = total start ms rem t - minted ∧
      (∀ t', t ≤ t' → total r.2.start r.2.ms r.2.rem t' - r.2.minted
                      = total start ms rem t' - minted - r.1) ∧
      -- the state left behind satisfies the same precondition with `t` as the last processed time
      (WF r.2.start r.2.ms ∧ 0 ≤ r.2.rem ∧ r.2.rem < P ∧ r.2.start ≤ t ∧
        ∀ m' rest', r.2.ms = m' :: rest' → r.2.minted = Dec.truncInt (amountToMint m' r.2.start t + r.2.rem) ∧
          (∀ e, m'.endT = some e → t < e ∨ t = r.2.start)) := by
  intro ms
  induction ms with
  | nil => intro start minted rem tl t hwf; exact absurd hwf (by simp [WF])
  | cons m rest ih =>
    intro start minted rem tl t hwf hr0 hr1 hstl htl hinv
    obtain ⟨hminted, hend⟩ := hinv m rest rfl
    obtain ⟨hG, hwf'⟩ := hwf
    have hAtl : amountToMint m start tl ≤ amountToMint m start t := hG.mono tl t hstl htl
    have hnn : 0 ≤ amountToMint m start tl + rem := by have := hG.nonneg tl hstl; omega
    have hamt : 0 ≤ Dec.truncInt (amountToMint m start t + rem) - minted := by
      rw [hminted]
      have := Dec.truncInt_mono hnn (show amountToMint m start tl + rem ≤ amountToMint m start t + rem by omega)
      omega
    have hwfFull : WF start (m :: rest) := ⟨hG, hwf'⟩
    cases hme : m.endT with
    | none =>
      simp only [mintGo, total, hme]
      have hn : ¬ (Dec.truncInt (amountToMint m start t + rem) - minted < 0) := by omega
      simp only [hn, if_false]
      refine ⟨hamt, trivial, ?_, hwfFull, hr0, hr1, by omega, ?_⟩
      · intro t' _; simp only [total, hme]; omega
      · intro m' rest' hm'
        cases hm'
        refine ⟨by omega, ?_⟩
        intro e he; rw [hme] at he; cases he
    | some e =>
      by_cases hte : t < e
      · simp only [mintGo, total, hme, hte, if_true]
        have hn : ¬ (Dec.truncInt (amountToMint m start t + rem) - minted < 0) := by omega
        simp only [hn, if_false]
        refine ⟨hamt, trivial, ?_, hwfFull, hr0, hr1, by omega, ?_⟩
        · intro t' _; simp only [total, hme]; omega
        · intro m' rest' hm'
          cases hm'
          refine ⟨by omega, ?_⟩
          intro e' he'; rw [hme] at he'; cases he'; left; exact hte
      · have het : e ≤ t := by omega
        have hcl : amountToMint m start t = amountToMint m start e := hG.clamp e t hme het
        rw [hme] at hwf'
        have hse := hG.endAfter e hme
        have hnn2 : 0 ≤ amountToMint m start e + rem := by have := hG.nonneg e (by omega); omega
        obtain ⟨hf0, hf1⟩ := Dec.frac_bounds hnn2
        have ihh := ih e 0 (Dec.frac (amountToMint m start e + rem)) e t hwf' hf0 hf1 (Int.le_refl _) het
          (by
            intro m2 rest2 hm2
            subst hm2
            obtain ⟨hG2, _⟩ := hwf'
            constructor
            · rw [hG2.zero, Int.zero_add, Dec.truncInt_small hf0 hf1]
            · intro _ _; right; rfl)
        simp only [] at ihh
        obtain ⟨ih1, ih2, ih3, ih4⟩ := ihh
        rw [hcl] at hamt
        have hn : ¬ (Dec.truncInt (amountToMint m start e + rem) - minted < 0) := by omega
        simp only [mintGo, total, hme, hte, if_false, hcl, hn]
        refine ⟨by omega, by omega, ?_, ih4⟩
        intro t' htt'
        have hte' : ¬ t' < e := by omega
        have := ih3 t' htt'
        simp only [hte', if_false]
        omega

end C4E.Minter
