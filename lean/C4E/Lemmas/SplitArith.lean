/-
  Non-linear integer inequalities behind C07 (split of a continuous vesting account).
  a = round(OV·s/P), b = round((OV−d)·s/P), vc = OV − a, d = ⌊U·OV/vc⌋.
-/
import Mathlib.Tactic.Linarith
import Mathlib.Tactic.Ring
import Mathlib.Tactic.Positivity
namespace C4E.SplitArith

/-- Upper bound: unlocked ≤ U -/
theorem unlocked_le (P s OV U a b d : Int)
    (hP : 0 < P) (hs0 : 0 ≤ s) (hsP : s < P)
    (ha2 : 2*OV*s - P ≤ 2*P*a)
    (hb1 : 2*P*b ≤ 2*(OV-d)*s + P)
    (hvc : 0 < OV - a) (hU1 : 1 ≤ U) (hU2 : U ≤ OV - a)
    (hd1 : d*(OV-a) ≤ U*OV) (hd0 : 0 ≤ d) :
    d - a + b ≤ U := by
  by_contra hcon
  have hcon' : U + 1 ≤ d - a + b := by omega
  set vc := OV - a with hvcdef
  have h1 : 2*P*vc*(U+1) ≤ 2*P*vc*(d - a + b) := by
    have : 0 ≤ 2*P*vc := by positivity
    exact mul_le_mul_of_nonneg_left hcon' this
  nlinarith [mul_le_mul_of_nonneg_left hd1 (show (0:Int) ≤ 2*(P - s) by linarith),
             mul_le_mul_of_nonneg_left hb1 (show (0:Int) ≤ vc by linarith),
             mul_le_mul_of_nonneg_left ha2 (show (0:Int) ≤ vc - U by linarith),
             mul_pos hP hvc, mul_nonneg hd0 hs0]

/-- Lower bound: U − 1 ≤ unlocked -/
theorem unlocked_ge (P s OV U a b d : Int)
    (hP : 0 < P) (hs0 : 0 ≤ s) (hsP : s < P)
    (ha1 : 2*P*a ≤ 2*OV*s + P)
    (hb2 : 2*(OV-d)*s - P ≤ 2*P*b)
    (hvc : 0 < OV - a) (hU1 : 1 ≤ U) (hU2 : U ≤ OV - a)
    (hd2 : U*OV < (d+1)*(OV-a)) (hd0 : 0 ≤ d) :
    U - 1 ≤ d - a + b := by
  by_contra hcon
  have hcon' : d - a + b ≤ U - 2 := by omega
  set vc := OV - a with hvcdef
  have h1 : 2*P*vc*(d - a + b) ≤ 2*P*vc*(U-2) := by
    have : 0 ≤ 2*P*vc := by positivity
    exact mul_le_mul_of_nonneg_left hcon' this
  nlinarith [mul_le_mul_of_nonneg_left (le_of_lt hd2) (show (0:Int) ≤ 2*(P - s) by linarith),
             mul_le_mul_of_nonneg_left hb2 (show (0:Int) ≤ vc by linarith),
             mul_le_mul_of_nonneg_left ha1 (show (0:Int) ≤ vc - U by linarith),
             mul_pos hP hvc, mul_nonneg hd0 hs0]

/-- Compensation: with one more unit removed from the original vesting, at least U is unlocked -/
theorem unlocked_comp_ge (P s OV U a b' d : Int)
    (hP : 0 < P) (hs0 : 0 ≤ s) (hsP : s < P)
    (ha1 : 2*P*a ≤ 2*OV*s + P)
    (hb2 : 2*(OV-d-1)*s - P ≤ 2*P*b')
    (hvc : 0 < OV - a) (hU1 : 1 ≤ U) (hU2 : U ≤ OV - a)
    (hd2 : U*OV < (d+1)*(OV-a)) (hd0 : 0 ≤ d) :
    U ≤ (d+1) - a + b' := by
  by_contra hcon
  have hcon' : (d+1) - a + b' ≤ U - 1 := by omega
  set vc := OV - a with hvcdef
  have h1 : 2*P*vc*((d+1) - a + b') ≤ 2*P*vc*(U-1) := by
    have : 0 ≤ 2*P*vc := by positivity
    exact mul_le_mul_of_nonneg_left hcon' this
  nlinarith [mul_le_mul_of_nonneg_left (le_of_lt hd2) (show (0:Int) ≤ 2*(P - s) by linarith),
             mul_le_mul_of_nonneg_left hb2 (show (0:Int) ≤ vc by linarith),
             mul_le_mul_of_nonneg_left ha1 (show (0:Int) ≤ vc - U by linarith),
             mul_pos hP hvc, mul_nonneg hd0 hs0]

/-- d = ⌊U·OV/vc⌋ ≤ OV when U ≤ vc -/
theorem quot_le (OV U vc d : Int) (hvc : 0 < vc) (hU : U ≤ vc) (hOV : 0 ≤ OV) (hd1 : d * vc ≤ U * OV) : d ≤ OV := by
  by_contra h
  have : OV + 1 ≤ d := by omega
  nlinarith [mul_le_mul_of_nonneg_right this (le_of_lt hvc), mul_le_mul_of_nonneg_right hU hOV]

end C4E.SplitArith
