/-
  What each destination of one sub-distributor records, on the code-tied multi-denomination model:
  the amount recorded for an account grows by exactly the truncated products of the inflow with the
  shares that name it, plus the remainder when it is the primary destination.
-/
import C4E.Lemmas.DistrTotal
namespace C4E.Distr
open C4E C4E.CoinList

/-- two configuration entries denote the same recorded account (`findAccountState`: id and type) -/
def sameAcc (a b : Account) : Bool := b.id = a.id && b.type = a.type

/-- what the states record for account `a` in denomination `d` (all states of that id and type) -/
def recA (a : Account) (d : String) : List DState → Int
  | [] => 0
  | s :: rest =>
    (match s.account with
     | some b => if sameAcc a b then amountOf s.remains d else 0
     | none => 0) + recA a d rest

/-- what the burn state records -/
def recBurn (d : String) : List DState → Int
  | [] => 0
  | s :: rest => (if s.burn then amountOf s.remains d else 0) + recBurn d rest

theorem recA_append (a : Account) (d : String) (l1 l2 : List DState) : recA a d (l1 ++ l2) = recA a d l1 + recA a d l2 := by
  induction l1 with
  | nil => simp [recA]
  | cons s rest ih => simp only [List.cons_append, recA, ih]; omega

/-- adding `c` to the first state found for `a` (or appending a new one) raises `a`'s record by `c`
    and leaves every other account's record alone -/
theorem findAccountState_some_sameAcc : ∀ (l : List DState) (a : Account) (i p : Nat),
    findAccountState l a i = .ok (some p) → ∃ s b, l[p - i]? = some s ∧ s.account = some b ∧ sameAcc a b = true
  | [], a, i, p, h => by simp [findAccountState] at h
  | s :: rest, a, i, p, h => by
    unfold findAccountState at h
    split at h
    · cases h
    · rename_i sa hsa
      split at h
      · rename_i hm
        simp only [Outcome.ok.injEq, Option.some.injEq] at h
        subst h
        exact ⟨s, sa, by simp, hsa, by unfold sameAcc; simpa using hm⟩
      · obtain ⟨s', b, h1, h2, h3⟩ := findAccountState_some_sameAcc rest a (i + 1) p h
        have hb := findAccountState_lt rest a (i + 1) p h
        refine ⟨s', b, ?_, h2, h3⟩
        have : p - i = (p - (i + 1)) + 1 := by omega
        rw [this, List.getElem?_cons_succ]
        exact h1

theorem recA_modifyNth_add (a b : Account) (d : String) (c : DecCoins) : ∀ (l : List DState) (n : Nat) (s : DState) (sb : Account),
    l[n]? = some s → s.account = some sb →
    recA b d (modifyNth l n (fun s => { s with remains := CoinList.add s.remains c }))
      = recA b d l + (if sameAcc b sb then amountOf c d else 0)
  | [], n, s, sb, h, _ => by simp at h
  | x :: xs, 0, s, sb, h, hs => by
    simp only [List.getElem?_cons_zero, Option.some.injEq] at h
    subst h
    simp only [modifyNth, recA, hs]
    split
    · rw [amountOf_add]; omega
    · omega
  | x :: xs, n + 1, s, sb, h, hs => by
    simp only [List.getElem?_cons_succ] at h
    simp only [modifyNth, recA]
    rw [recA_modifyNth_add a b d c xs n s sb h hs]
    omega

theorem sameAcc_trans_left (a b sb : Account) (h : sameAcc a sb = true) : sameAcc b sb = sameAcc b a := by
  unfold sameAcc at *
  simp only [Bool.and_eq_true, decide_eq_true_eq] at h
  rw [h.1, h.2]

theorem addToAccountState_rec (sts sts' : List DState) (a b : Account) (c : DecCoins) (d : String)
    (h : addToAccountState sts a c = .ok sts') :
    recA b d sts' = recA b d sts + (if sameAcc b a then amountOf c d else 0) := by
  unfold addToAccountState at h
  split at h
  · cases h
  · cases h
  · rename_i pos hf
    cases h
    obtain ⟨s, sb, h1, h2, h3⟩ := findAccountState_some_sameAcc sts a 0 pos hf
    simp only [Nat.sub_zero] at h1
    rw [recA_modifyNth_add a b d c sts pos s sb h1 h2, sameAcc_trans_left a b sb h3]
  · cases h
    rw [recA_append]
    simp only [recA, amountOf_add, amountOf]
    split <;> omega

theorem recA_modifyNth_burnstate (b : Account) (d : String) (c : DecCoins) : ∀ (l : List DState) (n : Nat),
    (∀ s, l[n]? = some s → s.burn = true → ∀ sb, s.account = some sb → sameAcc b sb = false) →
    (∀ s, l[n]? = some s → s.burn = true) →
    recA b d (modifyNth l n (fun s => { s with remains := CoinList.add s.remains c })) = recA b d l
  | [], _, _, _ => rfl
  | x :: xs, 0, h1, h2 => by
    simp only [modifyNth, recA]
    cases hx : x.account with
    | none => rfl
    | some sb =>
      have := h1 x (by simp) (h2 x (by simp)) sb hx
      simp [this]
  | x :: xs, n + 1, h1, h2 => by
    simp only [modifyNth, recA]
    rw [recA_modifyNth_burnstate b d c xs n (fun s hs => h1 s (by simpa using hs)) (fun s hs => h2 s (by simpa using hs))]

/-- the amounts the named shares add to account `a`'s record -/
def sharesTo (a : Account) (x : DecCoins) (d : String) : List Share → Int
  | [] => 0
  | sh :: rest =>
    (if sh.dest.type ≠ tMain && sameAcc a sh.dest then amountOf (calcPercentage (sh.share.getD 0) x) d else 0) + sharesTo a x d rest

/-- **the share loop, per destination**: the record of every account grows by exactly what the
    shares naming it take -/
theorem distShares_rec (sub : String) (x : DecCoins) (a : Account) (d : String) : ∀ (shs : List Share) (sts : List DState) (dflt : DecCoins)
    (evs : List Event) (sts' : List DState) (dflt' : DecCoins) (evs' : List Event),
    distShares sub x shs sts dflt evs = .ok (sts', dflt', evs') →
    recA a d sts' = recA a d sts + sharesTo a x d shs
  | [], sts, dflt, evs, sts', dflt', evs', h => by
    simp only [distShares, Outcome.ok.injEq, Prod.mk.injEq] at h
    rw [← h.1]; simp [sharesTo]
  | sh :: rest, sts, dflt, evs, sts', dflt', evs', h => by
    unfold distShares at h
    simp only [] at h
    unfold sharesTo
    split at h
    · cases h
    · split at h
      · split at h
        · rename_i hnm
          split at h
          · rename_i stsA hadd
            have h1 := addToAccountState_rec sts stsA sh.dest a _ d hadd
            have h2 := distShares_rec sub x a d rest _ _ _ _ _ _ h
            have hnm' : (sh.dest.type ≠ tMain) := hnm
            rw [h2, h1]
            simp only [hnm', ne_eq, not_false_eq_true, decide_true, Bool.true_and]
            omega
          · cases h
          · cases h
        · rename_i hm
          have hm' : sh.dest.type = tMain := by simpa using hm
          have h2 := distShares_rec sub x a d rest _ _ _ _ _ _ h
          rw [h2]
          simp [hm']
      · rename_i hz
        have hz' : isZero (calcPercentage (sh.share.getD 0) x) = true := by simpa using hz
        have h0 := amountOf_isZero _ d hz'
        have h2 := distShares_rec sub x a d rest _ _ _ _ _ _ h
        rw [h2, h0]
        split <;> omega

/-- the remainder handed on by the share loop: the inflow minus what the named shares took -/
theorem distShares_dflt (sub : String) (x : DecCoins) (d : String) : ∀ (shs : List Share) (sts : List DState) (dflt : DecCoins)
    (evs : List Event) (sts' : List DState) (dflt' : DecCoins) (evs' : List Event),
    distShares sub x shs sts dflt evs = .ok (sts', dflt', evs') →
    amountOf dflt' d = amountOf dflt d - sumC x d shs
  | [], sts, dflt, evs, sts', dflt', evs', h => by
    simp only [distShares, Outcome.ok.injEq, Prod.mk.injEq] at h
    rw [← h.2.1]; simp [sumC]
  | sh :: rest, sts, dflt, evs, sts', dflt', evs', h => by
    unfold distShares at h
    simp only [] at h
    split at h
    · cases h
    · rename_i d1 hsub
      have hs := amountOf_sub hsub d
      simp only [sumC]
      split at h
      · split at h
        · split at h
          · have := distShares_dflt sub x d rest _ _ _ _ _ _ h
            omega
          · cases h
          · cases h
        · have := distShares_dflt sub x d rest _ _ _ _ _ _ h
          omega
      · have := distShares_dflt sub x d rest _ _ _ _ _ _ h
        omega

theorem recA_addToBurnState (a : Account) (d : String) (sts : List DState) (c : DecCoins)
    (hnb : ∀ s ∈ sts, s.burn = true → ∀ sb, s.account = some sb → sameAcc a sb = false)
    (ha : sameAcc a { id := "", type := "" } = false) :
    recA a d (addToBurnState sts c) = recA a d sts := by
  unfold addToBurnState
  split
  · rename_i pos hf
    have hb := Props.C04.findBurnState_bound sts 0 pos hf
    have hburn : ∀ s, sts[pos]? = some s → s.burn = true := by
      intro s hs
      have gen : ∀ (l : List DState) (i p : Nat), findBurnState l i = some p → ∀ s, l[p - i]? = some s → s.burn = true := by
        intro l
        induction l with
        | nil => intro i p h; simp [findBurnState] at h
        | cons y ys ih =>
          intro i p h s hs
          unfold findBurnState at h
          split at h
          · rename_i hy
            simp only [Option.some.injEq] at h
            subst h
            simp only [Nat.sub_self, List.getElem?_cons_zero, Option.some.injEq] at hs
            rw [← hs]; exact hy
          · have hb' := Props.C04.findBurnState_bound ys (i + 1) p h
            have : p - i = (p - (i + 1)) + 1 := by omega
            rw [this, List.getElem?_cons_succ] at hs
            exact ih (i + 1) p h s hs
      exact gen sts 0 pos hf s (by simpa using hs)
    apply recA_modifyNth_burnstate a d c sts pos _ hburn
    intro s hs hb' sb hsb
    exact hnb s (List.mem_of_getElem? hs) hb' sb hsb
  · rw [recA_append]
    simp only [recA, ha]
    simp

/-- **one sub-distributor, per destination** (`StartDistributionProcess` of the code-tied model):
    the record of account `a` grows by what the named shares pointing to it take, plus the whole
    remainder — inflow minus all named shares minus the burn share — when it is the primary destination -/
theorem startDistribution_rec (sts : List DState) (x : DecCoins) (s : SubD) (sts' : List DState) (evs : List Event)
    (h : startDistribution sts x s = .ok (sts', evs)) (a : Account) (d : String)
    (hnb : ∀ t ∈ sts, t.burn = true → ∀ sb, t.account = some sb → sameAcc a sb = false)
    (ha : sameAcc a { id := "", type := "" } = false) :
    recA a d sts' = recA a d sts + sharesTo a x d s.shares +
      (if s.primary.type ≠ tMain && sameAcc a s.primary
       then amountOf x d - sumC x d s.shares - amountOf (calcPercentage (s.burnShare.getD 0) x) d else 0) := by
  unfold startDistribution at h
  split at h
  · cases h
  · cases h
  · rename_i sts1 dflt1 evs1 hsh
    have h1 := distShares_rec s.name x a d s.shares sts x [] sts1 dflt1 evs1 hsh
    have hd1 := distShares_dflt s.name x d s.shares sts x [] sts1 dflt1 evs1 hsh
    simp only [] at h
    split at h
    · cases h
    · rename_i dflt hsub
      have hsd := amountOf_sub hsub d
      -- burn states present before stay the only burn-flagged states the share loop can meet
      have hnb1 : ∀ t ∈ sts1, t.burn = true → ∀ sb, t.account = some sb → sameAcc a sb = false := by
        have gen : ∀ (shs : List Share) (st0 : List DState) (df : DecCoins) (ev : List Event) (st1 : List DState) (df1 : DecCoins) (ev1 : List Event),
            distShares s.name x shs st0 df ev = .ok (st1, df1, ev1) →
            (∀ t ∈ st0, t.burn = true → ∀ sb, t.account = some sb → sameAcc a sb = false) →
            (∀ t ∈ st1, t.burn = true → ∀ sb, t.account = some sb → sameAcc a sb = false) := by
          intro shs
          induction shs with
          | nil =>
            intro st0 df ev st1 df1 ev1 hh h0
            simp only [distShares, Outcome.ok.injEq, Prod.mk.injEq] at hh
            rw [← hh.1]; exact h0
          | cons sh rest ih =>
            intro st0 df ev st1 df1 ev1 hh h0
            unfold distShares at hh
            simp only [] at hh
            split at hh
            · cases hh
            · split at hh
              · split at hh
                · split at hh
                  · rename_i stsA hadd
                    apply ih _ _ _ _ _ _ hh
                    -- `addToAccountState` changes remains only or appends a non-burn state
                    unfold addToAccountState at hadd
                    split at hadd
                    · cases hadd
                    · cases hadd
                    · cases hadd
                      intro t ht hb sb hsb
                      have hmem : ∀ (l : List DState) (n : Nat) (t : DState), t ∈ modifyNth l n (fun s => { s with remains := CoinList.add s.remains (calcPercentage (sh.share.getD 0) x) }) →
                          ∃ t0 ∈ l, t0.burn = t.burn ∧ t0.account = t.account := by
                        intro l
                        induction l with
                        | nil => intro n t ht; simp [modifyNth] at ht
                        | cons y ys ihl =>
                          intro n t ht
                          cases n with
                          | zero =>
                            simp only [modifyNth] at ht
                            rcases List.mem_cons.mp ht with h1 | h1
                            · exact ⟨y, by simp, by rw [h1], by rw [h1]⟩
                            · exact ⟨t, by simp [h1], rfl, rfl⟩
                          | succ m =>
                            simp only [modifyNth] at ht
                            rcases List.mem_cons.mp ht with h1 | h1
                            · exact ⟨t, by simp [h1], rfl, rfl⟩
                            · obtain ⟨t0, ht0, e1, e2⟩ := ihl m t h1
                              exact ⟨t0, by simp [ht0], e1, e2⟩
                      obtain ⟨t0, ht0, e1, e2⟩ := hmem _ _ t ht
                      exact h0 t0 ht0 (by rw [e1]; exact hb) sb (by rw [e2]; exact hsb)
                    · cases hadd
                      intro t ht hb sb hsb
                      rcases List.mem_append.mp ht with h1 | h1
                      · exact h0 t h1 hb sb hsb
                      · simp only [List.mem_singleton] at h1
                        rw [h1] at hb; cases hb
                  · cases hh
                  · cases hh
                · exact ih _ _ _ _ _ _ hh h0
              · exact ih _ _ _ _ _ _ hh h0
        exact gen s.shares sts x [] sts1 dflt1 evs1 hsh hnb
      have h2 : recA a d (if (!isZero (calcPercentage (s.burnShare.getD 0) x)) = true
          then addToBurnState sts1 (calcPercentage (s.burnShare.getD 0) x) else sts1) = recA a d sts1 := by
        split
        · exact recA_addToBurnState a d sts1 _ hnb1 ha
        · rfl
      split at h
      · rename_i hp
        have hp' : s.primary.type ≠ tMain := hp
        split at h
        · rename_i sts3 hadd
          cases h
          have h3 := addToAccountState_rec _ _ s.primary a dflt d hadd
          rw [h3, h2, h1]
          simp only [hp', ne_eq, not_false_eq_true, decide_true, Bool.true_and]
          split <;> omega
        · cases h
        · cases h
      · rename_i hp
        have hp' : s.primary.type = tMain := by simpa using hp
        cases h
        rw [h2, h1]
        simp [hp']

end C4E.Distr
