/-
  Insertion sort (`sortBy`): membership, length, and identity on strictly ascending lists.
-/
import C4E.Basic
namespace C4E

theorem mem_insertBy_iff {α} (lt : α → α → Bool) (x y : α) : ∀ l : List α, y ∈ insertBy lt x l ↔ y = x ∨ y ∈ l
  | [] => by simp [insertBy]
  | z :: zs => by
    unfold insertBy
    split
    · simp
    · simp only [List.mem_cons, mem_insertBy_iff lt x y zs]
      constructor
      · rintro (h | h | h)
        · exact Or.inr (Or.inl h)
        · exact Or.inl h
        · exact Or.inr (Or.inr h)
      · rintro (h | h | h)
        · exact Or.inr (Or.inl h)
        · exact Or.inl h
        · exact Or.inr (Or.inr h)

theorem mem_sortBy_iff {α} (lt : α → α → Bool) (y : α) : ∀ l : List α, y ∈ sortBy lt l ↔ y ∈ l
  | [] => by simp [sortBy]
  | x :: xs => by
    have ih := mem_sortBy_iff lt y xs
    unfold sortBy at ih ⊢
    simp only [List.foldr_cons, mem_insertBy_iff, List.mem_cons, ih]

theorem length_insertBy {α} (lt : α → α → Bool) (x : α) : ∀ l : List α, (insertBy lt x l).length = l.length + 1
  | [] => rfl
  | z :: zs => by
    unfold insertBy
    split
    · rfl
    · simp [length_insertBy lt x zs]

theorem length_sortBy {α} (lt : α → α → Bool) : ∀ l : List α, (sortBy lt l).length = l.length
  | [] => rfl
  | x :: xs => by
    have ih := length_sortBy lt xs
    unfold sortBy at ih ⊢
    simp only [List.foldr_cons, length_insertBy, ih, List.length_cons]

/-- adjacent elements are in `lt` order -/
def Asc {α} (lt : α → α → Bool) : List α → Prop
  | [] => True
  | [_] => True
  | a :: b :: rest => lt a b = true ∧ Asc lt (b :: rest)

theorem Asc.tail {α} {lt : α → α → Bool} {a : α} {l : List α} (h : Asc lt (a :: l)) : Asc lt l := by
  cases l with
  | nil => trivial
  | cons b r => exact h.2

/-- sorting an ascending list changes nothing -/
theorem sortBy_of_asc {α} (lt : α → α → Bool) : ∀ l : List α, Asc lt l → sortBy lt l = l
  | [], _ => rfl
  | [a], _ => rfl
  | a :: b :: rest, h => by
    have ih := sortBy_of_asc lt (b :: rest) h.2
    unfold sortBy at ih ⊢
    rw [List.foldr_cons, ih]
    simp [insertBy, h.1]

theorem asc_map {α β} (lt : α → α → Bool) (lt' : β → β → Bool) (f : α → β) (hf : ∀ a b, lt a b = true → lt' (f a) (f b) = true) :
    ∀ l : List α, Asc lt l → Asc lt' (l.map f)
  | [], _ => trivial
  | [_], _ => trivial
  | a :: b :: rest, h => ⟨hf a b h.1, asc_map lt lt' f hf (b :: rest) h.2⟩

end C4E
