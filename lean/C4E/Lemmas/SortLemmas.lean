/-
  Insertion sort (`sortBy`): membership, length, and identity on strictly ascending lists.
-/
import C4E.Basic
import C4E.Lemmas.AListLemmas
namespace C4E

theorem mem_insertBy_iff {α} (lt : α → α → Bool) (x y : α) : ∀ l : List α, y ∈ insertBy lt x l ↔ y = x ∨ y ∈ l
  | [] => by simp [insertBy]
  | z :: zs => by
    unfold insertBy
    split
    · simp
    · simp only [List.mem_cons, mem_insertBy_iff lt x y zs]
      constructor
      · rintro (h | h | h)
        · exact Or.inr (Or.inl h)
        · exact Or.inl h
        · exact Or.inr (Or.inr h)
      · rintro (h | h | h)
        · exact Or.inr (Or.inl h)
        · exact Or.inl h
        · exact Or.inr (Or.inr h)

theorem mem_sortBy_iff {α} (lt : α → α → Bool) (y : α) : ∀ l : List α, y ∈ sortBy lt l ↔ y ∈ l
  | [] => by simp [sortBy]
  | x :: xs => by
    have ih := mem_sortBy_iff lt y xs
    unfold sortBy at ih ⊢
    simp only [List.foldr_cons, mem_insertBy_iff, List.mem_cons, ih]

theorem length_insertBy {α} (lt : α → α → Bool) (x : α) : ∀ l : List α, (insertBy lt x l).length = l.length + 1
  | [] => rfl
  | z :: zs => by
    unfold insertBy
    split
    · rfl
    · simp [length_insertBy lt x zs]

theorem length_sortBy {α} (lt : α → α → Bool) : ∀ l : List α, (sortBy lt l).length = l.length
  | [] => rfl
  | x :: xs => by
    have ih := length_sortBy lt xs
    unfold sortBy at ih ⊢
    simp only [List.foldr_cons, length_insertBy, ih, List.length_cons]

/-- adjacent elements are in `lt` order -/
def Asc {α} (lt : α → α → Bool) : List α → Prop
  | [] => True
  | [_] => True
  | a :: b :: rest => lt a b = true ∧ Asc lt (b :: rest)

theorem Asc.tail {α} {lt : α → α → Bool} {a : α} {l : List α} (h : Asc lt (a :: l)) : Asc lt l := by
  cases l with
  | nil => trivial
  | cons b r => exact h.2

/-- sorting an ascending list changes nothing -/
theorem sortBy_of_asc {α} (lt : α → α → Bool) : ∀ l : List α, Asc lt l → sortBy lt l = l
  | [], _ => rfl
  | [a], _ => rfl
  | a :: b :: rest, h => by
    have ih := sortBy_of_asc lt (b :: rest) h.2
    unfold sortBy at ih ⊢
    rw [List.foldr_cons, ih]
    simp [insertBy, h.1]

theorem asc_map {α β} (lt : α → α → Bool) (lt' : β → β → Bool) (f : α → β) (hf : ∀ a b, lt a b = true → lt' (f a) (f b) = true) :
    ∀ l : List α, Asc lt l → Asc lt' (l.map f)
  | [], _ => trivial
  | [_], _ => trivial
  | a :: b :: rest, h => ⟨hf a b h.1, asc_map lt lt' f hf (b :: rest) h.2⟩


/-! ### association lists with distinct keys: lookups survive sorting -/
open AList

def KeysNodup {α} : AList α → Prop
  | [] => True
  | kv :: rest => (∀ x ∈ rest, x.1 ≠ kv.1) ∧ KeysNodup rest

theorem get?_some_iff_mem {α} : ∀ (m : AList α) (k : String) (v : α), KeysNodup m → (AList.get? m k = some v ↔ (k, v) ∈ m)
  | [], k, v, _ => by simp [AList.get?]
  | (k', v') :: rest, k, v, h => by
    obtain ⟨h1, h2⟩ := h
    unfold AList.get?
    by_cases hk : k' = k
    · subst hk
      simp only [if_true, Option.some.injEq, List.mem_cons, Prod.mk.injEq, true_and]
      constructor
      · intro e; exact Or.inl e.symm
      · rintro (e | hm)
        · exact e.symm
        · exact absurd rfl (h1 (k', v) hm)
    · simp only [hk, if_false, List.mem_cons, Prod.mk.injEq]
      rw [get?_some_iff_mem rest k v h2]
      constructor
      · exact Or.inr
      · rintro (⟨e, _⟩ | hm)
        · exact absurd e.symm hk
        · exact hm

theorem keysNodup_insertBy {α} (lt : String × α → String × α → Bool) (x : String × α) : ∀ l : AList α,
    KeysNodup l → (∀ y ∈ l, y.1 ≠ x.1) → KeysNodup (insertBy lt x l)
  | [], _, _ => ⟨(by intro y hy; cases hy), trivial⟩
  | z :: zs, h, hx => by
    unfold insertBy
    split
    · exact ⟨hx, h⟩
    · refine ⟨?_, keysNodup_insertBy lt x zs h.2 (fun y hy => hx y (by simp [hy]))⟩
      intro y hy
      rcases (mem_insertBy_iff lt x y zs).mp hy with rfl | hy
      · exact fun e => hx z (by simp) e.symm
      · exact h.1 y hy

theorem keysNodup_sortBy {α} (lt : String × α → String × α → Bool) : ∀ l : AList α, KeysNodup l → KeysNodup (sortBy lt l)
  | [], _ => trivial
  | x :: xs, h => by
    have ih := keysNodup_sortBy lt xs h.2
    unfold sortBy at ih ⊢
    simp only [List.foldr_cons]
    apply keysNodup_insertBy lt x _ ih
    intro y hy
    have : y ∈ sortBy lt xs := hy
    exact h.1 y ((mem_sortBy_iff lt y xs).mp this)

/-- sorting an association list with distinct keys does not change any lookup -/
theorem get?_sortBy {α} (lt : String × α → String × α → Bool) (m : AList α) (k : String) (h : KeysNodup m) :
    AList.get? (sortBy lt m) k = AList.get? m k := by
  have hs := keysNodup_sortBy lt m h
  cases h1 : AList.get? (sortBy lt m) k with
  | some v =>
    have := (get?_some_iff_mem _ k v hs).mp h1
    exact ((get?_some_iff_mem m k v h).mpr ((mem_sortBy_iff lt _ m).mp this)).symm
  | none =>
    cases h2 : AList.get? m k with
    | none => rfl
    | some v =>
      have := (get?_some_iff_mem m k v h).mp h2
      have := (get?_some_iff_mem _ k v hs).mpr ((mem_sortBy_iff lt _ m).mpr this)
      rw [h1] at this; cases this

theorem keysNodup_set {α} : ∀ (m : AList α) (k : String) (v : α), KeysNodup m → KeysNodup (AList.set m k v)
  | [], k, v, _ => ⟨(by intro x hx; cases hx), trivial⟩
  | (k', v') :: rest, k, v, h => by
    unfold AList.set
    by_cases hk : k' = k
    · simp only [hk, if_true]
      subst hk
      exact ⟨h.1, h.2⟩
    · simp only [hk, if_false]
      refine ⟨?_, keysNodup_set rest k v h.2⟩
      intro x hx
      -- members of `set rest k v` are members of rest or the new pair
      have : x = (k, v) ∨ x ∈ rest := by
        clear h
        induction rest with
        | nil => simp [AList.set] at hx; exact Or.inl hx
        | cons y ys ih =>
          obtain ⟨ky, vy⟩ := y
          unfold AList.set at hx
          by_cases hy : ky = k
          · simp only [hy, if_true] at hx
            rcases List.mem_cons.mp hx with e | hm
            · exact Or.inl e
            · exact Or.inr (List.mem_cons_of_mem _ hm)
          · simp only [hy, if_false] at hx
            rcases List.mem_cons.mp hx with e | hm
            · exact Or.inr (by rw [e]; simp)
            · rcases ih hm with e | hm2
              · exact Or.inl e
              · exact Or.inr (List.mem_cons_of_mem _ hm2)
      rcases this with rfl | hm
      · exact fun e => hk e.symm
      · exact h.1 x hm

end C4E
