/-
  What one payout of the code-tied distributor model does, per denomination: on success the
  destination receives exactly the integer part of what its state records and the state keeps the
  fraction; otherwise nothing moves.
-/
import C4E.Lemmas.DistrTotal
namespace C4E.Distr
open C4E C4E.CoinList

theorem truncInt_zero : Dec.truncInt 0 = 0 := by simp [Dec.truncInt]

/-- `TruncateDecimal` per denomination, for a denom-sorted list: integer part and fraction of the amount -/
theorem amountOf_truncateDecimal (l : DecCoins) (hs : Sorted l) (d : String) :
    amountOf (truncateDecimal l).1 d = Dec.truncInt (amountOf l d) ∧
    amountOf (truncateDecimal l).2 d = amountOf l d - Dec.ofInt (Dec.truncInt (amountOf l d)) := by
  have gen : ∀ (l : DecCoins) (acc : Coins × DecCoins),
      amountOf (l.foldl (fun (acc : Coins × DecCoins) kv =>
        (if Dec.truncInt kv.2 != 0 then CoinList.add acc.1 [(kv.1, Dec.truncInt kv.2)] else acc.1,
         if kv.2 - Dec.ofInt (Dec.truncInt kv.2) != 0 then CoinList.add acc.2 [(kv.1, kv.2 - Dec.ofInt (Dec.truncInt kv.2))] else acc.2)) acc).1 d
        = amountOf acc.1 d + mapAmt Dec.truncInt l d ∧
      amountOf (l.foldl (fun (acc : Coins × DecCoins) kv =>
        (if Dec.truncInt kv.2 != 0 then CoinList.add acc.1 [(kv.1, Dec.truncInt kv.2)] else acc.1,
         if kv.2 - Dec.ofInt (Dec.truncInt kv.2) != 0 then CoinList.add acc.2 [(kv.1, kv.2 - Dec.ofInt (Dec.truncInt kv.2))] else acc.2)) acc).2 d
        = amountOf acc.2 d + mapAmt (fun v => v - Dec.ofInt (Dec.truncInt v)) l d := by
    intro l
    induction l with
    | nil => intro acc; simp [mapAmt]
    | cons kv rest ih =>
      intro acc
      obtain ⟨k, v⟩ := kv
      rw [List.foldl_cons]
      obtain ⟨i1, i2⟩ := ih (if Dec.truncInt v != 0 then CoinList.add acc.1 [(k, Dec.truncInt v)] else acc.1,
         if v - Dec.ofInt (Dec.truncInt v) != 0 then CoinList.add acc.2 [(k, v - Dec.ofInt (Dec.truncInt v))] else acc.2)
      simp only [] at i1 i2
      have e1 : amountOf (if Dec.truncInt v != 0 then CoinList.add acc.1 [(k, Dec.truncInt v)] else acc.1) d
          = amountOf acc.1 d + (if k = d then Dec.truncInt v else 0) := by
        by_cases hz : Dec.truncInt v = 0
        · simp [hz]
        · have : (Dec.truncInt v != 0) = true := by simpa using hz
          simp only [this, if_true, amountOf_add, amountOf]; omega
      have e2 : amountOf (if v - Dec.ofInt (Dec.truncInt v) != 0 then CoinList.add acc.2 [(k, v - Dec.ofInt (Dec.truncInt v))] else acc.2) d
          = amountOf acc.2 d + (if k = d then v - Dec.ofInt (Dec.truncInt v) else 0) := by
        by_cases hz : v - Dec.ofInt (Dec.truncInt v) = 0
        · simp [hz]
        · have : (v - Dec.ofInt (Dec.truncInt v) != 0) = true := by simpa using hz
          simp only [this, if_true, amountOf_add, amountOf]; omega
      refine ⟨?_, ?_⟩
      · rw [i1, e1]; simp only [mapAmt]; omega
      · rw [i2, e2]; simp only [mapAmt]; omega
  obtain ⟨g1, g2⟩ := gen l ([], [])
  unfold truncateDecimal
  constructor
  · rw [g1, mapAmt_sorted Dec.truncInt truncInt_zero hs]; simp [amountOf]
  · rw [g2, mapAmt_sorted (fun v => v - Dec.ofInt (Dec.truncInt v)) (by simp [truncInt_zero, Dec.ofInt]) hs]; simp [amountOf]

/-- **one payout, per denomination**: either nothing changes (no whole coin recorded, an internal
    account, an injected fault, a bank error, a blocked or malformed destination), or the state keeps
    exactly the fraction, the main account pays exactly the integer part, and — for a destination other
    than the burn state — the destination's balance grows by exactly that integer part -/
theorem payoutOne_effect (e : Env) (w w' : World) (s s' : DState) (h : payoutOne e w s = .ok (s', w'))
    (hs : Sorted s.remains)
    (hne : ∀ a, s.account = some a → s.burn = false → a.type ≠ tInternal → Props.C14.destAddr e a ≠ some e.mainAddr) :
    (s' = s ∧ w'.bank = w.bank) ∨
    (∀ d, amountOf s'.remains d = amountOf s.remains d - Dec.ofInt (Dec.truncInt (amountOf s.remains d)) ∧
          amountOf (w'.bank.balance e.mainAddr) d = amountOf (w.bank.balance e.mainAddr) d - Dec.truncInt (amountOf s.remains d) ∧
          (s.burn = false → ∀ a addr, s.account = some a → Props.C14.destAddr e a = some addr →
             amountOf (w'.bank.balance addr) d = amountOf (w.bank.balance addr) d + Dec.truncInt (amountOf s.remains d))) := by
  have htr := fun d => amountOf_truncateDecimal s.remains hs d
  unfold payoutOne at h
  split at h
  · cases h
  · rename_i a ha
    split at h
    · rename_i hcond
      have hni : a.type ≠ tInternal := by
        simp only [Bool.and_eq_true, decide_eq_true_eq] at hcond
        exact hcond.1
      simp only [] at h
      split at h
      · -- burn state
        rename_i hb
        split at h
        · cases h; exact Or.inl ⟨rfl, rfl⟩
        · split at h
          · cases h
          · split at h
            · cases h; exact Or.inl ⟨rfl, rfl⟩
            · rename_i b hbn
              cases h
              right
              intro d
              have hsrc := Props.C14.bank_burn_src _ b _ _ d hbn
              refine ⟨(htr d).2, ?_, ?_⟩
              · show amountOf (b.balance e.mainAddr) d = _
                rw [hsrc, (htr d).1]
              · intro hf; rw [hb] at hf; cases hf
      · rename_i hnb
        have hnb' : s.burn = false := by simpa using hnb
        have hd := hne a ha hnb' hni
        split at h
        · rename_i hmod
          split at h
          · cases h; exact Or.inl ⟨rfl, rfl⟩
          · split at h
            · cases h
            · rename_i addr haddr
              split at h
              · cases h; exact Or.inl ⟨rfl, rfl⟩
              · rename_i b hbs
                cases h
                right
                intro d
                have hne2 : e.mainAddr ≠ addr := by
                  intro hh; apply hd; unfold Props.C14.destAddr; simp [hmod, haddr, hh]
                have hsrc := Props.C14.bank_send_src _ b _ _ _ d hne2 hbs
                have hdst := bank_send_dst _ b _ _ _ d hne2 hbs
                refine ⟨(htr d).2, ?_, ?_⟩
                · show amountOf (b.balance e.mainAddr) d = _
                  rw [hsrc, (htr d).1]
                · intro _ a' addr' ha' hda
                  rw [ha] at ha'; cases ha'
                  unfold Props.C14.destAddr at hda
                  simp only [hmod, if_true, haddr, Option.some.injEq] at hda
                  subst hda
                  show amountOf (b.balance addr) d = _
                  rw [hdst, (htr d).1]
        · rename_i hmod
          split at h
          · cases h; exact Or.inl ⟨rfl, rfl⟩
          · split at h
            · cases h; exact Or.inl ⟨rfl, rfl⟩
            · split at h
              · cases h; exact Or.inl ⟨rfl, rfl⟩
              · split at h
                · cases h; exact Or.inl ⟨rfl, rfl⟩
                · rename_i b hbs
                  cases h
                  right
                  intro d
                  have hne2 : e.mainAddr ≠ canonAddr a.id := by
                    intro hh; apply hd; unfold Props.C14.destAddr; simp [hmod, hh]
                  have hsrc := Props.C14.bank_send_src _ b _ _ _ d hne2 hbs
                  have hdst := bank_send_dst _ b _ _ _ d hne2 hbs
                  refine ⟨(htr d).2, ?_, ?_⟩
                  · show amountOf (b.balance e.mainAddr) d = _
                    rw [hsrc, (htr d).1]
                  · intro _ a' addr' ha' hda
                    rw [ha] at ha'; cases ha'
                    unfold Props.C14.destAddr at hda
                    simp only [hmod, if_false, Option.some.injEq] at hda
                    subst hda
                    show amountOf (b.balance (canonAddr a.id)) d = _
                    rw [hdst, (htr d).1]
    · cases h; exact Or.inl ⟨rfl, rfl⟩

end C4E.Distr
