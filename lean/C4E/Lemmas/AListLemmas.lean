import C4E.Basic
namespace C4E.AList

theorem get?_set_self {α} (m : AList α) (k : String) (v : α) : get? (set m k v) k = some v := by
  induction m with
  | nil => simp [set, get?]
  | cons kv rest ih =>
    obtain ⟨k', v'⟩ := kv
    unfold set
    by_cases h : k' = k
    · simp [h, get?]
    · simp only [h, if_false, get?]; exact ih

theorem get?_set_other {α} (m : AList α) (k k2 : String) (v : α) (h : k2 ≠ k) : get? (set m k v) k2 = get? m k2 := by
  induction m with
  | nil => simp [set, get?, h.symm]
  | cons kv rest ih =>
    obtain ⟨k', v'⟩ := kv
    unfold set
    by_cases h1 : k' = k
    · subst h1
      simp only [if_true, get?]
      have : ¬ (k' = k2) := fun e => h e.symm
      simp [this]
    · simp only [h1, if_false, get?]
      by_cases h2 : k' = k2
      · simp [h2]
      · simp [h2, ih]

end C4E.AList
