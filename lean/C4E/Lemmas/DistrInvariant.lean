/-
  The distributor's registered `state-sum-balance-check` invariant, as the Go code evaluates it
  (`TruncateDecimal` of the sum of all remains: no fractional change, integer part equal to the main
  balance as coin lists), follows from the books identity `main × 10^18 = Σ remains` per denomination
  on denom-sorted lists.
-/
import C4E.Lemmas.DistrTotal
namespace C4E.Distr
open C4E C4E.CoinList

/-- every entry non-zero (what `Coins`/`DecCoins` arithmetic always produces) -/
def NZ (l : CoinList) : Prop := ∀ kv ∈ l, kv.2 ≠ 0

theorem nz_nil : NZ [] := fun _ h => by cases h

theorem nz_nz (l : CoinList) : NZ (nz l) := by
  intro kv hkv
  unfold nz at hkv
  have := (List.mem_filter.mp hkv).2
  simpa using this

theorem nz_append {a b : CoinList} (ha : NZ a) (hb : NZ b) : NZ (a ++ b) := by
  intro kv hkv
  rcases List.mem_append.mp hkv with h | h
  · exact ha kv h
  · exact hb kv h

theorem nz_opt (k : String) (v : Int) : NZ (if v != 0 then [(k, v)] else []) := by
  by_cases h : v = 0
  · simp [h]; exact nz_nil
  · have : (v != 0) = true := by simpa using h
    rw [if_pos this]
    intro kv hkv; simp at hkv; rw [hkv]; exact h

/-- `safeAdd` never emits a zero entry -/
theorem nz_add (a b : CoinList) : NZ (CoinList.add a b) := by
  fun_induction CoinList.add a b with
  | case1 b => exact nz_nz b
  | case2 a ra => exact nz_nz _
  | case3 ka va ra kb vb rb h ih => exact nz_append (nz_opt ka va) ih
  | case4 va ra kb vb rb h1 ih => exact nz_append (nz_opt kb (va + vb)) ih
  | case5 ka va ra kb vb rb h1 h2 ih => exact nz_append (nz_opt kb vb) ih

/-- two sorted lists without zero entries that agree on every denomination are equal -/
theorem sorted_ext : ∀ (a b : CoinList), Sorted a → Sorted b → NZ a → NZ b →
    (∀ d, amountOf a d = amountOf b d) → a = b
  | [], [], _, _, _, _, _ => rfl
  | [], (kb, vb) :: rb, _, hb, _, nb, h => by
    have h1 := h kb
    have hl := (sorted_cons.mp hb).1
    simp only [amountOf, if_true, amountOf_lb hl] at h1
    exact absurd (by omega) (nb (kb, vb) (by simp))
  | (ka, va) :: ra, [], ha, _, na, _, h => by
    have h1 := h ka
    have hl := (sorted_cons.mp ha).1
    simp only [amountOf, if_true, amountOf_lb hl] at h1
    exact absurd (by omega) (na (ka, va) (by simp))
  | (ka, va) :: ra, (kb, vb) :: rb, ha, hb, na, nb, h => by
    obtain ⟨la, sa⟩ := sorted_cons.mp ha
    obtain ⟨lb', sb⟩ := sorted_cons.mp hb
    have hva : va ≠ 0 := na (ka, va) (by simp)
    have hvb : vb ≠ 0 := nb (kb, vb) (by simp)
    by_cases hk : ka = kb
    · subst hk
      have h1 := h ka
      simp only [amountOf, if_true, amountOf_lb la, amountOf_lb lb'] at h1
      have hv : va = vb := by omega
      subst hv
      have htail : ra = rb := by
        apply sorted_ext ra rb sa sb (fun x hx => na x (by simp [hx])) (fun x hx => nb x (by simp [hx]))
        intro d
        have hd := h d
        simp only [amountOf] at hd
        omega
      rw [htail]
    · by_cases hlt : ka < kb
      · -- `ka` is below every key of `b`
        have h1 := h ka
        have hlb : Lb ka ((kb, vb) :: rb) := lb_cons.mpr ⟨hlt, lb_trans hlt lb'⟩
        rw [amountOf_lb hlb] at h1
        simp only [amountOf, if_true, amountOf_lb la] at h1
        exact absurd (by omega) hva
      · have hgt : kb < ka := lt_of_not_lt_ne hlt hk
        have h1 := h kb
        have hla : Lb kb ((ka, va) :: ra) := lb_cons.mpr ⟨hgt, lb_trans hgt la⟩
        rw [amountOf_lb hla] at h1
        simp only [amountOf, if_true, amountOf_lb lb'] at h1
        exact absurd (by omega) hvb

theorem en_getRemainsSum (e : Env) (sts : List DState) (h : StatesOk e sts) : EN (getRemainsSum sts) := by
  unfold getRemainsSum
  have gen : ∀ (l : List DState) (acc : DecCoins), StatesOk e l → EN acc →
      EN (l.foldl (fun acc s => CoinList.add acc s.remains) acc) := by
    intro l
    induction l with
    | nil => intro acc _ h; exact h
    | cons s rest ih =>
      intro acc hl ha
      rw [List.foldl_cons]
      exact ih _ (fun y hy => hl y (by simp [hy])) (en_add _ _ ha (hl s (by simp)).1)
  exact gen sts [] h en_nil

/-- `TruncateDecimal` of a list whose entries are whole multiples of 10^18: no change, and the
    integer part has no zero entry -/
theorem truncateDecimal_whole (l : DecCoins) (h : ∀ kv ∈ l, kv.2 - Dec.ofInt (Dec.truncInt kv.2) = 0) :
    (truncateDecimal l).2 = [] ∧ NZ (truncateDecimal l).1 := by
  unfold truncateDecimal
  have gen : ∀ (l : DecCoins) (acc : Coins × DecCoins), (∀ kv ∈ l, kv.2 - Dec.ofInt (Dec.truncInt kv.2) = 0) →
      acc.2 = [] → NZ acc.1 →
      (l.foldl (fun (acc : Coins × DecCoins) kv =>
        (if Dec.truncInt kv.2 != 0 then CoinList.add acc.1 [(kv.1, Dec.truncInt kv.2)] else acc.1,
         if kv.2 - Dec.ofInt (Dec.truncInt kv.2) != 0 then CoinList.add acc.2 [(kv.1, kv.2 - Dec.ofInt (Dec.truncInt kv.2))] else acc.2)) acc).2 = [] ∧
      NZ (l.foldl (fun (acc : Coins × DecCoins) kv =>
        (if Dec.truncInt kv.2 != 0 then CoinList.add acc.1 [(kv.1, Dec.truncInt kv.2)] else acc.1,
         if kv.2 - Dec.ofInt (Dec.truncInt kv.2) != 0 then CoinList.add acc.2 [(kv.1, kv.2 - Dec.ofInt (Dec.truncInt kv.2))] else acc.2)) acc).1 := by
    intro l
    induction l with
    | nil => intro acc _ h2 h1; exact ⟨h2, h1⟩
    | cons kv rest ih =>
      intro acc hl h2 h1
      rw [List.foldl_cons]
      apply ih _ (fun x hx => hl x (by simp [hx]))
      · simp only []
        have := hl kv (by simp)
        rw [this]
        simpa using h2
      · simp only []
        split
        · exact nz_add _ _
        · exact h1
  exact gen l ([], []) h rfl nz_nil

/-- **the registered `state-sum-balance-check` invariant, as evaluated by the Go code**, holds
    whenever the books identity holds in every denomination on well-formed, sorted data -/
theorem stateSumMatchesBalance_of_books (e : Env) (w : World) (hs : StatesOk e w.states) (hs2 : StatesOk2 e w.states)
    (hb : BankOk e w.bank) (hU : ∀ d, UF e d w = 0) : stateSumMatchesBalance e w = true := by
  have hsum_sorted := sorted_getRemainsSum w.states (sorted_remains_of e _ hs2)
  have hsum_amt : ∀ d, amountOf (getRemainsSum w.states) d = amountOf (w.bank.balance e.mainAddr) d * P := by
    intro d
    have := hU d
    unfold UF at this
    rw [getRemainsSum_amount]; omega
  have hwhole : ∀ kv ∈ getRemainsSum w.states, kv.2 - Dec.ofInt (Dec.truncInt kv.2) = 0 := by
    intro kv hkv
    have h1 := amountOf_mem hsum_sorted hkv
    rw [hsum_amt] at h1
    rw [← h1]
    unfold Dec.ofInt Dec.truncInt
    rw [Int.mul_tdiv_cancel _ (Int.ne_of_gt P_pos)]
    omega
  obtain ⟨hch, hnz⟩ := truncateDecimal_whole _ hwhole
  have hsplit := fun d => Props.C14.truncateDecimal_split (getRemainsSum w.states) d
  have hints : ∀ d, amountOf (truncateDecimal (getRemainsSum w.states)).1 d = amountOf (w.bank.balance e.mainAddr) d := by
    intro d
    have := hsplit d
    rw [hch, hsum_amt] at this
    simp only [amountOf, Int.add_zero] at this
    exact Int.eq_of_mul_eq_mul_right (Int.ne_of_gt P_pos) this
  have heq : nz (truncateDecimal (getRemainsSum w.states)).1 = nz (w.bank.balance e.mainAddr) := by
    apply sorted_ext _ _ (sorted_nz (sorted_truncateDecimal _).1) (sorted_nz (hb.1 _)) (nz_nz _) (nz_nz _)
    intro d
    rw [amountOf_nz, amountOf_nz]; exact hints d
  unfold stateSumMatchesBalance
  simp only []
  rw [hch, heq]
  simp [isZero]

end C4E.Distr
