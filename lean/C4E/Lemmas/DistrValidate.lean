/-
  The Go validation of the distributor parameters (`Params.Validate`, model `Distr.paramsValid`)
  implies the hypotheses under which the single-denomination core is proved
  (`Bridge.cfgHyps`: `allSubOk` and `closed true` of the converted configuration).
-/
import C4E.Bridge
import C4E.Lemmas.AListLemmas
namespace C4E.Distr
open C4E C4E.CoinList

/-! ### the MAIN entry of the last-occurrence map -/

theorem tMain_ne_typed (t id : String) (ht : t = tInternal) : tMain ≠ t ++ "-" ++ id := by
  subst ht
  intro h
  have := congrArg String.length h
  simp only [String.length_append] at this
  have h1 : tMain.length = 4 := by decide
  have h2 : tInternal.length = 16 := by decide
  have h3 : "-".length = 1 := by decide
  omega

theorem setOccurrence_main (o o' : OccSt) (a : Account) (pos : Nat) (kind : String)
    (h : setOccurrence o a pos kind = some o') :
    o'.last.get? tMain = if a.type = tMain then some kind else o.last.get? tMain := by
  unfold setOccurrence at h
  simp only [] at h
  split at h
  · cases h
  · cases h
    simp only []
    by_cases hm : a.type = tMain
    · have hv : positionValidatable a.type = true := by unfold positionValidatable; simp [hm]
      simp only [hv, if_true, hm, occId]
      exact AList.get?_set_self _ _ _
    · simp only [hm, if_false]
      by_cases hv : positionValidatable a.type = true
      · simp only [hv, if_true]
        have hi : a.type = tInternal := by
          unfold positionValidatable at hv
          simp only [Bool.or_eq_true, decide_eq_true_eq] at hv
          rcases hv with h1 | h1
          · exact h1
          · exact absurd h1 hm
        have hid : occId a = a.type ++ "-" ++ a.id := by unfold occId; simp [hm]
        rw [hid]
        exact AList.get?_set_other _ _ _ _ (tMain_ne_typed a.type a.id hi)
      · simp only [hv]
        rfl

def anyMain (l : List Account) : Bool := l.any (fun a => a.type = tMain)

theorem occSources_main (pos : Nat) : ∀ (l : List Account) (o o' : OccSt), occSources pos o l = some o' →
    o'.last.get? tMain = if anyMain l then some "SOURCE" else o.last.get? tMain
  | [], o, o', h => by simp only [occSources, Option.some.injEq] at h; subst h; simp [anyMain]
  | a :: rest, o, o', h => by
    unfold occSources at h
    split at h
    · cases h
    · rename_i o1 h1
      have e1 := setOccurrence_main o o1 a pos "SOURCE" h1
      have e2 := occSources_main pos rest o1 o' h
      rw [e2, e1]
      unfold anyMain
      simp only [List.any_cons]
      by_cases hr : rest.any (fun a => decide (a.type = tMain)) = true
      · simp [hr, anyMain]
      · by_cases ha : a.type = tMain <;> simp [hr, ha, anyMain]

def anyMainShare (l : List Share) : Bool := l.any (fun sh => sh.dest.type = tMain)

theorem occShares_main (pos : Nat) : ∀ (l : List Share) (o o' : OccSt), occShares pos o l = some o' →
    o'.last.get? tMain = if anyMainShare l then some "DESTINATION" else o.last.get? tMain
  | [], o, o', h => by simp only [occShares, Option.some.injEq] at h; subst h; simp [anyMainShare]
  | sh :: rest, o, o', h => by
    unfold occShares at h
    split at h
    · cases h
    · split at h
      · cases h
      · rename_i o1 h1
        have e1 := setOccurrence_main _ o1 sh.dest pos "DESTINATION" h1
        have e2 := occShares_main pos rest o1 o' h
        rw [e2, e1]
        unfold anyMainShare
        simp only [List.any_cons]
        by_cases hr : rest.any (fun sh => decide (sh.dest.type = tMain)) = true
        · simp [hr, anyMainShare]
        · by_cases ha : sh.dest.type = tMain <;> simp [hr, ha, anyMainShare]

/-- what one iteration does to the MAIN entry: a MAIN destination wins over a MAIN source -/
theorem occStep_main (o o' : OccSt) (i : Nat) (s : SubD) (h : occStep o i s = some o') :
    o'.last.get? tMain =
      if (decide (s.primary.type = tMain) || anyMainShare s.shares) then some "DESTINATION"
      else if anyMain (s.sources.filterMap id) then some "SOURCE"
      else o.last.get? tMain := by
  unfold occStep at h
  split at h
  · cases h
  · split at h
    · cases h
    · rename_i o1 h1
      split at h
      · cases h
      · rename_i o2 h2
        split at h
        · cases h
        · have e1 := occSources_main i _ _ o1 h1
          have e2 := setOccurrence_main o1 o2 s.primary i "DESTINATION" h2
          have e3 := occShares_main i s.shares _ o' h
          rw [e3]
          simp only [] at e1 ⊢
          by_cases hs : anyMainShare s.shares = true
          · simp [hs]
          · by_cases hp : s.primary.type = tMain
            · simp [hs, hp, e2]
            · simp only [hs, hp, decide_false, Bool.or_self, Bool.false_eq_true, if_false]
              rw [e2]; simp only [hp, if_false]
              rw [e1]

/-! ### the scan predicate of the proved core -/

theorem convTy_tMain : Bridge.convTy tMain = Distr1.AT.main := by
  unfold Bridge.convTy; simp

theorem convTy_main (t : String) : (Bridge.convTy t = Distr1.AT.main) ↔ t = tMain := by
  constructor
  · intro hh
    by_cases h : t = tMain
    · exact h
    · unfold Bridge.convTy at hh
      rw [if_neg h] at hh
      split at hh
      · cases hh
      · split at hh <;> cases hh
  · intro h; rw [h]; exact convTy_tMain

theorem hasMain_conv (l : List Account) :
    Distr1.hasMain (l.map Bridge.convAcc) = anyMain l := by
  unfold Distr1.hasMain anyMain
  induction l with
  | nil => rfl
  | cons a rest ih =>
    simp only [List.map_cons, List.any_cons, ih]
    congr 1
    have := convTy_main a.type
    unfold Bridge.convAcc
    simp only []
    by_cases h : a.type = tMain
    · simp [h, convTy_tMain]
    · have : ¬ Bridge.convTy a.type = Distr1.AT.main := fun hh => h (this.mp hh)
      simp [h, this]

theorem mainInShares_conv (l : List Share) :
    Distr1.mainInShares (l.map fun sh => (⟨sh.share.getD 0, Bridge.convAcc sh.dest⟩ : Distr1.Share)) = anyMainShare l := by
  unfold anyMainShare
  induction l with
  | nil => rfl
  | cons sh rest ih =>
    simp only [List.map_cons, List.any_cons]
    unfold Distr1.mainInShares
    rw [ih]
    have := convTy_main sh.dest.type
    unfold Bridge.convAcc
    simp only []
    by_cases h : sh.dest.type = tMain
    · simp [h, convTy_tMain]
    · have hn : ¬ Bridge.convTy sh.dest.type = Distr1.AT.main := fun hh => h (this.mp hh)
      simp [h, hn]

theorem hasMainDest_conv (s : SubD) :
    Distr1.hasMainDest (Bridge.convSub s) = (decide (s.primary.type = tMain) || anyMainShare s.shares) := by
  unfold Distr1.hasMainDest Bridge.convSub
  simp only []
  rw [mainInShares_conv]
  congr 1
  have := convTy_main s.primary.type
  unfold Bridge.convAcc
  simp only []
  by_cases h : s.primary.type = tMain
  · simp [h, convTy_tMain]
  · have hn : ¬ Bridge.convTy s.primary.type = Distr1.AT.main := fun hh => h (this.mp hh)
    simp [h, hn]

/-- the loop of `ValidateSubDistributors` tracks exactly the `pending` flag of `Distr1.closed` -/
theorem occLoop_closed : ∀ (subs : List SubD) (o o' : OccSt) (i : Nat) (pending : Bool),
    occLoop o i subs = some o' →
    (pending = false ↔ o.last.get? tMain = some "SOURCE") →
    (Distr1.closed pending (subs.map Bridge.convSub) = true ↔ o'.last.get? tMain = some "SOURCE")
  | [], o, o', i, pending, h, hp => by
    simp only [occLoop, Option.some.injEq] at h; subst h
    simp only [List.map_nil, Distr1.closed, Bool.not_eq_true']
    exact hp
  | s :: rest, o, o', i, pending, h, hp => by
    unfold occLoop at h
    split at h
    · cases h
    · rename_i o1 h1
      have e := occStep_main o o1 i s h1
      simp only [List.map_cons, Distr1.closed]
      apply occLoop_closed rest o1 o' (i + 1) _ h
      rw [e, hasMainDest_conv]
      have hsrc : Distr1.hasMain (Bridge.convSub s).sources = anyMain (s.sources.filterMap id) := by
        unfold Bridge.convSub; simp only []; exact hasMain_conv _
      rw [hsrc]
      by_cases hd : (decide (s.primary.type = tMain) || anyMainShare s.shares) = true
      · simp [hd]
      · have hd' : (decide (s.primary.type = tMain) || anyMainShare s.shares) = false := by simpa using hd
        simp only [hd', Bool.false_eq_true, if_false]
        by_cases hs : anyMain (s.sources.filterMap id) = true
        · simp [hs]
        · have hs' : anyMain (s.sources.filterMap id) = false := by simpa using hs
          simp only [hs', Bool.false_eq_true, if_false]
          exact hp

/-- `ValidateSubDistributors` accepts only lists that satisfy the scan predicate -/
theorem closed_of_orderValid (subs : List SubD) (h : orderValid subs = true) :
    Distr1.closed true (subs.map Bridge.convSub) = true := by
  unfold orderValid at h
  split at h
  · cases h
  · rename_i o' ho
    simp only [Bool.and_eq_true] at h
    obtain ⟨hne, hall⟩ := h
    have hiff := occLoop_closed subs {} o' 0 true ho (by
      constructor
      · intro hh; cases hh
      · intro hh; simp [AList.get?] at hh)
    apply hiff.mpr
    cases hg : o'.last.get? tMain with
    | none => rw [hg] at hne; simp at hne
    | some v =>
      -- every entry of the map is "SOURCE"
      have hmem : ∀ (m : AList String) (k v : String), m.get? k = some v → (k, v) ∈ m := by
        intro m k v
        induction m with
        | nil => intro hh; simp [AList.get?] at hh
        | cons x xs ih =>
          obtain ⟨k', v'⟩ := x
          intro hh
          unfold AList.get? at hh
          by_cases hk : k' = k
          · simp only [hk, if_true, Option.some.injEq] at hh; subst hh; subst hk; simp
          · simp only [hk, if_false] at hh; exact List.mem_cons_of_mem _ (ih hh)
      have := List.all_eq_true.mp hall (tMain, v) (hmem _ _ _ hg)
      simp only [decide_eq_true_eq] at this
      rw [this]

/-! ### shares -/

theorem foldl_shares (l : List Share) (acc : Int) :
    l.foldl (fun acc sh => acc + sh.share.getD 0) acc
      = acc + Distr1.sumShares (l.map fun sh => (⟨sh.share.getD 0, Bridge.convAcc sh.dest⟩ : Distr1.Share)) := by
  induction l generalizing acc with
  | nil => simp [Distr1.sumShares]
  | cons sh rest ih =>
    simp only [List.foldl_cons, List.map_cons, Distr1.sumShares, ih]; omega

theorem decInShareRange_nonneg (d : Option Int) (h : decInShareRange d = true) : 0 ≤ d.getD 0 ∧ d.getD 0 < P := by
  unfold decInShareRange at h
  cases d with
  | none => cases h
  | some v =>
    simp only [Bool.and_eq_true, Bool.not_eq_true', decide_eq_false_iff_not] at h
    simp only [Option.getD_some]; omega

theorem subOkB_of_valid (e : Env) (s : SubD) (h : subValid e s = true) : Bridge.subOkB (Bridge.convSub s) = true := by
  unfold subValid at h
  simp only [Bool.and_eq_true] at h
  obtain ⟨⟨⟨_, hd⟩, _⟩, _⟩ := h
  unfold destsValid at hd
  simp only [Bool.and_eq_true] at hd
  obtain ⟨⟨⟨hb, hsh⟩, _⟩, hsum⟩ := hd
  have hb' := decInShareRange_nonneg _ hb
  unfold Bridge.subOkB Bridge.convSub
  simp only [Bool.and_eq_true, decide_eq_true_eq]
  refine ⟨⟨?_, hb'.1⟩, ?_⟩
  · -- every share is non-negative
    have : ∀ l : List Share, l.all (fun sh => !sh.isNil && sh.name ≠ "" && sh.name ≠ s.name ++ "_primary" &&
        decInShareRange sh.share && accountValid e sh.dest) = true →
        Bridge.sharesOkB (l.map fun sh => (⟨sh.share.getD 0, Bridge.convAcc sh.dest⟩ : Distr1.Share)) = true := by
      intro l
      induction l with
      | nil => intro _; rfl
      | cons sh rest ih =>
        intro hh
        simp only [List.all_cons, Bool.and_eq_true] at hh
        obtain ⟨⟨⟨_, hr⟩, _⟩, hrest⟩ := hh
        simp only [List.map_cons, Bridge.sharesOkB, Bool.and_eq_true, decide_eq_true_eq]
        exact ⟨(decInShareRange_nonneg _ hr).1, ih (by simpa [List.all_eq_true] using hrest)⟩
    exact this s.shares hsh
  · rw [foldl_shares] at hsum
    simp only [Bool.and_eq_true, Bool.not_eq_true', decide_eq_false_iff_not] at hsum
    omega

/-- **validated parameters meet the hypotheses of the core theorem** -/
theorem cfgHyps_of_paramsValid (e : Env) (subs : List SubD) (h : paramsValid e subs = true) :
    Bridge.cfgHyps subs = true := by
  unfold paramsValid at h
  simp only [Bool.and_eq_true] at h
  obtain ⟨hall, hord⟩ := h
  unfold Bridge.cfgHyps
  simp only [Bool.and_eq_true]
  refine ⟨?_, closed_of_orderValid subs hord⟩
  have : ∀ l : List SubD, l.all (subValid e) = true → Bridge.allSubOkB (l.map Bridge.convSub) = true := by
    intro l
    induction l with
    | nil => intro _; rfl
    | cons s rest ih =>
      intro hh
      simp only [List.all_cons, Bool.and_eq_true] at hh
      simp only [List.map_cons, Bridge.allSubOkB, Bool.and_eq_true]
      exact ⟨subOkB_of_valid e s hh.1, ih hh.2⟩
  exact this subs hall

end C4E.Distr
