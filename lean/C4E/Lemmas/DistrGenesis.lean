/-
  The burn state of the distributor always carries the empty account `{id := "", type := ""}`
  (which `ExportGenesis` drops and the repaired `InitGenesis` restores): an invariant of
  `BeginBlocker` on the code-tied model.
-/
import C4E.Lemmas.DistrStore
namespace C4E.Distr
open C4E C4E.CoinList

def burnAcct : Account := { id := "", type := "" }

/-- every burn-flagged state carries the empty account -/
def BurnAcc (sts : List DState) : Prop := ∀ s ∈ sts, s.burn = true → s.account = some burnAcct

theorem mem_modifyNth_remains (g : DecCoins → DecCoins) : ∀ (l : List DState) (n : Nat) (t : DState),
    t ∈ modifyNth l n (fun s => { s with remains := g s.remains }) → ∃ t0 ∈ l, t0.burn = t.burn ∧ t0.account = t.account
  | [], n, t, h => by simp [modifyNth] at h
  | y :: ys, 0, t, h => by
    simp only [modifyNth] at h
    rcases List.mem_cons.mp h with h1 | h1
    · exact ⟨y, by simp, by rw [h1], by rw [h1]⟩
    · exact ⟨t, by simp [h1], rfl, rfl⟩
  | y :: ys, m + 1, t, h => by
    simp only [modifyNth] at h
    rcases List.mem_cons.mp h with h1 | h1
    · exact ⟨t, by simp [h1], rfl, rfl⟩
    · obtain ⟨t0, ht0, e1, e2⟩ := mem_modifyNth_remains g ys m t h1
      exact ⟨t0, by simp [ht0], e1, e2⟩

theorem burnAcc_modifyNth (g : DecCoins → DecCoins) (l : List DState) (n : Nat) (h : BurnAcc l) :
    BurnAcc (modifyNth l n (fun s => { s with remains := g s.remains })) := by
  intro t ht hb
  obtain ⟨t0, ht0, e1, e2⟩ := mem_modifyNth_remains g l n t ht
  rw [← e2]; exact h t0 ht0 (by rw [e1]; exact hb)

theorem burnAcc_append_one (l : List DState) (x : DState) (h : BurnAcc l) (hx : x.burn = true → x.account = some burnAcct) :
    BurnAcc (l ++ [x]) := by
  intro t ht hb
  rcases List.mem_append.mp ht with h1 | h1
  · exact h t h1 hb
  · simp only [List.mem_singleton] at h1
    rw [h1] at hb ⊢; exact hx hb

theorem addToAccountState_burnAcc (sts sts' : List DState) (a : Account) (c : DecCoins)
    (h : addToAccountState sts a c = .ok sts') (hb : BurnAcc sts) : BurnAcc sts' := by
  unfold addToAccountState at h
  split at h
  · cases h
  · cases h
  · cases h; exact burnAcc_modifyNth (fun r => CoinList.add r c) sts _ hb
  · cases h; exact burnAcc_append_one sts _ hb (fun hh => by cases hh)

theorem addToBurnState_burnAcc (sts : List DState) (c : DecCoins) (hb : BurnAcc sts) : BurnAcc (addToBurnState sts c) := by
  unfold addToBurnState
  split
  · exact burnAcc_modifyNth (fun r => CoinList.add r c) sts _ hb
  · exact burnAcc_append_one sts _ hb (fun _ => rfl)

theorem distShares_burnAcc (sub : String) (x : DecCoins) : ∀ (shs : List Share) (sts : List DState) (dflt : DecCoins)
    (evs : List Event) (sts' : List DState) (dflt' : DecCoins) (evs' : List Event),
    distShares sub x shs sts dflt evs = .ok (sts', dflt', evs') → BurnAcc sts → BurnAcc sts'
  | [], sts, dflt, evs, sts', dflt', evs', h, hb => by
    simp only [distShares, Outcome.ok.injEq, Prod.mk.injEq] at h
    rw [← h.1]; exact hb
  | sh :: rest, sts, dflt, evs, sts', dflt', evs', h, hb => by
    unfold distShares at h
    simp only [] at h
    split at h
    · cases h
    · split at h
      · split at h
        · split at h
          · rename_i stsA hadd
            exact distShares_burnAcc sub x rest _ _ _ _ _ _ h (addToAccountState_burnAcc sts stsA sh.dest _ hadd hb)
          · cases h
          · cases h
        · exact distShares_burnAcc sub x rest _ _ _ _ _ _ h hb
      · exact distShares_burnAcc sub x rest _ _ _ _ _ _ h hb

theorem startDistribution_burnAcc (sts : List DState) (x : DecCoins) (s : SubD) (sts' : List DState) (evs : List Event)
    (h : startDistribution sts x s = .ok (sts', evs)) (hb : BurnAcc sts) : BurnAcc sts' := by
  unfold startDistribution at h
  split at h
  · cases h
  · cases h
  · rename_i sts1 dflt1 evs1 hsh
    have hb1 := distShares_burnAcc s.name x s.shares sts x [] sts1 dflt1 evs1 hsh hb
    simp only [] at h
    split at h
    · cases h
    · have hb2 : BurnAcc (if (!isZero (calcPercentage (s.burnShare.getD 0) x)) = true
          then addToBurnState sts1 (calcPercentage (s.burnShare.getD 0) x) else sts1) := by
        split
        · exact addToBurnState_burnAcc sts1 _ hb1
        · exact hb1
      split at h
      · split at h
        · rename_i sts3 hadd
          cases h
          exact addToAccountState_burnAcc _ _ s.primary _ hadd hb2
        · cases h
        · cases h
      · cases h; exact hb2

theorem prepareLeft_burnAcc (c c2 : DecCoins) (src : Account) (sts sts' : List DState)
    (h : prepareLeft c src sts = .ok (c2, sts')) (hb : BurnAcc sts) : BurnAcc sts' := by
  unfold prepareLeft at h
  split at h
  · cases h
  · cases h
  · cases h; exact hb
  · simp only [] at h
    split at h
    · cases h; exact burnAcc_modifyNth (fun _ => []) sts _ hb
    · cases h; exact hb

theorem prepareNotMain_burnAcc (e : Env) (w w' : World) (src : Account) (c : DecCoins)
    (h : prepareNotMain e w src = .ok (c, w')) (hb : BurnAcc w.states) : BurnAcc w'.states := by
  unfold prepareNotMain at h
  simp only [] at h
  split at h
  · rename_i cc ww hsw
    have key : ww.states = w.states := by
      split at hsw
      · split at hsw
        · cases hsw
        · rename_i addr _
          have := Outcome.ok.inj hsw
          have h2 : ww = (sweep e w addr).2 := by rw [this]
          rw [h2]; exact sweep_states e w addr
      · split at hsw
        · have := Outcome.ok.inj hsw
          have h2 : ww = (sweep e w (canonAddr src.id)).2 := by rw [this]
          rw [h2]; exact sweep_states e w _
        · cases hsw; rfl
    split at h
    · rename_i c2 sts hl
      cases h
      rw [key] at hl
      exact prepareLeft_burnAcc _ _ src _ _ hl hb
    · cases h
    · cases h
  · cases h
  · cases h

theorem prepOthersPart_burnAcc (e : Env) : ∀ (l : List Account) (w w' : World) (all all' : DecCoins),
    prepOthersPart e w l all = .ok (all', w') → BurnAcc w.states → BurnAcc w'.states
  | [], w, w', all, all', h, hb => by
    simp only [prepOthersPart, Outcome.ok.injEq, Prod.mk.injEq] at h; rw [← h.2]; exact hb
  | s :: rest, w, w', all, all', h, hb => by
    unfold prepOthersPart at h
    split at h
    · split at h
      · rename_i c w1 hp
        exact prepOthersPart_burnAcc e rest w1 w' _ all' h (prepareNotMain_burnAcc e w w1 s c hp hb)
      · cases h
      · cases h
    · exact prepOthersPart_burnAcc e rest w w' all all' h hb

theorem prepareCoins_burnAcc (e : Env) (w w' : World) (l : List Account) (x : DecCoins)
    (h : prepareCoins e w l = .ok (x, w')) (hb : BurnAcc w.states) : BurnAcc w'.states := by
  unfold prepareCoins at h
  split at h
  · exact prepOthersPart_burnAcc e l w w' _ x h hb
  · cases h
  · cases h

theorem subsLoop_burnAcc (e : Env) : ∀ (subs : List SubD) (w : World) (evs : List Event) (w' : World) (evs' : List Event),
    subsLoop e subs w evs = .ok (w', evs') → BurnAcc w.states → BurnAcc w'.states
  | [], w, evs, w', evs', h, hb => by
    simp only [subsLoop, Outcome.ok.injEq, Prod.mk.injEq] at h
    rw [← h.1]; exact hb
  | s :: rest, w, evs, w', evs', h, hb => by
    unfold subsLoop at h
    split at h
    · rename_i x w1 hprep
      have hb1 := prepareCoins_burnAcc e w w1 _ x hprep hb
      split at h
      · split at h
        · rename_i sts ev hd
          exact subsLoop_burnAcc e rest _ _ w' evs' h (startDistribution_burnAcc w1.states x s sts ev hd hb1)
        · cases h
        · cases h
      · exact subsLoop_burnAcc e rest _ _ w' evs' h hb1
    · cases h
    · cases h

theorem payoutLoop_burnAcc (e : Env) : ∀ (l : List DState) (w w' : World) (st st' : List DState),
    payoutLoop e l w st = .ok (w', st') → BurnAcc l → BurnAcc st → BurnAcc st'
  | [], w, w', st, st', h, _, hst => by
    simp only [payoutLoop, Outcome.ok.injEq, Prod.mk.injEq] at h
    rw [← h.2]; exact hst
  | s :: rest, w, w', st, st', h, hl, hst => by
    unfold payoutLoop at h
    split at h
    · rename_i s1 w1 hp
      have hsame := payoutOne_same e w w1 s s1 hp
      apply payoutLoop_burnAcc e rest w1 w' _ st' h (fun x hx => hl x (by simp [hx]))
      apply burnAcc_append_one st s1 hst
      intro hb
      rw [hsame.1]
      exact hl s (by simp) (by rw [← hsame.2]; exact hb)
    · cases h
    · cases h

/-- **a block keeps the burn state's account**: after `BeginBlocker` every burn-flagged state still
    carries the empty account -/
theorem beginBlock_burnAcc (e : Env) (subs : List SubD) (w0 : World) (faults : List Nat) (r : BlockRes)
    (h : beginBlock e subs w0 faults = .ok r) (hb : BurnAcc w0.states) : BurnAcc r.world.states := by
  unfold beginBlock at h
  split at h
  · rename_i w evs hloop
    have hb1 := subsLoop_burnAcc e subs _ [] w evs hloop hb
    split at h
    · rename_i w2 stored hpay
      cases h
      have hb2 := payoutLoop_burnAcc e w.states w w2 [] stored hpay hb1 (by intro s hs; cases hs)
      intro t ht
      exact hb2 t (mem_storeStates stored t ht)
    · cases h
    · cases h
  · cases h
  · cases h

end C4E.Distr
