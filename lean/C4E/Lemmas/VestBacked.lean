/-
  Lemmas for C05: how the vesting handlers' primitives change the module balance and the pools'
  locked sum.
-/
import C4E.Vesting
import C4E.Lemmas.AListLemmas
namespace C4E.Vest
open C4E C4E.CoinList

def poolsLocked (ps : List Pool) : Int := sumInts (ps.map Pool.locked)

theorem lockedSum_eq (s : State) : lockedSum s = sumInts (s.pools.map (fun kv => poolsLocked kv.2)) := rfl

/-- balance of the vesting module account in the vesting denom -/
def modBal (s : State) : Int := amountOf (s.balance s.modAddr) s.denom

/-! ### sums over association lists -/

theorem sum_set (m : AList (List Pool)) (k : String) (v : List Pool) :
    sumInts ((m.set k v).map (fun kv => poolsLocked kv.2))
      = sumInts (m.map (fun kv => poolsLocked kv.2)) - poolsLocked ((m.get? k).getD []) + poolsLocked v := by
  induction m with
  | nil => simp [AList.set, AList.get?, poolsLocked]
  | cons kv rest ih =>
    obtain ⟨k', v'⟩ := kv
    unfold AList.set AList.get?
    by_cases h : k' = k
    · simp only [h, if_true, List.map_cons, sumInts_cons, Option.getD_some]; omega
    · simp only [h, if_false, List.map_cons, sumInts_cons, ih]; omega

theorem sum_insertBy {α} (lt : α → α → Bool) (f : α → Int) (x : α) : ∀ l : List α,
    sumInts ((insertBy lt x l).map f) = f x + sumInts (l.map f)
  | [] => by simp [insertBy]
  | y :: ys => by
    unfold insertBy
    split
    · simp
    · simp only [List.map_cons, sumInts_cons, sum_insertBy lt f x ys]; omega

theorem sum_sortBy {α} (lt : α → α → Bool) (f : α → Int) : ∀ l : List α,
    sumInts ((sortBy lt l).map f) = sumInts (l.map f)
  | [] => rfl
  | x :: xs => by
    have ih := sum_sortBy lt f xs
    unfold sortBy at ih ⊢
    simp only [List.foldr_cons, List.map_cons, sumInts_cons]
    rw [sum_insertBy, ih]

theorem get?_sortBy_irrelevant : True := trivial

/-- storing an owner's pools changes the locked sum by exactly the difference -/
theorem lockedSum_setPools (s : State) (owner : String) (ps : List Pool) :
    lockedSum (s.setPools owner ps) = lockedSum s - poolsLocked ((s.pools.get? owner).getD []) + poolsLocked ps := by
  unfold State.setPools sortPools
  rw [lockedSum_eq, lockedSum_eq]
  simp only []
  rw [sum_sortBy, sum_set]

theorem setPools_bal (s : State) (owner : String) (ps : List Pool) :
    (s.setPools owner ps).bal = s.bal ∧ (s.setPools owner ps).modAddr = s.modAddr ∧
    (s.setPools owner ps).denom = s.denom ∧ (s.setPools owner ps).blocked = s.blocked ∧
    (s.setPools owner ps).accts = s.accts := ⟨rfl, rfl, rfl, rfl, rfl⟩

/-! ### balances -/

theorem applySend_fields (s : State) (src dst : String) (c : Coins) :
    (s.applySend src dst c).pools = s.pools ∧ (s.applySend src dst c).modAddr = s.modAddr ∧
    (s.applySend src dst c).denom = s.denom ∧ (s.applySend src dst c).blocked = s.blocked := ⟨rfl, rfl, rfl, rfl⟩

theorem applySend_bal_src (s : State) (src dst : String) (c : Coins) (d : String) (h : src ≠ dst) :
    amountOf ((s.applySend src dst c).balance src) d = amountOf (s.balance src) d - amountOf c d := by
  unfold State.applySend State.balance
  simp only []
  rw [AList.get?_set_other _ _ _ _ h, AList.get?_set_self]
  simp only [Option.getD_some]
  rw [amountOf_add, amountOf_neg]; omega

theorem applySend_bal_dst (s : State) (src dst : String) (c : Coins) (d : String) (h : src ≠ dst) :
    amountOf ((s.applySend src dst c).balance dst) d = amountOf (s.balance dst) d + amountOf c d := by
  unfold State.applySend State.balance
  simp only []
  rw [AList.get?_set_self, AList.get?_set_other _ _ _ _ (Ne.symm h)]
  simp only [Option.getD_some]
  rw [amountOf_add]

theorem applySend_bal_other (s : State) (src dst a : String) (c : Coins) (h1 : a ≠ src) (h2 : a ≠ dst) :
    (s.applySend src dst c).balance a = s.balance a := by
  unfold State.applySend State.balance
  simp only []
  rw [AList.get?_set_other _ _ _ _ h2, AList.get?_set_other _ _ _ _ h1]

theorem send_ok_eq (s s' : State) (src dst : String) (c : Coins) (h : s.send src dst c = .ok s') :
    s' = s.applySend src dst c := by
  unfold State.send at h
  split at h
  · cases h
  · split at h
    · cases h
    · split at h
      · cases h
      · split at h
        · cases h
        · cases h; rfl

theorem amountOf_nz_single (d : String) (v : Int) : amountOf (nz [(d, v)]) d = v := by
  rw [amountOf_nz]; simp [amountOf]

/-! ### pools -/

theorem poolsLocked_append (a b : List Pool) : poolsLocked (a ++ b) = poolsLocked a + poolsLocked b := by
  unfold poolsLocked; rw [List.map_append, sumInts_append]

theorem poolsLocked_withdraw (now : Int) (ps : List Pool) :
    poolsLocked (ps.map (fun p => { p with withdrawn := p.withdrawn + withdrawable now p }))
      = poolsLocked ps - sumInts (ps.map (withdrawable now)) := by
  unfold poolsLocked
  induction ps with
  | nil => simp
  | cons p rest ih =>
    simp only [List.map_cons, sumInts_cons]
    have : Pool.locked { p with withdrawn := p.withdrawn + withdrawable now p } = p.locked - withdrawable now p := by
      unfold Pool.locked; simp only []; omega
    rw [this]
    simp only [List.map_map] at ih ⊢
    omega

theorem poolsLocked_bumpLast (name : String) (amount : Int) : ∀ ps : List Pool,
    poolsLocked (bumpLast name amount ps).1 = poolsLocked ps - (if (bumpLast name amount ps).2 then amount else 0)
  | [] => by simp [bumpLast, poolsLocked]
  | p :: ps => by
    have ih := poolsLocked_bumpLast name amount ps
    unfold bumpLast
    unfold poolsLocked at ih ⊢
    by_cases h1 : (bumpLast name amount ps).2 = true
    · simp only [h1, if_true, List.map_cons, sumInts_cons] at ih ⊢; omega
    · have h1' : (bumpLast name amount ps).2 = false := by simpa using h1
      by_cases h2 : p.name = name
      · simp only [h1', Bool.false_eq_true, if_false, h2, if_true, List.map_cons, sumInts_cons] at ih ⊢
        unfold Pool.locked at ih ⊢
        simp only [] at ih ⊢
        omega
      · simp only [h1', Bool.false_eq_true, if_false, h2, List.map_cons, sumInts_cons] at ih ⊢; omega

theorem bumpLast_flag (name : String) (amount : Int) : ∀ ps : List Pool,
    (bumpLast name amount ps).2 = (lastNamed name ps).isSome
  | [] => rfl
  | p :: ps => by
    have ih := bumpLast_flag name amount ps
    unfold bumpLast lastNamed
    cases hl : lastNamed name ps with
    | some q => rw [hl] at ih; simp at ih; simp [ih]
    | none =>
      rw [hl] at ih; simp at ih
      by_cases h2 : p.name = name <;> simp [ih, h2]

/-- every pool after the update is an old pool, or the last pool of that name with `Sent` raised -/
theorem bumpLast_mem (name : String) (amount : Int) : ∀ (ps : List Pool) (q' : Pool), q' ∈ (bumpLast name amount ps).1 →
    q' ∈ ps ∨ ∃ q, lastNamed name ps = some q ∧ q' = { q with sent := q.sent + amount }
  | [], q', h => by simp [bumpLast] at h
  | p :: ps, q', h => by
    have hflag := bumpLast_flag name amount ps
    unfold bumpLast at h
    unfold lastNamed
    cases hl : lastNamed name ps with
    | some q =>
      rw [hl] at hflag; simp at hflag
      simp only [hflag, if_true] at h
      rcases List.mem_cons.mp h with rfl | h
      · left; simp
      · rcases bumpLast_mem name amount ps q' h with h1 | ⟨q0, hq0, hq'⟩
        · left; simp [h1]
        · right; rw [hl] at hq0; cases hq0; exact ⟨q, rfl, hq'⟩
    | none =>
      rw [hl] at hflag; simp at hflag
      by_cases h2 : p.name = name
      · simp only [hflag, Bool.false_eq_true, if_false, h2, if_true] at h
        rcases List.mem_cons.mp h with rfl | h
        · right; exact ⟨p, by simp [h2], by simp [h2]⟩
        · rcases bumpLast_mem name amount ps q' h with h1 | ⟨q0, hq0, _⟩
          · left; simp [h1]
          · rw [hl] at hq0; cases hq0
      · simp only [hflag, Bool.false_eq_true, if_false, h2] at h
        rcases List.mem_cons.mp h with rfl | h
        · left; simp
        · rcases bumpLast_mem name amount ps q' h with h1 | ⟨q0, hq0, _⟩
          · left; simp [h1]
          · rw [hl] at hq0; cases hq0

theorem lastNamed_mem (name : String) : ∀ (ps : List Pool) (q : Pool), lastNamed name ps = some q → q ∈ ps
  | [], q, h => by simp [lastNamed] at h
  | p :: ps, q, h => by
    unfold lastNamed at h
    cases hl : lastNamed name ps with
    | some q0 => rw [hl] at h; cases h; exact List.mem_cons_of_mem _ (lastNamed_mem name ps q hl)
    | none =>
      rw [hl] at h
      by_cases h2 : p.name = name
      · simp [h2] at h; subst h; simp
      · simp [h2] at h

/-! ### membership through the pool store -/

theorem mem_insertBy {α} (lt : α → α → Bool) (x y : α) : ∀ l : List α, y ∈ insertBy lt x l → y = x ∨ y ∈ l
  | [], h => by simp [insertBy] at h; exact Or.inl h
  | z :: zs, h => by
    unfold insertBy at h
    split at h
    · rcases List.mem_cons.mp h with rfl | h
      · exact Or.inl rfl
      · exact Or.inr h
    · rcases List.mem_cons.mp h with rfl | h
      · exact Or.inr (by simp)
      · rcases mem_insertBy lt x y zs h with h | h
        · exact Or.inl h
        · exact Or.inr (by simp [h])

theorem mem_sortBy {α} (lt : α → α → Bool) (y : α) : ∀ l : List α, y ∈ sortBy lt l → y ∈ l
  | [], h => by simp [sortBy] at h
  | x :: xs, h => by
    unfold sortBy at h
    simp only [List.foldr_cons] at h
    rcases mem_insertBy lt x y _ h with rfl | h
    · simp
    · exact List.mem_cons_of_mem _ (mem_sortBy lt y xs h)

theorem mem_set {α} (m : AList α) (k : String) (v : α) (kv : String × α) (h : kv ∈ m.set k v) : kv = (k, v) ∨ kv ∈ m := by
  induction m with
  | nil => simp [AList.set] at h; exact Or.inl h
  | cons x rest ih =>
    obtain ⟨k', v'⟩ := x
    unfold AList.set at h
    by_cases hk : k' = k
    · simp only [hk, if_true] at h
      rcases List.mem_cons.mp h with rfl | h
      · exact Or.inl rfl
      · exact Or.inr (List.mem_cons_of_mem _ h)
    · simp only [hk, if_false] at h
      rcases List.mem_cons.mp h with rfl | h
      · exact Or.inr (by simp)
      · rcases ih h with h | h
        · exact Or.inl h
        · exact Or.inr (List.mem_cons_of_mem _ h)

theorem get?_mem {α} (m : AList α) (k : String) (v : α) (h : m.get? k = some v) : (k, v) ∈ m := by
  induction m with
  | nil => simp [AList.get?] at h
  | cons x rest ih =>
    obtain ⟨k', v'⟩ := x
    unfold AList.get? at h
    by_cases hk : k' = k
    · simp only [hk, if_true] at h; cases h; subst hk; simp
    · simp only [hk, if_false] at h; exact List.mem_cons_of_mem _ (ih h)

/-- every stored pool is solvent -/
def Solvent (s : State) : Prop :=
  ∀ kv ∈ s.pools, ∀ p ∈ kv.2, 0 ≤ p.withdrawn ∧ 0 ≤ p.sent ∧ p.withdrawn + p.sent ≤ p.initially

theorem solvent_setPools (s : State) (owner : String) (ps : List Pool) (h : Solvent s)
    (hps : ∀ p ∈ ps, 0 ≤ p.withdrawn ∧ 0 ≤ p.sent ∧ p.withdrawn + p.sent ≤ p.initially) : Solvent (s.setPools owner ps) := by
  intro kv hkv p hp
  unfold State.setPools sortPools at hkv
  simp only [] at hkv
  rcases mem_set _ _ _ _ (mem_sortBy _ _ _ hkv) with rfl | hm
  · exact hps p hp
  · exact h kv hm p hp

theorem withdrawable_nonneg (now : Int) (p : Pool) (h : p.withdrawn + p.sent ≤ p.initially) : 0 ≤ withdrawable now p := by
  unfold withdrawable Pool.locked; split <;> omega

theorem sum_withdrawable_nonneg (now : Int) : ∀ ps : List Pool, (∀ p ∈ ps, p.withdrawn + p.sent ≤ p.initially) →
    0 ≤ sumInts (ps.map (withdrawable now))
  | [], _ => by simp
  | p :: ps, h => by
    simp only [List.map_cons, sumInts_cons]
    have h1 := withdrawable_nonneg now p (h p (by simp))
    have h2 := sum_withdrawable_nonneg now ps (fun q hq => h q (by simp [hq]))
    omega

/-! ### steps that leave pools and the module balance alone -/

/-- `s'` has the same pools, module address, denom, blocked list and module balance as `s` -/
structure Same (s s' : State) : Prop where
  pools : s'.pools = s.pools
  mod : s'.modAddr = s.modAddr
  denom : s'.denom = s.denom
  blocked : s'.blocked = s.blocked
  vtypes : s'.vtypes = s.vtypes
  bal : modBal s' = modBal s

theorem Same.rfl' (s : State) : Same s s := ⟨rfl, rfl, rfl, rfl, rfl, rfl⟩

theorem Same.trans {a b c : State} (h1 : Same a b) (h2 : Same b c) : Same a c :=
  ⟨h2.pools.trans h1.pools, h2.mod.trans h1.mod, h2.denom.trans h1.denom, h2.blocked.trans h1.blocked,
   h2.vtypes.trans h1.vtypes, h2.bal.trans h1.bal⟩

theorem same_applySend (s : State) (src dst : String) (c : Coins) (h1 : src ≠ s.modAddr) (h2 : dst ≠ s.modAddr) :
    Same s (s.applySend src dst c) := by
  refine ⟨rfl, rfl, rfl, rfl, rfl, ?_⟩
  unfold modBal
  show amountOf ((s.applySend src dst c).balance s.modAddr) s.denom = _
  rw [applySend_bal_other s src dst s.modAddr c (Ne.symm h1) (Ne.symm h2)]

theorem same_newCva (s : State) (to : String) (ov : Coins) (a b : Int) : Same s (newCva s to ov a b) :=
  ⟨rfl, rfl, rfl, rfl, rfl, rfl⟩

theorem same_appendTrace (s : State) (a : String) (x y : Bool) : Same s (s.appendTrace a x y) :=
  ⟨rfl, rfl, rfl, rfl, rfl, rfl⟩

theorem same_unlock (s s1 : State) (owner : String) (amt : Coins) (a : Acct)
    (h : unlockUnbonded s owner amt = .ok (s1, a)) : Same s s1 := by
  unfold unlockUnbonded at h
  split at h
  · cases h
  · split at h
    · cases h
    · split at h
      · cases h
      · split at h
        · cases h
        · split at h
          · cases h
          · split at h
            · cases h
            · split at h
              · cases h; exact ⟨rfl, rfl, rfl, rfl, rfl, rfl⟩
              · cases h
              · cases h

theorem not_blocked_ne_mod (s : State) (a : String) (hb : s.blocked.contains s.modAddr = true)
    (h : ¬ s.blocked.contains a = true) : a ≠ s.modAddr := by
  intro e; subst e; exact h hb

/-- a payout from the module account: pools untouched, the module balance drops by the amount -/
theorem sendFromModule_effect (s s' : State) (dst : String) (c : Coins) (hb : s.blocked.contains s.modAddr = true)
    (h : s.sendFromModule dst c = .ok s') :
    s'.pools = s.pools ∧ s'.modAddr = s.modAddr ∧ s'.denom = s.denom ∧ s'.blocked = s.blocked ∧ s'.now = s.now ∧
    s'.vtypes = s.vtypes ∧ modBal s' = modBal s - amountOf c s.denom := by
  unfold State.sendFromModule at h
  split at h
  · cases h
  · rename_i hnb
    have hne := not_blocked_ne_mod s dst hb hnb
    have := send_ok_eq _ _ _ _ _ h
    subst this
    refine ⟨rfl, rfl, rfl, rfl, rfl, rfl, ?_⟩
    unfold modBal
    show amountOf ((s.applySend s.modAddr dst c).balance s.modAddr) s.denom = _
    exact applySend_bal_src s s.modAddr dst c s.denom (Ne.symm hne)

end C4E.Vest
