/-
  The distributor's `BeginBlocker` on the code-tied model does not panic: every `DecCoins.Sub`
  succeeds, every state lookup finds an account, every module account resolves.  Needs the coin lists
  to be denom-sorted (as `sdk.Coins` / `sdk.DecCoins` always are), see `Lemmas/CoinSorted.lean`.
-/
import C4E.Lemmas.CoinSorted
import C4E.Lemmas.DistrStore
namespace C4E.Distr
open C4E C4E.CoinList

/-! ### sortedness of the constructions -/

theorem sorted_foldl_add_single (f : String × Int → Option (String × Int)) :
    ∀ (l : CoinList) (acc : CoinList), Sorted acc →
      Sorted (l.foldl (fun res kv => match f kv with | some e => CoinList.add res [e] | none => res) acc) := by
  intro l
  induction l with
  | nil => intro acc h; exact h
  | cons kv rest ih =>
    intro acc h
    rw [List.foldl_cons]
    apply ih
    split
    · rename_i e _
      exact sorted_add _ _ h (sorted_single e.1 e.2)
    · exact h

theorem sorted_mulDecTruncate (x : DecCoins) (s : Int) : Sorted (mulDecTruncate x s) := by
  unfold mulDecTruncate
  split
  · exact sorted_nil
  · have gen : ∀ (l : DecCoins) (acc : DecCoins), Sorted acc →
        Sorted (l.foldl (fun res kv => if Dec.mulTrunc kv.2 s != 0 then CoinList.add res [(kv.1, Dec.mulTrunc kv.2 s)] else res) acc) := by
      intro l
      induction l with
      | nil => intro acc h; exact h
      | cons kv rest ih =>
        intro acc h
        rw [List.foldl_cons]
        apply ih
        split
        · exact sorted_add _ _ h (sorted_single _ _)
        · exact h
    exact gen x [] sorted_nil

theorem sorted_calcPercentage (s : Int) (x : DecCoins) : Sorted (calcPercentage s x) := by
  unfold calcPercentage
  split
  · exact sorted_nil
  · exact sorted_mulDecTruncate x s

theorem sorted_truncateDecimal (l : DecCoins) : Sorted (truncateDecimal l).1 ∧ Sorted (truncateDecimal l).2 := by
  unfold truncateDecimal
  have gen : ∀ (l : DecCoins) (acc : Coins × DecCoins), Sorted acc.1 → Sorted acc.2 →
      Sorted (l.foldl (fun (acc : Coins × DecCoins) kv =>
        (if Dec.truncInt kv.2 != 0 then CoinList.add acc.1 [(kv.1, Dec.truncInt kv.2)] else acc.1,
         if kv.2 - Dec.ofInt (Dec.truncInt kv.2) != 0 then CoinList.add acc.2 [(kv.1, kv.2 - Dec.ofInt (Dec.truncInt kv.2))] else acc.2)) acc).1 ∧
      Sorted (l.foldl (fun (acc : Coins × DecCoins) kv =>
        (if Dec.truncInt kv.2 != 0 then CoinList.add acc.1 [(kv.1, Dec.truncInt kv.2)] else acc.1,
         if kv.2 - Dec.ofInt (Dec.truncInt kv.2) != 0 then CoinList.add acc.2 [(kv.1, kv.2 - Dec.ofInt (Dec.truncInt kv.2))] else acc.2)) acc).2 := by
    intro l
    induction l with
    | nil => intro acc h1 h2; exact ⟨h1, h2⟩
    | cons kv rest ih =>
      intro acc h1 h2
      rw [List.foldl_cons]
      apply ih
      · simp only []
        split
        · exact sorted_add _ _ h1 (sorted_single _ _)
        · exact h1
      · simp only []
        split
        · exact sorted_add _ _ h2 (sorted_single _ _)
        · exact h2
  exact gen l ([], []) sorted_nil sorted_nil

theorem sorted_toDec (c : Coins) (h : Sorted c) : Sorted (toDec c) := by
  unfold toDec
  exact sorted_map_val Dec.ofInt h

theorem sorted_getRemainsSum (sts : List DState) (h : ∀ s ∈ sts, Sorted s.remains) : Sorted (getRemainsSum sts) := by
  unfold getRemainsSum
  have gen : ∀ (l : List DState) (acc : DecCoins), (∀ s ∈ l, Sorted s.remains) → Sorted acc →
      Sorted (l.foldl (fun acc s => CoinList.add acc s.remains) acc) := by
    intro l
    induction l with
    | nil => intro acc _ h; exact h
    | cons s rest ih =>
      intro acc hl ha
      rw [List.foldl_cons]
      exact ih _ (fun y hy => hl y (by simp [hy])) (sorted_add _ _ ha (hl s (by simp)))
  exact gen sts [] h sorted_nil

/-! ### the amount of a share of a sorted inflow -/

/-- sum of `f v` over the entries of denomination `d` -/
def mapAmt (f : Int → Int) : CoinList → String → Int
  | [], _ => 0
  | (k, v) :: rest, d => (if k = d then f v else 0) + mapAmt f rest d

theorem mapAmt_lb (f : Int → Int) {k : String} {l : CoinList} (h : Lb k l) : mapAmt f l k = 0 := by
  induction l with
  | nil => rfl
  | cons kv rest ih =>
    obtain ⟨k', v⟩ := kv
    obtain ⟨h1, h2⟩ := lb_cons.mp h
    have hne : ¬ k' = k := by
      intro heq; rw [heq] at h1; exact String.lt_irrefl k h1
    simp only [mapAmt, hne, if_false, ih h2, Int.zero_add]

theorem mapAmt_sorted (f : Int → Int) (hf : f 0 = 0) {l : CoinList} (hs : Sorted l) (d : String) :
    mapAmt f l d = f (amountOf l d) := by
  induction l with
  | nil => simp [mapAmt, amountOf, hf]
  | cons kv rest ih =>
    obtain ⟨k, v⟩ := kv
    obtain ⟨hlb, hs'⟩ := sorted_cons.mp hs
    simp only [mapAmt, amountOf]
    by_cases hk : k = d
    · subst hk
      simp only [if_true]
      rw [mapAmt_lb f hlb, amountOf_lb hlb]
      simp
    · simp only [hk, if_false, Int.zero_add]
      exact ih hs'

theorem amountOf_mulDecTruncate (x : DecCoins) (s : Int) (d : String) :
    amountOf (mulDecTruncate x s) d = mapAmt (fun v => Dec.mulTrunc v s) x d := by
  unfold mulDecTruncate
  split
  · rename_i hs
    subst hs
    have : ∀ l : CoinList, mapAmt (fun v => Dec.mulTrunc v 0) l d = 0 := by
      intro l
      induction l with
      | nil => rfl
      | cons kv rest ih =>
        obtain ⟨k, v⟩ := kv
        simp only [mapAmt, ih]
        simp [Dec.mulTrunc, Dec.chopTrunc]
    rw [this]; rfl
  · have gen : ∀ (l : DecCoins) (acc : DecCoins),
        amountOf (l.foldl (fun res kv => if Dec.mulTrunc kv.2 s != 0 then CoinList.add res [(kv.1, Dec.mulTrunc kv.2 s)] else res) acc) d
          = amountOf acc d + mapAmt (fun v => Dec.mulTrunc v s) l d := by
      intro l
      induction l with
      | nil => intro acc; simp [mapAmt]
      | cons kv rest ih =>
        intro acc
        obtain ⟨k, v⟩ := kv
        rw [List.foldl_cons, ih]
        simp only [mapAmt]
        by_cases hz : Dec.mulTrunc v s = 0
        · simp [hz]
        · have : (Dec.mulTrunc v s != 0) = true := by simpa using hz
          simp only [this, if_true, amountOf_add, amountOf]
          omega
    have := gen x []
    simpa [amountOf] using this

theorem mulTrunc_zero_left (s : Int) : Dec.mulTrunc 0 s = 0 := by
  simp [Dec.mulTrunc, Dec.chopTrunc]

/-- the amount a share takes of a sorted inflow, per denomination -/
theorem amountOf_calcPercentage (s : Int) (x : DecCoins) (hs : Sorted x) (d : String) :
    amountOf (calcPercentage s x) d = if isAllPositive x then Dec.mulTrunc (amountOf x d) s else 0 := by
  unfold calcPercentage
  by_cases hp : isAllPositive x = true
  · simp only [hp, Bool.not_true, Bool.false_eq_true, if_false, if_true]
    rw [amountOf_mulDecTruncate, mapAmt_sorted _ (mulTrunc_zero_left s) hs]
  · simp [hp, amountOf]

/-! ### shares that sum to at most one fit into the inflow -/

def sumL : List Int → Int
  | [] => 0
  | a :: r => a + sumL r

theorem floor_sum_le : ∀ (l : List Int), (∀ a ∈ l, 0 ≤ a) → sumL (l.map (· / P)) ≤ sumL l / P ∧ 0 ≤ sumL l
  | [], _ => by simp [sumL]
  | a :: r, h => by
    obtain ⟨ih, hnn⟩ := floor_sum_le r (fun b hb => h b (by simp [hb]))
    have ha := h a (by simp)
    simp only [List.map_cons, sumL]
    generalize sumL r = t at *
    generalize sumL (List.map (fun x => x / P) r) = u at *
    unfold P at *
    constructor <;> omega

/-- `Σ ⌊x·sᵢ⌋ ≤ x` when the shares are non-negative and sum to at most 1 -/
theorem shares_fit (x : Int) (hx : 0 ≤ x) (l : List Int) (hl : ∀ s ∈ l, 0 ≤ s) (hsum : sumL l ≤ P) :
    sumL (l.map (fun s => Dec.mulTrunc x s)) ≤ x := by
  have e1 : ∀ s ∈ l, Dec.mulTrunc x s = (x * s) / P := by
    intro s hs
    unfold Dec.mulTrunc Dec.chopTrunc
    exact Dec.truncInt_nonneg_eq (Int.mul_nonneg hx (hl s hs))
  have e2 : l.map (fun s => Dec.mulTrunc x s) = (l.map (fun s => x * s)).map (· / P) := by
    rw [List.map_map]
    apply List.map_congr_left
    intro s hs
    exact e1 s hs
  rw [e2]
  have hnn : ∀ a ∈ l.map (fun s => x * s), 0 ≤ a := by
    intro a ha
    obtain ⟨s, hs, rfl⟩ := List.mem_map.mp ha
    exact Int.mul_nonneg hx (hl s hs)
  have h1 := (floor_sum_le _ hnn).1
  have h2 : sumL (l.map (fun s => x * s)) = x * sumL l := by
    clear e1 e2 hnn h1 hl hsum
    induction l with
    | nil => simp [sumL]
    | cons s r ih => simp only [List.map_cons, sumL, ih, Int.mul_add]
  rw [h2] at h1
  have h3 : x * sumL l ≤ x * P := Int.mul_le_mul_of_nonneg_left hsum hx
  have h4 : x * sumL l / P ≤ x * P / P := Int.ediv_le_ediv P_pos h3
  have h5 : x * P / P = x := Int.mul_ediv_cancel x (Int.ne_of_gt P_pos)
  omega

/-! ### the additional invariants: sorted lists, resolvable module accounts, bank balances -/

/-- remains denom-sorted; a MODULE_ACCOUNT state that is paid by a transfer resolves to a module account -/
def StateOk2 (e : Env) (s : DState) : Prop :=
  Sorted s.remains ∧ ∀ a, s.account = some a → s.burn = false → a.type = tModule → (e.modAddr? a.id).isSome = true

def StatesOk2 (e : Env) (sts : List DState) : Prop := ∀ s ∈ sts, StateOk2 e s

/-- every balance is denom-sorted, and every balance except the main account's is entry-wise
    non-negative (the main account's non-negativity is not needed: it only enters through `U ≥ 0`) -/
def BankOk (e : Env) (b : Bank) : Prop :=
  (∀ addr, Sorted (b.balance addr)) ∧ (∀ addr, addr ≠ e.mainAddr → EN (b.balance addr))

theorem statesOk2_nil (e : Env) : StatesOk2 e [] := fun _ h => by cases h

theorem statesOk2_append (e : Env) (a b : List DState) (ha : StatesOk2 e a) (hb : StatesOk2 e b) : StatesOk2 e (a ++ b) := by
  intro s hs
  rcases List.mem_append.mp hs with h | h
  · exact ha s h
  · exact hb s h

theorem statesOk2_modifyNth (e : Env) (f : DState → DState) (hf : ∀ s, StateOk2 e s → StateOk2 e (f s)) :
    ∀ (l : List DState) (n : Nat), StatesOk2 e l → StatesOk2 e (modifyNth l n f)
  | [], _, _ => by simp only [modifyNth]; exact statesOk2_nil e
  | x :: xs, 0, h => by
    simp only [modifyNth]
    intro s hs
    rcases List.mem_cons.mp hs with h1 | h1
    · rw [h1]; exact hf x (h x (by simp))
    · exact h s (by simp [h1])
  | x :: xs, n + 1, h => by
    simp only [modifyNth]
    intro s hs
    rcases List.mem_cons.mp hs with h1 | h1
    · rw [h1]; exact h x (by simp)
    · exact statesOk2_modifyNth e f hf xs n (fun y hy => h y (by simp [hy])) s h1

theorem findAccountState_total : ∀ (l : List DState) (a : Account) (i : Nat), (∀ s ∈ l, ∃ b, s.account = some b) →
    ∃ r, findAccountState l a i = .ok r
  | [], _, _, _ => ⟨none, rfl⟩
  | s :: rest, a, i, h => by
    obtain ⟨b, hb⟩ := h s (by simp)
    unfold findAccountState
    rw [hb]
    simp only []
    split
    · exact ⟨_, rfl⟩
    · exact findAccountState_total rest a (i + 1) (fun y hy => h y (by simp [hy]))

theorem accounts_of_statesOk (e : Env) (l : List DState) (h : StatesOk e l) : ∀ s ∈ l, ∃ b, s.account = some b := by
  intro s hs
  obtain ⟨_, a, ha, _⟩ := h s hs
  exact ⟨a, ha⟩

theorem getD_mem {α} [Inhabited α] (l : List α) (n : Nat) (h : n < l.length) : l.getD n default ∈ l := by
  rw [List.getD_eq_getElem?_getD, List.getElem?_eq_getElem h]
  simp

theorem prepareLeft_total (e : Env) (c : DecCoins) (src : Account) (sts : List DState)
    (hs : StatesOk e sts) (hs2 : StatesOk2 e sts) (hc : EN c) (hcs : Sorted c) :
    ∃ c2 sts', prepareLeft c src sts = .ok (c2, sts') ∧ EN c2 ∧ Sorted c2 ∧ StatesOk2 e sts' := by
  obtain ⟨r, hr⟩ := findAccountState_total sts src 0 (accounts_of_statesOk e sts hs)
  unfold prepareLeft
  rw [hr]
  cases r with
  | none => exact ⟨c, sts, rfl, hc, hcs, hs2⟩
  | some pos =>
    simp only []
    have hb := findAccountState_lt sts src 0 pos hr
    have hmem := getD_mem sts pos (by omega)
    split
    · refine ⟨_, _, rfl, en_add _ _ hc (hs _ hmem).1, sorted_add _ _ hcs (hs2 _ hmem).1, ?_⟩
      apply statesOk2_modifyNth e _ _ sts pos hs2
      intro s h
      exact ⟨sorted_nil, h.2⟩
    · exact ⟨c, sts, rfl, hc, hcs, hs2⟩

theorem en_add_neg_self (l : CoinList) (h : Sorted l) : EN (CoinList.add l (neg l)) := by
  intro kv hkv
  have := add_entries l (neg l) h (sorted_neg h) kv hkv
  rw [amountOf_neg] at this
  omega

theorem bank_balance_send (b b' : Bank) (src dst : String) (c : Coins) (hne : src ≠ dst)
    (h : b.send src dst c = some b') (addr : String) :
    b'.balance addr = if addr = dst then CoinList.add (b.balance dst) c
                      else if addr = src then CoinList.add (b.balance src) (neg c) else b.balance addr := by
  unfold Bank.send at h
  simp only [] at h
  split at h
  · cases h
  · cases h
    unfold Bank.balance
    simp only []
    by_cases h1 : addr = dst
    · subst h1
      simp only [if_true]
      rw [AList.get?_set_self, AList.get?_set_other _ _ _ _ (Ne.symm hne)]
      rfl
    · simp only [h1, if_false]
      rw [AList.get?_set_other _ _ _ _ h1]
      by_cases h2 : addr = src
      · subst h2
        simp only [if_true]
        rw [AList.get?_set_self]; rfl
      · simp only [h2, if_false]
        rw [AList.get?_set_other _ _ _ _ h2]

theorem bankOk_send (e : Env) (b b' : Bank) (src dst : String) (c : Coins) (hne : src ≠ dst)
    (h : b.send src dst c = some b') (hb : BankOk e b) (hcs : Sorted c)
    (hdst : dst ≠ e.mainAddr → EN c) (hsrc : src ≠ e.mainAddr → EN (CoinList.add (b.balance src) (neg c))) :
    BankOk e b' := by
  have hbal := bank_balance_send b b' src dst c hne h
  constructor
  · intro addr
    rw [hbal addr]
    split
    · exact sorted_add _ _ (hb.1 dst) hcs
    · split
      · exact sorted_add _ _ (hb.1 src) (sorted_neg hcs)
      · exact hb.1 addr
  · intro addr hm
    rw [hbal addr]
    split
    · rename_i h1
      exact en_add _ _ (hb.2 dst (by rw [← h1]; exact hm)) (hdst (by rw [← h1]; exact hm))
    · split
      · rename_i h2
        exact hsrc (by rw [← h2]; exact hm)
      · exact hb.2 addr hm

theorem bankOk_burn (e : Env) (b b' : Bank) (c : Coins) (h : b.burn e.mainAddr c = some b') (hb : BankOk e b)
    (hcs : Sorted c) : BankOk e b' := by
  unfold Bank.burn at h
  simp only [] at h
  split at h
  · cases h
  · cases h
    constructor
    · intro addr
      unfold Bank.balance
      simp only []
      by_cases h1 : addr = e.mainAddr
      · subst h1
        rw [AList.get?_set_self]
        exact sorted_add _ _ (hb.1 _) (sorted_neg hcs)
      · rw [AList.get?_set_other _ _ _ _ h1]
        exact hb.1 addr
    · intro addr hm
      unfold Bank.balance
      simp only []
      rw [AList.get?_set_other _ _ _ _ hm]
      exact hb.2 addr hm

/-- a sweep of a non-main account: what it reports is non-negative and sorted, the bank stays well-formed -/
theorem sweep_total (e : Env) (w : World) (addr : String) (hne : addr ≠ e.mainAddr) (hb : BankOk e w.bank) :
    EN (sweep e w addr).1 ∧ Sorted (sweep e w addr).1 ∧ BankOk e (sweep e w addr).2.bank := by
  unfold sweep
  split
  · split
    · exact ⟨en_nil, sorted_nil, hb⟩
    · split
      · exact ⟨en_nil, sorted_nil, hb⟩
      · rename_i b' hsend
        refine ⟨en_toDec _ (hb.2 addr hne), sorted_toDec _ (hb.1 addr), ?_⟩
        show BankOk e b'
        exact bankOk_send e w.bank b' addr e.mainAddr _ hne hsend hb (hb.1 addr) (fun h => absurd rfl h)
          (fun _ => en_add_neg_self _ (hb.1 addr))
  · exact ⟨en_nil, sorted_nil, hb⟩

/-! ### source preparation does not panic -/

theorem sorted_remains_of (e : Env) (sts : List DState) (h : StatesOk2 e sts) : ∀ s ∈ sts, Sorted s.remains :=
  fun s hs => (h s hs).1

theorem prepareMain_total (e : Env) (w : World) (hb : BankOk e w.bank) (hs2 : StatesOk2 e w.states)
    (hu : ∀ d, 0 ≤ UF e d w) : ∃ c, prepareMain e w = .ok c ∧ EN c ∧ Sorted c := by
  unfold prepareMain
  simp only []
  split
  · have hsd := sorted_toDec _ (hb.1 e.mainAddr)
    have hsr := sorted_getRemainsSum w.states (sorted_remains_of e _ hs2)
    obtain ⟨c, hc⟩ := sub_ok (toDec (w.bank.balance e.mainAddr)) (getRemainsSum w.states) hsd hsr (by
      intro d
      have := hu d
      unfold UF at this
      rw [toDec_amount, getRemainsSum_amount]
      omega)
    rw [hc]
    exact ⟨c, rfl, en_sub hc, sorted_sub hc hsd hsr⟩
  · rename_i hlen
    have : toDec (w.bank.balance e.mainAddr) = [] := by
      cases hh : toDec (w.bank.balance e.mainAddr) with
      | nil => rfl
      | cons _ _ => rw [hh] at hlen; simp at hlen
    rw [this]
    exact ⟨[], rfl, en_nil, sorted_nil⟩

/-- a validated non-MAIN source: its sweep address is not the main account and, for a module, exists -/
structure SrcOk (e : Env) (a : Account) : Prop where
  notMain : srcAddr e a ≠ some e.mainAddr
  resolves : a.type = tModule → (e.modAddr? a.id).isSome = true

theorem prepareNotMain_total (e : Env) (w : World) (src : Account) (hsrc : SrcOk e src)
    (hb : BankOk e w.bank) (hs : StatesOk e w.states) (hs2 : StatesOk2 e w.states) :
    ∃ c w', prepareNotMain e w src = .ok (c, w') ∧ EN c ∧ Sorted c ∧ BankOk e w'.bank ∧ StatesOk2 e w'.states := by
  -- what remains once the swept part `(cc, ww)` is known
  have finish : ∀ (cc : DecCoins) (ww : World), EN cc → Sorted cc → BankOk e ww.bank → ww.states = w.states →
      ∃ c2 sts', prepareLeft cc src ww.states = .ok (c2, sts') ∧ EN c2 ∧ Sorted c2 ∧ StatesOk2 e sts' := by
    intro cc ww h1 h2 _ h4
    exact prepareLeft_total e cc src ww.states (by rw [h4]; exact hs) (by rw [h4]; exact hs2) h1 h2
  unfold prepareNotMain
  simp only []
  by_cases hm : src.type = tModule
  · have hres := hsrc.resolves hm
    cases haddr : e.modAddr? src.id with
    | none => rw [haddr] at hres; cases hres
    | some addr =>
      have hne : addr ≠ e.mainAddr := by
        intro hh; apply hsrc.notMain; unfold srcAddr; simp [hm, haddr, hh]
      obtain ⟨h1, h2, h3⟩ := sweep_total e w addr hne hb
      have h4 := sweep_states e w addr
      cases hsw : sweep e w addr with
      | mk cc ww =>
        rw [hsw] at h1 h2 h3 h4
        obtain ⟨c2, sts', hl, l1, l2, l3⟩ := finish cc ww h1 h2 h3 h4
        simp only [hm, if_true, hsw]
        rw [hl]
        exact ⟨c2, _, rfl, l1, l2, h3, l3⟩
  · by_cases hi : src.type ≠ tInternal
    · have hne : canonAddr src.id ≠ e.mainAddr := by
        intro hh; apply hsrc.notMain; unfold srcAddr; simp [hm, hi, hh]
      obtain ⟨h1, h2, h3⟩ := sweep_total e w _ hne hb
      have h4 := sweep_states e w (canonAddr src.id)
      cases hsw : sweep e w (canonAddr src.id) with
      | mk cc ww =>
        rw [hsw] at h1 h2 h3 h4
        obtain ⟨c2, sts', hl, l1, l2, l3⟩ := finish cc ww h1 h2 h3 h4
        simp only [hm, hi, ne_eq, not_false_eq_true, if_false, if_true, hsw]
        rw [hl]
        exact ⟨c2, _, rfl, l1, l2, h3, l3⟩
    · obtain ⟨c2, sts', hl, l1, l2, l3⟩ := finish [] w en_nil sorted_nil hb rfl
      simp only [hm, hi, if_false]
      rw [hl]
      exact ⟨c2, _, rfl, l1, l2, hb, l3⟩

theorem prepMainPart_total (e : Env) (w : World) (hb : BankOk e w.bank) (hs2 : StatesOk2 e w.states)
    (hu : ∀ d, 0 ≤ UF e d w) : ∀ (l : List Account) (all : DecCoins), EN all → Sorted all →
    ∃ all', prepMainPart e w l all = .ok all' ∧ EN all' ∧ Sorted all'
  | [], all, h1, h2 => ⟨all, rfl, h1, h2⟩
  | a :: rest, all, h1, h2 => by
    unfold prepMainPart
    split
    · obtain ⟨c, hc, c1, c2⟩ := prepareMain_total e w hb hs2 hu
      rw [hc]
      exact prepMainPart_total e w hb hs2 hu rest _ (en_add _ _ h1 c1) (sorted_add _ _ h2 c2)
    · exact prepMainPart_total e w hb hs2 hu rest all h1 h2

theorem prepOthersPart_total (e : Env) : ∀ (l : List Account) (w : World) (all : DecCoins),
    (∀ a ∈ l, a.type ≠ tMain → SrcOk e a) → BankOk e w.bank → StatesOk e w.states → StatesOk2 e w.states →
    EN all → Sorted all →
    ∃ all' w', prepOthersPart e w l all = .ok (all', w') ∧ EN all' ∧ Sorted all' ∧ BankOk e w'.bank ∧ StatesOk2 e w'.states
  | [], w, all, _, hb, _, hs2, h1, h2 => ⟨all, w, rfl, h1, h2, hb, hs2⟩
  | a :: rest, w, all, hsrc, hb, hs, hs2, h1, h2 => by
    unfold prepOthersPart
    split
    · rename_i hm
      obtain ⟨c, w1, hc, c1, c2, c3, c4⟩ := prepareNotMain_total e w a (hsrc a (by simp) hm) hb hs hs2
      rw [hc]
      simp only []
      have hs1 := prepareNotMain_ok e w w1 a c hc hs
      apply prepOthersPart_total e rest w1 _ (fun x hx => hsrc x (by simp [hx])) c3 hs1 c4
      · split
        · exact en_add _ _ h1 c1
        · exact h1
      · split
        · exact sorted_add _ _ h2 c2
        · exact h2
    · exact prepOthersPart_total e rest w all (fun x hx => hsrc x (by simp [hx])) hb hs hs2 h1 h2

/-- **`PrepareCoinsToDistribute` does not panic**, and what it hands to the share loop is
    entry-wise non-negative and denom-sorted -/
theorem prepareCoins_total (e : Env) (w : World) (l : List Account) (hsrc : ∀ a ∈ l, a.type ≠ tMain → SrcOk e a)
    (hb : BankOk e w.bank) (hs : StatesOk e w.states) (hs2 : StatesOk2 e w.states) (hu : ∀ d, 0 ≤ UF e d w) :
    ∃ x w', prepareCoins e w l = .ok (x, w') ∧ EN x ∧ Sorted x ∧ BankOk e w'.bank ∧ StatesOk2 e w'.states := by
  obtain ⟨all, ha, a1, a2⟩ := prepMainPart_total e w hb hs2 hu l [] en_nil sorted_nil
  unfold prepareCoins
  rw [ha]
  exact prepOthersPart_total e l w all hsrc hb hs hs2 a1 a2

/-! ### the share loop does not panic -/

theorem addToAccountState_total (e : Env) (sts : List DState) (a : Account) (c : DecCoins) (hs : StatesOk e sts) :
    ∃ sts', addToAccountState sts a c = .ok sts' := by
  obtain ⟨r, hr⟩ := findAccountState_total sts a 0 (accounts_of_statesOk e sts hs)
  unfold addToAccountState
  rw [hr]
  cases r with
  | none => exact ⟨_, rfl⟩
  | some pos => exact ⟨_, rfl⟩

theorem addToAccountState_ok2 (e : Env) (sts sts' : List DState) (a : Account) (c : DecCoins)
    (h : addToAccountState sts a c = .ok sts') (hs2 : StatesOk2 e sts) (hc : Sorted c)
    (ha : a.type = tModule → (e.modAddr? a.id).isSome = true) : StatesOk2 e sts' := by
  unfold addToAccountState at h
  split at h
  · cases h
  · cases h
  · cases h
    apply statesOk2_modifyNth e _ _ sts _ hs2
    intro s hs
    exact ⟨sorted_add _ _ hs.1 hc, hs.2⟩
  · cases h
    apply statesOk2_append e _ _ hs2
    intro s hs1
    simp only [List.mem_singleton] at hs1
    subst hs1
    refine ⟨sorted_add _ _ sorted_nil hc, ?_⟩
    intro b hb _ hm
    cases hb
    exact ha hm

theorem addToBurnState_ok2 (e : Env) (sts : List DState) (c : DecCoins) (hs2 : StatesOk2 e sts) (hc : Sorted c) :
    StatesOk2 e (addToBurnState sts c) := by
  unfold addToBurnState
  split
  · apply statesOk2_modifyNth e _ _ sts _ hs2
    intro s hs
    exact ⟨sorted_add _ _ hs.1 hc, hs.2⟩
  · apply statesOk2_append e _ _ hs2
    intro s hs1
    simp only [List.mem_singleton] at hs1
    subst hs1
    exact ⟨sorted_add _ _ sorted_nil hc, fun _ _ hb => by cases hb⟩

/-- what the named shares take, in denomination `d` -/
def sumC (x : DecCoins) (d : String) : List Share → Int
  | [] => 0
  | sh :: r => amountOf (calcPercentage (sh.share.getD 0) x) d + sumC x d r

theorem sumC_nonneg (x : DecCoins) (d : String) : ∀ (l : List Share), (∀ sh ∈ l, 0 ≤ sh.share.getD 0) → 0 ≤ sumC x d l
  | [], _ => by simp [sumC]
  | sh :: r, h => by
    have h1 := en_amount _ (en_calcPercentage (sh.share.getD 0) x (h sh (by simp))) d
    have h2 := sumC_nonneg x d r (fun s hs => h s (by simp [hs]))
    simp only [sumC]; omega

def ModDestOk (e : Env) (a : Account) : Prop := a.type = tModule → (e.modAddr? a.id).isSome = true

theorem distShares_total (e : Env) (sub : String) (x : DecCoins) : ∀ (shs : List Share) (sts : List DState) (dflt : DecCoins)
    (evs : List Event), StatesOk e sts → StatesOk2 e sts → SharesOk e shs → (∀ sh ∈ shs, ModDestOk e sh.dest) →
    Sorted dflt → (∀ d, sumC x d shs ≤ amountOf dflt d) →
    ∃ sts' dflt' evs', distShares sub x shs sts dflt evs = .ok (sts', dflt', evs') ∧ StatesOk2 e sts' ∧ Sorted dflt' ∧
      ∀ d, amountOf dflt' d = amountOf dflt d - sumC x d shs
  | [], sts, dflt, evs, _, hs2, _, _, hd, _ => ⟨sts, dflt, evs, rfl, hs2, hd, fun d => by simp [sumC]⟩
  | sh :: rest, sts, dflt, evs, hs, hs2, hsh, hmod, hd, hfit => by
    have hrest : SharesOk e rest := fun s hs' => hsh s (by simp [hs'])
    have hmrest : ∀ s ∈ rest, ModDestOk e s.dest := fun s hs' => hmod s (by simp [hs'])
    have hthis := hsh sh (by simp)
    have hcs := sorted_calcPercentage (sh.share.getD 0) x
    have hce := en_calcPercentage (sh.share.getD 0) x hthis.1
    have hrnn := fun d => sumC_nonneg x d rest (fun s hs' => (hrest s hs').1)
    obtain ⟨d1, hsub⟩ := sub_ok dflt (calcPercentage (sh.share.getD 0) x) hd hcs (by
      intro d
      have := hfit d; have := hrnn d
      simp only [sumC] at *; omega)
    have hd1 := sorted_sub hsub hd hcs
    have hamt := fun d => amountOf_sub hsub d
    have hfit1 : ∀ d, sumC x d rest ≤ amountOf d1 d := by
      intro d
      have := hfit d; have := hamt d
      simp only [sumC] at *; omega
    unfold distShares
    simp only []
    rw [hsub]
    simp only []
    split
    · split
      · rename_i hnm
        obtain ⟨stsA, hadd⟩ := addToAccountState_total e sts sh.dest (calcPercentage (sh.share.getD 0) x) hs
        rw [hadd]
        simp only []
        have hsA := addToAccountState_ok e sts stsA sh.dest _ hadd hs hce (hthis.2 hnm)
        have hsA2 := addToAccountState_ok2 e sts stsA sh.dest _ hadd hs2 hcs (hmod sh (by simp))
        obtain ⟨s', df', ev', hr, r1, r2, r3⟩ := distShares_total e sub x rest stsA d1 _ hsA hsA2 hrest hmrest hd1 hfit1
        refine ⟨s', df', ev', hr, r1, r2, ?_⟩
        intro d; rw [r3 d, hamt d]; simp only [sumC]; omega
      · obtain ⟨s', df', ev', hr, r1, r2, r3⟩ := distShares_total e sub x rest sts d1 _ hs hs2 hrest hmrest hd1 hfit1
        refine ⟨s', df', ev', hr, r1, r2, ?_⟩
        intro d; rw [r3 d, hamt d]; simp only [sumC]; omega
    · obtain ⟨s', df', ev', hr, r1, r2, r3⟩ := distShares_total e sub x rest sts d1 _ hs hs2 hrest hmrest hd1 hfit1
      refine ⟨s', df', ev', hr, r1, r2, ?_⟩
      intro d; rw [r3 d, hamt d]; simp only [sumC]; omega

theorem sumC_eq (x : DecCoins) (hx : Sorted x) (d : String) : ∀ (l : List Share),
    sumC x d l = if isAllPositive x then sumL (l.map (fun sh => Dec.mulTrunc (amountOf x d) (sh.share.getD 0))) else 0
  | [] => by simp [sumC, sumL]
  | sh :: r => by
    simp only [sumC, List.map_cons, sumL, sumC_eq x hx d r, amountOf_calcPercentage _ x hx d]
    split <;> simp

/-- what validation guarantees beyond `SubOkF`, as used by the no-panic theorem -/
structure SubOkT (e : Env) (s : SubD) : Prop where
  fit : sumL (s.shares.map (fun sh => sh.share.getD 0)) + s.burnShare.getD 0 ≤ P
  modDest : ∀ sh ∈ s.shares, ModDestOk e sh.dest
  modPrimary : ModDestOk e s.primary
  srcs : ∀ a ∈ s.sources.filterMap id, a.type ≠ tMain → SrcOk e a

/-- shares and burn share together never take more than the inflow, in any denomination -/
theorem shares_and_burn_fit (e : Env) (s : SubD) (x : DecCoins) (hx : EN x) (hxs : Sorted x) (hok : SubOkF e s) (hT : SubOkT e s)
    (d : String) : sumC x d s.shares + amountOf (calcPercentage (s.burnShare.getD 0) x) d ≤ amountOf x d := by
  rw [sumC_eq x hxs d, amountOf_calcPercentage _ x hxs d]
  have hxd := en_amount x hx d
  split
  · have := shares_fit (amountOf x d) hxd (s.shares.map (fun sh => sh.share.getD 0) ++ [s.burnShare.getD 0]) (by
      intro v hv
      rcases List.mem_append.mp hv with h | h
      · obtain ⟨sh, hsh, rfl⟩ := List.mem_map.mp h
        exact (hok.shares sh hsh).1
      · simp only [List.mem_singleton] at h; rw [h]; exact hok.burn) (by
      have : ∀ (l : List Int) (b : Int), sumL (l ++ [b]) = sumL l + b := by
        intro l b
        induction l with
        | nil => simp [sumL]
        | cons a r ih => simp only [List.cons_append, sumL, ih]; omega
      rw [this]; exact hT.fit)
    have e1 : ∀ (l : List Int) (b : Int) (f : Int → Int), sumL ((l ++ [b]).map f) = sumL (l.map f) + f b := by
      intro l b f
      induction l with
      | nil => simp [sumL]
      | cons a r ih => simp only [List.cons_append, List.map_cons, sumL, ih]; omega
    rw [e1, List.map_map] at this
    exact this
  · omega

/-- **`StartDistributionProcess` does not panic** on a non-negative sorted inflow and well-formed states -/
theorem startDistribution_total (e : Env) (sts : List DState) (x : DecCoins) (s : SubD)
    (hs : StatesOk e sts) (hs2 : StatesOk2 e sts) (hx : EN x) (hxs : Sorted x) (hok : SubOkF e s) (hT : SubOkT e s) :
    ∃ sts' evs, startDistribution sts x s = .ok (sts', evs) ∧ StatesOk2 e sts' := by
  have hfit := shares_and_burn_fit e s x hx hxs hok hT
  have hbn := fun d => en_amount _ (en_calcPercentage (s.burnShare.getD 0) x hok.burn) d
  obtain ⟨sts1, dflt1, evs1, h1, a1, a2, a3⟩ := distShares_total e s.name x s.shares sts x [] hs hs2 hok.shares hT.modDest hxs
    (by intro d; have := hfit d; have := hbn d; omega)
  have hs1 := distShares_ok e s.name x s.shares sts x [] sts1 dflt1 evs1 h1 hs hok.shares
  have hbs := sorted_calcPercentage (s.burnShare.getD 0) x
  obtain ⟨dflt, hsub⟩ := sub_ok dflt1 (calcPercentage (s.burnShare.getD 0) x) a2 hbs (by
    intro d; rw [a3 d]; have := hfit d; omega)
  have hdflt := sorted_sub hsub a2 hbs
  have hs2b : StatesOk2 e (if (!isZero (calcPercentage (s.burnShare.getD 0) x)) = true
      then addToBurnState sts1 (calcPercentage (s.burnShare.getD 0) x) else sts1) := by
    split
    · exact addToBurnState_ok2 e sts1 _ a1 hbs
    · exact a1
  have hsb : StatesOk e (if (!isZero (calcPercentage (s.burnShare.getD 0) x)) = true
      then addToBurnState sts1 (calcPercentage (s.burnShare.getD 0) x) else sts1) := by
    split
    · exact addToBurnState_ok e sts1 _ hs1 (en_calcPercentage _ x hok.burn)
    · exact hs1
  unfold startDistribution
  rw [h1]
  simp only []
  rw [hsub]
  simp only []
  split
  · obtain ⟨sts3, hadd⟩ := addToAccountState_total e _ s.primary dflt hsb
    rw [hadd]
    exact ⟨sts3, _, rfl, addToAccountState_ok2 e _ sts3 s.primary dflt hadd hs2b hdflt hT.modPrimary⟩
  · exact ⟨_, _, rfl, hs2b⟩

/-! ### the payout loop does not panic -/

theorem en_truncateDecimal_int (l : DecCoins) (h : EN l) : EN (truncateDecimal l).1 := by
  unfold truncateDecimal
  have gen : ∀ (l : DecCoins) (acc : Coins × DecCoins), EN l → EN acc.1 →
      EN (l.foldl (fun (acc : Coins × DecCoins) kv =>
        (if Dec.truncInt kv.2 != 0 then CoinList.add acc.1 [(kv.1, Dec.truncInt kv.2)] else acc.1,
         if kv.2 - Dec.ofInt (Dec.truncInt kv.2) != 0 then CoinList.add acc.2 [(kv.1, kv.2 - Dec.ofInt (Dec.truncInt kv.2))] else acc.2)) acc).1 := by
    intro l
    induction l with
    | nil => intro acc _ ha; exact ha
    | cons kv rest ih =>
      intro acc hl ha
      rw [List.foldl_cons]
      apply ih _ (en_cons_tail hl)
      have hv : 0 ≤ kv.2 := hl kv (by simp)
      simp only []
      split
      · apply en_add _ _ ha
        intro y hy; simp at hy; subst hy
        exact Dec.truncInt_nonneg hv
      · exact ha
  exact gen l ([], []) h en_nil

/-- the distributor's module account may burn (maccPerms) -/
def BurnerOk (e : Env) : Prop := ((e.modules.find? (·.name = mainModule)).map (·.burner)).getD false = true

theorem payoutOne_total (e : Env) (hburn : BurnerOk e) (w : World) (s : DState) (hs : StateOk e s) (hs2 : StateOk2 e s)
    (hb : BankOk e w.bank) :
    ∃ s' w', payoutOne e w s = .ok (s', w') ∧ BankOk e w'.bank ∧ StateOk2 e s' := by
  obtain ⟨hen, a, ha, hdest⟩ := hs
  have hch : StateOk2 e { account := some a, burn := s.burn, remains := (truncateDecimal s.remains).2 } :=
    ⟨(sorted_truncateDecimal _).2, fun b hb => hs2.2 b (by rw [ha]; exact hb)⟩
  have hts := (sorted_truncateDecimal s.remains).1
  have hte := en_truncateDecimal_int s.remains hen
  unfold payoutOne
  rw [ha]
  simp only []
  split
  · rename_i hcond
    have hni : a.type ≠ tInternal := by
      simp only [Bool.and_eq_true, decide_eq_true_eq] at hcond
      exact hcond.1
    split
    · -- burn state
      split
      · exact ⟨_, _, rfl, hb, hs2⟩
      · unfold BurnerOk at hburn
        rw [hburn]
        simp only [Bool.not_true, Bool.false_eq_true, if_false]
        split
        · exact ⟨_, _, rfl, hb, hs2⟩
        · rename_i b' hbn
          exact ⟨_, _, rfl, bankOk_burn e w.bank b' _ hbn hb hts, hch⟩
    · rename_i hnb
      have hnb' : s.burn = false := by simpa using hnb
      have hd := hdest hnb' hni
      unfold Props.C14.destAddr at hd
      split
      · rename_i hmod
        split
        · exact ⟨_, _, rfl, hb, hs2⟩
        · have hres := hs2.2 a ha hnb' hmod
          cases haddr : e.modAddr? a.id with
          | none => rw [haddr] at hres; cases hres
          | some addr =>
            simp only []
            have hne : e.mainAddr ≠ addr := by
              intro hh; apply hd; simp [hmod, haddr, hh]
            split
            · exact ⟨_, _, rfl, hb, hs2⟩
            · rename_i b' hsend
              refine ⟨_, _, rfl, ?_, hch⟩
              exact bankOk_send e w.bank b' e.mainAddr addr _ hne hsend hb hts (fun _ => hte) (fun h => absurd rfl h)
      · rename_i hmod
        have hne : e.mainAddr ≠ canonAddr a.id := by
          intro hh; apply hd; simp [hmod, hh]
        split
        · exact ⟨_, _, rfl, hb, hs2⟩
        · split
          · exact ⟨_, _, rfl, hb, hs2⟩
          · split
            · exact ⟨_, _, rfl, hb, hs2⟩
            · split
              · exact ⟨_, _, rfl, hb, hs2⟩
              · rename_i b' hsend
                refine ⟨_, _, rfl, ?_, hch⟩
                exact bankOk_send e w.bank b' e.mainAddr _ _ hne hsend hb hts (fun _ => hte) (fun h => absurd rfl h)
  · exact ⟨_, _, rfl, hb, hs2⟩

theorem payoutLoop_total (e : Env) (hburn : BurnerOk e) : ∀ (l : List DState) (w : World) (st : List DState),
    StatesOk e l → StatesOk2 e l → BankOk e w.bank → StatesOk2 e st →
    ∃ w' st', payoutLoop e l w st = .ok (w', st') ∧ BankOk e w'.bank ∧ StatesOk2 e st'
  | [], w, st, _, _, hb, hst => ⟨w, st, rfl, hb, hst⟩
  | s :: rest, w, st, hs, hs2, hb, hst => by
    obtain ⟨s1, w1, hp, b1, t1⟩ := payoutOne_total e hburn w s (hs s (by simp)) (hs2 s (by simp)) hb
    unfold payoutLoop
    rw [hp]
    simp only []
    apply payoutLoop_total e hburn rest w1 _ (fun y hy => hs y (by simp [hy])) (fun y hy => hs2 y (by simp [hy])) b1
    apply statesOk2_append e _ _ hst
    intro y hy
    simp only [List.mem_singleton] at hy
    rw [hy]; exact t1

/-! ### the sub-distributor loop and the whole block do not panic -/

theorem subsLoop_total (e : Env) : ∀ (subs : List SubD) (w : World) (evs : List Event),
    (∀ s ∈ subs, SubOkF e s ∧ SubOkT e s) → StatesOk e w.states → StatesOk2 e w.states → BankOk e w.bank →
    (∀ d, 0 ≤ UF e d w) →
    ∃ w' evs', subsLoop e subs w evs = .ok (w', evs') ∧ StatesOk2 e w'.states ∧ BankOk e w'.bank
  | [], w, evs, _, _, hs2, hb, _ => ⟨w, evs, rfl, hs2, hb⟩
  | s :: rest, w, evs, hall, hs, hs2, hb, hu => by
    obtain ⟨hok, hT⟩ := hall s (by simp)
    have hrest : ∀ t ∈ rest, SubOkF e t ∧ SubOkT e t := fun t ht => hall t (by simp [ht])
    obtain ⟨x, w1, hprep, x1, x2, b1, t1⟩ := prepareCoins_total e w (s.sources.filterMap id) hT.srcs hb hs hs2 hu
    have hs1 := prepareCoins_ok e w w1 _ x hprep hs
    have hbk := prepareCoins_books e w w1 s x hprep hok hs hu
    unfold subsLoop
    rw [hprep]
    simp only []
    split
    · obtain ⟨sts, ev, hd, d2⟩ := startDistribution_total e w1.states x s hs1 t1 x1 x2 hok hT
      rw [hd]
      simp only []
      obtain ⟨hsA, hk⟩ := startDistribution_ok e w1.states x s sts ev hd hs1 hok
      apply subsLoop_total e rest { w1 with states := sts } _ hrest hsA d2 b1
      intro d
      obtain ⟨kept, k0, ksum, _⟩ := hk d
      have hbd := hbk d
      have hud := hu d
      unfold UF at hbd hud ⊢
      simp only [] at hbd ⊢
      split at hbd <;> omega
    · rename_i hz
      have hz' : isZero x = true := by simpa using hz
      apply subsLoop_total e rest w1 _ hrest hs1 t1 b1
      intro d
      have hbd := hbk d
      have := amountOf_isZero x d hz'
      have := hu d
      split at hbd <;> omega

theorem sumL_foldl (l : List Share) (acc : Int) :
    l.foldl (fun acc sh => acc + sh.share.getD 0) acc = acc + sumL (l.map (fun sh => sh.share.getD 0)) := by
  induction l generalizing acc with
  | nil => simp [sumL]
  | cons sh rest ih => simp only [List.foldl_cons, List.map_cons, sumL, ih]; omega

theorem modDestOk_of_valid (e : Env) (a : Account) (h : accountValid e a = true) : ModDestOk e a := by
  intro hm
  unfold accountValid at h
  have h1 : ¬ tModule = tMain := by decide
  have h2 : ¬ tModule = tInternal := by decide
  have h3 : ¬ tModule = tBase := by decide
  simp only [hm, h1, h2, h3, if_false, if_true, Bool.and_eq_true] at h
  exact h.1

/-- **every sub-distributor of a configuration accepted by `Params.Validate` satisfies `SubOkT`** -/
theorem subOkT_of_paramsValid (e : Env) (henv : EnvOk e) (subs : List SubD) (hv : paramsValid e subs = true) :
    ∀ s ∈ subs, SubOkT e s := by
  unfold paramsValid at hv
  simp only [Bool.and_eq_true] at hv
  intro s hs
  have hvs := List.all_eq_true.mp hv.1 s hs
  unfold subValid at hvs
  simp only [Bool.and_eq_true] at hvs
  obtain ⟨⟨⟨_, hd⟩, _⟩, hsrc⟩ := hvs
  unfold destsValid at hd
  simp only [Bool.and_eq_true] at hd
  obtain ⟨⟨⟨_, hsh⟩, hprim⟩, hsum⟩ := hd
  refine ⟨?_, ?_, modDestOk_of_valid e _ hprim, ?_⟩
  · rw [sumL_foldl] at hsum
    simp only [Bool.and_eq_true, Bool.not_eq_true', decide_eq_false_iff_not] at hsum
    omega
  · intro sh hsh'
    have := List.all_eq_true.mp hsh sh hsh'
    simp only [Bool.and_eq_true] at this
    exact modDestOk_of_valid e _ this.2
  · intro a ha hm
    obtain ⟨oa', hoa, hid⟩ := List.mem_filterMap.mp ha
    have := List.all_eq_true.mp hsrc oa' hoa
    simp only [id] at hid
    subst hid
    have hva : accountValid e a = true := by simpa using this
    exact ⟨srcOk_of_valid e henv a hva hm, modDestOk_of_valid e a hva⟩

/-- **the distributor's `BeginBlocker` does not panic** (code-tied multi-denomination model): for
    every configuration accepted by `Params.Validate`, every pattern of failing bank calls and every
    world whose states are well-formed and sorted, whose balances are sorted and (except main's)
    non-negative and whose main account covers the recorded remains, the block completes -/
theorem beginBlock_total (e : Env) (henv : EnvOk e) (hburn : BurnerOk e) (subs : List SubD)
    (hv : paramsValid e subs = true) (w0 : World) (faults : List Nat)
    (hs : StatesOk e w0.states) (hs2 : StatesOk2 e w0.states) (hb : BankOk e w0.bank) (hu : ∀ d, 0 ≤ UF e d w0) :
    ∃ r stored, beginBlock e subs w0 faults = .ok r ∧ r.world.states = storeStates stored ∧
      StatesOk2 e stored ∧ BankOk e r.world.bank := by
  have hF := subOkF_of_paramsValid e henv subs hv
  have hT := subOkT_of_paramsValid e henv subs hv
  have hclosed : Distr1.closed true (subs.map Bridge.convSub) = true := by
    unfold paramsValid at hv
    simp only [Bool.and_eq_true] at hv
    exact closed_of_orderValid subs hv.2
  obtain ⟨w, evs, hloop, t1, b1⟩ := subsLoop_total e subs { w0 with callIdx := 0, faults := faults } []
    (fun s hs' => ⟨hF s hs', hT s hs'⟩) hs hs2 hb hu
  obtain ⟨hs1, _⟩ := subsLoop_books e subs _ [] w evs true hloop hF hclosed hs hu (by intro hh; cases hh)
  obtain ⟨w2, stored, hpay, b2, t2⟩ := payoutLoop_total e hburn w.states w [] hs1 t1 b1 (statesOk2_nil e)
  unfold beginBlock
  rw [hloop]
  simp only []
  rw [hpay]
  exact ⟨_, stored, rfl, rfl, t2, b2⟩

end C4E.Distr
