/-
  The whole `BeginBlocker` of the code-tied multi-denomination distributor model
  (`C4E.Distributor`): sign invariants (every recorded remainder is entry-wise non-negative),
  well-formedness of the recorded states, and the composition of the per-step accounting facts
  (`prepareCoins_U`, `distShares_states`, `payoutLoop_keeps_books`) over the sub-distributor loop.
-/
import C4E.Distributor
import C4E.Lemmas.DistrFaithful
import C4E.Lemmas.DistrValidate
import C4E.Props.C04
import C4E.Props.C14
namespace C4E.Distr
open C4E C4E.CoinList

/-! ### entry-wise non-negative coin lists (`!IsAnyNegative`) -/

/-- every entry is non-negative — exactly `!l.IsAnyNegative()` -/
def EN (l : CoinList) : Prop := ∀ kv ∈ l, 0 ≤ kv.2

theorem en_nil : EN [] := fun _ h => by cases h

theorem en_of_not_anyNegative (l : CoinList) (h : isAnyNegative l = false) : EN l := by
  intro kv hkv
  unfold isAnyNegative at h
  have := List.any_eq_false.mp h kv hkv
  simp only [decide_eq_true_eq] at this
  omega

theorem anyNegative_of_en (l : CoinList) (h : EN l) : isAnyNegative l = false := by
  unfold isAnyNegative
  apply List.any_eq_false.mpr
  intro kv hkv
  have := h kv hkv
  simp only [decide_eq_true_eq]; omega

theorem en_amount (l : CoinList) (h : EN l) (d : String) : 0 ≤ amountOf l d := by
  induction l with
  | nil => simp [amountOf]
  | cons kv rest ih =>
    obtain ⟨k, v⟩ := kv
    have hv : 0 ≤ v := h (k, v) (by simp)
    have hr := ih (fun x hx => h x (by simp [hx]))
    simp only [amountOf]
    split <;> omega

theorem en_nz (l : CoinList) (h : EN l) : EN (nz l) := by
  intro kv hkv
  unfold nz at hkv
  exact h kv (List.mem_filter.mp hkv).1

theorem en_append (a b : CoinList) (ha : EN a) (hb : EN b) : EN (a ++ b) := by
  intro kv hkv
  rcases List.mem_append.mp hkv with h | h
  · exact ha kv h
  · exact hb kv h

theorem en_opt (c : Bool) (k : String) (v : Int) (h : 0 ≤ v) : EN (if c then [(k, v)] else []) := by
  cases c with
  | true => intro kv hkv; simp at hkv; subst hkv; exact h
  | false => exact en_nil

theorem en_cons_tail {kv : String × Int} {l : CoinList} (h : EN (kv :: l)) : EN l :=
  fun x hx => h x (by simp [hx])

theorem en_add (a b : CoinList) (ha : EN a) (hb : EN b) : EN (CoinList.add a b) := by
  fun_induction CoinList.add a b with
  | case1 b => exact en_nz _ hb
  | case2 a ra => exact en_nz _ ha
  | case3 ka va ra kb vb rb h ih =>
    exact en_append _ _ (en_opt _ _ _ (ha (ka, va) (by simp))) (ih (en_cons_tail ha) hb)
  | case4 va ra kb vb rb h1 ih =>
    have h1 : 0 ≤ va := ha (kb, va) (by simp)
    have h2 : 0 ≤ vb := hb (kb, vb) (by simp)
    exact en_append _ _ (en_opt _ _ _ (by omega)) (ih (en_cons_tail ha) (en_cons_tail hb))
  | case5 ka va ra kb vb rb h1 h2 ih =>
    exact en_append _ _ (en_opt _ _ _ (hb (kb, vb) (by simp))) (ih ha (en_cons_tail hb))

theorem en_sub {a b c : CoinList} (h : sub? a b = some c) : EN c := by
  unfold sub? at h
  simp only [] at h
  split at h
  · cases h
  · rename_i hn
    cases h
    exact en_of_not_anyNegative _ (by simpa using hn)

theorem mulTrunc_nonneg {a b : Int} (ha : 0 ≤ a) (hb : 0 ≤ b) : 0 ≤ Dec.mulTrunc a b := by
  unfold Dec.mulTrunc Dec.chopTrunc
  exact Int.tdiv_nonneg (Int.mul_nonneg ha hb) (Int.le_of_lt P_pos)

theorem en_mulDecTruncate (x : DecCoins) (s : Int) (hx : EN x) (hs : 0 ≤ s) : EN (mulDecTruncate x s) := by
  unfold mulDecTruncate
  split
  · exact en_nil
  · have gen : ∀ (l : DecCoins) (acc : DecCoins), EN l → EN acc →
        EN (l.foldl (fun res kv => if Dec.mulTrunc kv.2 s != 0 then CoinList.add res [(kv.1, Dec.mulTrunc kv.2 s)] else res) acc) := by
      intro l
      induction l with
      | nil => intro acc _ ha; exact ha
      | cons kv rest ih =>
        intro acc hl ha
        rw [List.foldl_cons]
        apply ih _ (en_cons_tail hl)
        have hv : 0 ≤ kv.2 := hl kv (by simp)
        split
        · apply en_add _ _ ha
          intro y hy; simp at hy; subst hy; exact mulTrunc_nonneg hv hs
        · exact ha
    exact gen x [] hx en_nil

theorem en_of_allPositive (x : CoinList) (h : isAllPositive x = true) : EN x := by
  unfold isAllPositive at h
  simp only [Bool.and_eq_true] at h
  intro kv hkv
  have := List.all_eq_true.mp h.2 kv hkv
  simp only [decide_eq_true_eq] at this
  omega

theorem en_calcPercentage (s : Int) (x : DecCoins) (hs : 0 ≤ s) : EN (calcPercentage s x) := by
  unfold calcPercentage
  split
  · exact en_nil
  · rename_i hp
    exact en_mulDecTruncate x s (en_of_allPositive x (by simpa using hp)) hs

theorem en_toDec (c : Coins) (h : EN c) : EN (toDec c) := by
  intro kv hkv
  unfold toDec at hkv
  obtain ⟨y, hy, rfl⟩ := List.mem_map.mp hkv
  have := h y hy
  show 0 ≤ Dec.ofInt y.2
  unfold Dec.ofInt
  exact Int.mul_nonneg this (Int.le_of_lt P_pos)

/-- the fractional change of `TruncateDecimal` of a non-negative list is non-negative -/
theorem en_truncateDecimal_change (l : DecCoins) (h : EN l) : EN (truncateDecimal l).2 := by
  unfold truncateDecimal
  have gen : ∀ (l : DecCoins) (acc : Coins × DecCoins), EN l → EN acc.2 →
      EN (l.foldl (fun (acc : Coins × DecCoins) kv =>
        (if Dec.truncInt kv.2 != 0 then CoinList.add acc.1 [(kv.1, Dec.truncInt kv.2)] else acc.1,
         if kv.2 - Dec.ofInt (Dec.truncInt kv.2) != 0 then CoinList.add acc.2 [(kv.1, kv.2 - Dec.ofInt (Dec.truncInt kv.2))] else acc.2)) acc).2 := by
    intro l
    induction l with
    | nil => intro acc _ ha; exact ha
    | cons kv rest ih =>
      intro acc hl ha
      rw [List.foldl_cons]
      apply ih _ (en_cons_tail hl)
      have hv : 0 ≤ kv.2 := hl kv (by simp)
      simp only []
      split
      · apply en_add _ _ ha
        intro y hy; simp at hy; subst hy
        have := Dec.frac_bounds hv
        unfold Dec.frac Dec.truncDec at this
        unfold Dec.ofInt Dec.truncInt
        exact this.1
      · exact ha
  exact gen l ([], []) h en_nil

/-! ### well-formed recorded states -/

/-- a payable destination does not alias the distributor's main account -/
def DestOk (e : Env) (a : Account) : Prop := a.type ≠ tInternal → Props.C14.destAddr e a ≠ some e.mainAddr

/-- a recorded state: non-negative remains, an account is present, and a state that is paid out
    by a bank transfer does not pay into the main account itself -/
def StateOk (e : Env) (s : DState) : Prop :=
  EN s.remains ∧ ∃ a, s.account = some a ∧ (s.burn = false → DestOk e a)

def StatesOk (e : Env) (sts : List DState) : Prop := ∀ s ∈ sts, StateOk e s

theorem statesOk_nil (e : Env) : StatesOk e [] := fun _ h => by cases h

theorem statesOk_append (e : Env) (a b : List DState) (ha : StatesOk e a) (hb : StatesOk e b) : StatesOk e (a ++ b) := by
  intro s hs
  rcases List.mem_append.mp hs with h | h
  · exact ha s h
  · exact hb s h

theorem statesOk_modifyNth (e : Env) (f : DState → DState) (hf : ∀ s, StateOk e s → StateOk e (f s)) :
    ∀ (l : List DState) (n : Nat), StatesOk e l → StatesOk e (modifyNth l n f)
  | [], _, _ => by simp only [modifyNth]; exact statesOk_nil e
  | x :: xs, 0, h => by
    simp only [modifyNth]
    intro s hs
    rcases List.mem_cons.mp hs with h1 | h1
    · rw [h1]; exact hf x (h x (by simp))
    · exact h s (by simp [h1])
  | x :: xs, n + 1, h => by
    simp only [modifyNth]
    intro s hs
    rcases List.mem_cons.mp hs with h1 | h1
    · rw [h1]; exact h x (by simp)
    · exact statesOk_modifyNth e f hf xs n (fun y hy => h y (by simp [hy])) s h1

theorem stateOk_addRemains (e : Env) (c : DecCoins) (hc : EN c) (s : DState) (h : StateOk e s) :
    StateOk e { s with remains := CoinList.add s.remains c } :=
  ⟨en_add _ _ h.1 hc, h.2⟩

theorem stateOk_clear (e : Env) (s : DState) (h : StateOk e s) : StateOk e { s with remains := [] } :=
  ⟨en_nil, h.2⟩

theorem addToAccountState_ok (e : Env) (sts sts' : List DState) (a : Account) (c : DecCoins)
    (h : addToAccountState sts a c = .ok sts') (hs : StatesOk e sts) (hc : EN c) (ha : DestOk e a) :
    StatesOk e sts' := by
  unfold addToAccountState at h
  split at h
  · cases h
  · cases h
  · cases h
    exact statesOk_modifyNth e _ (stateOk_addRemains e c hc) sts _ hs
  · cases h
    apply statesOk_append e _ _ hs
    intro s hs1
    simp only [List.mem_singleton] at hs1
    subst hs1
    exact ⟨en_add _ _ en_nil hc, a, rfl, fun _ => ha⟩

theorem addToBurnState_ok (e : Env) (sts : List DState) (c : DecCoins) (hs : StatesOk e sts) (hc : EN c) :
    StatesOk e (addToBurnState sts c) := by
  unfold addToBurnState
  split
  · exact statesOk_modifyNth e _ (stateOk_addRemains e c hc) sts _ hs
  · apply statesOk_append e _ _ hs
    intro s hs1
    simp only [List.mem_singleton] at hs1
    subst hs1
    exact ⟨en_add _ _ en_nil hc, _, rfl, fun h => by cases h⟩

/-- what validation guarantees about the shares of one sub-distributor, as used below -/
def SharesOk (e : Env) (shs : List Share) : Prop :=
  ∀ sh ∈ shs, 0 ≤ sh.share.getD 0 ∧ (sh.dest.type ≠ tMain → DestOk e sh.dest)

theorem mainShares_nonneg (d : String) (x : DecCoins) : ∀ (shs : List Share), (∀ sh ∈ shs, 0 ≤ sh.share.getD 0) →
    0 ≤ Props.C04.mainShares d x shs
  | [], _ => by simp [Props.C04.mainShares]
  | sh :: rest, h => by
    unfold Props.C04.mainShares
    have h1 := en_amount _ (en_calcPercentage (sh.share.getD 0) x (h sh (by simp))) d
    have h2 := mainShares_nonneg d x rest (fun s hs => h s (by simp [hs]))
    split <;> omega

theorem mainShares_zeroF (d : String) (x : DecCoins) : ∀ (l : List Share), (∀ sh ∈ l, sh.dest.type ≠ tMain) →
    Props.C04.mainShares d x l = 0
  | [], _ => rfl
  | sh :: rest, h => by
    unfold Props.C04.mainShares
    have h1 : ¬ sh.dest.type = tMain := h sh (by simp)
    simp only [h1, if_false, mainShares_zeroF d x rest (fun s hs => h s (by simp [hs]))]
    rfl

/-- the share loop keeps the recorded states well-formed -/
theorem distShares_ok (e : Env) (sub : String) (x : DecCoins) : ∀ (shs : List Share) (sts : List DState) (dflt : DecCoins)
    (evs : List Event) (sts' : List DState) (dflt' : DecCoins) (evs' : List Event),
    distShares sub x shs sts dflt evs = .ok (sts', dflt', evs') → StatesOk e sts → SharesOk e shs → StatesOk e sts'
  | [], sts, dflt, evs, sts', dflt', evs', h, hs, _ => by
    simp only [distShares, Outcome.ok.injEq, Prod.mk.injEq] at h
    rw [← h.1]; exact hs
  | sh :: rest, sts, dflt, evs, sts', dflt', evs', h, hs, hsh => by
    unfold distShares at h
    simp only [] at h
    have hrest : SharesOk e rest := fun s hs' => hsh s (by simp [hs'])
    have hthis := hsh sh (by simp)
    split at h
    · cases h
    · split at h
      · split at h
        · rename_i hnm
          split at h
          · rename_i stsA hadd
            have hA := addToAccountState_ok e sts stsA sh.dest _ hadd hs (en_calcPercentage _ x hthis.1) (hthis.2 hnm)
            exact distShares_ok e sub x rest _ _ _ _ _ _ h hA hrest
          · cases h
          · cases h
        · exact distShares_ok e sub x rest _ _ _ _ _ _ h hs hrest
      · exact distShares_ok e sub x rest _ _ _ _ _ _ h hs hrest

/-- what validation guarantees about one sub-distributor, as used by the block theorem -/
structure SubOkF (e : Env) (s : SubD) : Prop where
  shares : SharesOk e s.shares
  burn : 0 ≤ s.burnShare.getD 0
  primary : s.primary.type ≠ tMain → DestOk e s.primary
  sources : ∀ a ∈ s.sources.filterMap id, a.type ≠ tMain → srcAddr e a ≠ some e.mainAddr
  oneMain : countMain (s.sources.filterMap id) = if anyMain (s.sources.filterMap id) then 1 else 0

/-- **`StartDistributionProcess` on well-formed states**: the states stay well-formed, and in every
    denomination what they record grows by the inflow minus a NON-NEGATIVE amount kept in main for
    MAIN destinations (zero when the sub-distributor has none) -/
theorem startDistribution_ok (e : Env) (sts : List DState) (x : DecCoins) (s : SubD) (sts' : List DState)
    (evs : List Event) (h : startDistribution sts x s = .ok (sts', evs)) (hs : StatesOk e sts) (hok : SubOkF e s) :
    StatesOk e sts' ∧ ∀ d, ∃ kept, 0 ≤ kept ∧ remSumF d sts' + kept = remSumF d sts + amountOf x d ∧
      ((decide (s.primary.type = tMain) || anyMainShare s.shares) = false → kept = 0) := by
  unfold startDistribution at h
  split at h
  · cases h
  · cases h
  · rename_i sts1 dflt1 evs1 hsh
    have hs1 := distShares_ok e s.name x s.shares sts x [] sts1 dflt1 evs1 hsh hs hok.shares
    simp only [] at h
    split at h
    · cases h
    · rename_i dflt hsub
      have hdflt : EN dflt := en_sub hsub
      have hburn := en_calcPercentage (s.burnShare.getD 0) x hok.burn
      have hs2 : StatesOk e (if (!isZero (calcPercentage (s.burnShare.getD 0) x)) = true
          then addToBurnState sts1 (calcPercentage (s.burnShare.getD 0) x) else sts1) := by
        split
        · exact addToBurnState_ok e sts1 _ hs1 hburn
        · exact hs1
      have sums : ∀ d, Props.C04.remSum d (if (!isZero (calcPercentage (s.burnShare.getD 0) x)) = true
            then addToBurnState sts1 (calcPercentage (s.burnShare.getD 0) x) else sts1)
          + amountOf dflt d + Props.C04.mainShares d x s.shares = Props.C04.remSum d sts + amountOf x d := by
        intro d
        have inv := Props.C04.distShares_states s.name x d s.shares sts x [] sts1 dflt1 evs1 hsh
        have hsd := amountOf_sub hsub d
        have hb : Props.C04.remSum d (if (!isZero (calcPercentage (s.burnShare.getD 0) x)) = true then addToBurnState sts1 (calcPercentage (s.burnShare.getD 0) x) else sts1)
            = Props.C04.remSum d sts1 + amountOf (calcPercentage (s.burnShare.getD 0) x) d := by
          by_cases hz : isZero (calcPercentage (s.burnShare.getD 0) x) = true
          · simp [hz, Props.C04.amountOf_of_isZero' _ d hz]
          · have : (!isZero (calcPercentage (s.burnShare.getD 0) x)) = true := by simpa using hz
            simp only [this, if_true]; exact Props.C04.addToBurnState_sum d sts1 _
        omega
      have hms : ∀ d, 0 ≤ Props.C04.mainShares d x s.shares := fun d =>
        mainShares_nonneg d x s.shares (fun sh hsh' => (hok.shares sh hsh').1)
      have hrs : ∀ d l, Props.C04.remSum d l = remSumF d l := by
        intro d l
        induction l with
        | nil => rfl
        | cons s rest ih => simp only [Props.C04.remSum, remSumF, ih]
      split at h
      · rename_i hp
        have hp' : ¬ s.primary.type = tMain := hp
        split at h
        · rename_i sts3 hadd
          cases h
          refine ⟨addToAccountState_ok e _ _ s.primary dflt hadd hs2 hdflt (hok.primary hp'), ?_⟩
          intro d
          have hA := Props.C04.addToAccountState_sum d _ _ s.primary dflt hadd
          have hS := sums d
          refine ⟨Props.C04.mainShares d x s.shares, hms d, ?_, ?_⟩
          · rw [← hrs, ← hrs]; omega
          · intro hno
            simp only [Bool.or_eq_false_iff] at hno
            have : ∀ sh ∈ s.shares, sh.dest.type ≠ tMain := by
              intro sh hsh' hm
              have := hno.2
              unfold anyMainShare at this
              have := List.any_eq_false.mp this sh hsh'
              simp [hm] at this
            exact mainShares_zeroF d x s.shares this
        · cases h
        · cases h
      · rename_i hp
        have hp' : s.primary.type = tMain := by simpa using hp
        cases h
        refine ⟨hs2, ?_⟩
        intro d
        have hS := sums d
        refine ⟨Props.C04.mainShares d x s.shares + amountOf dflt d, ?_, ?_, ?_⟩
        · have := en_amount dflt hdflt d; have := hms d; omega
        · rw [← hrs, ← hrs]; omega
        · intro hno
          simp [hp'] at hno

/-! ### source preparation keeps the states well-formed -/

theorem prepareLeft_ok (e : Env) (c c2 : DecCoins) (src : Account) (sts sts' : List DState)
    (h : prepareLeft c src sts = .ok (c2, sts')) (hs : StatesOk e sts) : StatesOk e sts' := by
  unfold prepareLeft at h
  split at h
  · cases h
  · cases h
  · cases h; exact hs
  · simp only [] at h
    split at h
    · cases h; exact statesOk_modifyNth e _ (stateOk_clear e) sts _ hs
    · cases h; exact hs

theorem sweep_states (e : Env) (w : World) (addr : String) : (sweep e w addr).2.states = w.states := by
  unfold sweep
  split
  · split
    · rfl
    · split <;> rfl
  · rfl

theorem prepareNotMain_ok (e : Env) (w w' : World) (src : Account) (c : DecCoins)
    (h : prepareNotMain e w src = .ok (c, w')) (hs : StatesOk e w.states) : StatesOk e w'.states := by
  unfold prepareNotMain at h
  simp only [] at h
  split at h
  · rename_i cc ww hsw
    have key : ww.states = w.states := by
      split at hsw
      · split at hsw
        · cases hsw
        · rename_i addr _
          have := Outcome.ok.inj hsw
          have h2 : ww = (sweep e w addr).2 := by rw [this]
          rw [h2]; exact sweep_states e w addr
      · split at hsw
        · have := Outcome.ok.inj hsw
          have h2 : ww = (sweep e w (canonAddr src.id)).2 := by rw [this]
          rw [h2]; exact sweep_states e w _
        · cases hsw; rfl
    split at h
    · rename_i c2 sts hl
      cases h
      rw [key] at hl
      exact prepareLeft_ok e _ _ src _ _ hl hs
    · cases h
    · cases h
  · cases h
  · cases h

theorem prepOthersPart_ok (e : Env) : ∀ (l : List Account) (w w' : World) (all all' : DecCoins),
    prepOthersPart e w l all = .ok (all', w') → StatesOk e w.states → StatesOk e w'.states
  | [], w, w', all, all', h, hs => by
    simp only [prepOthersPart, Outcome.ok.injEq, Prod.mk.injEq] at h; rw [← h.2]; exact hs
  | s :: rest, w, w', all, all', h, hs => by
    unfold prepOthersPart at h
    split at h
    · split at h
      · rename_i c w1 hp
        exact prepOthersPart_ok e rest w1 w' _ all' h (prepareNotMain_ok e w w1 s c hp hs)
      · cases h
      · cases h
    · exact prepOthersPart_ok e rest w w' all all' h hs

theorem prepareCoins_ok (e : Env) (w w' : World) (l : List Account) (x : DecCoins)
    (h : prepareCoins e w l = .ok (x, w')) (hs : StatesOk e w.states) : StatesOk e w'.states := by
  unfold prepareCoins at h
  split at h
  · exact prepOthersPart_ok e l w w' _ x h hs
  · cases h
  · cases h

theorem remSumF_nonneg (e : Env) (d : String) : ∀ (l : List DState), StatesOk e l → 0 ≤ remSumF d l
  | [], _ => by simp [remSumF]
  | s :: rest, h => by
    have h1 := en_amount _ (h s (by simp)).1 d
    have h2 := remSumF_nonneg e d rest (fun y hy => h y (by simp [hy]))
    simp only [remSumF]; omega

/-- with non-negative remains and `U ≥ 0` the empty-main-account correction vanishes -/
theorem EF_zero (e : Env) (d : String) (w : World) (hs : StatesOk e w.states) (hu : 0 ≤ UF e d w) : EF e d w = 0 := by
  unfold EF
  split
  · rfl
  · rename_i hlen
    have hnil : w.bank.balance e.mainAddr = [] := by
      cases hb : w.bank.balance e.mainAddr with
      | nil => rfl
      | cons _ _ => rw [hb] at hlen; simp at hlen
    unfold UF at hu
    rw [hnil] at hu
    simp only [amountOf, Int.zero_mul] at hu
    have := remSumF_nonneg e d w.states hs
    omega

theorem countMain_anyMain_false : ∀ (l : List Account), anyMain l = false → countMain l = 0
  | [], _ => rfl
  | a :: rest, h => by
    unfold anyMain at h
    simp only [List.any_cons, Bool.or_eq_false_iff, decide_eq_false_iff_not] at h
    unfold countMain
    have := countMain_anyMain_false rest (by unfold anyMain; exact h.2)
    simp [h.1, this]

/-- **source preparation of one sub-distributor**: with at most one MAIN source the books term
    `U` minus the coins to distribute is 0 (a MAIN source takes everything unallocated) or the old `U` -/
theorem prepareCoins_books (e : Env) (w w1 : World) (s : SubD) (x : DecCoins)
    (hp : prepareCoins e w (s.sources.filterMap id) = .ok (x, w1)) (hok : SubOkF e s)
    (hs : StatesOk e w.states) (hu : ∀ d, 0 ≤ UF e d w) (d : String) :
    UF e d w1 - amountOf x d = if anyMain (s.sources.filterMap id) then 0 else UF e d w := by
  have h1 := prepareCoins_U e w w1 _ x d hp hok.sources
  have hE := EF_zero e d w hs (hu d)
  rw [hok.oneMain, hE] at h1
  split
  · rename_i ha; simp only [ha, if_true] at h1; omega
  · rename_i ha; simp only [ha] at h1; simp at h1; omega

/-- **the sub-distributor loop of `BeginBlocker`** on the code-tied model: from well-formed states
    with `U ≥ 0` in every denomination, under the scan condition of `ValidateSubDistributors`
    (`closed`), the loop ends with `U = 0` in every denomination and well-formed states -/
theorem subsLoop_books (e : Env) : ∀ (subs : List SubD) (w : World) (evs : List Event) (w' : World) (evs' : List Event)
    (pending : Bool), subsLoop e subs w evs = .ok (w', evs') → (∀ s ∈ subs, SubOkF e s) →
    Distr1.closed pending (subs.map Bridge.convSub) = true →
    StatesOk e w.states → (∀ d, 0 ≤ UF e d w) → (pending = false → ∀ d, UF e d w = 0) →
    StatesOk e w'.states ∧ ∀ d, UF e d w' = 0
  | [], w, evs, w', evs', pending, h, _, hc, hs, _, hp => by
    simp only [subsLoop, Outcome.ok.injEq, Prod.mk.injEq] at h
    rw [← h.1]
    simp only [List.map_nil, Distr1.closed, Bool.not_eq_true'] at hc
    exact ⟨hs, hp hc⟩
  | s :: rest, w, evs, w', evs', pending, h, hall, hc, hs, hu, hp => by
    have hok := hall s (by simp)
    have hrest : ∀ t ∈ rest, SubOkF e t := fun t ht => hall t (by simp [ht])
    simp only [List.map_cons, Distr1.closed] at hc
    rw [hasMainDest_conv] at hc
    have hsrc : Distr1.hasMain (Bridge.convSub s).sources = anyMain (s.sources.filterMap id) := by
      unfold Bridge.convSub; simp only []; exact hasMain_conv _
    rw [hsrc] at hc
    unfold subsLoop at h
    split at h
    · rename_i x w1 hprep
      have hs1 := prepareCoins_ok e w w1 _ x hprep hs
      have hb := prepareCoins_books e w w1 s x hprep hok hs hu
      split at h
      · -- something to distribute
        split at h
        · rename_i sts ev hd
          obtain ⟨hs2, hk⟩ := startDistribution_ok e w1.states x s sts ev hd hs1 hok
          have hU2 : ∀ d, ∃ kept, 0 ≤ kept ∧
              UF e d { w1 with states := sts } = (if anyMain (s.sources.filterMap id) then 0 else UF e d w) + kept ∧
              ((decide (s.primary.type = tMain) || anyMainShare s.shares) = false → kept = 0) := by
            intro d
            obtain ⟨kept, k0, ksum, kz⟩ := hk d
            refine ⟨kept, k0, ?_, kz⟩
            have := hb d
            unfold UF at this ⊢
            simp only [] at this ⊢
            omega
          apply subsLoop_books e rest _ _ w' evs' _ h hrest hc hs2
          · intro d
            obtain ⟨kept, k0, ku, _⟩ := hU2 d
            rw [ku]
            have := hu d
            split <;> omega
          · intro hpend d
            obtain ⟨kept, k0, ku, kz⟩ := hU2 d
            rw [ku]
            by_cases hmd : (decide (s.primary.type = tMain) || anyMainShare s.shares) = true
            · simp [hmd] at hpend
            · have hmd' : (decide (s.primary.type = tMain) || anyMainShare s.shares) = false := by simpa using hmd
              rw [kz hmd']
              simp only [hmd', Bool.false_eq_true, if_false] at hpend
              by_cases ha : anyMain (s.sources.filterMap id) = true
              · simp [ha]
              · simp only [ha] at hpend ⊢
                have := hp hpend d
                omega
        · cases h
        · cases h
      · -- nothing to distribute
        rename_i hz
        have hz' : isZero x = true := by simpa using hz
        have hx0 : ∀ d, amountOf x d = 0 := fun d => amountOf_isZero x d hz'
        apply subsLoop_books e rest _ _ w' evs' _ h hrest hc hs1
        · intro d
          have hbd := hb d; have := hx0 d; have := hu d
          split at hbd <;> omega
        · intro hpend d
          have hb' := hb d; have := hx0 d
          by_cases ha : anyMain (s.sources.filterMap id) = true
          · simp only [ha, if_true] at hb'; omega
          · simp only [ha] at hb'
            by_cases hmd : (decide (s.primary.type = tMain) || anyMainShare s.shares) = true
            · simp [hmd] at hpend
            · simp only [hmd, ha] at hpend
              have := hp hpend d
              omega
    · cases h
    · cases h

/-! ### the payout loop keeps the states well-formed -/

theorem payoutOne_ok (e : Env) (w w' : World) (s s' : DState) (h : payoutOne e w s = .ok (s', w'))
    (hs : StateOk e s) : StateOk e s' := by
  have hch : StateOk e { s with remains := (truncateDecimal s.remains).2 } :=
    ⟨en_truncateDecimal_change _ hs.1, hs.2⟩
  unfold payoutOne at h
  split at h
  · cases h
  · split at h
    · simp only [] at h
      split at h
      · split at h
        · cases h; exact hs
        · split at h
          · cases h
          · split at h
            · cases h; exact hs
            · cases h; exact hch
      · split at h
        · split at h
          · cases h; exact hs
          · split at h
            · cases h
            · split at h
              · cases h; exact hs
              · cases h; exact hch
        · split at h
          · cases h; exact hs
          · split at h
            · cases h; exact hs
            · split at h
              · cases h; exact hs
              · split at h
                · cases h; exact hs
                · cases h; exact hch
    · cases h; exact hs

theorem payoutLoop_ok (e : Env) : ∀ (l : List DState) (w w' : World) (st st' : List DState),
    payoutLoop e l w st = .ok (w', st') → StatesOk e l → StatesOk e st → StatesOk e st'
  | [], w, w', st, st', h, _, hst => by
    simp only [payoutLoop, Outcome.ok.injEq, Prod.mk.injEq] at h
    rw [← h.2]; exact hst
  | s :: rest, w, w', st, st', h, hl, hst => by
    unfold payoutLoop at h
    split at h
    · rename_i s1 w1 hp
      have h1 := payoutOne_ok e w w1 s s1 hp (hl s (by simp))
      apply payoutLoop_ok e rest w1 w' _ st' h (fun x hx => hl x (by simp [hx]))
      apply statesOk_append e _ _ hst
      intro y hy
      simp only [List.mem_singleton] at hy
      rw [hy]; exact h1
    · cases h
    · cases h

/-! ### validated parameters give `SubOkF` -/

/-- the module table maps no other module name to the main account's address -/
def EnvOk (e : Env) : Prop := ∀ n, e.modAddr? n = some e.mainAddr → n = mainModule

theorem accountValid_types (e : Env) (a : Account) (h : accountValid e a = true) :
    a.type = tMain ∨ a.type = tInternal ∨ a.type = tBase ∨ a.type = tModule := by
  unfold accountValid at h
  by_cases h1 : a.type = tMain
  · exact Or.inl h1
  · by_cases h2 : a.type = tInternal
    · exact Or.inr (Or.inl h2)
    · by_cases h3 : a.type = tBase
      · exact Or.inr (Or.inr (Or.inl h3))
      · by_cases h4 : a.type = tModule
        · exact Or.inr (Or.inr (Or.inr h4))
        · simp [h1, h2, h3, h4] at h

theorem destOk_of_valid (e : Env) (henv : EnvOk e) (a : Account) (h : accountValid e a = true) (hm : a.type ≠ tMain) :
    DestOk e a := by
  intro hni
  unfold Props.C14.destAddr
  unfold accountValid at h
  simp only [hm, hni, if_false] at h
  by_cases hb : a.type = tBase
  · have hnm : ¬ a.type = tModule := by rw [hb]; decide
    simp only [hb, if_true, Bool.and_eq_true, decide_eq_true_eq] at h
    simp only [hnm, if_false]
    intro hh; exact h.2 (Option.some.inj hh)
  · simp only [hb, if_false] at h
    by_cases hmod : a.type = tModule
    · simp only [hmod, if_true, Bool.and_eq_true, decide_eq_true_eq] at h ⊢
      intro hh; exact h.2 (henv _ hh)
    · simp [hmod] at h

theorem srcOk_of_valid (e : Env) (henv : EnvOk e) (a : Account) (h : accountValid e a = true) (hm : a.type ≠ tMain) :
    srcAddr e a ≠ some e.mainAddr := by
  unfold srcAddr
  by_cases hi : a.type = tInternal
  · have hnm : ¬ a.type = tModule := by rw [hi]; decide
    simp only [hnm, if_false]
    simp [hi]
  · have := destOk_of_valid e henv a h hm hi
    unfold Props.C14.destAddr at this
    by_cases hmod : a.type = tModule
    · simp only [hmod, if_true] at this ⊢; exact this
    · simp only [hmod, if_false] at this ⊢
      simp only [hi, ne_eq, not_false_eq_true, if_true]
      exact this

/-- MAIN has been seen among the accounts of position `pos` -/
def seenMain (pos : Nat) (o : OccSt) : Prop := (o.lastIdx.get? tMain).getD 0 = pos + 1

theorem occId_ne_main (e : Env) (a : Account) (hv : accountValid e a = true) (hm : a.type ≠ tMain) : occId a ≠ tMain := by
  unfold occId
  simp only [hm, if_false]
  intro h
  have hl := congrArg String.length h
  simp only [String.length_append] at hl
  have h0 : tMain.length = 4 := by decide
  have h1 : tInternal.length = 16 := by decide
  have h2 : tBase.length = 12 := by decide
  have h3 : tModule.length = 14 := by decide
  rcases accountValid_types e a hv with ht | ht | ht | ht
  · exact hm ht
  · rw [ht] at hl; omega
  · rw [ht] at hl; omega
  · rw [ht] at hl; omega

theorem setOccurrence_seen (o o' : OccSt) (a : Account) (pos : Nat) (kind : String)
    (h : setOccurrence o a pos kind = some o') :
    (a.type = tMain → ¬ seenMain pos o ∧ seenMain pos o') ∧
    (occId a ≠ tMain → (seenMain pos o' ↔ seenMain pos o)) := by
  unfold setOccurrence at h
  simp only [] at h
  split at h
  · cases h
  · rename_i hnot
    cases h
    constructor
    · intro hm
      have hid : occId a = tMain := by unfold occId; simp [hm]
      rw [hid] at hnot
      refine ⟨hnot, ?_⟩
      unfold seenMain
      simp only [hid]
      rw [AList.get?_set_self]; rfl
    · intro hne
      unfold seenMain
      simp only []
      rw [AList.get?_set_other _ _ _ _ (Ne.symm hne)]

theorem occSources_oneMain (e : Env) (pos : Nat) : ∀ (l : List Account) (o o' : OccSt), occSources pos o l = some o' →
    (∀ a ∈ l, accountValid e a = true) → (seenMain pos o → countMain l = 0) ∧ countMain l ≤ 1 ∧ 0 ≤ countMain l
  | [], o, o', _, _ => by simp [countMain]
  | a :: rest, o, o', h, hv => by
    unfold occSources at h
    split at h
    · cases h
    · rename_i o1 h1
      obtain ⟨hA, hB⟩ := setOccurrence_seen o o1 a pos "SOURCE" h1
      obtain ⟨i1, i2, i3⟩ := occSources_oneMain e pos rest o1 o' h (fun x hx => hv x (by simp [hx]))
      unfold countMain
      by_cases hm : a.type = tMain
      · obtain ⟨hn, hs⟩ := hA hm
        have := i1 hs
        simp only [hm, if_true, this]
        exact ⟨fun hh => absurd hh hn, by omega, by omega⟩
      · have hiff := hB (occId_ne_main e a (hv a (by simp)) hm)
        simp only [hm, if_false, Int.zero_add]
        exact ⟨fun hh => i1 (hiff.mpr hh), i2, i3⟩

theorem countMain_nonneg : ∀ (l : List Account), 0 ≤ countMain l
  | [] => by simp [countMain]
  | a :: rest => by
    unfold countMain
    have := countMain_nonneg rest
    split <;> omega

theorem countMain_pos_of_anyMain : ∀ (l : List Account), anyMain l = true → 1 ≤ countMain l
  | [], h => by simp [anyMain] at h
  | a :: rest, h => by
    unfold countMain
    have hnn := countMain_nonneg rest
    by_cases hm : a.type = tMain
    · simp only [hm, if_true]; omega
    · simp only [hm, if_false, Int.zero_add]
      apply countMain_pos_of_anyMain rest
      unfold anyMain at h ⊢
      simp only [List.any_cons, hm, decide_false, Bool.false_or] at h
      exact h

theorem occLoop_oneMain (e : Env) : ∀ (subs : List SubD) (o o' : OccSt) (i : Nat), occLoop o i subs = some o' →
    (∀ s ∈ subs, subValid e s = true) →
    ∀ s ∈ subs, countMain (s.sources.filterMap id) = if anyMain (s.sources.filterMap id) then 1 else 0
  | [], _, _, _, _, _ => by intro s hs; cases hs
  | t :: rest, o, o', i, h, hv => by
    unfold occLoop at h
    split at h
    · cases h
    · rename_i o1 h1
      intro s hs
      rcases List.mem_cons.mp hs with hst | hst
      · subst hst
        unfold occStep at h1
        split at h1
        · cases h1
        · split at h1
          · cases h1
          · rename_i oa hsrc
            have hvs := hv s (by simp)
            unfold subValid at hvs
            simp only [Bool.and_eq_true] at hvs
            have hall : ∀ a ∈ s.sources.filterMap id, accountValid e a = true := by
              intro a ha
              obtain ⟨oa', hoa, hid⟩ := List.mem_filterMap.mp ha
              have := List.all_eq_true.mp hvs.2 oa' hoa
              simp only [id] at hid
              subst hid
              simpa using this
            obtain ⟨_, i2, i3⟩ := occSources_oneMain e i _ _ oa hsrc hall
            by_cases ha : anyMain (s.sources.filterMap id) = true
            · simp only [ha, if_true]
              have := countMain_pos_of_anyMain _ ha; omega
            · simp only [ha]
              exact countMain_anyMain_false _ (by simpa using ha)
      · exact occLoop_oneMain e rest o1 o' (i + 1) h (fun x hx => hv x (by simp [hx])) s hst

/-- **every sub-distributor of a configuration accepted by `Params.Validate` satisfies `SubOkF`** -/
theorem subOkF_of_paramsValid (e : Env) (henv : EnvOk e) (subs : List SubD) (hv : paramsValid e subs = true) :
    ∀ s ∈ subs, SubOkF e s := by
  unfold paramsValid at hv
  simp only [Bool.and_eq_true] at hv
  obtain ⟨hall, hord⟩ := hv
  have hall' : ∀ s ∈ subs, subValid e s = true := fun s hs => List.all_eq_true.mp hall s hs
  have hone : ∀ s ∈ subs, countMain (s.sources.filterMap id) = if anyMain (s.sources.filterMap id) then 1 else 0 := by
    unfold orderValid at hord
    split at hord
    · cases hord
    · rename_i o' ho
      exact occLoop_oneMain e subs {} o' 0 ho hall'
  intro s hs
  have hvs := hall' s hs
  unfold subValid at hvs
  simp only [Bool.and_eq_true] at hvs
  obtain ⟨⟨⟨_, hd⟩, _⟩, hsrc⟩ := hvs
  unfold destsValid at hd
  simp only [Bool.and_eq_true] at hd
  obtain ⟨⟨⟨hb, hsh⟩, hprim⟩, _⟩ := hd
  refine ⟨?_, (decInShareRange_nonneg _ hb).1, fun hm => destOk_of_valid e henv _ hprim hm, ?_, hone s hs⟩
  · intro sh hsh'
    have := List.all_eq_true.mp hsh sh hsh'
    simp only [Bool.and_eq_true] at this
    exact ⟨(decInShareRange_nonneg _ this.1.2).1, fun hm => destOk_of_valid e henv _ this.2 hm⟩
  · intro a ha hm
    obtain ⟨oa', hoa, hid⟩ := List.mem_filterMap.mp ha
    have := List.all_eq_true.mp hsrc oa' hoa
    simp only [id] at hid
    subst hid
    exact srcOk_of_valid e henv a (by simpa using this) hm

/-! ### the whole block, up to the store write -/

theorem payout_hne_of_statesOk (e : Env) (l : List DState) (hs : StatesOk e l) :
    ∀ s ∈ l, ∀ a, s.account = some a → s.burn = false → a.type ≠ tInternal → Props.C14.destAddr e a ≠ some e.mainAddr := by
  intro s hs' a ha hb hni
  obtain ⟨_, a', ha', hd⟩ := hs s hs'
  rw [ha] at ha'
  cases ha'
  exact hd hb hni

/-- the block up to (not including) the final store write: the list handed to `SetState` is
    well-formed and balances the main account in every denomination -/
theorem beginBlock_prestore (e : Env) (henv : EnvOk e) (subs : List SubD) (hv : paramsValid e subs = true)
    (w0 : World) (faults : List Nat) (r : BlockRes) (h : beginBlock e subs w0 faults = .ok r)
    (hs : StatesOk e w0.states) (hu : ∀ d, 0 ≤ UF e d w0) :
    ∃ stored, r.world.states = storeStates stored ∧ StatesOk e stored ∧
      ∀ d, amountOf (r.world.bank.balance e.mainAddr) d * P - remSumF d stored = 0 := by
  have hok := subOkF_of_paramsValid e henv subs hv
  have hclosed : Distr1.closed true (subs.map Bridge.convSub) = true := by
    unfold paramsValid at hv
    simp only [Bool.and_eq_true] at hv
    exact closed_of_orderValid subs hv.2
  unfold beginBlock at h
  split at h
  · rename_i w evs hloop
    obtain ⟨hs1, hU⟩ := subsLoop_books e subs _ [] w evs true hloop hok hclosed hs hu (by intro hh; cases hh)
    split at h
    · rename_i w2 stored hpay
      cases h
      refine ⟨stored, rfl, payoutLoop_ok e w.states w w2 [] stored hpay hs1 (statesOk_nil e), ?_⟩
      intro d
      have := Props.C14.payoutLoop_keeps_books e d w.states w w2 [] stored hpay (payout_hne_of_statesOk e _ hs1)
      have hUd := hU d
      unfold UF at hUd
      show amountOf (w2.bank.balance e.mainAddr) d * P - remSumF d stored = 0
      rw [this]
      simp only [remSumF]
      omega
    · cases h
    · cases h
  · cases h
  · cases h

end C4E.Distr
