/-
  Arithmetic facts about `AmountToMint` used by C02 / C10: for each kind of period the cumulative
  amount is 0 at the period start, non-negative and monotone in block time from the start on, and
  constant from the period end on.
-/
import C4E.Minter
namespace C4E.Minter
open C4E

theorem ms_mono {a b : Int} (h : a ≤ b) : ms a ≤ ms b := by
  unfold ms; exact Int.ediv_le_ediv (by decide) h

/-! ### exponential step amounts -/

theorem expE_nonneg (a mult : Int) (ha : 0 ≤ a) (hm : 0 ≤ mult) : ∀ k, 0 ≤ expE a mult k
  | 0 => by unfold expE Dec.ofInt; exact Int.mul_nonneg ha (Int.le_of_lt P_pos)
  | k + 1 => by
    unfold expE Dec.mul
    exact Dec.chopRound_nonneg (Int.mul_nonneg (expE_nonneg a mult ha hm k) hm)

theorem expSum_nonneg (a mult : Int) (ha : 0 ≤ a) (hm : 0 ≤ mult) : ∀ k, 0 ≤ expSum a mult k
  | 0 => by unfold expSum; exact Int.le_refl 0
  | k + 1 => by
    unfold expSum
    have := expSum_nonneg a mult ha hm k
    have := expE_nonneg a mult ha hm k
    omega

theorem expSum_mono (a mult : Int) (ha : 0 ≤ a) (hm : 0 ≤ mult) (k : Nat) : ∀ j, expSum a mult k ≤ expSum a mult (k + j)
  | 0 => Int.le_refl _
  | j + 1 => by
    have ih := expSum_mono a mult ha hm k j
    have he := expE_nonneg a mult ha hm (k + j)
    show expSum a mult k ≤ expSum a mult (k + j + 1)
    have hstep : expSum a mult (k + j + 1) = expSum a mult (k + j) + expE a mult (k + j) := rfl
    rw [hstep]
    omega

/-- the exponential cumulative amount as a function of the (non-negative) time passed -/
def expF (a step mult x : Int) : Int :=
  expSum a mult (x / step).toNat + (expE a mult (x / step).toNat * (x % step)) / step

theorem expF_nonneg (a step mult x : Int) (ha : 0 ≤ a) (hm : 0 ≤ mult) (hs : 0 < step) (_hx : 0 ≤ x) :
    0 ≤ expF a step mult x := by
  unfold expF
  have h1 := expSum_nonneg a mult ha hm (x / step).toNat
  have h2 := expE_nonneg a mult ha hm (x / step).toNat
  have h3 : 0 ≤ x % step := Int.emod_nonneg _ (Int.ne_of_gt hs)
  have h4 : 0 ≤ (expE a mult (x / step).toNat * (x % step)) / step :=
    Int.ediv_nonneg (Int.mul_nonneg h2 h3) (Int.le_of_lt hs)
  omega

theorem partial_le (e r step : Int) (he : 0 ≤ e) (hr0 : 0 ≤ r) (hr : r < step) (hs : 0 < step) : (e * r) / step ≤ e := by
  have h1 : e * r ≤ e * step := Int.mul_le_mul_of_nonneg_left (Int.le_of_lt hr) he
  have h2 : (e * r) / step ≤ (e * step) / step := Int.ediv_le_ediv hs h1
  rwa [Int.mul_ediv_cancel _ (Int.ne_of_gt hs)] at h2

theorem expF_mono (a step mult x y : Int) (ha : 0 ≤ a) (hm : 0 ≤ mult) (hs : 0 < step) (hx : 0 ≤ x) (hxy : x ≤ y) :
    expF a step mult x ≤ expF a step mult y := by
  unfold expF
  have hqx : 0 ≤ x / step := Int.ediv_nonneg hx (Int.le_of_lt hs)
  have hq : x / step ≤ y / step := Int.ediv_le_ediv hs hxy
  have hrx0 : 0 ≤ x % step := Int.emod_nonneg _ (Int.ne_of_gt hs)
  have hrx1 : x % step < step := Int.emod_lt_of_pos _ hs
  have hry0 : 0 ≤ y % step := Int.emod_nonneg _ (Int.ne_of_gt hs)
  by_cases heq : x / step = y / step
  · rw [← heq]
    have hr : x % step ≤ y % step := by
      have e1 := Int.emod_add_mul_ediv x step
      have e2 := Int.emod_add_mul_ediv y step
      rw [← heq] at e2
      generalize step * (x / step) = c at e1 e2
      omega
    have hE := expE_nonneg a mult ha hm (x / step).toNat
    have := Int.ediv_le_ediv hs (Int.mul_le_mul_of_nonneg_left hr hE)
    omega
  · have hlt : x / step + 1 ≤ y / step := by omega
    have hEx := expE_nonneg a mult ha hm (x / step).toNat
    have hpx := partial_le _ _ _ hEx hrx0 hrx1 hs
    -- f(x) ≤ S(nx) + E(nx) = S(nx+1) ≤ S(ny) ≤ f(y)
    have hnat : (y / step).toNat = (x / step).toNat + 1 + ((y / step).toNat - ((x / step).toNat + 1)) := by omega
    have hS : expSum a mult ((x / step).toNat + 1) ≤ expSum a mult (y / step).toNat := by
      rw [hnat]; exact expSum_mono a mult ha hm _ _
    have hS1 : expSum a mult ((x / step).toNat + 1) = expSum a mult (x / step).toNat + expE a mult (x / step).toNat := rfl
    have hEy := expE_nonneg a mult ha hm (y / step).toNat
    have hpy : 0 ≤ (expE a mult (y / step).toNat * (y % step)) / step :=
      Int.ediv_nonneg (Int.mul_nonneg hEy hry0) (Int.le_of_lt hs)
    omega

theorem expF_zero (a step mult : Int) : expF a step mult 0 = 0 := by
  unfold expF; simp [expSum]

/-- for a non-negative time passed, the Go formula (truncated division, explicit current-step
    start) is `expF` -/
theorem expAmount_eq (a step mult start : Int) (e : Option Int) (t : Int) (ha : 0 ≤ a) (hm : 0 ≤ mult) (hs : 0 < step)
    (hnow : start ≤ expNow e t) :
    expAmount a step mult start e t = expF a step mult (expNow e t - start) := by
  unfold expAmount expF
  simp only []
  generalize expNow e t = now at *
  have hp : 0 ≤ now - start := by omega
  rw [Int.tdiv_eq_ediv_of_nonneg hp]
  have hmod : now - (start + (now - start) / step * step) = (now - start) % step := by
    have := Int.emod_add_mul_ediv (now - start) step
    rw [Int.mul_comm] at this
    omega
  rw [hmod]
  unfold Dec.quoInt Dec.mulInt
  have hnn : 0 ≤ expE a mult ((now - start) / step).toNat * ((now - start) % step) :=
    Int.mul_nonneg (expE_nonneg a mult ha hm _) (Int.emod_nonneg _ (Int.ne_of_gt hs))
  rw [Int.tdiv_eq_ediv_of_nonneg hnn]

end C4E.Minter
