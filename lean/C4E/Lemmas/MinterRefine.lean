/-
  Refinement: the Go recursion by sequence-id lookup (`mintAux`, the model tied to the code) equals
  the recursion over the list of remaining periods (`mintGo`) for parameters whose sequence ids
  are consecutive — which is what `Params.Validate` enforces.
-/
import C4E.Lemmas.MinterSchedule
namespace C4E.Minter
open C4E

/-- sequence ids are consecutive (as accepted by `validateMinterOrderingId`) -/
def Consec : List M → Prop
  | [] => True
  | [_] => True
  | a :: b :: rest => b.seq = a.seq + 1 ∧ Consec (b :: rest)

theorem consec_tail {a : M} {l : List M} (h : Consec (a :: l)) : Consec l := by
  cases l with
  | nil => trivial
  | cons b rest => exact h.2

theorem consec_gt {a : M} {l : List M} (h : Consec (a :: l)) : ∀ y ∈ l, a.seq < y.seq := by
  induction l generalizing a with
  | nil => intro y hy; cases hy
  | cons b rest ih =>
    intro y hy
    obtain ⟨h1, h2⟩ := h
    rcases List.mem_cons.mp hy with rfl | hy
    · omega
    · have := ih h2 y hy; omega

theorem consec_append {pre : List M} {c : M} {rest : List M} (h : Consec (pre ++ c :: rest)) :
    (∀ x ∈ pre, x.seq < c.seq) ∧ Consec (c :: rest) := by
  induction pre with
  | nil => exact ⟨(by intro x hx; cases hx), h⟩
  | cons a pre ih =>
    have ht : Consec (pre ++ c :: rest) := consec_tail h
    obtain ⟨i1, i2⟩ := ih ht
    refine ⟨?_, i2⟩
    intro x hx
    rcases List.mem_cons.mp hx with rfl | hx
    · exact consec_gt h c (by simp)
    · exact i1 x hx

/-- fold over a prefix whose ids are all below `id` and increasing -/
theorem foldl_prefix (id : Nat) : ∀ (pre : List M) (q : Option M),
    (∀ x ∈ pre, x.seq < id) → Consec pre → (∀ p, q = some p → ∀ x ∈ pre, p.seq < x.seq) →
    pre.foldl (curPrevStep id) (none, q) = (none, match pre.getLast? with | some l => some l | none => q) := by
  intro pre
  induction pre with
  | nil => intro q _ _ _; rfl
  | cons x xs ih =>
    intro q hlt hc hq
    have hx : x.seq < id := hlt x (by simp)
    have hstep : curPrevStep id (none, q) x = (none, some x) := by
      unfold curPrevStep
      have hne : ¬ x.seq = id := by omega
      simp only [hne, if_false]
      cases q with
      | none => simp [hx]
      | some p =>
        have := hq p rfl x (by simp)
        simp [hx, this]
    rw [List.foldl_cons, hstep]
    rw [ih (some x) (fun y hy => hlt y (by simp [hy])) (consec_tail hc)
      (by intro p hp y hy; cases hp; exact consec_gt hc y hy)]
    cases xs with
    | nil => rfl
    | cons y ys =>
      rw [List.getLast?_cons_cons]
      cases hgl : (y :: ys).getLast? with
      | none => simp at hgl
      | some l => rfl

/-- fold over a suffix whose ids are all above `id` changes nothing -/
theorem foldl_suffix (id : Nat) : ∀ (rest : List M) (c p : Option M),
    (∀ y ∈ rest, id < y.seq) → rest.foldl (curPrevStep id) (c, p) = (c, p) := by
  intro rest
  induction rest with
  | nil => intro c p _; rfl
  | cons y ys ih =>
    intro c p h
    have hy : id < y.seq := h y (by simp)
    have hstep : curPrevStep id (c, p) y = (c, p) := by
      unfold curPrevStep
      have h1 : ¬ y.seq = id := by omega
      have h2 : ¬ y.seq < id := by omega
      cases p with
      | none => simp [h1, h2]
      | some q => simp [h1, h2]
    rw [List.foldl_cons, hstep]
    exact ih c p (fun z hz => h z (by simp [hz]))

/-- `getCurrentAndPreviousMinter` on consecutive ids -/
theorem getCurPrev_split (pre : List M) (cur : M) (rest : List M) (hc : Consec (pre ++ cur :: rest)) :
    getCurPrev (pre ++ cur :: rest) cur.seq = (some cur, pre.getLast?) := by
  obtain ⟨hpre, hcr⟩ := consec_append hc
  have hpc : Consec pre := by
    clear hpre hcr
    induction pre with
    | nil => trivial
    | cons a l ih =>
      cases l with
      | nil => trivial
      | cons b l' => exact ⟨hc.1, ih (consec_tail hc)⟩
  unfold getCurPrev
  rw [List.foldl_append, foldl_prefix cur.seq pre none hpre hpc (by intro p hp; cases hp), List.foldl_cons]
  have hstep : curPrevStep cur.seq (none, match pre.getLast? with | some l => some l | none => none) cur
      = (some cur, pre.getLast?) := by
    unfold curPrevStep
    cases pre.getLast? with
    | none => simp
    | some l => simp
  rw [hstep]
  exact foldl_suffix cur.seq rest (some cur) pre.getLast? (consec_gt hcr)

/-- start of the period following the prefix `pre` -/
def startAfter (p : Params) (pre : List M) : Int := periodStart p pre.getLast?

/-- how a stored minter state relates to the list-recursion state -/
structure Rel (p : Params) (st : St) (s : MSt) : Prop where
  split : ∃ pre, p.minters = pre ++ s.ms ∧ s.start = startAfter p pre ∧ (∀ l, pre.getLast? = some l → l.endT.isSome = true)
  seq : ∀ m rest, s.ms = m :: rest → st.seq = m.seq
  minted : st.minted = s.minted
  rem : st.remPrev = s.rem

theorem mintAux_refines (p : Params) (hc : Consec p.minters) (hd : validDenom p.denom = true) (t : Int) :
    ∀ (rest : List M) (cur : M) (fuel : Nat) (st : St) (start : Int),
      Rel p st ⟨start, cur :: rest, st.minted, st.remPrev⟩ → WF start (cur :: rest) → start ≤ t → rest.length < fuel →
      ∃ res, mintAux fuel p st t = .ok res ∧
        res.amount = (mintGo start (cur :: rest) st.minted st.remPrev t).1 ∧
        Rel p res.st (mintGo start (cur :: rest) st.minted st.remPrev t).2 ∧
        (res.st.last = t ∨ res.st.last = st.last) := by
  intro rest
  induction rest with
  | nil =>
    intro cur fuel st start hrel hwf hst hfuel
    obtain ⟨⟨pre, hsplit, hstart, hprev⟩, hseq, _, _⟩ := hrel
    simp only [] at hsplit hstart
    obtain ⟨hG, hlast⟩ := hwf
    cases fuel with
    | zero => omega
    | succ fuel =>
      have hcp : getCurPrev p.minters st.seq = (some cur, pre.getLast?) := by
        rw [hseq cur [] rfl, hsplit]; exact getCurPrev_split pre cur [] (hsplit ▸ hc)
      have hend : cur.endT = none := by
        cases he : cur.endT with
        | none => rfl
        | some e => rw [he] at hlast; exact absurd hlast (by simp [WF])
      unfold mintAux
      rw [hcp]
      simp only []
      have hstartEq : periodStart p pre.getLast? = start := by rw [hstart]; rfl
      have hnp : prevEndMissing pre.getLast? = false := by
        unfold prevEndMissing
        cases hl : pre.getLast? with
        | none => rfl
        | some l => have := hprev l hl; simp only []; cases hle : l.endT <;> simp_all
      rw [hstartEq, hnp]
      simp only [Bool.false_eq_true, if_false, hG.noPanic t hst]
      unfold mintGo
      simp only [hend]
      by_cases hneg : Dec.truncInt (amountToMint cur start t + st.remPrev) - st.minted < 0
      · simp only [hneg, if_true]
        exact ⟨_, rfl, rfl, ⟨⟨pre, hsplit, hstart, hprev⟩, hseq, rfl, rfl⟩, Or.inr rfl⟩
      · simp only [hneg, if_false, hd, Bool.not_true]
        refine ⟨_, rfl, rfl, ⟨⟨pre, hsplit, hstart, hprev⟩, ?_, rfl, rfl⟩, Or.inl rfl⟩
        intro m r hm; cases hm; exact hseq cur [] rfl
  | cons nxt rest ih =>
    intro cur fuel st start hrel hwf hst hfuel
    obtain ⟨⟨pre, hsplit, hstart, hprev⟩, hseq, _, _⟩ := hrel
    simp only [] at hsplit hstart
    obtain ⟨hG, hnext⟩ := hwf
    cases fuel with
    | zero => simp at hfuel
    | succ fuel =>
      have hcp : getCurPrev p.minters st.seq = (some cur, pre.getLast?) := by
        rw [hseq cur (nxt :: rest) rfl, hsplit]; exact getCurPrev_split pre cur (nxt :: rest) (hsplit ▸ hc)
      obtain ⟨e, hend⟩ : ∃ e, cur.endT = some e := by
        cases he : cur.endT with
        | none => rw [he] at hnext; cases hnext
        | some e => exact ⟨e, rfl⟩
      rw [hend] at hnext
      unfold mintAux
      rw [hcp]
      simp only []
      have hstartEq : periodStart p pre.getLast? = start := by rw [hstart]; rfl
      have hnp : prevEndMissing pre.getLast? = false := by
        unfold prevEndMissing
        cases hl : pre.getLast? with
        | none => rfl
        | some l => have := hprev l hl; simp only []; cases hle : l.endT <;> simp_all
      rw [hstartEq, hnp]
      simp only [Bool.false_eq_true, if_false, hG.noPanic t hst]
      unfold mintGo
      simp only [hend]
      by_cases hneg : Dec.truncInt (amountToMint cur start t + st.remPrev) - st.minted < 0
      · simp only [hneg, if_true]
        exact ⟨_, rfl, rfl, ⟨⟨pre, hsplit, hstart, hprev⟩, hseq, rfl, rfl⟩, Or.inr rfl⟩
      · simp only [hneg, if_false, hd, Bool.not_true]
        by_cases hte : t < e
        · simp only [hte, decide_true, if_true]
          refine ⟨_, rfl, rfl, ⟨⟨pre, hsplit, hstart, hprev⟩, ?_, rfl, rfl⟩, Or.inl rfl⟩
          intro m r hm; cases hm; exact hseq cur (nxt :: rest) rfl
        · simp only [hte, decide_false, Bool.false_eq_true, if_false]
          -- hand-over: the next period starts at `e` with the carried remainder
          have hsplit2 : p.minters = (pre ++ [cur]) ++ nxt :: rest := by rw [hsplit]; simp
          have hcsplit : Consec (pre ++ cur :: nxt :: rest) := hsplit ▸ hc
          have hnseq : nxt.seq = cur.seq + 1 := (consec_append hcsplit).2.1
          let st2 : St := { seq := st.seq + 1, minted := 0, remToMint := 0,
                            remPrev := Dec.frac (amountToMint cur start t + st.remPrev), last := t }
          have hrel2 : Rel p st2 ⟨e, nxt :: rest, st2.minted, st2.remPrev⟩ := by
            refine ⟨⟨pre ++ [cur], hsplit2, ?_, ?_⟩, ?_, rfl, rfl⟩
            · simp [startAfter, periodStart, hend]
            · intro l hl; simp at hl; subst hl; simp [hend]
            · intro m r hm; cases hm
              show st.seq + 1 = nxt.seq
              rw [hseq cur (nxt :: rest) rfl, hnseq]
          have het : e ≤ t := by omega
          obtain ⟨res2, hr2, ha2, hrel3, hl2⟩ := ih nxt fuel st2 e hrel2 hnext het (by simp at hfuel; omega)
          rw [hr2]
          refine ⟨_, rfl, (by simp only []; rw [ha2]), hrel3, ?_⟩
          rcases hl2 with h | h
          · left; exact h
          · left; exact h

end C4E.Minter
