/-
  The store write at the end of the distributor's `BeginBlocker` (`SetState` per state, one store
  key per state): the recorded states have pairwise different store keys throughout the block, so
  the write loses nothing.  Model: `C4E.Distributor` (`stateKey`, `storeStates`).
-/
import C4E.Lemmas.DistrBlock
namespace C4E.Distr
open C4E C4E.CoinList

/-! ### store keys -/

/-- an account that gets a state of its own: one of the three non-MAIN types, non-empty id -/
def ProperAcc (a : Account) : Prop := (a.type = tModule ∨ a.type = tBase ∨ a.type = tInternal) ∧ a.id ≠ ""

/-- a recorded state is the burn state (stored under `burn_state_key`) or the state of a proper account -/
def ShapeOk (s : DState) : Prop :=
  (s.burn = true ∧ stateKey s = burnStateKey) ∨ (s.burn = false ∧ ∃ a, s.account = some a ∧ ProperAcc a)

def keysOf (l : List DState) : List String := l.map stateKey

/-- pairwise different store keys, every state of one of the two shapes -/
def KeysOk (l : List DState) : Prop := (keysOf l).Nodup ∧ ∀ s ∈ l, ShapeOk s

theorem headM (x : String) : (tModule ++ "-" ++ x).toList.head? = some 'M' := by
  simp only [String.toList_append]
  have : tModule.toList = 'M' :: "ODULE_ACCOUNT".toList := by decide
  rw [this]; rfl
theorem headB (x : String) : (tBase ++ "-" ++ x).toList.head? = some 'B' := by
  simp only [String.toList_append]
  have : tBase.toList = 'B' :: "ASE_ACCOUNT".toList := by decide
  rw [this]; rfl
theorem headI (x : String) : (tInternal ++ "-" ++ x).toList.head? = some 'I' := by
  simp only [String.toList_append]
  have : tInternal.toList = 'I' :: "NTERNAL_ACCOUNT".toList := by decide
  rw [this]; rfl
theorem headb : burnStateKey.toList.head? = some 'b' := by decide

theorem stateKey_proper (s : DState) (a : Account) (ha : s.account = some a) (hp : ProperAcc a) :
    stateKey s = a.type ++ "-" ++ a.id := by
  have ht : a.type ≠ "" := by
    rcases hp.1 with h | h | h <;> rw [h] <;> decide
  unfold stateKey
  rw [ha]
  simp [hp.2, ht]

theorem properKey_ne_burn (a : Account) (hp : ProperAcc a) : a.type ++ "-" ++ a.id ≠ burnStateKey := by
  intro h
  have := congrArg (fun s => s.toList.head?) h
  rcases hp.1 with ht | ht | ht <;> rw [ht] at this <;> simp only [headM, headB, headI, headb] at this <;> cases this

/-- the store key determines type and id of a proper account -/
theorem properKey_inj (a b : Account) (ha : ProperAcc a) (hb : ProperAcc b)
    (h : a.type ++ "-" ++ a.id = b.type ++ "-" ++ b.id) : a.type = b.type ∧ a.id = b.id := by
  have hh := congrArg (fun s => s.toList.head?) h
  rcases ha.1 with ta | ta | ta <;> rcases hb.1 with tb | tb | tb <;> rw [ta, tb] at hh h <;>
    simp only [headM, headB, headI] at hh <;>
    first
    | (cases hh; done)
    | exact ⟨by rw [ta, tb], (String.append_right_inj _).mp h⟩

theorem shape_key_burn (s : DState) (h : ShapeOk s) (hb : s.burn = false) : stateKey s ≠ burnStateKey := by
  rcases h with ⟨h1, _⟩ | ⟨_, a, ha, hp⟩
  · rw [hb] at h1; cases h1
  · rw [stateKey_proper s a ha hp]; exact properKey_ne_burn a hp

/-! ### operations that keep the keys -/

theorem keysOf_modifyNth (f : DState → DState) (hf : ∀ s, stateKey (f s) = stateKey s) :
    ∀ (l : List DState) (n : Nat), keysOf (modifyNth l n f) = keysOf l
  | [], _ => rfl
  | x :: xs, 0 => by simp only [modifyNth, keysOf, List.map_cons, hf]
  | x :: xs, n + 1 => by
    have := keysOf_modifyNth f hf xs n
    simp only [modifyNth, keysOf, List.map_cons] at this ⊢
    rw [this]

theorem shape_modifyNth (f : DState → DState) (hf : ∀ s, ShapeOk s → ShapeOk (f s)) :
    ∀ (l : List DState) (n : Nat), (∀ s ∈ l, ShapeOk s) → ∀ s ∈ modifyNth l n f, ShapeOk s
  | [], _, _ => by intro s hs; simp [modifyNth] at hs
  | x :: xs, 0, h => by
    intro s hs
    simp only [modifyNth] at hs
    rcases List.mem_cons.mp hs with h1 | h1
    · rw [h1]; exact hf x (h x (by simp))
    · exact h s (by simp [h1])
  | x :: xs, n + 1, h => by
    intro s hs
    simp only [modifyNth] at hs
    rcases List.mem_cons.mp hs with h1 | h1
    · rw [h1]; exact h x (by simp)
    · exact shape_modifyNth f hf xs n (fun y hy => h y (by simp [hy])) s h1

/-- changing only the remains of the n-th state keeps keys and shapes -/
theorem keysOk_modifyNth_remains (g : DecCoins → DecCoins) (l : List DState) (n : Nat) (h : KeysOk l) :
    KeysOk (modifyNth l n (fun s => { s with remains := g s.remains })) := by
  refine ⟨?_, ?_⟩
  · rw [keysOf_modifyNth (fun s => { s with remains := g s.remains }) (fun s => rfl)]; exact h.1
  · apply shape_modifyNth _ _ l n h.2
    intro s hs
    exact hs

theorem keysOk_append_one (l : List DState) (x : DState) (h : KeysOk l) (hx : ShapeOk x)
    (hne : ∀ t ∈ l, stateKey t ≠ stateKey x) : KeysOk (l ++ [x]) := by
  refine ⟨?_, ?_⟩
  · unfold keysOf
    rw [List.map_append]
    apply List.nodup_append.mpr
    refine ⟨h.1, by simp, ?_⟩
    intro a ha b hb
    simp only [List.map_cons, List.map_nil, List.mem_singleton] at hb
    obtain ⟨t, ht, rfl⟩ := List.mem_map.mp ha
    rw [hb]; exact hne t ht
  · intro s hs
    rcases List.mem_append.mp hs with h1 | h1
    · exact h.2 s h1
    · simp only [List.mem_singleton] at h1; rw [h1]; exact hx

theorem findAccountState_none : ∀ (l : List DState) (a : Account) (i : Nat), findAccountState l a i = .ok none →
    ∀ t ∈ l, ∀ b, t.account = some b → ¬ (b.id = a.id ∧ b.type = a.type)
  | [], _, _, _ => by intro t ht; cases ht
  | s :: rest, a, i, h => by
    unfold findAccountState at h
    split at h
    · cases h
    · rename_i sa hsa
      split at h
      · cases h
      · rename_i hne
        intro t ht b hb
        rcases List.mem_cons.mp ht with h1 | h1
        · rw [h1, hsa] at hb
          cases hb
          simpa using hne
        · exact findAccountState_none rest a (i + 1) h t h1 b hb

theorem findBurnState_none : ∀ (l : List DState) (i : Nat), findBurnState l i = none → ∀ t ∈ l, t.burn = false
  | [], _, _ => by intro t ht; cases ht
  | s :: rest, i, h => by
    unfold findBurnState at h
    split at h
    · cases h
    · rename_i hb
      intro t ht
      rcases List.mem_cons.mp ht with h1 | h1
      · rw [h1]; simpa using hb
      · exact findBurnState_none rest (i + 1) h t h1

theorem addToAccountState_keys (sts sts' : List DState) (a : Account) (c : DecCoins)
    (h : addToAccountState sts a c = .ok sts') (hk : KeysOk sts) (ha : ProperAcc a) : KeysOk sts' := by
  unfold addToAccountState at h
  split at h
  · cases h
  · cases h
  · cases h
    exact keysOk_modifyNth_remains (fun r => CoinList.add r c) sts _ hk
  · rename_i hnone
    cases h
    have hx : ShapeOk { account := some a, burn := false, remains := CoinList.add [] c } :=
      Or.inr ⟨rfl, a, rfl, ha⟩
    apply keysOk_append_one sts _ hk hx
    intro t ht
    rw [stateKey_proper { account := some a, burn := false, remains := CoinList.add [] c } a rfl ha]
    rcases hk.2 t ht with ⟨_, hkey⟩ | ⟨_, b, hb, hpb⟩
    · rw [hkey]; exact Ne.symm (properKey_ne_burn a ha)
    · rw [stateKey_proper t b hb hpb]
      intro heq
      have := properKey_inj b a hpb ha heq
      exact findAccountState_none sts a 0 hnone t ht b hb ⟨this.2, this.1⟩

theorem addToBurnState_keys (sts : List DState) (c : DecCoins) (hk : KeysOk sts) : KeysOk (addToBurnState sts c) := by
  unfold addToBurnState
  split
  · exact keysOk_modifyNth_remains (fun r => CoinList.add r c) sts _ hk
  · rename_i hnone
    have hkey : stateKey { account := some { id := "", type := "" }, burn := true, remains := CoinList.add [] c } = burnStateKey := by
      simp [stateKey]
    apply keysOk_append_one sts _ hk (Or.inl ⟨rfl, hkey⟩)
    intro t ht
    rw [hkey]
    exact shape_key_burn t (hk.2 t ht) (findBurnState_none sts 0 hnone t ht)

theorem distShares_keys (sub : String) (x : DecCoins) : ∀ (shs : List Share) (sts : List DState) (dflt : DecCoins)
    (evs : List Event) (sts' : List DState) (dflt' : DecCoins) (evs' : List Event),
    distShares sub x shs sts dflt evs = .ok (sts', dflt', evs') → KeysOk sts →
    (∀ sh ∈ shs, sh.dest.type ≠ tMain → ProperAcc sh.dest) → KeysOk sts'
  | [], sts, dflt, evs, sts', dflt', evs', h, hk, _ => by
    simp only [distShares, Outcome.ok.injEq, Prod.mk.injEq] at h
    rw [← h.1]; exact hk
  | sh :: rest, sts, dflt, evs, sts', dflt', evs', h, hk, hp => by
    unfold distShares at h
    simp only [] at h
    have hrest : ∀ s ∈ rest, s.dest.type ≠ tMain → ProperAcc s.dest := fun s hs => hp s (by simp [hs])
    split at h
    · cases h
    · split at h
      · split at h
        · rename_i hnm
          split at h
          · rename_i stsA hadd
            exact distShares_keys sub x rest _ _ _ _ _ _ h
              (addToAccountState_keys sts stsA sh.dest _ hadd hk (hp sh (by simp) hnm)) hrest
          · cases h
          · cases h
        · exact distShares_keys sub x rest _ _ _ _ _ _ h hk hrest
      · exact distShares_keys sub x rest _ _ _ _ _ _ h hk hrest

/-- the destinations of a sub-distributor that get a state are proper accounts -/
def SubProper (s : SubD) : Prop :=
  (∀ sh ∈ s.shares, sh.dest.type ≠ tMain → ProperAcc sh.dest) ∧ (s.primary.type ≠ tMain → ProperAcc s.primary)

theorem startDistribution_keys (sts : List DState) (x : DecCoins) (s : SubD) (sts' : List DState) (evs : List Event)
    (h : startDistribution sts x s = .ok (sts', evs)) (hk : KeysOk sts) (hp : SubProper s) : KeysOk sts' := by
  unfold startDistribution at h
  split at h
  · cases h
  · cases h
  · rename_i sts1 dflt1 evs1 hsh
    have hk1 := distShares_keys s.name x s.shares sts x [] sts1 dflt1 evs1 hsh hk hp.1
    simp only [] at h
    split at h
    · cases h
    · have hk2 : KeysOk (if (!isZero (calcPercentage (s.burnShare.getD 0) x)) = true
          then addToBurnState sts1 (calcPercentage (s.burnShare.getD 0) x) else sts1) := by
        split
        · exact addToBurnState_keys sts1 _ hk1
        · exact hk1
      split at h
      · rename_i hpm
        split at h
        · rename_i sts3 hadd
          cases h
          exact addToAccountState_keys _ _ s.primary _ hadd hk2 (hp.2 hpm)
        · cases h
        · cases h
      · cases h; exact hk2

theorem prepareLeft_keys (c c2 : DecCoins) (src : Account) (sts sts' : List DState)
    (h : prepareLeft c src sts = .ok (c2, sts')) (hk : KeysOk sts) : KeysOk sts' := by
  unfold prepareLeft at h
  split at h
  · cases h
  · cases h
  · cases h; exact hk
  · simp only [] at h
    split at h
    · cases h; exact keysOk_modifyNth_remains (fun _ => []) sts _ hk
    · cases h; exact hk

theorem prepareNotMain_keys (e : Env) (w w' : World) (src : Account) (c : DecCoins)
    (h : prepareNotMain e w src = .ok (c, w')) (hk : KeysOk w.states) : KeysOk w'.states := by
  unfold prepareNotMain at h
  simp only [] at h
  split at h
  · rename_i cc ww hsw
    have key : ww.states = w.states := by
      split at hsw
      · split at hsw
        · cases hsw
        · rename_i addr _
          have := Outcome.ok.inj hsw
          have h2 : ww = (sweep e w addr).2 := by rw [this]
          rw [h2]; exact sweep_states e w addr
      · split at hsw
        · have := Outcome.ok.inj hsw
          have h2 : ww = (sweep e w (canonAddr src.id)).2 := by rw [this]
          rw [h2]; exact sweep_states e w _
        · cases hsw; rfl
    split at h
    · rename_i c2 sts hl
      cases h
      rw [key] at hl
      exact prepareLeft_keys _ _ src _ _ hl hk
    · cases h
    · cases h
  · cases h
  · cases h

theorem prepOthersPart_keys (e : Env) : ∀ (l : List Account) (w w' : World) (all all' : DecCoins),
    prepOthersPart e w l all = .ok (all', w') → KeysOk w.states → KeysOk w'.states
  | [], w, w', all, all', h, hk => by
    simp only [prepOthersPart, Outcome.ok.injEq, Prod.mk.injEq] at h; rw [← h.2]; exact hk
  | s :: rest, w, w', all, all', h, hk => by
    unfold prepOthersPart at h
    split at h
    · split at h
      · rename_i c w1 hp
        exact prepOthersPart_keys e rest w1 w' _ all' h (prepareNotMain_keys e w w1 s c hp hk)
      · cases h
      · cases h
    · exact prepOthersPart_keys e rest w w' all all' h hk

theorem prepareCoins_keys (e : Env) (w w' : World) (l : List Account) (x : DecCoins)
    (h : prepareCoins e w l = .ok (x, w')) (hk : KeysOk w.states) : KeysOk w'.states := by
  unfold prepareCoins at h
  split at h
  · exact prepOthersPart_keys e l w w' _ x h hk
  · cases h
  · cases h

theorem subsLoop_keys (e : Env) : ∀ (subs : List SubD) (w : World) (evs : List Event) (w' : World) (evs' : List Event),
    subsLoop e subs w evs = .ok (w', evs') → (∀ s ∈ subs, SubProper s) → KeysOk w.states → KeysOk w'.states
  | [], w, evs, w', evs', h, _, hk => by
    simp only [subsLoop, Outcome.ok.injEq, Prod.mk.injEq] at h
    rw [← h.1]; exact hk
  | s :: rest, w, evs, w', evs', h, hp, hk => by
    have hrest : ∀ t ∈ rest, SubProper t := fun t ht => hp t (by simp [ht])
    unfold subsLoop at h
    split at h
    · rename_i x w1 hprep
      have hk1 := prepareCoins_keys e w w1 _ x hprep hk
      split at h
      · split at h
        · rename_i sts ev hd
          exact subsLoop_keys e rest _ _ w' evs' h hrest (startDistribution_keys w1.states x s sts ev hd hk1 (hp s (by simp)))
        · cases h
        · cases h
      · exact subsLoop_keys e rest _ _ w' evs' h hrest hk1
    · cases h
    · cases h

/-- a payout changes only the remains of a state -/
theorem payoutOne_same (e : Env) (w w' : World) (s s' : DState) (h : payoutOne e w s = .ok (s', w')) :
    s'.account = s.account ∧ s'.burn = s.burn := by
  unfold payoutOne at h
  split at h
  · cases h
  · split at h
    · simp only [] at h
      split at h
      · split at h
        · cases h; exact ⟨rfl, rfl⟩
        · split at h
          · cases h
          · split at h
            · cases h; exact ⟨rfl, rfl⟩
            · cases h; exact ⟨rfl, rfl⟩
      · split at h
        · split at h
          · cases h; exact ⟨rfl, rfl⟩
          · split at h
            · cases h
            · split at h
              · cases h; exact ⟨rfl, rfl⟩
              · cases h; exact ⟨rfl, rfl⟩
        · split at h
          · cases h; exact ⟨rfl, rfl⟩
          · split at h
            · cases h; exact ⟨rfl, rfl⟩
            · split at h
              · cases h; exact ⟨rfl, rfl⟩
              · split at h
                · cases h; exact ⟨rfl, rfl⟩
                · cases h; exact ⟨rfl, rfl⟩
    · cases h; exact ⟨rfl, rfl⟩

theorem stateKey_congr (s s' : DState) (h : s'.account = s.account) : stateKey s' = stateKey s := by
  unfold stateKey; rw [h]

theorem shape_congr (s s' : DState) (h : s'.account = s.account ∧ s'.burn = s.burn) (hs : ShapeOk s) : ShapeOk s' := by
  rcases hs with ⟨h1, h2⟩ | ⟨h1, a, ha, hp⟩
  · exact Or.inl ⟨by rw [h.2]; exact h1, by rw [stateKey_congr s s' h.1]; exact h2⟩
  · exact Or.inr ⟨by rw [h.2]; exact h1, a, by rw [h.1]; exact ha, hp⟩

theorem payoutLoop_keys (e : Env) : ∀ (l : List DState) (w w' : World) (st st' : List DState),
    payoutLoop e l w st = .ok (w', st') → (∀ s ∈ l, ShapeOk s) →
    keysOf st' = keysOf st ++ keysOf l ∧ ((∀ s ∈ st, ShapeOk s) → ∀ s ∈ st', ShapeOk s)
  | [], w, w', st, st', h, _ => by
    simp only [payoutLoop, Outcome.ok.injEq, Prod.mk.injEq] at h
    rw [← h.2]; simp [keysOf]
  | s :: rest, w, w', st, st', h, hl => by
    unfold payoutLoop at h
    split at h
    · rename_i s1 w1 hp
      have hsame := payoutOne_same e w w1 s s1 hp
      obtain ⟨i1, i2⟩ := payoutLoop_keys e rest w1 w' _ st' h (fun x hx => hl x (by simp [hx]))
      refine ⟨?_, ?_⟩
      · rw [i1]
        simp only [keysOf, List.map_append, List.map_cons, List.map_nil, List.append_assoc, List.singleton_append]
        rw [stateKey_congr s s1 hsame.1]
      · intro hst
        apply i2
        intro y hy
        rcases List.mem_append.mp hy with h1 | h1
        · exact hst y h1
        · simp only [List.mem_singleton] at h1
          rw [h1]; exact shape_congr s s1 hsame (hl s (by simp))
    · cases h
    · cases h

/-! ### the store write -/

def putState (store : List DState) (s : DState) : List DState :=
  insertBy (fun a b => stateKey a < stateKey b) s (store.filter (fun t => stateKey t ≠ stateKey s))

theorem storeStates_eq (sts : List DState) : storeStates sts = sts.foldl putState [] := rfl

theorem insertBy_perm {α} (lt : α → α → Bool) (x : α) : ∀ l : List α, (insertBy lt x l).Perm (x :: l)
  | [] => List.Perm.refl _
  | y :: ys => by
    unfold insertBy
    split
    · exact List.Perm.refl _
    · exact ((insertBy_perm lt x ys).cons y).trans (List.Perm.swap x y ys)

theorem foldl_putState_perm : ∀ (l store : List DState), (∀ t ∈ store, ∀ s ∈ l, stateKey t ≠ stateKey s) →
    (keysOf l).Nodup → (l.foldl putState store).Perm (store ++ l)
  | [], store, _, _ => by simp
  | s :: rest, store, hdis, hnd => by
    rw [List.foldl_cons]
    have hfil : store.filter (fun t => stateKey t ≠ stateKey s) = store := by
      apply List.filter_eq_self.mpr
      intro t ht
      simpa using hdis t ht s (by simp)
    have hput : (putState store s).Perm (s :: store) := by
      unfold putState; rw [hfil]; exact insertBy_perm _ s store
    simp only [keysOf, List.map_cons] at hnd
    obtain ⟨hnot, hnd'⟩ := List.nodup_cons.mp hnd
    have hdis' : ∀ t ∈ putState store s, ∀ s' ∈ rest, stateKey t ≠ stateKey s' := by
      intro t ht s' hs'
      rcases List.mem_cons.mp (hput.mem_iff.mp ht) with h1 | h1
      · rw [h1]
        intro heq
        apply hnot
        rw [heq]
        exact List.mem_map.mpr ⟨s', hs', rfl⟩
      · exact hdis t h1 s' (by simp [hs'])
    have ih := foldl_putState_perm rest (putState store s) hdis' hnd'
    refine ih.trans ?_
    refine (List.Perm.append_right rest hput).trans ?_
    exact (List.perm_middle (a := s) (l₁ := store) (l₂ := rest)).symm

theorem mem_foldl_putState : ∀ (l store : List DState) (t : DState), t ∈ l.foldl putState store → t ∈ store ∨ t ∈ l
  | [], store, t, h => Or.inl h
  | s :: rest, store, t, h => by
    rw [List.foldl_cons] at h
    rcases mem_foldl_putState rest _ t h with h1 | h1
    · unfold putState at h1
      rcases List.mem_cons.mp ((insertBy_perm _ s _).mem_iff.mp h1) with h2 | h2
      · right; rw [h2]; simp
      · left; exact (List.mem_filter.mp h2).1
    · right; simp [h1]

/-- whatever the keys, everything in the store after the write was in the list -/
theorem mem_storeStates (l : List DState) (t : DState) (h : t ∈ storeStates l) : t ∈ l := by
  rw [storeStates_eq] at h
  rcases mem_foldl_putState l [] t h with h1 | h1
  · cases h1
  · exact h1

/-- with pairwise different keys the store write is a rearrangement of the list -/
theorem storeStates_perm (l : List DState) (h : (keysOf l).Nodup) : (storeStates l).Perm l := by
  rw [storeStates_eq]
  have := foldl_putState_perm l [] (by intro t ht; cases ht) h
  simpa using this

theorem remSumF_perm (d : String) {l1 l2 : List DState} (h : l1.Perm l2) : remSumF d l1 = remSumF d l2 := by
  induction h with
  | nil => rfl
  | cons x _ ih => simp only [remSumF, ih]
  | swap x y l => simp only [remSumF]; omega
  | trans _ _ ih1 ih2 => rw [ih1, ih2]

theorem keysOk_perm {l1 l2 : List DState} (h : l1.Perm l2) (hk : KeysOk l2) : KeysOk l1 :=
  ⟨((h.map stateKey).nodup_iff).mpr hk.1, fun s hs => hk.2 s (h.mem_iff.mp hs)⟩

theorem statesOk_perm (e : Env) {l1 l2 : List DState} (h : l1.Perm l2) (hs : StatesOk e l2) : StatesOk e l1 :=
  fun s hs' => hs s (h.mem_iff.mp hs')

/-- the block up to the store write, with the keys: the list handed to `SetState` is well-formed,
    has pairwise different store keys and balances the main account in every denomination -/
theorem beginBlock_prestore_full (e : Env) (henv : EnvOk e) (subs : List SubD) (hv : paramsValid e subs = true)
    (hp : ∀ s ∈ subs, SubProper s)
    (w0 : World) (faults : List Nat) (r : BlockRes) (h : beginBlock e subs w0 faults = .ok r)
    (hs : StatesOk e w0.states) (hk : KeysOk w0.states) (hu : ∀ d, 0 ≤ UF e d w0) :
    ∃ stored, r.world.states = storeStates stored ∧ StatesOk e stored ∧ KeysOk stored ∧
      ∀ d, amountOf (r.world.bank.balance e.mainAddr) d * P - remSumF d stored = 0 := by
  have hok := subOkF_of_paramsValid e henv subs hv
  have hclosed : Distr1.closed true (subs.map Bridge.convSub) = true := by
    unfold paramsValid at hv
    simp only [Bool.and_eq_true] at hv
    exact closed_of_orderValid subs hv.2
  unfold beginBlock at h
  split at h
  · rename_i w evs hloop
    obtain ⟨hs1, hU⟩ := subsLoop_books e subs _ [] w evs true hloop hok hclosed hs hu (by intro hh; cases hh)
    have hk1 := subsLoop_keys e subs _ [] w evs hloop hp hk
    split at h
    · rename_i w2 stored hpay
      cases h
      obtain ⟨k1, k2⟩ := payoutLoop_keys e w.states w w2 [] stored hpay hk1.2
      refine ⟨stored, rfl, payoutLoop_ok e w.states w w2 [] stored hpay hs1 (statesOk_nil e),
        ⟨by rw [k1]; simpa [keysOf] using hk1.1, k2 (by intro s hs'; cases hs')⟩, ?_⟩
      intro d
      have := Props.C14.payoutLoop_keeps_books e d w.states w w2 [] stored hpay (payout_hne_of_statesOk e _ hs1)
      have hUd := hU d
      unfold UF at hUd
      show amountOf (w2.bank.balance e.mainAddr) d * P - remSumF d stored = 0
      rw [this]
      simp only [remSumF]
      omega
    · cases h
    · cases h
  · cases h
  · cases h

end C4E.Distr
