/-
  Denom-sorted coin lists (`sdk.Coins` / `sdk.DecCoins` are kept strictly sorted by denomination):
  for sorted lists every entry of `add a b` is the sum of the two amounts of its denomination, so
  `DecCoins.Sub` succeeds exactly when every denomination stays non-negative.
-/
import C4E.Coins
namespace C4E.CoinList
open C4E

/-- strictly sorted by denomination (hence no denomination twice) -/
def Sorted (l : CoinList) : Prop := l.Pairwise (fun a b => a.1 < b.1)

/-- `k` is strictly below every denomination of `l` -/
def Lb (k : String) (l : CoinList) : Prop := ∀ kv ∈ l, k < kv.1

theorem sorted_nil : Sorted [] := List.Pairwise.nil

theorem sorted_cons {kv : String × Int} {l : CoinList} : Sorted (kv :: l) ↔ Lb kv.1 l ∧ Sorted l := by
  unfold Sorted Lb
  exact List.pairwise_cons

theorem lb_nil (k : String) : Lb k [] := fun _ h => (by cases h)

theorem sorted_single (k : String) (v : Int) : Sorted [(k, v)] := by
  apply sorted_cons.mpr
  exact ⟨lb_nil k, sorted_nil⟩

theorem lb_trans {k k' : String} {l : CoinList} (h : k < k') (hl : Lb k' l) : Lb k l :=
  fun kv hkv => String.lt_trans h (hl kv hkv)

theorem lb_cons {k : String} {kv : String × Int} {l : CoinList} : Lb k (kv :: l) ↔ k < kv.1 ∧ Lb k l := by
  unfold Lb
  constructor
  · intro h; exact ⟨h kv (by simp), fun x hx => h x (by simp [hx])⟩
  · intro h x hx
    rcases List.mem_cons.mp hx with h1 | h1
    · rw [h1]; exact h.1
    · exact h.2 x h1

theorem lb_append {k : String} {a b : CoinList} (ha : Lb k a) (hb : Lb k b) : Lb k (a ++ b) := by
  intro kv hkv
  rcases List.mem_append.mp hkv with h | h
  · exact ha kv h
  · exact hb kv h

theorem lb_opt (c : Bool) (k k' : String) (v : Int) (h : k < k') : Lb k (if c then [(k', v)] else []) := by
  cases c with
  | true => intro kv hkv; simp at hkv; rw [hkv]; exact h
  | false => exact lb_nil k

theorem lb_nz {k : String} {l : CoinList} (h : Lb k l) : Lb k (nz l) := by
  intro kv hkv
  unfold nz at hkv
  exact h kv (List.mem_filter.mp hkv).1

theorem sorted_nz {l : CoinList} (h : Sorted l) : Sorted (nz l) := by
  unfold Sorted nz at *
  exact h.filter _

theorem lt_of_not_lt_ne {a b : String} (h1 : ¬ a < b) (h2 : ¬ a = b) : b < a := by
  have hle : b ≤ a := String.not_lt.mp h1
  apply Decidable.byContradiction
  intro hn
  have hle2 : a ≤ b := String.not_lt.mp hn
  exact h2 (String.le_antisymm hle2 hle)

/-- a denomination below every key has amount 0 -/
theorem amountOf_lb {k : String} {l : CoinList} (h : Lb k l) : amountOf l k = 0 := by
  induction l with
  | nil => rfl
  | cons kv rest ih =>
    obtain ⟨k', v⟩ := kv
    obtain ⟨h1, h2⟩ := lb_cons.mp h
    have hne : ¬ k' = k := by
      intro heq
      rw [heq] at h1
      exact String.lt_irrefl k h1
    simp only [amountOf, hne, if_false, ih h2, Int.zero_add]

theorem amountOf_lb' {k d : String} {l : CoinList} (h : Lb k l) (hd : d < k ∨ d = k) : amountOf l d = 0 := by
  apply amountOf_lb
  rcases hd with hd | hd
  · exact lb_trans hd h
  · rw [hd]; exact h

/-- in a sorted list the amount of a listed denomination is its entry -/
theorem amountOf_mem {l : CoinList} (hs : Sorted l) {kv : String × Int} (h : kv ∈ l) : amountOf l kv.1 = kv.2 := by
  induction l with
  | nil => cases h
  | cons x rest ih =>
    obtain ⟨k', v'⟩ := x
    obtain ⟨hlb, hs'⟩ := sorted_cons.mp hs
    rcases List.mem_cons.mp h with h1 | h1
    · rw [h1]
      simp only [amountOf, if_true]
      have := amountOf_lb hlb
      simp only at this
      rw [this]; omega
    · have hlt : k' < kv.1 := hlb kv h1
      have hne : ¬ k' = kv.1 := by
        intro heq; rw [heq] at hlt; exact String.lt_irrefl _ hlt
      simp only [amountOf, hne, if_false, Int.zero_add]
      exact ih hs' h1

theorem lb_add (k : String) (a b : CoinList) (ha : Lb k a) (hb : Lb k b) : Lb k (add a b) := by
  fun_induction add a b with
  | case1 b => exact lb_nz hb
  | case2 a ra => exact lb_nz ha
  | case3 ka va ra kb vb rb h ih =>
    exact lb_append (lb_opt _ _ _ _ (lb_cons.mp ha).1) (ih (lb_cons.mp ha).2 hb)
  | case4 va ra kb vb rb h1 ih =>
    exact lb_append (lb_opt _ _ _ _ (lb_cons.mp hb).1) (ih (lb_cons.mp ha).2 (lb_cons.mp hb).2)
  | case5 ka va ra kb vb rb h1 h2 ih =>
    exact lb_append (lb_opt _ _ _ _ (lb_cons.mp hb).1) (ih ha (lb_cons.mp hb).2)

theorem sorted_opt_append (c : Bool) (k : String) (v : Int) (l : CoinList) (hl : Sorted l) (hlb : Lb k l) :
    Sorted ((if c then [(k, v)] else []) ++ l) := by
  cases c with
  | true => exact sorted_cons.mpr ⟨hlb, hl⟩
  | false => exact hl

theorem sorted_add (a b : CoinList) (ha : Sorted a) (hb : Sorted b) : Sorted (add a b) := by
  fun_induction add a b with
  | case1 b => exact sorted_nz hb
  | case2 a ra => exact sorted_nz ha
  | case3 ka va ra kb vb rb h ih =>
    obtain ⟨la, sa⟩ := sorted_cons.mp ha
    obtain ⟨lbb, _⟩ := sorted_cons.mp hb
    apply sorted_opt_append _ _ _ _ (ih sa hb)
    apply lb_add _ _ _ la
    exact lb_cons.mpr ⟨h, lb_trans h lbb⟩
  | case4 va ra kb vb rb h1 ih =>
    obtain ⟨la, sa⟩ := sorted_cons.mp ha
    obtain ⟨lbb, sb⟩ := sorted_cons.mp hb
    exact sorted_opt_append _ _ _ _ (ih sa sb) (lb_add _ _ _ la lbb)
  | case5 ka va ra kb vb rb h1 h2 ih =>
    obtain ⟨la, _⟩ := sorted_cons.mp ha
    obtain ⟨lbb, sb⟩ := sorted_cons.mp hb
    have hlt : kb < ka := lt_of_not_lt_ne h1 h2
    apply sorted_opt_append _ _ _ _ (ih ha sb)
    apply lb_add _ _ _ _ lbb
    exact lb_cons.mpr ⟨hlt, lb_trans hlt la⟩

/-- **entries of a sum of sorted lists**: each entry is the sum of the two amounts of its denomination -/
theorem add_entries (a b : CoinList) (ha : Sorted a) (hb : Sorted b) :
    ∀ kv ∈ add a b, kv.2 = amountOf a kv.1 + amountOf b kv.1 := by
  have hs := sorted_add a b ha hb
  intro kv hkv
  have := amountOf_mem hs hkv
  rw [amountOf_add] at this
  omega

theorem sorted_neg {l : CoinList} (h : Sorted l) : Sorted (neg l) := by
  unfold Sorted neg at *
  exact List.pairwise_map.mpr h

theorem sorted_map_val (f : Int → Int) {l : CoinList} (h : Sorted l) : Sorted (l.map (fun kv => (kv.1, f kv.2))) := by
  unfold Sorted at *
  exact List.pairwise_map.mpr h

/-- **`DecCoins.Sub` on sorted lists does not panic when every denomination stays non-negative** -/
theorem sub_ok (a b : CoinList) (ha : Sorted a) (hb : Sorted b) (h : ∀ d, amountOf b d ≤ amountOf a d) :
    ∃ c, sub? a b = some c := by
  unfold sub?
  simp only []
  have hent := add_entries a (neg b) ha (sorted_neg hb)
  have hnn : isAnyNegative (add a (neg b)) = false := by
    unfold isAnyNegative
    apply List.any_eq_false.mpr
    intro kv hkv
    have := hent kv hkv
    rw [amountOf_neg] at this
    have := h kv.1
    simp only [decide_eq_true_eq]; omega
  rw [hnn]
  exact ⟨_, rfl⟩

theorem sorted_sub {a b c : CoinList} (h : sub? a b = some c) (ha : Sorted a) (hb : Sorted b) : Sorted c := by
  unfold sub? at h
  simp only [] at h
  split at h
  · cases h
  · cases h; exact sorted_add _ _ ha (sorted_neg hb)

/-- a sorted list whose amounts are all non-negative is entry-wise non-negative -/
theorem entries_nonneg_of_amounts {l : CoinList} (hs : Sorted l) (h : ∀ d, 0 ≤ amountOf l d) : ∀ kv ∈ l, 0 ≤ kv.2 := by
  intro kv hkv
  have := amountOf_mem hs hkv
  have := h kv.1
  omega

end C4E.CoinList
