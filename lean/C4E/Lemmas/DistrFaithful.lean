/-
  Per-denomination accounting lemmas about the code-tied multi-denomination distributor model
  (`C4E.Distributor`): how the source-preparation steps change
  `U = main balance × 10^18 − Σ recorded remains`.
-/
import C4E.Distributor
import C4E.Lemmas.AListLemmas
namespace C4E.Distr
open C4E C4E.CoinList

/-- recorded remains of all states in denomination `d` -/
def remSumF (d : String) : List DState → Int
  | [] => 0
  | s :: rest => amountOf s.remains d + remSumF d rest

/-- `U` of the code-tied world in denomination `d` (10^18-scaled) -/
def UF (e : Env) (d : String) (w : World) : Int :=
  amountOf (w.bank.balance e.mainAddr) d * P - remSumF d w.states

theorem getRemainsSum_amount (d : String) (sts : List DState) : amountOf (getRemainsSum sts) d = remSumF d sts := by
  unfold getRemainsSum
  have gen : ∀ (l : List DState) (acc : DecCoins),
      amountOf (l.foldl (fun acc s => CoinList.add acc s.remains) acc) d = amountOf acc d + remSumF d l := by
    intro l
    induction l with
    | nil => intro acc; simp [remSumF]
    | cons s rest ih => intro acc; rw [List.foldl_cons, ih, amountOf_add]; simp only [remSumF]; omega
  have := gen sts []
  simpa [amountOf] using this

theorem toDec_amount (c : Coins) (d : String) : amountOf (toDec c) d = amountOf c d * P := by
  unfold toDec
  induction c with
  | nil => simp [amountOf]
  | cons kv rest ih =>
    obtain ⟨k, v⟩ := kv
    rw [List.map_cons]
    simp only [amountOf]
    rw [ih]
    unfold Dec.ofInt
    by_cases hk : k = d
    · simp only [hk, if_true]; rw [Int.add_mul]
    · simp only [hk, if_false, Int.zero_add]

theorem remSumF_clear (d : String) : ∀ (l : List DState) (n : Nat), n < l.length →
    remSumF d (modifyNth l n (fun s => { s with remains := [] })) = remSumF d l - amountOf (l.getD n default).remains d
  | [], n, h => by simp at h
  | x :: xs, 0, _ => by simp only [modifyNth, remSumF, amountOf, List.getD_cons_zero]; omega
  | x :: xs, n + 1, h => by
    simp only [modifyNth, remSumF, List.getD_cons_succ]
    rw [remSumF_clear d xs n (by simpa using h)]; omega

theorem findAccountState_lt : ∀ (l : List DState) (a : Account) (i p : Nat),
    findAccountState l a i = .ok (some p) → i ≤ p ∧ p < i + l.length
  | [], a, i, p, h => by simp [findAccountState] at h
  | s :: rest, a, i, p, h => by
    unfold findAccountState at h
    split at h
    · cases h
    · split at h
      · simp only [Outcome.ok.injEq, Option.some.injEq] at h; subst h; simp
      · have := findAccountState_lt rest a (i + 1) p h
        simp only [List.length_cons]; omega

theorem amountOf_isZero (c : CoinList) (d : String) (h : isZero c = true) : amountOf c d = 0 := by
  induction c with
  | nil => rfl
  | cons kv rest ih =>
    obtain ⟨k, v⟩ := kv
    unfold isZero at h ih
    simp only [List.all_cons, Bool.and_eq_true, beq_iff_eq] at h
    simp only [amountOf, h.1, ih h.2]
    split <;> rfl

/-- re-queueing a source's recorded remains moves them from the books into the coins to distribute -/
theorem prepareLeft_conserves (c c2 : DecCoins) (src : Account) (sts sts' : List DState) (d : String)
    (h : prepareLeft c src sts = .ok (c2, sts')) :
    amountOf c2 d + remSumF d sts' = amountOf c d + remSumF d sts := by
  unfold prepareLeft at h
  split at h
  · cases h
  · cases h
  · cases h; rfl
  · rename_i pos hf
    have hb := findAccountState_lt sts src 0 pos hf
    simp only [] at h
    split at h
    · cases h
      rw [amountOf_add, remSumF_clear d sts pos (by omega)]; omega
    · rename_i hz
      cases h
      rfl

theorem bank_send_dst (b b' : Bank) (src dst : String) (c : Coins) (d : String) (hne : src ≠ dst)
    (h : b.send src dst c = some b') : amountOf (b'.balance dst) d = amountOf (b.balance dst) d + amountOf c d := by
  unfold Bank.send at h
  simp only [] at h
  split at h
  · cases h
  · cases h
    unfold Bank.balance
    simp only []
    rw [AList.get?_set_self, AList.get?_set_other _ _ _ _ (Ne.symm hne)]
    simp only [Option.getD_some]
    rw [amountOf_add]

/-- a sweep adds to the main balance exactly what it reports as inflow (nothing on a fault) -/
theorem sweep_main (e : Env) (w : World) (addr : String) (d : String) (hne : addr ≠ e.mainAddr) :
    amountOf ((sweep e w addr).2.bank.balance e.mainAddr) d * P
      = amountOf (w.bank.balance e.mainAddr) d * P + amountOf (sweep e w addr).1 d ∧
    (sweep e w addr).2.states = w.states := by
  unfold sweep
  split
  · split
    · simp [World.tick, amountOf]
    · split
      · simp [World.tick, amountOf]
      · rename_i b hb
        have := bank_send_dst _ b _ _ _ d hne hb
        refine ⟨?_, rfl⟩
        show amountOf (b.balance e.mainAddr) d * P = _
        rw [this, toDec_amount, Int.add_mul]
  · simp [amountOf]

/-- where a non-MAIN source's coins are swept from -/
def srcAddr (e : Env) (a : Account) : Option String :=
  if a.type = tModule then e.modAddr? a.id else if a.type ≠ tInternal then some (canonAddr a.id) else none

/-- **one non-MAIN source**: `U` grows by exactly what the source contributes (swept coins plus its
    re-queued remains) -/
theorem prepareNotMain_U (e : Env) (w w' : World) (src : Account) (c : DecCoins) (d : String)
    (h : prepareNotMain e w src = .ok (c, w')) (hne : srcAddr e src ≠ some e.mainAddr) :
    UF e d w' = UF e d w + amountOf c d := by
  unfold prepareNotMain at h
  simp only [] at h
  split at h
  · rename_i cc ww hsw
    have key : amountOf (ww.bank.balance e.mainAddr) d * P = amountOf (w.bank.balance e.mainAddr) d * P + amountOf cc d
        ∧ ww.states = w.states := by
      split at hsw
      · rename_i hm
        split at hsw
        · cases hsw
        · rename_i addr haddr
          have hsw' := Outcome.ok.inj hsw
          have h1 : cc = (sweep e w addr).1 := by rw [hsw']
          have h2 : ww = (sweep e w addr).2 := by rw [hsw']
          rw [h1, h2]
          apply sweep_main
          intro hh; apply hne; unfold srcAddr; simp [hm, haddr, hh]
      · rename_i hm
        split at hsw
        · rename_i hi
          have hsw' := Outcome.ok.inj hsw
          have h1 : cc = (sweep e w (canonAddr src.id)).1 := by rw [hsw']
          have h2 : ww = (sweep e w (canonAddr src.id)).2 := by rw [hsw']
          rw [h1, h2]
          apply sweep_main
          intro hh; apply hne; unfold srcAddr; simp [hm, hi, hh]
        · cases hsw; simp [amountOf]
    split at h
    · rename_i c2 sts hl
      cases h
      have hc := prepareLeft_conserves cc _ src ww.states sts d hl
      unfold UF
      show amountOf (ww.bank.balance e.mainAddr) d * P - remSumF d sts = _
      rw [key.1]
      rw [key.2] at hc
      omega
    · cases h
    · cases h
  · cases h
  · cases h

/-- the second pass of `PrepareCoinsToDistribute`: `U` grows by exactly what is added to the coins -/
theorem prepOthersPart_U (e : Env) (d : String) : ∀ (l : List Account) (w w' : World) (all all' : DecCoins),
    prepOthersPart e w l all = .ok (all', w') →
    (∀ a ∈ l, a.type ≠ tMain → srcAddr e a ≠ some e.mainAddr) →
    UF e d w' - amountOf all' d = UF e d w - amountOf all d
  | [], w, w', all, all', h, _ => by
    simp only [prepOthersPart, Outcome.ok.injEq, Prod.mk.injEq] at h; rw [← h.1, ← h.2]
  | s :: rest, w, w', all, all', h, hne => by
    unfold prepOthersPart at h
    split at h
    · rename_i hm
      split at h
      · rename_i c w1 hp
        have h1 := prepareNotMain_U e w w1 s c d hp (hne s (by simp) hm)
        have h2 := prepOthersPart_U e d rest w1 w' _ all' h (fun a ha => hne a (by simp [ha]))
        have h3 : amountOf (if c.length ≠ 0 then CoinList.add all c else all) d = amountOf all d + amountOf c d := by
          by_cases hl : c.length ≠ 0
          · rw [if_pos hl, amountOf_add]
          · have : c = [] := by
              cases c with
              | nil => rfl
              | cons _ _ => exact absurd (by simp) hl
            subst this; rw [if_neg hl]; simp [amountOf]
        rw [h3] at h2
        omega
      · cases h
      · cases h
    · exact prepOthersPart_U e d rest w w' all all' h (fun a ha => hne a (by simp [ha]))

end C4E.Distr

namespace C4E.Distr
open C4E C4E.CoinList

/-- the correction term of `prepareCoinToDistributeForMainAccount`: with an EMPTY main account the
    Go code returns no coins instead of `balance − Σ remains` (which would be `−Σ remains`) -/
def EF (e : Env) (d : String) (w : World) : Int :=
  if (w.bank.balance e.mainAddr).length > 0 then 0 else remSumF d w.states

theorem prepareMain_amount (e : Env) (w : World) (c : DecCoins) (d : String) (h : prepareMain e w = .ok c) :
    amountOf c d = UF e d w + EF e d w := by
  unfold prepareMain at h
  simp only [] at h
  have hlen : (toDec (w.bank.balance e.mainAddr)).length = (w.bank.balance e.mainAddr).length := by
    unfold toDec; simp
  split at h
  · rename_i hpos
    split at h
    · cases h
    · rename_i c' hsub
      cases h
      have := amountOf_sub hsub d
      rw [this, toDec_amount, getRemainsSum_amount]
      unfold UF EF
      rw [hlen] at hpos
      simp [hpos]
  · rename_i hpos
    cases h
    rw [hlen] at hpos
    have hnil : w.bank.balance e.mainAddr = [] := by
      cases hb : w.bank.balance e.mainAddr with
      | nil => rfl
      | cons _ _ => rw [hb] at hpos; simp at hpos
    unfold UF EF
    rw [hnil]
    simp [toDec, amountOf]
    omega

def countMain (l : List Account) : Int :=
  match l with
  | [] => 0
  | a :: rest => (if a.type = tMain then 1 else 0) + countMain rest

/-- the first pass: every MAIN entry contributes `U + E` of the world at the start of the pass -/
theorem prepMainPart_amount (e : Env) (w : World) (d : String) : ∀ (l : List Account) (all all' : DecCoins),
    prepMainPart e w l all = .ok all' →
    amountOf all' d = amountOf all d + countMain l * (UF e d w + EF e d w)
  | [], all, all', h => by
    simp only [prepMainPart, Outcome.ok.injEq] at h; subst h; simp [countMain]
  | a :: rest, all, all', h => by
    unfold prepMainPart at h
    unfold countMain
    split at h
    · rename_i hm
      split at h
      · rename_i c hc
        have h1 := prepareMain_amount e w c d hc
        have h2 := prepMainPart_amount e w d rest _ all' h
        rw [h2, amountOf_add, h1]
        simp only [hm, if_true]
        rw [Int.add_mul]; omega
      · cases h
      · cases h
    · rename_i hm
      have h2 := prepMainPart_amount e w d rest all all' h
      rw [h2]
      simp only [hm, if_false, Int.zero_add]

/-- **`PrepareCoinsToDistribute`**: afterwards `U` minus the coins to distribute equals
    `(1 − k)·U − k·E` of the world before, `k` the number of MAIN entries among the sources -/
theorem prepareCoins_U (e : Env) (w w' : World) (l : List Account) (x : DecCoins) (d : String)
    (h : prepareCoins e w l = .ok (x, w'))
    (hne : ∀ a ∈ l, a.type ≠ tMain → srcAddr e a ≠ some e.mainAddr) :
    UF e d w' - amountOf x d = UF e d w - countMain l * (UF e d w + EF e d w) := by
  unfold prepareCoins at h
  split at h
  · rename_i all hall
    have h1 := prepMainPart_amount e w d l [] all hall
    have h2 := prepOthersPart_U e d l w w' all x h hne
    simp only [amountOf] at h1
    omega
  · cases h
  · cases h

end C4E.Distr
