/-
  What `Params.Validate` guarantees about the parameters it accepts (the cleaned, sorted list):
  consecutive sequence ids, every period well-formed, end times strictly increasing from the
  start time, only the last period open-ended, a well-formed denom.
-/
import C4E.Lemmas.MinterRefine
namespace C4E.Minter
open C4E

/-- the chain of periods as validation leaves it, except for the millisecond condition on linear
    periods (`Sane` below), which validation does not check -/
def ChainV : Int → List M → Prop
  | _, [] => True
  | start, m :: rest =>
    (match m.cfg with
     | .noMint => True
     | .lin a => 0 ≤ a ∧ m.endT.isSome
     | .exp a step mult => 0 < a ∧ 0 < step ∧ 0 ≤ mult) ∧
    (match m.endT with
     | none => rest = []
     | some e => rest ≠ [] ∧ start < e ∧ ChainV e rest)

theorem cleanCfg_spec (m : RawMinter) (c : Cfg) (h : cleanCfg m = some c) :
    match c with
    | .noMint => True
    | .lin a => 0 ≤ a ∧ m.endT.isSome
    | .exp a step mult => 0 < a ∧ 0 < step ∧ 0 ≤ mult := by
  unfold cleanCfg at h
  split at h
  · cases h
  · cases h
  · cases h; trivial
  · split at h
    · cases h
    · split at h
      · cases h
      · split at h
        · cases h
        · cases h
          rename_i hnone _ _ hneg
          refine ⟨by omega, ?_⟩
          cases he : m.endT <;> simp_all
  · split at h
    · cases h
    · split at h
      · cases h
      · split at h
        · cases h
        · split at h
          · cases h
          · split at h
            · cases h
            · split at h
              · cases h
              · cases h
                refine ⟨by omega, by omega, by omega⟩

theorem validateLoop_spec : ∀ (l : List RawMinter) (multi : Bool) (id : Nat) (prevEnd : Int) (ms : List M),
    (l.length > 1 → multi = true) →
    validateLoop multi id prevEnd l = some ms →
    ms.length = l.length ∧ Consec ms ∧ ChainV prevEnd ms ∧
    (∀ m rest, ms = m :: rest → (if id = 0 then 0 < m.seq else m.seq = id + 1)) := by
  intro l
  induction l with
  | nil =>
    intro multi id prevEnd ms _ h
    simp [validateLoop] at h; subst h
    exact ⟨rfl, trivial, trivial, by intro m rest hm; cases hm⟩
  | cons r rest ih =>
    intro multi id prevEnd ms hmulti h
    unfold validateLoop at h
    by_cases hid : idBad id r.seq = true
    · rw [if_pos hid] at h; cases h
    · rw [if_neg hid] at h
      by_cases hl1 : endExistBad rest.isEmpty r.endT = true
      · rw [if_pos hl1] at h; cases h
      · rw [if_neg hl1] at h
        by_cases hv : endValueBad multi rest.isEmpty r.endT prevEnd = true
        · rw [if_pos hv] at h; cases h
        · rw [if_neg hv] at h
          cases hc : cleanCfg r with
          | none => rw [hc] at h; cases h
          | some c =>
            rw [hc] at h
            simp only [] at h
            cases hrec : validateLoop multi r.seq (r.endT.getD prevEnd) rest with
            | none => rw [hrec] at h; cases h
            | some ms' =>
              rw [hrec] at h
              cases h
              have hm' : rest.length > 1 → multi = true := by
                intro hl; exact hmulti (by simp; omega)
              obtain ⟨i1, i2, i3, i4⟩ := ih multi r.seq (r.endT.getD prevEnd) ms' hm' hrec
              have hcs := cleanCfg_spec r c hc
              have hseq : (if id = 0 then 0 < r.seq else r.seq = id + 1) := by
                unfold idBad at hid
                by_cases h0 : id = 0
                · simp only [h0, if_true] at hid ⊢
                  have : ¬ r.seq = 0 := by simpa using hid
                  omega
                · simp only [h0, if_false] at hid ⊢; simpa using hid
              have hrpos : 0 < r.seq := by
                by_cases h0 : id = 0
                · simp only [h0, if_true] at hseq; exact hseq
                · simp only [h0, if_false] at hseq; omega
              refine ⟨by simp [i1], ?_, ?_, ?_⟩
              · -- consecutive ids
                cases hms : ms' with
                | nil => trivial
                | cons b bs =>
                  have := i4 b bs hms
                  have hne : ¬ r.seq = 0 := by omega
                  simp only [hne, if_false] at this
                  exact ⟨this, hms ▸ i2⟩
              · -- chain
                refine ⟨?_, ?_⟩
                · cases c with
                  | noMint => trivial
                  | lin a => exact hcs
                  | exp a step mult => exact hcs
                unfold endExistBad at hl1
                cases he : r.endT with
                | none =>
                  simp only []
                  cases hrest : rest with
                  | nil => simp [hrest] at i1; exact i1
                  | cons x xs => simp [hrest, he] at hl1
                | some e =>
                  simp only []
                  cases hrest : rest with
                  | nil => simp [hrest, he] at hl1
                  | cons x xs =>
                    have hne : ms' ≠ [] := by
                      intro hnil; rw [hnil, hrest] at i1; simp at i1
                    have hmt : multi = true := hmulti (by simp [hrest])
                    have hgt : prevEnd < e := by
                      unfold endValueBad at hv
                      simp [hmt, hrest, he] at hv
                      omega
                    refine ⟨hne, hgt, ?_⟩
                    simpa [he] using i3
              · intro m rest' hm; cases hm; exact hseq

/-- linear periods span at least one millisecond (not checked by validation; C10's "periods of at
    least one second" implies it) -/
def Sane : Int → List M → Prop
  | _, [] => True
  | start, m :: rest =>
    (match m.cfg, m.endT with
     | .lin _, some e => ms start < ms e
     | _, _ => True) ∧
    (match m.endT with
     | none => True
     | some e => Sane e rest)

theorem chainV_to_cfgOk : ∀ (l : List M) (start : Int), l ≠ [] → ChainV start l → Sane start l →
    (match l with | [] => False | m :: rest => CfgOk m start ∧ match m.endT with | none => rest = [] | some e => rest ≠ [] ∧ ChainV e rest ∧ Sane e rest) := by
  intro l start hne hc hs
  cases l with
  | nil => exact absurd rfl hne
  | cons m rest =>
    obtain ⟨hcfg, hend⟩ := hc
    obtain ⟨hs1, hs2⟩ := hs
    simp only []
    refine ⟨⟨?_, ?_⟩, ?_⟩
    · intro e he; rw [he] at hend; exact hend.2.1
    · cases hm : m.cfg with
      | noMint => trivial
      | lin a =>
        rw [hm] at hcfg hs1
        obtain ⟨ha, hsome⟩ := hcfg
        cases he : m.endT with
        | none => rw [he] at hsome; cases hsome
        | some e => rw [he] at hs1; exact ⟨ha, e, rfl, hs1⟩
      | exp a step mult =>
        rw [hm] at hcfg
        exact ⟨by omega, hcfg.2.1, hcfg.2.2⟩
    · cases he : m.endT with
      | none => rw [he] at hend; exact hend
      | some e => rw [he] at hend hs2; exact ⟨hend.1, hend.2.2, hs2⟩

theorem insertBy_length {α} (lt : α → α → Bool) (x : α) : ∀ l : List α, (insertBy lt x l).length = l.length + 1
  | [] => rfl
  | y :: ys => by
    unfold insertBy
    split
    · rfl
    · simp [insertBy_length lt x ys]

theorem sortBy_length {α} (lt : α → α → Bool) : ∀ l : List α, (sortBy lt l).length = l.length
  | [] => rfl
  | x :: xs => by
    unfold sortBy
    simp only [List.foldr_cons]
    rw [insertBy_length]
    have := sortBy_length lt xs
    unfold sortBy at this
    rw [this]; rfl

/-- what `Params.Validate` accepting the raw parameters gives about the stored ones -/
theorem validate_spec (raw : RawParams) (p : Params) (h : validate raw = some p) :
    p.start = raw.start ∧ validDenom p.denom = true ∧ p.minters ≠ [] ∧ Consec p.minters ∧ ChainV p.start p.minters := by
  unfold validate at h
  split at h
  · cases h
  · split at h
    · cases h
    · rename_i hden
      split at h
      · cases h
      · rename_i ms hms
        cases h
        unfold validateMinters at hms
        split at hms
        · cases hms
        · rename_i hlen
          split at hms
          · cases hms
          · simp only [] at hms
            obtain ⟨i1, i2, i3, _⟩ := validateLoop_spec (sortMinters raw.minters) _ 0 raw.start ms (by intro hl; simpa using hl) hms
            have hl : (sortMinters raw.minters).length = raw.minters.length := sortBy_length _ _
            refine ⟨rfl, by simpa using hden, ?_, i2, i3⟩
            intro hnil
            have hnil' : ms = [] := hnil
            rw [hnil'] at i1
            simp at i1
            omega

end C4E.Minter
