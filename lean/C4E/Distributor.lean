/-
  C4E.Distributor — executable model of x/cfedistributor (types/sub_distributor.go, types/state.go,
  keeper/distribution.go, abci.go, keeper/msg_server_update_params.go, genesis.go), as repaired by
  the `fix:` commits D4, D6, D7, D8, D12, D21, D24 (DESIGN §2).  Accounts are resolved to bank
  addresses so that two configuration entries naming the same address are representable.
-/
import C4E.Coins
namespace C4E.Distr
open C4E C4E.CoinList

def tMain := "MAIN"
def tModule := "MODULE_ACCOUNT"
def tBase := "BASE_ACCOUNT"
def tInternal := "INTERNAL_ACCOUNT"
def mainModule := "distributor_main_account"
def burnStateKey := "burn_state_key"

/-- `types.Account`; `bech32Ok` is the SDK's verdict on `id` as a bech32 address (DESIGN §8) -/
structure Account where
  id : String
  type : String
  bech32Ok : Bool := false
deriving Repr, DecidableEq, Inhabited

structure Share where
  isNil : Bool := false
  name : String
  share : Option Int          -- sdk.Dec, none = nil Dec
  dest : Account
deriving Repr, DecidableEq, Inhabited

structure SubD where
  name : String
  sources : List (Option Account)   -- none = nil pointer in the slice
  primary : Account
  burnShare : Option Int
  shares : List Share
deriving Repr, DecidableEq, Inhabited

/-- `types.State` -/
structure DState where
  account : Option Account
  burn : Bool
  remains : DecCoins
deriving Repr, DecidableEq, Inhabited

/-- module-account table (from `maccPerms`): name ↦ (address, permissions) -/
structure ModInfo where
  name : String
  addr : String
  burner : Bool
deriving Repr, DecidableEq, Inhabited

structure Env where
  modules : List ModInfo
  blocked : List String        -- addresses that cannot receive SendCoinsFromModuleToAccount
deriving Repr, Inhabited

def Env.modAddr? (e : Env) (name : String) : Option String :=
  (e.modules.find? (·.name = name)).map (·.addr)
def Env.mainAddr (e : Env) : String := (e.modAddr? mainModule).getD ""

/-! ## validation -/

/-- the bank address behind a BASE_ACCOUNT id: bech32 admits an all-upper-case spelling of the same
    address, the SDK decodes both to the same account -/
def canonAddr (id : String) : String := id.toLower

/-- `Account.Validate` (with the D21 repair: no alias of the main account) -/
def accountValid (e : Env) (a : Account) : Bool :=
  if a.type = tMain then true
  else if a.type = tInternal then a.id ≠ ""
  else if a.type = tBase then a.bech32Ok && canonAddr a.id ≠ e.mainAddr
  else if a.type = tModule then (e.modAddr? a.id).isSome && a.id ≠ mainModule
  else false

def decInShareRange (d : Option Int) : Bool :=
  match d with
  | none => false
  | some v => !(v ≥ P) && !(v < 0)

/-- `Destinations.Validate` -/
def destsValid (e : Env) (s : SubD) : Bool :=
  decInShareRange s.burnShare &&
  s.shares.all (fun sh => !sh.isNil && sh.name ≠ "" && sh.name ≠ s.name ++ "_primary" &&
                          decInShareRange sh.share && accountValid e sh.dest) &&
  accountValid e s.primary &&
  (let sum := s.shares.foldl (fun acc sh => acc + sh.share.getD 0) (s.burnShare.getD 0)
   !(sum ≥ P) && !(sum < 0))

/-- `SubDistributor.Validate` -/
def subValid (e : Env) (s : SubD) : Bool :=
  s.name ≠ "" && destsValid e s && s.sources.length ≥ 1 &&
  s.sources.all (fun a => match a with | none => false | some a => accountValid e a)

def occId (a : Account) : String := if a.type = tMain then tMain else a.type ++ "-" ++ a.id
def positionValidatable (t : String) : Bool := t = tInternal || t = tMain

structure OccSt where
  last : AList String := []        -- lastOccurrence: id ↦ "SOURCE" | "DESTINATION"
  lastIdx : AList Nat := []        -- lastOccurrenceIndex
  subNames : List String := []
  shareNames : List String := []
deriving Inhabited

def setOccurrence (o : OccSt) (a : Account) (pos : Nat) (kind : String) : Option OccSt :=
  let id := occId a
  if (o.lastIdx.get? id).getD 0 = pos + 1 then none else
  let last := if positionValidatable a.type then o.last.set id kind else o.last
  some { o with last := last, lastIdx := o.lastIdx.set id (pos + 1) }

/-- the source loop of one `ValidateSubDistributors` iteration -/
def occSources (pos : Nat) : OccSt → List Account → Option OccSt
  | o, [] => some o
  | o, a :: rest =>
    match setOccurrence o a pos "SOURCE" with
    | none => none
    | some o' => occSources pos o' rest

/-- the share loop of one iteration (share names must be unique across the whole list) -/
def occShares (pos : Nat) : OccSt → List Share → Option OccSt
  | o, [] => some o
  | o, sh :: rest =>
    if o.shareNames.contains sh.name then none else
    match setOccurrence { o with shareNames := sh.name :: o.shareNames } sh.dest pos "DESTINATION" with
    | none => none
    | some o' => occShares pos o' rest

/-- one iteration of the loop in `ValidateSubDistributors` -/
def occStep (o : OccSt) (i : Nat) (s : SubD) : Option OccSt :=
  if o.subNames.contains s.name then none else
  match occSources i { o with subNames := s.name :: o.subNames } (s.sources.filterMap id) with
  | none => none
  | some o1 =>
    match setOccurrence o1 s.primary i "DESTINATION" with
    | none => none
    | some o2 =>
      if o2.shareNames.contains (s.name ++ "_primary") then none else
      occShares i { o2 with shareNames := (s.name ++ "_primary") :: o2.shareNames } s.shares

def occLoop : OccSt → Nat → List SubD → Option OccSt
  | o, _, [] => some o
  | o, i, s :: rest => match occStep o i s with
    | none => none
    | some o' => occLoop o' (i + 1) rest

/-- `ValidateSubDistributors` (accept/reject; the error text is not modelled) -/
def orderValid (subs : List SubD) : Bool :=
  match occLoop {} 0 subs with
  | none => false
  | some o => (o.last.get? tMain).getD "" ≠ "" && o.last.all (fun kv => kv.2 = "SOURCE")

/-- `Params.Validate` -/
def paramsValid (e : Env) (subs : List SubD) : Bool :=
  subs.all (subValid e) && orderValid subs

/-! ## bank slice -/

structure Bank where
  bal : AList Coins := []
  burned : Coins := []        -- cumulative burns (supply decrease)
  locked : AList Coins := []  -- `LockedCoins` per address (vesting accounts); absent = nothing locked
deriving Repr, Inhabited

def Bank.balance (b : Bank) (addr : String) : Coins := (b.bal.get? addr).getD []
def Bank.lockedOf (b : Bank) (addr : String) : Coins := (b.locked.get? addr).getD []

/-- every coin of `c` is covered by what `src` can spend (balance minus locked) -/
def Bank.spendableCovers (b : Bank) (src : String) (c : Coins) : Bool :=
  c.all (fun kv => amountOf (b.balance src) kv.1 - amountOf (b.lockedOf src) kv.1 ≥ kv.2)

/-- `SendCoins`: fails (err) when the spendable balance does not cover the amount -/
def Bank.send (b : Bank) (src dst : String) (c : Coins) : Option Bank :=
  let sb := b.balance src
  if !b.spendableCovers src c then none else
  let b1 := b.bal.set src (CoinList.add sb (neg c))
  let db := (b1.get? dst).getD []
  some { b with bal := b1.set dst (CoinList.add db c) }

def Bank.burn (b : Bank) (src : String) (c : Coins) : Option Bank :=
  let sb := b.balance src
  if !covers sb c then none else
  some { b with bal := b.bal.set src (CoinList.add sb (neg c)), burned := CoinList.add b.burned c }

/-! ## BeginBlocker -/

inductive Event where
  | distribution (sub shareName : String) (amount : DecCoins)
  | burn (sub : String) (amount : DecCoins)
deriving Repr, DecidableEq, Inhabited

structure World where
  bank : Bank := {}
  states : List DState := []      -- store order (sorted by key) between blocks
  callIdx : Nat := 0              -- bank-call counter within the block (fault oracle index)
  faults : List Nat := []         -- indices of bank calls that fail in this block
deriving Repr, Inhabited

/-- the fault oracle's verdict on the next bank call, and the counter advanced past it -/
def World.faulty (w : World) : Bool := w.faults.contains w.callIdx
def World.tick (w : World) : World := { w with callIdx := w.callIdx + 1 }

/-- `findAccountState` (D8 repair: type and id); panics (none) on a nil account -/
def findAccountState : List DState → Account → Nat → Outcome (Option Nat)
  | [], _, _ => .ok none
  | s :: rest, a, i =>
    match s.account with
    | none => .panic
    | some sa => if sa.id = a.id && sa.type = a.type then .ok (some i) else findAccountState rest a (i + 1)

def findBurnState : List DState → Nat → Option Nat
  | [], _ => none
  | s :: rest, i => if s.burn then some i else findBurnState rest (i + 1)

def getRemainsSum (sts : List DState) : DecCoins :=
  sts.foldl (fun acc s => CoinList.add acc s.remains) []

def modifyNth {α} (l : List α) (n : Nat) (f : α → α) : List α :=
  match l, n with
  | [], _ => []
  | x :: xs, 0 => f x :: xs
  | x :: xs, n + 1 => x :: modifyNth xs n f

/-- `prepareLeftCoinToDistribute` -/
def prepareLeft (coins : DecCoins) (src : Account) (sts : List DState) : Outcome (DecCoins × List DState) :=
  match findAccountState sts src 0 with
  | .panic => .panic
  | .err => .err
  | .ok none => .ok (coins, sts)
  | .ok (some pos) =>
    let rem := (sts.getD pos default).remains
    if !isZero rem then .ok (CoinList.add coins rem, modifyNth sts pos (fun s => { s with remains := [] }))
    else .ok (coins, sts)

/-- `prepareCoinToDistributeForMainAccount` -/
def prepareMain (e : Env) (w : World) : Outcome DecCoins :=
  let coins := toDec (w.bank.balance e.mainAddr)
  if coins.length > 0 then
    match sub? coins (getRemainsSum w.states) with
    | none => .panic
    | some c => .ok c
  else .ok coins

/-- sweep the whole balance of `addr` into the main account (one bank call, unless there is
    nothing to sweep); on an injected fault or a bank error nothing moves -/
def sweep (e : Env) (w : World) (addr : String) : DecCoins × World :=
  if (w.bank.balance addr).length > 0 then
    if w.faulty then ([], w.tick) else
    match w.bank.send addr e.mainAddr (w.bank.balance addr) with
    | none => ([], w.tick)
    | some b => (toDec (w.bank.balance addr), { w.tick with bank := b })
  else ([], w)

/-- `prepareCoinToDistributeForNotMainAccount` -/
def prepareNotMain (e : Env) (w : World) (src : Account) : Outcome (DecCoins × World) :=
  let swept : Outcome (DecCoins × World) :=
    if src.type = tModule then
      match e.modAddr? src.id with
      | none => .panic          -- GetModuleAccount(...) == nil → nil dereference
      | some addr => .ok (sweep e w addr)
    else if src.type ≠ tInternal then .ok (sweep e w (canonAddr src.id))
    else .ok ([], w)
  match swept with
  | .ok (c, w1) =>
    match prepareLeft c src w1.states with
    | .ok (c2, sts) => .ok (c2, { w1 with states := sts })
    | .err => .err
    | .panic => .panic
  | .err => .err
  | .panic => .panic

/-- first pass of `PrepareCoinsToDistribute` (D6 repair): MAIN sources are evaluated before any sweep -/
def prepMainPart (e : Env) (w : World) : List Account → DecCoins → Outcome DecCoins
  | [], all => .ok all
  | s :: rest, all =>
    if s.type = tMain then
      match prepareMain e w with
      | .ok c => prepMainPart e w rest (CoinList.add all c)
      | .err => .err
      | .panic => .panic
    else prepMainPart e w rest all

/-- second pass: every other source is swept / its remains re-queued, in list order -/
def prepOthersPart (e : Env) : World → List Account → DecCoins → Outcome (DecCoins × World)
  | w, [], all => .ok (all, w)
  | w, s :: rest, all =>
    if s.type ≠ tMain then
      match prepareNotMain e w s with
      | .ok (c, w1) => prepOthersPart e w1 rest (if c.length ≠ 0 then CoinList.add all c else all)
      | .err => .err
      | .panic => .panic
    else prepOthersPart e w rest all

/-- `PrepareCoinsToDistribute` -/
def prepareCoins (e : Env) (w : World) (sources : List Account) : Outcome (DecCoins × World) :=
  match prepMainPart e w sources [] with
  | .ok all => prepOthersPart e w sources all
  | .err => .err
  | .panic => .panic

/-- `calculatePercentage` -/
def calcPercentage (share : Int) (x : DecCoins) : DecCoins :=
  if !isAllPositive x then [] else mulDecTruncate x share

/-- `addSharesToState` for an account destination -/
def addToAccountState (sts : List DState) (a : Account) (c : DecCoins) : Outcome (List DState) :=
  match findAccountState sts a 0 with
  | .panic => .panic
  | .err => .err
  | .ok (some pos) => .ok (modifyNth sts pos (fun s => { s with remains := CoinList.add s.remains c }))
  | .ok none => .ok (sts ++ [{ account := some a, burn := false, remains := CoinList.add [] c }])

def addToBurnState (sts : List DState) (c : DecCoins) : List DState :=
  match findBurnState sts 0 with
  | some pos => modifyNth sts pos (fun s => { s with remains := CoinList.add s.remains c })
  | none => sts ++ [{ account := some { id := "", type := "" }, burn := true, remains := CoinList.add [] c }]

/-- the named-shares loop of `StartDistributionProcess`: `dflt` is what is left for the primary
    share, `evs` the Distribution events so far -/
def distShares (sub : String) (x : DecCoins) : List Share → List DState → DecCoins → List Event →
    Outcome (List DState × DecCoins × List Event)
  | [], sts, dflt, evs => .ok (sts, dflt, evs)
  | sh :: rest, sts, dflt, evs =>
    let c := calcPercentage (sh.share.getD 0) x
    match sub? dflt c with
    | none => .panic
    | some d =>
      if !isZero c then
        if sh.dest.type ≠ tMain then
          match addToAccountState sts sh.dest c with
          | .ok sts' => distShares sub x rest sts' d (evs ++ [Event.distribution sub sh.name c])
          | .err => .err
          | .panic => .panic
        else distShares sub x rest sts d (evs ++ [Event.distribution sub sh.name c])
      else distShares sub x rest sts d evs

/-- `StartDistributionProcess` (D7 and D12 repairs) -/
def startDistribution (sts : List DState) (x : DecCoins) (s : SubD) : Outcome (List DState × List Event) :=
  match distShares s.name x s.shares sts x [] with
  | .err => .err
  | .panic => .panic
  | .ok (sts1, dflt1, evs1) =>
    let c := calcPercentage (s.burnShare.getD 0) x
    match sub? dflt1 c with
    | none => .panic
    | some dflt =>
      let sts2 := if !isZero c then addToBurnState sts1 c else sts1
      let burnEv : List Event := if !isZero c then [Event.burn s.name c] else []
      -- BeginBlocker emits the Distribution events of a sub-distributor first, then its burn event
      let evs := evs1 ++ [Event.distribution s.name (s.name ++ "_primary") dflt] ++ burnEv
      if s.primary.type ≠ tMain then
        match addToAccountState sts2 s.primary dflt with
        | .ok sts3 => .ok (sts3, evs)
        | .err => .err
        | .panic => .panic
      else .ok (sts2, evs)

def stateKey (s : DState) : String :=
  match s.account with
  | some a => if a.id ≠ "" && a.type ≠ "" then a.type ++ "-" ++ a.id else burnStateKey
  | none => burnStateKey

/-- `SendCoinsFromStates` for one state: returns the state as stored -/
def payoutOne (e : Env) (w : World) (s : DState) : Outcome (DState × World) :=
  match s.account with
  | none => .panic
  | some a =>
    if a.type ≠ tInternal && anyGTE1 s.remains then
      let toSend := (truncateDecimal s.remains).1
      let change := (truncateDecimal s.remains).2
      if s.burn then
        if w.faulty then .ok (s, w.tick) else
        if !((e.modules.find? (·.name = mainModule)).map (·.burner)).getD false then .panic else
        match w.bank.burn e.mainAddr toSend with
        | none => .ok (s, w.tick)
        | some b => .ok ({ s with remains := change }, { w.tick with bank := b })
      else if a.type = tModule then
        if w.faulty then .ok (s, w.tick) else
        match e.modAddr? a.id with
        | none => .panic
        | some addr =>
          match w.bank.send e.mainAddr addr toSend with
          | none => .ok (s, w.tick)
          | some b => .ok ({ s with remains := change }, { w.tick with bank := b })
      else
        if !a.bech32Ok then .ok (s, w) else
        if w.faulty then .ok (s, w.tick) else
        if e.blocked.contains (canonAddr a.id) then .ok (s, w.tick) else
        match w.bank.send e.mainAddr (canonAddr a.id) toSend with
        | none => .ok (s, w.tick)
        | some b => .ok ({ s with remains := change }, { w.tick with bank := b })
    else .ok (s, w)

/-- store write: `SetState` per state in list order, store kept sorted by key -/
def storeStates (sts : List DState) : List DState :=
  let put (store : List DState) (s : DState) : List DState :=
    insertBy (fun a b => stateKey a < stateKey b) s (store.filter (fun t => stateKey t ≠ stateKey s))
  sts.foldl put []

structure BlockRes where
  world : World
  events : List Event
deriving Inhabited

/-- the sub-distributor loop of `BeginBlocker` -/
def subsLoop (e : Env) : List SubD → World → List Event → Outcome (World × List Event)
  | [], w, evs => .ok (w, evs)
  | s :: rest, w, evs =>
    match prepareCoins e w (s.sources.filterMap id) with
    | .ok (coins, w1) =>
      if !isZero coins then
        match startDistribution w1.states coins s with
        | .ok (sts, ev) => subsLoop e rest { w1 with states := sts } (evs ++ ev)
        | .err => .err
        | .panic => .panic
      else subsLoop e rest w1 evs
    | .err => .err
    | .panic => .panic

/-- `SendCoinsFromStates`: every state in list order; the stored state is what `payoutOne` returns -/
def payoutLoop (e : Env) : List DState → World → List DState → Outcome (World × List DState)
  | [], w, stored => .ok (w, stored)
  | s :: rest, w, stored =>
    match payoutOne e w s with
    | .ok (s', w1) => payoutLoop e rest w1 (stored ++ [s'])
    | .err => .err
    | .panic => .panic

/-- `BeginBlocker` -/
def beginBlock (e : Env) (subs : List SubD) (w0 : World) (faults : List Nat) : Outcome BlockRes :=
  match subsLoop e subs { w0 with callIdx := 0, faults := faults } [] with
  | .ok (w, evs) =>
    match payoutLoop e w.states w [] with
    | .ok (w2, stored) => .ok { world := { w2 with states := storeStates stored }, events := evs }
    | .err => .err
    | .panic => .panic
  | .err => .err
  | .panic => .panic

/-! ## invariants as decidable predicates (the two registered invariants) -/

def nonNegativeStates (sts : List DState) : Bool :=
  sts.all (fun s => !isAnyNegative s.remains)

def stateSumMatchesBalance (e : Env) (w : World) : Bool :=
  let sum := getRemainsSum w.states
  let (ints, change) := truncateDecimal sum
  isZero change &&
  (let bal := w.bank.balance e.mainAddr
   (isZero ints && isZero bal) || (nz ints == nz bal))

/-! ## the environment facts the whole-block theorems assume, as evaluable checks -/

/-- only `distributor_main_account` resolves to the main address, no module is named "", and the
    main module may burn (facts about `maccPerms` / `NewModuleAddress`) -/
def envOkB (e : Env) : Bool :=
  e.modules.all (fun m => m.addr ≠ e.mainAddr || m.name = mainModule) && (e.modAddr? "").isNone &&
  (((e.modules.find? (·.name = mainModule)).map (·.burner)).getD false)

/-- no destination flagged as valid bech32 has the empty id -/
def bech32FactsB (subs : List SubD) : Bool :=
  subs.all (fun s => s.shares.all (fun sh => !sh.dest.bech32Ok || sh.dest.id ≠ "") && (!s.primary.bech32Ok || s.primary.id ≠ ""))

/-! ## genesis (types/state.go `State.Validate`, types/genesis.go `GenesisState.Validate`, genesis.go `InitGenesis`) -/

/-- `State.Validate`, with the D36 repair: a non-burn state whose store key would be the burn
    state's key (empty account id or type) is rejected -/
def stateValid (s : DState) : Bool :=
  (if s.burn then s.account.isNone else s.account.isSome) && !isAnyNegative s.remains &&
  (s.burn || stateKey s ≠ burnStateKey)

/-- `GenesisState.Validate`: every state validates, the states sum to whole coins, the parameters validate -/
def genesisValid (e : Env) (subs : List SubD) (states : List DState) : Bool :=
  states.all stateValid && isZero (truncateDecimal (getRemainsSum states)).2 && paramsValid e subs

/-- `InitGenesis`: the burn state's dropped account is restored (D4), every state is written under its key -/
def initStates (states : List DState) : List DState :=
  storeStates (states.map fun s => if s.burn && s.account.isNone then { s with account := some { id := "", type := "" } } else s)

/-! ## parameter updates (keeper/msg_server_update_params.go + ValidateBasic) -/

/-- `MsgUpdateParams`: returns the new stored list or none (rejected, nothing changes) -/
def updateFull (e : Env) (authOk : Bool) (newSubs : List SubD) : Option (List SubD) :=
  if !authOk then none else if paramsValid e newSubs then some newSubs else none

/-- `MsgUpdateSubDistributorParam` (`sub = none` is the nil pointer, rejected since D10) -/
def updateSub (e : Env) (authOk : Bool) (stored : List SubD) (sub : Option SubD) : Option (List SubD) :=
  if !authOk then none else
  match sub with
  | none => none
  | some sd =>
    if !subValid e sd then none else          -- ValidateBasic
    if !(stored.any (·.name = sd.name)) then none else
    -- the first sub-distributor with that name is replaced
    let rec repl : List SubD → List SubD
      | [] => []
      | x :: xs => if x.name = sd.name then sd :: xs else x :: repl xs
    let ns := repl stored
    if paramsValid e ns then some ns else none

/-- `MsgUpdateSubDistributorDestinationShareParam`: the FIRST share with that name in any
    sub-distributor is updated (the sub-distributor name in the message is only checked non-empty) -/
def updateShare (e : Env) (authOk : Bool) (stored : List SubD) (subName destName : String) (share : Option Int) : Option (List SubD) :=
  if !authOk then none else
  if subName = "" || destName = "" || !decInShareRange share then none else     -- ValidateBasic
  let rec go : List SubD → Option (List SubD)
    | [] => none
    | x :: xs =>
      if x.shares.any (fun sh => !sh.isNil && sh.name = destName) then
        let rec upd : List Share → List Share
          | [] => []
          | sh :: rest => if sh.name = destName then { sh with share := share } :: rest else sh :: upd rest
        some ({ x with shares := upd x.shares } :: xs)
      else (go xs).map (x :: ·)
  match go stored with
  | none => none
  | some ns => if paramsValid e ns then some ns else none

/-- `MsgUpdateSubDistributorBurnShareParam` -/
def updateBurn (e : Env) (authOk : Bool) (stored : List SubD) (subName : String) (burn : Option Int) : Option (List SubD) :=
  if !authOk then none else
  if subName = "" || !decInShareRange burn then none else     -- ValidateBasic
  if !(stored.any (·.name = subName)) then none else
  let rec repl : List SubD → List SubD
    | [] => []
    | x :: xs => if x.name = subName then { x with burnShare := burn } :: xs else x :: repl xs
  let ns := repl stored
  if paramsValid e ns then some ns else none

end C4E.Distr
