/-
  C16 (continued) — the validators-pool split as a whole (`ModifyVestingPoolsState`): when it is
  applied, the owner's pools keep their total locked value and their total sent / withdrawn history.
-/
import C4E.Props.C16
namespace C4E.Props.C16
open C4E C4E.Vest C4E.Upgrade

def sumBy (f : Pool → Int) : List Pool → Int
  | [] => 0
  | p :: r => f p + sumBy f r

theorem sumBy_append (f : Pool → Int) (a b : List Pool) : sumBy f (a ++ b) = sumBy f a + sumBy f b := by
  induction a with
  | nil => simp [sumBy]
  | cons x xs ih => simp only [List.cons_append, sumBy, ih]; omega

/-- mapping an index-tagged list with a function that keeps `f` everywhere except at index `idx` -/
theorem sumBy_map_keep (f : Pool → Int) (g : Pool → Pool) (hg : ∀ p, f (g p) = f p) (v4 : Pool) (idx : Nat) :
    ∀ (l : List Pool) (n : Nat), idx < n →
      sumBy f ((l.zipIdx n).map (fun q => if q.2 = idx then v4 else g q.1)) = sumBy f l
  | [], _, _ => rfl
  | x :: xs, n, h => by
    rw [List.zipIdx_cons, List.map_cons]
    have hne : ¬ n = idx := by omega
    simp only [sumBy, hne, if_false, hg]
    rw [sumBy_map_keep f g hg v4 idx xs (n + 1) (by omega)]

theorem sumBy_map_replace (f : Pool → Int) (g : Pool → Pool) (hg : ∀ p, f (g p) = f p) (v v4 : Pool) (idx : Nat) :
    ∀ (l : List Pool) (n : Nat), (v, idx) ∈ l.zipIdx n →
      sumBy f ((l.zipIdx n).map (fun q => if q.2 = idx then v4 else g q.1)) = sumBy f l - f v + f v4
  | [], n, h => by simp at h
  | x :: xs, n, h => by
    rw [List.zipIdx_cons] at h ⊢
    rw [List.map_cons]
    rcases List.mem_cons.mp h with h1 | h1
    · simp only [Prod.mk.injEq] at h1
      obtain ⟨hv, hi⟩ := h1
      subst hv; subst hi
      simp only [sumBy, if_true]
      rw [sumBy_map_keep f g hg v4 idx xs (idx + 1) (by omega)]
      omega
    · have hle := (List.mk_mem_zipIdx_iff_le_and_getElem?_sub.mp h1).1
      have hne : ¬ n = idx := by omega
      simp only [sumBy, hne, if_false, hg]
      rw [sumBy_map_replace f g hg v v4 idx xs (n + 1) h1]
      omega

/-- **the validators-pool split as a whole**: when `ModifyVestingPoolsState` changes the owner's
    pools at all (`some`), the total currently locked over all of the owner's pools, the total ever
    sent and the total ever withdrawn are exactly what they were — the split only moves locked value
    from the validators pool into four fresh pools; when its pre-check fails it changes nothing (`none`) -/
theorem modifyPools_preserves_totals (vts vts' : List VType) (ps ps' : List Pool) (les : Int × Int × Int × Int)
    (h : modifyPools vts ps les = some (vts', ps')) :
    sumBy Pool.locked ps' = sumBy Pool.locked ps ∧ sumBy (·.sent) ps' = sumBy (·.sent) ps ∧
    sumBy (·.withdrawn) ps' = sumBy (·.withdrawn) ps := by
  unfold modifyPools at h
  split at h
  · cases h
  · rename_i v idx hlast
    have hmem : (v, idx) ∈ ps.zipIdx 0 := by
      have := List.mem_of_getLast? hlast
      exact (List.mem_filter.mp this).1
    split at h
    · cases h
    · split at h
      · cases h
      · rename_i vt _
        simp only [] at h
        split at h
        · cases h
        · rename_i v1 p1 e1
          split at h
          · cases h
          · rename_i v2 p2 e2
            split at h
            · cases h
            · rename_i v3 p3 e3
              split at h
              · cases h
              · rename_i v4 p4 e4
                simp only [Option.some.injEq, Prod.mk.injEq] at h
                obtain ⟨_, hps⟩ := h
                subst hps
                have c1 := splitOne_conserves _ v1 p1 _ _ _ _ e1
                have c2 := splitOne_conserves _ v2 p2 _ _ _ _ e2
                have c3 := splitOne_conserves _ v3 p3 _ _ _ _ e3
                have c4 := splitOne_conserves _ v4 p4 _ _ _ _ e4
                have hv0l : ({ v with name := validatorRoundPool, vtype := validatorRoundType, genesisPool := true } : Pool).locked = v.locked := rfl
                have key : ∀ (f : Pool → Int), (∀ p : Pool, f { p with genesisPool := true } = f p) →
                    sumBy f ((ps.zipIdx 0).map (fun q => if q.2 = idx then v4 else if q.1.name = advisorsPoolName then { q.1 with genesisPool := true } else q.1))
                      = sumBy f ps - f v + f v4 := by
                  intro f hf
                  exact sumBy_map_replace f (fun p => if p.name = advisorsPoolName then { p with genesisPool := true } else p)
                    (by intro p; split <;> simp [hf]) v v4 idx ps 0 hmem
                refine ⟨?_, ?_, ?_⟩
                · rw [sumBy_append, key Pool.locked (fun p => rfl)]
                  simp only [sumBy]
                  omega
                · rw [sumBy_append, key (·.sent) (fun p => rfl)]
                  simp only [sumBy]
                  have : ({ v with name := validatorRoundPool, vtype := validatorRoundType, genesisPool := true } : Pool).sent = v.sent := rfl
                  omega
                · rw [sumBy_append, key (·.withdrawn) (fun p => rfl)]
                  simp only [sumBy]
                  have : ({ v with name := validatorRoundPool, vtype := validatorRoundType, genesisPool := true } : Pool).withdrawn = v.withdrawn := rfl
                  omega

end C4E.Props.C16
