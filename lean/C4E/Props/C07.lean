/-
  C07 — Split/move of vesting is exact and preserves the release schedule.

  Single-denomination arithmetic of `UnlockUnbondedContinuousVestingAccountCoins` (D1 repaired:
  integer division).  `s` is the SDK's 18-digit vesting scalar x/y (a Dec in [0,1)), so the
  theorem covers every start / end / block time strictly inside the schedule.
-/
import C4E.Vesting
import C4E.Lemmas.SplitArith
namespace C4E.Props.C07
open C4E C4E.Vest

/-- still-vesting amount of an original vesting `ov` at scalar `s` (GetVestingCoins, one denom) -/
def vestingAmt (ov s : Int) : Int := ov - Dec.roundInt (Dec.mul (Dec.ofInt ov) s)

/-- new original vesting of the sender after unlocking `u` (the loop body of the Go function) -/
def newOV (ov u s : Int) : Int :=
  let vg := vestingAmt ov s
  let diff := (u * ov).tdiv vg
  let ov1 := ov - diff
  if vg - vestingAmt ov1 s < u then ov1 - 1 else ov1

theorem mul_ofInt_exact (ov s : Int) (h1 : 0 ≤ ov) (h2 : 0 ≤ s) : Dec.mul (Dec.ofInt ov) s = ov * s := by
  unfold Dec.mul Dec.ofInt Dec.chopRound
  have hnn : ¬ (ov * P * s < 0) := by
    have := Int.mul_nonneg (Int.mul_nonneg h1 (Int.le_of_lt P_pos)) h2; omega
  rw [if_neg hnn]
  have hdiv : (ov * P * s) % P = 0 := by
    have : ov * P * s = P * (ov * s) := by rw [Int.mul_comm ov P, Int.mul_assoc]
    rw [this]; exact Int.mul_emod_right _ _
  have hq : (ov * P * s) / P = ov * s := by
    have : ov * P * s = (ov * s) * P := by rw [Int.mul_assoc, Int.mul_comm P s, ← Int.mul_assoc]
    rw [this]; exact Int.mul_ediv_cancel _ (Int.ne_of_gt P_pos)
  unfold Dec.roundNonneg
  simp only [hdiv, if_true, hq]

theorem vestingAmt_eq (ov s : Int) (h1 : 0 ≤ ov) (h2 : 0 ≤ s) :
    vestingAmt ov s = ov - Dec.chopRound (ov * s) := by
  unfold vestingAmt Dec.roundInt; rw [mul_ofInt_exact ov s h1 h2]

/-- **C07 unlock_exact.** For every original vesting ≥ 1, every vesting scalar in [0,1) and every
    amount 1 ≤ u ≤ still-vesting, the sender's still-vesting coins go down by exactly `u`, and
    the new original vesting is non-negative (no `Coins.Sub` panic). -/
theorem unlock_exact (ov u s : Int) (hs0 : 0 ≤ s) (hs1 : s < P) (hov : 1 ≤ ov) (hu : 1 ≤ u)
    (huv : u ≤ vestingAmt ov s) :
    vestingAmt ov s - vestingAmt (newOV ov u s) s = u ∧ 0 ≤ newOV ov u s := by
  have hov0 : 0 ≤ ov := by omega
  rw [vestingAmt_eq ov s hov0 hs0] at huv
  obtain ⟨ha1, ha2⟩ := Dec.chopRound_bounds (ov * s)
  generalize ha : Dec.chopRound (ov * s) = a at *
  have hvc : 0 < ov - a := by omega
  -- the integer quotient
  have hnum : 0 ≤ u * ov := Int.mul_nonneg (by omega) hov0
  have hd_eq : (u * ov).tdiv (ov - a) = (u * ov) / (ov - a) := Int.tdiv_eq_ediv_of_nonneg hnum
  have hd0 : 0 ≤ (u * ov) / (ov - a) := Int.ediv_nonneg hnum (Int.le_of_lt hvc)
  have hd1 : (u * ov) / (ov - a) * (ov - a) ≤ u * ov := Int.ediv_mul_le _ (Int.ne_of_gt hvc)
  have hd2 : u * ov < ((u * ov) / (ov - a) + 1) * (ov - a) := Int.lt_ediv_add_one_mul_self _ hvc
  generalize hd : (u * ov) / (ov - a) = d at *
  have hdle : d ≤ ov := SplitArith.quot_le ov u (ov - a) d hvc huv hov0 hd1
  have hov1 : 0 ≤ ov - d := by omega
  obtain ⟨hb1, hb2⟩ := Dec.chopRound_bounds ((ov - d) * s)
  generalize hb : Dec.chopRound ((ov - d) * s) = b at *
  have hle := SplitArith.unlocked_le P s ov u a b d P_pos hs0 hs1 (by linarith) (by linarith) hvc hu huv hd1 hd0
  have hge := SplitArith.unlocked_ge P s ov u a b d P_pos hs0 hs1 (by linarith) (by linarith) hvc hu huv hd2 hd0
  unfold newOV
  simp only []
  rw [vestingAmt_eq ov s hov0 hs0, ha, hd_eq, vestingAmt_eq (ov - d) s hov1 hs0, hb]
  by_cases hc : ov - a - (ov - d - b) < u
  · -- compensation branch: unlocked = u − 1, remove one more unit
    rw [if_pos hc]
    have hun : d - a + b = u - 1 := by omega
    -- ov − d ≥ 1, otherwise b = 0 and everything would be unlocked
    have hov1' : 1 ≤ ov - d := by
      by_contra hcon
      have hz : ov - d = 0 := by omega
      have hb0 : b = 0 := by
        rw [← hb, hz, Int.zero_mul]; decide
      omega
    have hov2 : 0 ≤ ov - d - 1 := by omega
    obtain ⟨hc1, hc2⟩ := Dec.chopRound_bounds ((ov - d - 1) * s)
    have hmono : Dec.chopRound ((ov - d - 1) * s) ≤ Dec.chopRound ((ov - d) * s) := by
      have h1 : 0 ≤ (ov - d - 1) * s := Int.mul_nonneg hov2 hs0
      have h2 : (ov - d - 1) * s ≤ (ov - d) * s := Int.mul_le_mul_of_nonneg_right (by omega) hs0
      have h3 : 0 ≤ (ov - d) * s := by omega
      unfold Dec.chopRound
      rw [if_neg (by omega), if_neg (by omega)]
      exact Dec.roundNonneg_mono h1 h2
    rw [hb] at hmono
    generalize hb' : Dec.chopRound ((ov - d - 1) * s) = b' at *
    have hcomp := SplitArith.unlocked_comp_ge P s ov u a b' d P_pos hs0 hs1 (by linarith) (by linarith) hvc hu huv hd2 hd0
    rw [vestingAmt_eq (ov - d - 1) s hov2 hs0, hb']
    constructor <;> omega
  · rw [if_neg hc]
    rw [vestingAmt_eq (ov - d) s hov1 hs0, hb]
    constructor <;> omega

/-- the recipient is created with original vesting `u`, start = max(now, sender start) and the
    sender's end time (definitional in `splitCoins`); at the split instant its still-vesting
    amount relative to its own schedule is what the SDK formula gives for `u`. -/
theorem recipient_start (senderStart nowS : Int) :
    (if senderStart > nowS then senderStart else nowS) = max nowS senderStart := by
  by_cases h : senderStart > nowS
  · rw [if_pos h]; omega
  · rw [if_neg h]; omega

/-- non-vacuity and the historical defect D1: with the decimal quotient of the unchanged code the
    same input released 6 instead of 5 (OV = 992770448696222202925153 at half time) -/
theorem unlock_exact_nonvacuous :
    vestingAmt 992770448696222202925153 500000000000000000 -
      vestingAmt (newOV 992770448696222202925153 5 500000000000000000) 500000000000000000 = 5 := by
  decide

/-- the unchanged arithmetic (Dec.Quo rounds before TruncateInt) over-released one unit -/
def newOV_orig (ov u s : Int) : Int :=
  let vg := vestingAmt ov s
  let diff := Dec.truncInt (Dec.quo (Dec.mul (Dec.ofInt u) (Dec.ofInt ov)) (Dec.ofInt vg))
  let ov1 := ov - diff
  if vg - vestingAmt ov1 s < u then ov1 - 1 else ov1

theorem orig_over_releases :
    vestingAmt 992770448696222202925153 500000000000000000 -
      vestingAmt (newOV_orig 992770448696222202925153 5 500000000000000000) 500000000000000000 = 6 := by
  decide

end C4E.Props.C07
