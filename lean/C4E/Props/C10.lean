/-
  C10 — Emission and distribution can never halt the chain.

  Proved on the models: the minter's early returns cannot panic; validated minter parameters carry
  a well-formed denom (so `sdk.NewCoin` cannot panic: D23); in the distributor core the quantity
  `main − Σ remains` that `DecCoins.Sub` computes is never negative at any point of any block
  under any fault pattern (so the D6/D21 panic cannot occur); an imported burn state is
  normalised (D4).  The whole-app statement `no_halt_full` stays visible; the monitor
  `beginblock-panic` evaluates it on the real BeginBlockers in every family, under parameter
  updates, injected bank failures and export/import.
-/
import C4E.Minter
import C4E.Distr1
import C4E.Distributor
import C4E.Props.C02
import C4E.Props.C03
import C4E.Lemmas.DistrTotal
import C4E.Lemmas.DistrInvariant
import C4E.App
namespace C4E.Props.C10
open C4E

theorem mint_before_start_ok (p : Minter.Params) (st : Minter.St) (t : Int) (h : t < p.start) :
    Minter.beginBlock p st t = .ok { amount := 0, st := st, hist := [] } := by
  unfold Minter.beginBlock Minter.mint; rw [if_pos h]

theorem mint_not_after_last_ok (p : Minter.Params) (st : Minter.St) (t : Int) (h1 : ¬ t < p.start) (h2 : st.last ≥ t) :
    Minter.beginBlock p st t = .ok { amount := 0, st := st, hist := [] } := by
  unfold Minter.beginBlock Minter.mint; rw [if_neg h1, if_pos h2]

/-- **the minter never halts the chain**: for every parameter set accepted by validation (linear
    periods spanning at least a millisecond), a genesis-like state and every strictly increasing
    sequence of block times, every BeginBlocker call returns normally (no error, no panic) -/
theorem minter_no_halt (raw : Minter.RawParams) (p : Minter.Params) (h : Minter.validate raw = some p)
    (hs : Minter.Sane p.start p.minters) (st : Minter.St) (hg : C02.GenesisLike p st)
    (ts : List Int) (hinc : ts.Pairwise (· < ·)) (hafter : ∀ t ∈ ts, p.start < t) :
    ∃ as st', C02.runBlocks p st ts = some (as, st') := by
  obtain ⟨as, st', h1, _, _⟩ := C02.path_independent p (C02.valid_of_validate raw p h hs) st hg ts hinc hafter
  exact ⟨as, st', h1⟩

/-- accepted parameters always carry a well-formed mint denom (D23) -/
theorem validated_denom (raw : Minter.RawParams) (p : Minter.Params) (h : Minter.validate raw = some p) :
    validDenom p.denom = true := by
  unfold Minter.validate at h
  split at h
  · cases h
  · rename_i h0
    split at h
    · cases h
    · rename_i h1
      split at h
      · cases h
      · cases h; simpa using h1

/-- the malformed denom "!" that the unchanged validation accepted is rejected -/
theorem bad_denom_rejected (start : Int) (ms : List Minter.RawMinter) :
    Minter.validate { denom := "!", start := start, minters := ms } = none := by
  unfold Minter.validate; simp [validDenom, isAlpha]

/-- distributor core: at every point of a block, under every fault pattern, the main balance
    covers the recorded remains — the subtraction in the MAIN-source preparation cannot go negative -/
theorem no_negative_sub (φ : Distr1.Sub → List Bool) (subs : List Distr1.Sub) (w : Distr1.World)
    (h : Distr1.WOk w) (hall : Distr1.allSubOk subs) (hc : Distr1.closed true subs = true) :
    0 ≤ Distr1.U (Distr1.runSubs φ w subs) :=
  (Distr1.runSubs_spec φ subs w true h hall (by intro h; cases h) hc).1.u

theorem substep_no_negative_sub (fails : List Bool) (w : Distr1.World) (sub : Distr1.Sub)
    (h : Distr1.WOk w) (hok : Distr1.subOk sub) : 0 ≤ Distr1.U (Distr1.subStep fails w sub) :=
  (Distr1.subStep_spec fails w sub h hok).1.u

/-- a burn state as imported after the D4 repair never makes the state lookup panic -/
theorem normalised_burn_state_lookup (rem : DecCoins) (a : Distr.Account) :
    Distr.findAccountState [{ account := some { id := "", type := "" }, burn := true, remains := rem }] a 0 ≠ .panic := by
  unfold Distr.findAccountState
  simp only []
  split
  · simp
  · unfold Distr.findAccountState; simp

/-- full statement as first written down (round 0); its bare hypotheses do not exclude ill-formed
    coin lists and states — with the invariant the block maintains (`FullInv`) it is proved below as
    `distributor_block_completes` / `distributor_never_halts` -/
def no_halt_full : Prop :=
  ∀ (e : Distr.Env) (subs : List Distr.SubD) (w : Distr.World) (faults : List Nat),
    Distr.paramsValid e subs = true → Distr.nonNegativeStates w.states = true → Distr.stateSumMatchesBalance e w = true →
    (∀ s ∈ w.states, s.account.isSome) →
    Distr.beginBlock e subs w faults ≠ .panic

theorem nonvacuous : Minter.validate { denom := "uc4e", start := 0, minters := [{ seq := 1, endT := none, cfg := .noMint }] } =
    some { denom := "uc4e", start := 0, minters := [{ seq := 1, endT := none, cfg := .noMint }] } := by
  decide

/-! ### the distributor's BeginBlocker never halts the chain (code-tied multi-denomination model) -/

section DistributorNoHalt
open C4E.Distr C4E.CoinList C4E.Props.C03

/-- the full invariant of the distributor between blocks: `BlockInv` (C03) plus denom-sorted coin
    lists, resolvable module accounts behind MODULE_ACCOUNT states, and well-formed bank balances -/
structure FullInv (e : Env) (w : Distr.World) : Prop where
  books : BlockInv e w
  states2 : StatesOk2 e w.states
  bank : BankOk e w.bank

/-- **C10, distributor part, one block**: for EVERY configuration accepted by `Params.Validate`,
    EVERY pattern of failing bank calls and every world satisfying the invariant, `BeginBlocker`
    completes — no `DecCoins.Sub` goes negative, no state lookup meets a nil account, every module
    account resolves, the burn permission is present — and the result again satisfies the invariant
    with the books balanced in every denomination -/
theorem distributor_block_completes (e : Env) (henv : EnvOk e) (hmod : e.modAddr? "" = none) (hburn : BurnerOk e)
    (subs : List SubD) (hv : paramsValid e subs = true) (hb32 : Bech32Facts subs)
    (w0 : Distr.World) (faults : List Nat) (hinv : FullInv e w0) :
    ∃ r, Distr.beginBlock e subs w0 faults = .ok r ∧ FullInv e r.world ∧ ∀ d, UF e d r.world = 0 := by
  obtain ⟨r, stored, hr, hst, t2, b2⟩ := beginBlock_total e henv hburn subs hv w0 faults
    hinv.books.states hinv.states2 hinv.bank hinv.books.u
  obtain ⟨hbi, hU⟩ := faithful_block_books e henv hmod subs hv hb32 w0 faults r hr hinv.books
  refine ⟨r, hr, ⟨hbi, ?_, b2⟩, hU⟩
  -- everything in the store after the write was in the list handed to it
  intro s hs
  rw [hst] at hs
  exact t2 s (mem_storeStates stored s hs)

/-- **the statement C03 set out as its target (`C03.books_step_full`), now a theorem**: the block
    completes and BOTH registered invariants of the module — `nonnegative-remains` and
    `state-sum-balance-check`, evaluated exactly as the Go code evaluates them — hold afterwards -/
theorem block_completes_with_registered_invariants (e : Env) (henv : EnvOk e) (hmod : e.modAddr? "" = none)
    (hburn : BurnerOk e) (subs : List SubD) (hv : paramsValid e subs = true) (hb32 : Bech32Facts subs)
    (w0 : Distr.World) (faults : List Nat) (hinv : FullInv e w0) :
    ∃ r, Distr.beginBlock e subs w0 faults = .ok r ∧
      Distr.nonNegativeStates r.world.states = true ∧ Distr.stateSumMatchesBalance e r.world = true := by
  obtain ⟨r, hr, hinv', hU⟩ := distributor_block_completes e henv hmod hburn subs hv hb32 w0 faults hinv
  refine ⟨r, hr, ?_, stateSumMatchesBalance_of_books e r.world hinv'.books.states hinv'.states2 hinv'.bank hU⟩
  unfold Distr.nonNegativeStates
  apply List.all_eq_true.mpr
  intro s hs
  have := anyNegative_of_en _ (hinv'.books.states s hs).1
  simp [this]

/-- the evaluable environment check printed by the model driver on every block (`hyp=`) is sound
    for the three environment hypotheses of the theorems above -/
theorem envOkB_sound (e : Env) (h : envOkB e = true) : EnvOk e ∧ e.modAddr? "" = none ∧ BurnerOk e := by
  unfold envOkB at h
  simp only [Bool.and_eq_true] at h
  obtain ⟨⟨hall, hnone⟩, hb⟩ := h
  refine ⟨?_, by simpa using hnone, hb⟩
  intro n hn
  unfold Env.modAddr? at hn
  cases hf : e.modules.find? (fun m => m.name = n) with
  | none => rw [hf] at hn; cases hn
  | some m =>
    rw [hf] at hn
    simp only [Option.map_some, Option.some.injEq] at hn
    have hmem := List.mem_of_find?_eq_some hf
    have hname : m.name = n := by simpa using List.find?_some hf
    have := List.all_eq_true.mp hall m hmem
    simp only [Bool.or_eq_true, decide_eq_true_eq] at this
    rcases this with h1 | h1
    · simp only [ne_eq, decide_not, Bool.not_eq_true', decide_eq_false_iff_not] at h1
      exact absurd hn h1
    · rw [← hname]; exact h1

theorem bech32FactsB_sound (subs : List SubD) (h : bech32FactsB subs = true) : Bech32Facts subs := by
  intro s hs
  have := List.all_eq_true.mp h s hs
  simp only [Bool.and_eq_true] at this
  refine ⟨?_, ?_⟩
  · intro sh hsh hok
    have h1 := List.all_eq_true.mp this.1 sh hsh
    simp only [Bool.or_eq_true, Bool.not_eq_true', decide_eq_true_eq] at h1
    rcases h1 with h2 | h2
    · rw [hok] at h2; cases h2
    · exact h2
  · intro hok
    have h1 := this.2
    simp only [Bool.or_eq_true, Bool.not_eq_true', decide_eq_true_eq] at h1
    rcases h1 with h2 | h2
    · rw [hok] at h2; cases h2
    · exact h2

/-- what may happen between two blocks (C03's `Inflow`) with a bank that stays well-formed -/
def InflowT (e : Env) (w w' : Distr.World) : Prop := Inflow e w w' ∧ BankOk e w'.bank

/-- worlds reachable by inflows and blocks under any accepted configurations and fault patterns -/
inductive ReachT (e : Env) : Distr.World → Prop
  | init (w : Distr.World) : FullInv e w → ReachT e w
  | inflow (w w' : Distr.World) : ReachT e w → InflowT e w w' → ReachT e w'
  | block (w : Distr.World) (subs : List SubD) (faults : List Nat) (r : BlockRes) :
      ReachT e w → paramsValid e subs = true → Bech32Facts subs →
      Distr.beginBlock e subs w faults = .ok r → ReachT e r.world

theorem reachT_inv (e : Env) (henv : EnvOk e) (hmod : e.modAddr? "" = none) (hburn : BurnerOk e) (w : Distr.World)
    (h : ReachT e w) : FullInv e w := by
  induction h with
  | init w hw => exact hw
  | inflow w w' _ hi ih =>
    exact ⟨blockInv_inflow e w w' ih.books hi.1, by rw [hi.1.1]; exact ih.states2, hi.2⟩
  | block w subs faults r _ hv hb hbl ih =>
    obtain ⟨r', hr', hinv', _⟩ := distributor_block_completes e henv hmod hburn subs hv hb w faults ih
    rw [hbl] at hr'
    cases hr'
    exact hinv'

/-- **C10, distributor part, over histories**: in every world reachable by any history of inflows,
    parameter changes and blocks with arbitrary transfer failures, the next `BeginBlocker` completes
    under every accepted configuration and every fault pattern -/
theorem distributor_never_halts (e : Env) (henv : EnvOk e) (hmod : e.modAddr? "" = none) (hburn : BurnerOk e)
    (w : Distr.World) (h : ReachT e w) (subs : List SubD) (hv : paramsValid e subs = true) (hb32 : Bech32Facts subs)
    (faults : List Nat) : ∃ r, Distr.beginBlock e subs w faults = .ok r :=
  let ⟨r, hr, _, _⟩ := distributor_block_completes e henv hmod hburn subs hv hb32 w faults (reachT_inv e henv hmod hburn w h)
  ⟨r, hr⟩

/-- … and after that block BOTH registered invariants of the module hold, as the Go code evaluates
    them — in every world reachable by any history of inflows, parameter changes and blocks -/
theorem reachT_registered_invariants (e : Env) (henv : EnvOk e) (hmod : e.modAddr? "" = none) (hburn : BurnerOk e)
    (w : Distr.World) (h : ReachT e w) (subs : List SubD) (hv : paramsValid e subs = true) (hb32 : Bech32Facts subs)
    (faults : List Nat) :
    ∃ r, Distr.beginBlock e subs w faults = .ok r ∧
      Distr.nonNegativeStates r.world.states = true ∧ Distr.stateSumMatchesBalance e r.world = true :=
  block_completes_with_registered_invariants e henv hmod hburn subs hv hb32 w faults (reachT_inv e henv hmod hburn w h)

/-- the empty distributor over a bank with sorted, non-negative balances satisfies the invariant -/
theorem fullInv_empty (e : Env) (b : Bank) (hb : BankOk e b) (hmain : ∀ d, 0 ≤ amountOf (b.balance e.mainAddr) d) :
    FullInv e { bank := b } := by
  refine ⟨⟨statesOk_nil e, ⟨by simp [keysOf], by intro s hs; cases hs⟩, ?_⟩, statesOk2_nil e, hb⟩
  intro d
  have := hmain d
  have := Int.mul_nonneg this (Int.le_of_lt P_pos)
  simp only [UF, remSumF]
  omega

/-- non-vacuity: the concrete world of C03's example satisfies the full invariant and the
    environment has the burn permission -/
theorem distributor_block_nonvacuous : BurnerOk exEnv ∧ FullInv exEnv exWorld := by
  refine ⟨by unfold BurnerOk; decide +kernel, ?_⟩
  have hbank : BankOk exEnv exWorld.bank := by
    constructor
    · intro addr
      unfold Bank.balance exWorld
      simp only [AList.get?]
      split
      · simp; exact sorted_single _ _
      · split
        · simp; exact sorted_single _ _
        · simp; exact sorted_nil
    · intro addr _
      unfold Bank.balance exWorld
      simp only [AList.get?]
      split
      · simp; intro kv hkv; simp at hkv; rw [hkv]; decide
      · split
        · simp; intro kv hkv; simp at hkv; rw [hkv]; decide
        · simp; exact en_nil
  exact fullInv_empty exEnv exWorld.bank hbank (by
    intro d
    have : exWorld.bank.balance exEnv.mainAddr = [("uc4e", 1001)] := by decide +kernel
    rw [this]
    simp only [amountOf]
    split <;> decide)

/-! ### minter and distributor together: the custom modules' BeginBlock over whole histories -/

theorem creditMain_fullInv (e : Env) (w : Distr.World) (denom : String) (amt : Int) (h : FullInv e w) (ha : 0 ≤ amt) :
    FullInv e { w with bank := App.creditMain e w.bank denom amt } := by
  unfold App.creditMain
  split
  · exact h
  · have hbal : ∀ addr, Bank.balance { w.bank with bal := w.bank.bal.set e.mainAddr (CoinList.add (w.bank.balance e.mainAddr) [(denom, amt)]) } addr
        = if addr = e.mainAddr then CoinList.add (w.bank.balance e.mainAddr) [(denom, amt)] else w.bank.balance addr := by
      intro addr
      unfold Bank.balance
      simp only []
      by_cases h1 : addr = e.mainAddr
      · rw [h1, AList.get?_set_self]; simp
      · rw [AList.get?_set_other _ _ _ _ h1]; simp [h1]
    refine ⟨blockInv_inflow e w _ h.books ⟨rfl, ?_⟩, h.states2, ?_, ?_⟩
    · intro d
      show _ ≤ amountOf (Bank.balance _ e.mainAddr) d
      rw [hbal]
      simp only [if_true, amountOf_add, amountOf]
      split <;> omega
    · intro addr
      show Sorted (Bank.balance _ addr)
      rw [hbal]
      split
      · exact sorted_add _ _ (h.bank.1 _) (sorted_single _ _)
      · exact h.bank.1 addr
    · intro addr hm
      show EN (Bank.balance _ addr)
      rw [hbal, if_neg hm]
      exact h.bank.2 addr hm

/-- the composed run, given that the minter's own run over the same block times succeeds with
    non-negative amounts (which `C02.path_independent` provides) -/
theorem run_of_minter_run (e : Env) (henv : EnvOk e) (hmod : e.modAddr? "" = none) (hburn : BurnerOk e)
    (p : Minter.Params) : ∀ (blocks : List App.Block) (st : Minter.St) (w : Distr.World) (as : List Int) (st' : Minter.St),
    C02.runBlocks p st (blocks.map (·.time)) = some (as, st') → (∀ a ∈ as, 0 ≤ a) →
    (∀ b ∈ blocks, paramsValid e b.subs = true ∧ Bech32Facts b.subs) → FullInv e w →
    ∃ s', App.run e p { mst := st, world := w } blocks = .ok s' ∧ FullInv e s'.world
  | [], st, w, as, st', _, _, _, hinv => ⟨_, rfl, hinv⟩
  | b :: rest, st, w, as, st', hrun, hnn, hcfg, hinv => by
    simp only [List.map_cons, C02.runBlocks] at hrun
    split at hrun
    · rename_i r hm
      split at hrun
      · rename_i as' s2 hrest
        cases hrun
        have ha : 0 ≤ r.amount := hnn r.amount (by simp)
        have hinv1 := creditMain_fullInv e w p.denom r.amount hinv ha
        obtain ⟨br, hbr, hinv2, _⟩ := distributor_block_completes e henv hmod hburn b.subs (hcfg b (by simp)).1 (hcfg b (by simp)).2
          { w with bank := App.creditMain e w.bank p.denom r.amount } b.faults hinv1
        obtain ⟨s', hs', hf⟩ := run_of_minter_run e henv hmod hburn p rest r.st br.world as' st' hrest
          (fun a ha' => hnn a (by simp [ha'])) (fun b' hb' => hcfg b' (by simp [hb'])) hinv2
        refine ⟨s', ?_, hf⟩
        unfold App.run App.beginBlock Minter.beginBlock
        simp only [hm, hbr]
        exact hs'
      · cases hrun
    · cases hrun

/-- **C10 for the two modules together, over whole histories**: minter parameters accepted by
    validation (linear periods of at least a millisecond), a genesis-like minter state, strictly
    increasing block times after the start, a distributor world satisfying the invariant, and in every
    block ANY distributor configuration accepted by `Params.Validate` and ANY pattern of failing bank
    calls: every `BeginBlock` of cfeminter followed by cfedistributor completes -/
theorem custom_beginblock_never_halts (e : Env) (henv : EnvOk e) (hmod : e.modAddr? "" = none) (hburn : BurnerOk e)
    (raw : Minter.RawParams) (p : Minter.Params) (hval : Minter.validate raw = some p)
    (hsane : Minter.Sane p.start p.minters) (st : Minter.St) (hg : C02.GenesisLike p st)
    (blocks : List App.Block) (hinc : (blocks.map (·.time)).Pairwise (· < ·))
    (hafter : ∀ b ∈ blocks, p.start < b.time)
    (hcfg : ∀ b ∈ blocks, paramsValid e b.subs = true ∧ Bech32Facts b.subs)
    (w : Distr.World) (hinv : FullInv e w) :
    ∃ s', App.run e p { mst := st, world := w } blocks = .ok s' ∧ FullInv e s'.world := by
  obtain ⟨as, st', hrun, hnn, _⟩ := C02.path_independent p (C02.valid_of_validate raw p hval hsane) st hg
    (blocks.map (·.time)) hinc (by
      intro t ht
      obtain ⟨b, hb, rfl⟩ := List.mem_map.mp ht
      exact hafter b hb)
  exact run_of_minter_run e henv hmod hburn p blocks st w as st' hrun hnn hcfg hinv

end DistributorNoHalt

end C4E.Props.C10
