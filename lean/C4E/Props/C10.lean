/-
  C10 — Emission and distribution can never halt the chain.

  Proved on the models: the minter's early returns cannot panic; validated minter parameters carry
  a well-formed denom (so `sdk.NewCoin` cannot panic: D23); in the distributor core the quantity
  `main − Σ remains` that `DecCoins.Sub` computes is never negative at any point of any block
  under any fault pattern (so the D6/D21 panic cannot occur); an imported burn state is
  normalised (D4).  The whole-app statement `no_halt_full` stays visible; the monitor
  `beginblock-panic` evaluates it on the real BeginBlockers in every family, under parameter
  updates, injected bank failures and export/import.
-/
import C4E.Minter
import C4E.Distr1
import C4E.Distributor
import C4E.Props.C02
namespace C4E.Props.C10
open C4E

theorem mint_before_start_ok (p : Minter.Params) (st : Minter.St) (t : Int) (h : t < p.start) :
    Minter.beginBlock p st t = .ok { amount := 0, st := st, hist := [] } := by
  unfold Minter.beginBlock Minter.mint; rw [if_pos h]

theorem mint_not_after_last_ok (p : Minter.Params) (st : Minter.St) (t : Int) (h1 : ¬ t < p.start) (h2 : st.last ≥ t) :
    Minter.beginBlock p st t = .ok { amount := 0, st := st, hist := [] } := by
  unfold Minter.beginBlock Minter.mint; rw [if_neg h1, if_pos h2]

/-- **the minter never halts the chain**: for every parameter set accepted by validation (linear
    periods spanning at least a millisecond), a genesis-like state and every strictly increasing
    sequence of block times, every BeginBlocker call returns normally (no error, no panic) -/
theorem minter_no_halt (raw : Minter.RawParams) (p : Minter.Params) (h : Minter.validate raw = some p)
    (hs : Minter.Sane p.start p.minters) (st : Minter.St) (hg : C02.GenesisLike p st)
    (ts : List Int) (hinc : ts.Pairwise (· < ·)) (hafter : ∀ t ∈ ts, p.start < t) :
    ∃ as st', C02.runBlocks p st ts = some (as, st') := by
  obtain ⟨as, st', h1, _, _⟩ := C02.path_independent p (C02.valid_of_validate raw p h hs) st hg ts hinc hafter
  exact ⟨as, st', h1⟩

/-- accepted parameters always carry a well-formed mint denom (D23) -/
theorem validated_denom (raw : Minter.RawParams) (p : Minter.Params) (h : Minter.validate raw = some p) :
    validDenom p.denom = true := by
  unfold Minter.validate at h
  split at h
  · cases h
  · rename_i h0
    split at h
    · cases h
    · rename_i h1
      split at h
      · cases h
      · cases h; simpa using h1

/-- the malformed denom "!" that the unchanged validation accepted is rejected -/
theorem bad_denom_rejected (start : Int) (ms : List Minter.RawMinter) :
    Minter.validate { denom := "!", start := start, minters := ms } = none := by
  unfold Minter.validate; simp [validDenom, isAlpha]

/-- distributor core: at every point of a block, under every fault pattern, the main balance
    covers the recorded remains — the subtraction in the MAIN-source preparation cannot go negative -/
theorem no_negative_sub (φ : Distr1.Sub → List Bool) (subs : List Distr1.Sub) (w : Distr1.World)
    (h : Distr1.WOk w) (hall : Distr1.allSubOk subs) (hc : Distr1.closed true subs = true) :
    0 ≤ Distr1.U (Distr1.runSubs φ w subs) :=
  (Distr1.runSubs_spec φ subs w true h hall (by intro h; cases h) hc).1.u

theorem substep_no_negative_sub (fails : List Bool) (w : Distr1.World) (sub : Distr1.Sub)
    (h : Distr1.WOk w) (hok : Distr1.subOk sub) : 0 ≤ Distr1.U (Distr1.subStep fails w sub) :=
  (Distr1.subStep_spec fails w sub h hok).1.u

/-- a burn state as imported after the D4 repair never makes the state lookup panic -/
theorem normalised_burn_state_lookup (rem : DecCoins) (a : Distr.Account) :
    Distr.findAccountState [{ account := some { id := "", type := "" }, burn := true, remains := rem }] a 0 ≠ .panic := by
  unfold Distr.findAccountState
  simp only []
  split
  · simp
  · unfold Distr.findAccountState; simp

/-- full statement (target) -/
def no_halt_full : Prop :=
  ∀ (e : Distr.Env) (subs : List Distr.SubD) (w : Distr.World) (faults : List Nat),
    Distr.paramsValid e subs = true → Distr.nonNegativeStates w.states = true → Distr.stateSumMatchesBalance e w = true →
    (∀ s ∈ w.states, s.account.isSome) →
    Distr.beginBlock e subs w faults ≠ .panic

theorem nonvacuous : Minter.validate { denom := "uc4e", start := 0, minters := [{ seq := 1, endT := none, cfg := .noMint }] } =
    some { denom := "uc4e", start := 0, minters := [{ seq := 1, endT := none, cfg := .noMint }] } := by
  decide

end C4E.Props.C10
