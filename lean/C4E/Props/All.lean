import C4E.Props.C02
import C4E.Props.C03
import C4E.Props.C04
import C4E.Props.C05
import C4E.Props.C06
import C4E.Props.C07
import C4E.Props.C08
import C4E.Props.C14
