import C4E.Props.C02
import C4E.Props.C03
import C4E.Props.C04
import C4E.Props.C14
