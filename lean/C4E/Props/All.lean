import C4E.Props.C02
