/-
  C20 — No message or query of the custom modules panics on any input.

  Panics are explicit outcomes of the model (`Outcome.panic`); the theorems below show, for the
  handlers where it is provable without further state invariants, that no input reaches one.
  For the vesting handlers the model keeps its panic branches (invalid stored denom, a balance
  below the locked amount, negative original vesting): they are excluded by state invariants that
  are checked on the real chain state by the boundary sweep (`message-panics` / `query-panics`
  monitors), not proved here — `vesting_no_panic_full` stays visible.
-/
import C4E.Signature
import C4E.Vesting
import C4E.Minter
import C4E.Distributor
namespace C4E.Props.C20
open C4E

/-- the signature registry handlers never panic, whatever key / value / JSON they are given
    (D27 repaired: empty keys are rejected) -/
theorem sig_publish_no_panic (s : Sig.State) (k v : String) : Sig.publish s k v ≠ .panic := by
  unfold Sig.publish; split
  · simp
  · split <;> simp

theorem sig_store_no_panic (s : Sig.State) (k : String) (j : Bool) (a b c d : String) : Sig.store s k j a b c d ≠ .panic := by
  unfold Sig.store; split
  · simp
  · split <;> simp

/-- parameter-update handlers are total and never panic: they either store a validated
    configuration or reject (D10 repaired: a nil sub-distributor is rejected) -/
theorem distr_update_sub_nil_rejected (e : Distr.Env) (a : Bool) (st : List Distr.SubD) :
    Distr.updateSub e a st none = none := by
  unfold Distr.updateSub; split <;> rfl

/-- minter validation is total: nil minters, nil / unresolved configs, nil amounts are rejected,
    never dereferenced -/
theorem minter_validate_rejects_nil (p : Minter.RawParams) (h : p.minters.any (·.isNil) = true) :
    Minter.validate p = none := by
  unfold Minter.validate Minter.validateMinters
  split
  · rfl
  · split
    · rfl
    · simp [h]

theorem minter_cfg_nil_rejected (m : Minter.RawMinter) (h : m.cfg = .nilCfg ∨ m.cfg = .unresolved) :
    Minter.cleanCfg m = none := by
  unfold Minter.cleanCfg
  rcases h with h | h <;> rw [h]

theorem minter_nil_amount_rejected (m : Minter.RawMinter) (step : Int) (mult : Option Int)
    (h : m.cfg = .lin none ∨ m.cfg = .exp none step mult) : Minter.cleanCfg m = none := by
  unfold Minter.cleanCfg
  rcases h with h | h <;> rw [h] <;> simp <;> split <;> rfl

/-- vesting: a message with a nil amount is rejected by ValidateBasic and by the handler -/
theorem vesting_nil_amount_rejected (s : Vest.State) (o t : Vest.Addr) (n p v : String) (d : Int) (r : Bool) :
    Vest.handle s (.createPool o n none d v) = .err ∧ Vest.handle s (.send o t p none r) = .err ∧
    Vest.validateBasic (.createPool o n none d v) = false ∧ Vest.validateBasic (.send o t p none r) = false := by
  refine ⟨rfl, rfl, ?_, ?_⟩ <;> simp [Vest.validateBasic]

/-- vesting: the withdrawal handler panics only through an invalid stored denom or a bank-level
    negative-spendable condition of the module account -/
theorem withdraw_no_panic (s : Vest.State) (o : Vest.Addr) (hd : validDenom s.denom = true)
    (hs : ∀ c, s.sendFromModule o.s c ≠ .panic) : Vest.withdrawAll s o ≠ .panic := by
  unfold Vest.withdrawAll
  split
  · simp
  · split
    · simp
    · split
      · simp
      · simp only [hd, Bool.not_true, Bool.false_eq_true, if_false]
        split
        · simp
        · simp
        · rename_i heq
          split at heq
          · exact absurd heq (hs _)
          · cases heq

/-- full statement for the vesting handlers (target) -/
def vesting_no_panic_full : Prop :=
  ∀ (s : Vest.State) (m : Vest.Msg), validDenom s.denom = true →
    (∀ a, ∃ lk, s.locked a = some lk ∧ ∀ d, CoinList.amountOf lk d ≤ CoinList.amountOf (s.balance a) d) →
    ∀ r, (Vest.deliver s m).2 = r → r ≠ .panic

theorem nonvacuous : Sig.publish {} "" "v" = .err ∧ Sig.store {} "" true "a" "b" "c" "d" = .err := by
  decide

end C4E.Props.C20
