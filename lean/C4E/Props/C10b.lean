import C4E.Props.C10
import C4E.Props.C13
namespace C4E.Props.C10
open C4E C4E.Distr C4E.CoinList C4E.Props.C03

section Updates

/-- what can happen to the distributor between and in blocks -/
inductive DOp where
  | inflow (w' : Distr.World)
  | block (faults : List Nat)
  | updFull (auth : Bool) (ns : List SubD)
  | updSub (auth : Bool) (sd : Option SubD)
  | updShare (auth : Bool) (sub dest : String) (share : Option Int)
  | updBurn (auth : Bool) (sub : String) (burn : Option Int)

structure DSt where
  params : List SubD
  world : Distr.World

/-- one step; a rejected update changes nothing, a block runs under the STORED parameters -/
def stepD (e : Env) (s : DSt) : DOp → Outcome DSt
  | .inflow w' => .ok { s with world := w' }
  | .block f =>
    match Distr.beginBlock e s.params s.world f with
    | .ok r => .ok { s with world := r.world }
    | .err => .err
    | .panic => .panic
  | .updFull a ns => .ok { s with params := (updateFull e a ns).getD s.params }
  | .updSub a sd => .ok { s with params := (updateSub e a s.params sd).getD s.params }
  | .updShare a x y v => .ok { s with params := (updateShare e a s.params x y v).getD s.params }
  | .updBurn a x v => .ok { s with params := (updateBurn e a s.params x v).getD s.params }

def runD (e : Env) : DSt → List DOp → Outcome DSt
  | s, [] => .ok s
  | s, op :: rest =>
    match stepD e s op with
    | .ok s' => runD e s' rest
    | .err => .err
    | .panic => .panic

/-- side conditions on a history: inflows only add to the main account and keep the bank well-formed;
    configurations carried by update messages satisfy the address facts -/
def OpOk (e : Env) (s : DSt) : DOp → Prop
  | .inflow w' => InflowT e s.world w'
  | .block _ => True
  | .updFull _ ns => Bech32Facts ns
  | .updSub _ sd => ∀ x, sd = some x → Bech32Facts [x]
  | .updShare _ _ _ _ => True
  | .updBurn _ _ _ => True

theorem bech32_cons {s : SubD} {l : List SubD} : Bech32Facts (s :: l) ↔ Bech32Facts [s] ∧ Bech32Facts l := by
  unfold Bech32Facts
  constructor
  · intro h
    exact ⟨fun t ht => h t (by simp at ht; simp [ht]), fun t ht => h t (by simp [ht])⟩
  · intro h t ht
    rcases List.mem_cons.mp ht with h1 | h1
    · exact h.1 t (by simp [h1])
    · exact h.2 t h1

theorem bech32_repl (sd : SubD) (hsd : Bech32Facts [sd]) : ∀ (l : List SubD), Bech32Facts l → Bech32Facts (updateSub.repl sd l)
  | [], _ => by unfold updateSub.repl; intro t ht; cases ht
  | x :: xs, h => by
    unfold updateSub.repl
    obtain ⟨h1, h2⟩ := bech32_cons.mp h
    split
    · exact bech32_cons.mpr ⟨hsd, h2⟩
    · exact bech32_cons.mpr ⟨h1, bech32_repl sd hsd xs h2⟩

theorem upd_dests (destName : String) (share : Option Int) : ∀ (l : List Distr.Share),
    ∀ sh ∈ updateShare.go.upd destName share l, ∃ sh0 ∈ l, sh0.dest = sh.dest
  | [], sh, h => by unfold updateShare.go.upd at h; cases h
  | x :: xs, sh, h => by
    unfold updateShare.go.upd at h
    split at h
    · rcases List.mem_cons.mp h with h1 | h1
      · exact ⟨x, by simp, by rw [h1]⟩
      · exact ⟨sh, by simp [h1], rfl⟩
    · rcases List.mem_cons.mp h with h1 | h1
      · exact ⟨x, by simp, by rw [h1]⟩
      · obtain ⟨sh0, m, e0⟩ := upd_dests destName share xs sh h1
        exact ⟨sh0, by simp [m], e0⟩

theorem bech32_go (destName : String) (share : Option Int) : ∀ (l r : List SubD), updateShare.go destName share l = some r →
    Bech32Facts l → Bech32Facts r
  | [], r, h, _ => by unfold updateShare.go at h; cases h
  | x :: xs, r, h, hb => by
    unfold updateShare.go at h
    obtain ⟨h1, h2⟩ := bech32_cons.mp hb
    split at h
    · cases h
      apply bech32_cons.mpr
      refine ⟨?_, h2⟩
      intro t ht
      simp only [List.mem_singleton] at ht
      subst ht
      have hx := h1 x (by simp)
      refine ⟨?_, hx.2⟩
      intro sh hsh hok
      obtain ⟨sh0, m, e0⟩ := upd_dests destName share x.shares sh hsh
      rw [← e0] at hok ⊢
      exact hx.1 sh0 m hok
    · cases hg : updateShare.go destName share xs with
      | none => rw [hg] at h; cases h
      | some r' =>
        rw [hg] at h
        simp only [Option.map_some, Option.some.injEq] at h
        subst h
        exact bech32_cons.mpr ⟨h1, bech32_go destName share xs r' hg h2⟩

theorem bech32_burnrepl (subName : String) (burn : Option Int) : ∀ (l : List SubD), Bech32Facts l → Bech32Facts (updateBurn.repl subName burn l)
  | [], _ => by unfold updateBurn.repl; intro t ht; cases ht
  | x :: xs, h => by
    unfold updateBurn.repl
    obtain ⟨h1, h2⟩ := bech32_cons.mp h
    split
    · apply bech32_cons.mpr
      refine ⟨?_, h2⟩
      intro t ht
      simp only [List.mem_singleton] at ht
      subst ht
      exact h1 x (by simp)
    · exact bech32_cons.mpr ⟨h1, bech32_burnrepl subName burn xs h2⟩

/-- the stored parameters stay valid (C13) and keep the address facts under every update -/
structure CfgInv (e : Env) (p : List SubD) : Prop where
  valid : paramsValid e p = true
  facts : Bech32Facts p

theorem step_cfgInv (e : Env) (s s' : DSt) (op : DOp) (h : stepD e s op = .ok s') (hc : CfgInv e s.params)
    (hop : OpOk e s op) : CfgInv e s'.params := by
  cases op with
  | inflow w' => simp only [stepD, Outcome.ok.injEq] at h; rw [← h]; exact hc
  | block f =>
    simp only [stepD] at h
    split at h
    · cases h; exact hc
    · cases h
    · cases h
  | updFull a ns =>
    simp only [stepD, Outcome.ok.injEq] at h; rw [← h]
    cases hu : updateFull e a ns with
    | none => simp only [Option.getD_none]; exact hc
    | some r =>
      simp only [Option.getD_some]
      refine ⟨C13.distr_full_stored_valid e a ns r hu, ?_⟩
      unfold updateFull at hu
      split at hu
      · cases hu
      · split at hu
        · cases hu; exact hop
        · cases hu
  | updSub a sd =>
    simp only [stepD, Outcome.ok.injEq] at h; rw [← h]
    cases hu : updateSub e a s.params sd with
    | none => simp only [Option.getD_none]; exact hc
    | some r =>
      simp only [Option.getD_some]
      refine ⟨C13.distr_sub_stored_valid e a s.params r sd hu, ?_⟩
      unfold updateSub at hu
      split at hu
      · cases hu
      · split at hu
        · cases hu
        · rename_i x
          split at hu
          · cases hu
          · split at hu
            · cases hu
            · simp only [] at hu
              split at hu
              · cases hu
                exact bech32_repl x (hop x rfl) s.params hc.facts
              · cases hu
  | updShare a x y v =>
    simp only [stepD, Outcome.ok.injEq] at h; rw [← h]
    cases hu : updateShare e a s.params x y v with
    | none => simp only [Option.getD_none]; exact hc
    | some r =>
      simp only [Option.getD_some]
      refine ⟨C13.distr_share_stored_valid e a s.params r x y v hu, ?_⟩
      unfold updateShare at hu
      split at hu
      · cases hu
      · split at hu
        · cases hu
        · split at hu
          · cases hu
          · rename_i ns hgo
            split at hu
            · simp only [Option.some.injEq] at hu
              subst hu
              exact bech32_go y v s.params _ hgo hc.facts
            · cases hu
  | updBurn a x v =>
    simp only [stepD, Outcome.ok.injEq] at h; rw [← h]
    cases hu : updateBurn e a s.params x v with
    | none => simp only [Option.getD_none]; exact hc
    | some r =>
      simp only [Option.getD_some]
      refine ⟨C13.distr_burn_stored_valid e a s.params r x v hu, ?_⟩
      unfold updateBurn at hu
      split at hu
      · cases hu
      · split at hu
        · cases hu
        · split at hu
          · cases hu
          · simp only [] at hu
            split at hu
            · cases hu
              exact bech32_burnrepl x v s.params hc.facts
            · cases hu

/-- side conditions along a whole history -/
def HistOk (e : Env) : DSt → List DOp → Prop
  | _, [] => True
  | s, op :: rest => OpOk e s op ∧ ∀ s', stepD e s op = .ok s' → HistOk e s' rest

/-- **C10 with C13, the distributor under every governance update sequence**: starting from stored
    parameters accepted by validation and a world satisfying the invariant, ANY history of inflows,
    blocks with arbitrary failing bank calls, and the four parameter-update messages (from any signer,
    with any payload — accepted or rejected) runs to the end: no block panics, the stored parameters
    validate at every point and the invariant holds at every point -/
theorem distributor_never_halts_under_updates (e : Env) (henv : EnvOk e) (hmod : e.modAddr? "" = none) (hburn : BurnerOk e) :
    ∀ (ops : List DOp) (s : DSt), CfgInv e s.params → FullInv e s.world → HistOk e s ops →
    ∃ s', runD e s ops = .ok s' ∧ CfgInv e s'.params ∧ FullInv e s'.world
  | [], s, hc, hi, _ => ⟨s, rfl, hc, hi⟩
  | op :: rest, s, hc, hi, hh => by
    obtain ⟨hop, hrest⟩ := hh
    -- the step succeeds
    have hstep : ∃ s1, stepD e s op = .ok s1 ∧ FullInv e s1.world := by
      cases op with
      | inflow w' =>
        refine ⟨_, rfl, ?_⟩
        exact ⟨blockInv_inflow e s.world w' hi.books hop.1, by rw [hop.1.1]; exact hi.states2, hop.2⟩
      | block f =>
        obtain ⟨r, hr, hinv, _⟩ := distributor_block_completes e henv hmod hburn s.params hc.valid hc.facts s.world f hi
        refine ⟨{ s with world := r.world }, ?_, hinv⟩
        simp only [stepD, hr]
      | updFull a ns => exact ⟨_, rfl, hi⟩
      | updSub a sd => exact ⟨_, rfl, hi⟩
      | updShare a x y v => exact ⟨_, rfl, hi⟩
      | updBurn a x v => exact ⟨_, rfl, hi⟩
    obtain ⟨s1, h1, hi1⟩ := hstep
    have hc1 := step_cfgInv e s s1 op h1 hc hop
    obtain ⟨s', hr, hc', hi'⟩ := distributor_never_halts_under_updates e henv hmod hburn rest s1 hc1 hi1 (hrest s1 h1)
    refine ⟨s', ?_, hc', hi'⟩
    unfold runD
    rw [h1]
    exact hr

/-- non-vacuity: the concrete configuration and world of C03's example satisfy the hypotheses, and a
    history with a failing bank call, an accepted burn-share update, a rejected one (wrong signer) and
    two more blocks runs through (evaluated by the kernel) -/
theorem under_updates_nonvacuous :
    CfgInv exEnv exCfg ∧ FullInv exEnv exWorld ∧
    (match runD exEnv { params := exCfg, world := exWorld }
        [.block [1], .updBurn true "a" (some (P / 5)), .updBurn false "a" (some (P / 2)), .block [], .block [0, 2]] with
     | .ok s => (s.params.map (·.burnShare) == [some (P / 5), some 0]) | _ => false) = true := by
  refine ⟨⟨faithful_block_nonvacuous.1, exCfg_bech32⟩, distributor_block_nonvacuous.2, by decide +kernel⟩

end Updates
end C4E.Props.C10
