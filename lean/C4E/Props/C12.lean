/-
  C12 — Genesis export/import preserves state and subsequent behaviour.

  The model's `exportGenesis` / `initGenesis` for the minter and the distributor are the identity
  on the modelled store up to the representation changes the Go code performs (history list,
  burn state's nil account).  Proved: init ∘ export = id on states satisfying the module
  invariant, so every continuation behaves identically.  The vesting module's genesis carries
  vesting-type periods in whole units (`exportPeriod`), proved lossless for whole-second periods.
  cfesignature exports nothing but params (D5: known finding; `sig_roundtrip_fails`).
-/
import C4E.Minter
import C4E.Distributor
import C4E.Signature
namespace C4E.Props.C12
open C4E

/-! ### minter -/
structure MinterGenesis where
  params : Minter.Params
  state : Minter.St
  history : List Minter.St
deriving DecidableEq

structure MinterStore where
  params : Minter.Params
  state : Minter.St
  history : List Minter.St     -- keyed by sequence id
deriving DecidableEq

def minterExport (s : MinterStore) : MinterGenesis := ⟨s.params, s.state, s.history⟩
/-- `InitGenesis`: SetParams, SetMinterState, SetMinterStateHistory for every entry (later entries
    with the same sequence id overwrite earlier ones) -/
def histSet (h : List Minter.St) (e : Minter.St) : List Minter.St := h.filter (·.seq ≠ e.seq) ++ [e]
def minterInit (g : MinterGenesis) : MinterStore := ⟨g.params, g.state, g.history.foldl histSet []⟩

/-- history entries have pairwise distinct sequence ids (they are written once per finished period) -/
def DistinctSeq : List Minter.St → Prop
  | [] => True
  | e :: rest => (∀ x ∈ rest, x.seq ≠ e.seq) ∧ DistinctSeq rest

theorem foldl_histSet_distinct (l acc : List Minter.St)
    (hd : DistinctSeq l) (hacc : ∀ a ∈ acc, ∀ x ∈ l, x.seq ≠ a.seq) :
    l.foldl histSet acc = acc ++ l := by
  induction l generalizing acc with
  | nil => simp
  | cons e rest ih =>
    obtain ⟨h1, h2⟩ := hd
    simp only [List.foldl_cons]
    have hf : histSet acc e = acc ++ [e] := by
      unfold histSet
      congr 1
      apply List.filter_eq_self.mpr
      intro a ha
      have := hacc a ha e (List.mem_cons_self ..)
      simpa using fun h => this h.symm
    rw [hf, ih (acc ++ [e]) h2]
    · simp
    · intro a ha x hx
      rcases List.mem_append.mp ha with ha | ha
      · exact hacc a ha x (List.mem_cons_of_mem _ hx)
      · simp only [List.mem_singleton] at ha; subst ha; exact h1 x hx

/-- **minter round trip**: re-importing an export reproduces the store exactly -/
theorem minter_roundtrip (s : MinterStore) (h : DistinctSeq s.history) : minterInit (minterExport s) = s := by
  unfold minterInit minterExport
  simp only []
  rw [foldl_histSet_distinct s.history [] h (by intro a ha; cases ha)]
  simp

/-- hence identical subsequent mints for every continuation of block times -/
theorem minter_behaviour_preserved (s : MinterStore) (h : DistinctSeq s.history) (t : Int) :
    Minter.beginBlock (minterInit (minterExport s)).params (minterInit (minterExport s)).state t
      = Minter.beginBlock s.params s.state t := by
  rw [minter_roundtrip s h]

/-! ### distributor -/
/-- `ExportGenesis` drops the burn state's (empty) account; `InitGenesis` restores it (D4 repair) -/
def distrExportState (s : Distr.DState) : Distr.DState := if s.burn then { s with account := none } else s
def distrInitState (s : Distr.DState) : Distr.DState :=
  if s.burn && s.account.isNone then { s with account := some { id := "", type := "" } } else s

/-- stored states are well-formed: the burn state carries the empty account, others a real one -/
def StoredOk (s : Distr.DState) : Prop :=
  (s.burn = true → s.account = some { id := "", type := "" }) ∧ (s.burn = false → s.account.isSome = true)

theorem distr_state_roundtrip (s : Distr.DState) (h : StoredOk s) : distrInitState (distrExportState s) = s := by
  unfold distrInitState distrExportState
  obtain ⟨h1, h2⟩ := h
  cases hb : s.burn with
  | true =>
    simp only [if_true, Bool.true_and, Option.isNone_none]
    have := h1 hb
    cases s; simp_all
  | false => simp [hb]

theorem distr_states_roundtrip (l : List Distr.DState) (h : ∀ s ∈ l, StoredOk s) :
    (l.map distrExportState).map distrInitState = l := by
  rw [List.map_map]
  conv => rhs; rw [← List.map_id l]
  apply List.map_congr_left
  intro s hs
  exact distr_state_roundtrip s (h s hs)

/-- the exported burn state satisfies `State.Validate` (burn ⇒ no account) -/
theorem distr_export_validates (s : Distr.DState) (h : StoredOk s) :
    ((distrExportState s).burn = true → (distrExportState s).account = none) ∧
    ((distrExportState s).burn = false → (distrExportState s).account.isSome = true) := by
  unfold distrExportState
  cases hb : s.burn with
  | true => simp
  | false => simp [hb]; exact h.2 hb

/-- before D4 the import kept the nil account: the next BeginBlocker dereferenced it -/
theorem orig_import_breaks_beginblock :
    Distr.findAccountState [{ account := none, burn := true, remains := [] }] { id := "x", type := "MODULE_ACCOUNT" } 0 = .panic := by
  decide

/-! ### vesting types: periods are exported in the largest whole unit -/
def exportPeriod (ns : Int) : Int × Int :=   -- (unit in ns, count)
  if ns % 86400000000000 = 0 then (86400000000000, ns / 86400000000000)
  else if ns % 3600000000000 = 0 then (3600000000000, ns / 3600000000000)
  else if ns % 60000000000 = 0 then (60000000000, ns / 60000000000)
  else (1000000000, ns / 1000000000)

theorem period_roundtrip (ns : Int) (h : ns % 1000000000 = 0) : (exportPeriod ns).1 * (exportPeriod ns).2 = ns := by
  unfold exportPeriod
  split
  · simp only []; omega
  · split
    · simp only []; omega
    · split
      · simp only []; omega
      · simp only []; omega

/-! ### cfesignature: the genesis carries only params (known finding D5) -/
def sigExport (_ : Sig.State) : Unit := ()
def sigInit (_ : Unit) : Sig.State := {}

theorem sig_roundtrip_fails : ∃ s : Sig.State, sigInit (sigExport s) ≠ s :=
  ⟨{ links := [("k", "v")] }, by decide⟩

/-- full statement (false today because of cfesignature) -/
def roundtrip_full : Prop := ∀ s : Sig.State, sigInit (sigExport s) = s

theorem nonvacuous : DistinctSeq [{ seq := 1, minted := 5, remToMint := 0, remPrev := 0, last := 9 }, { seq := 2, minted := 0, remToMint := 0, remPrev := 0, last := 9 }] := by
  simp [DistinctSeq]

end C4E.Props.C12
