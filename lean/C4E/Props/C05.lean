/-
  C05 — Vesting module account is always exactly backed by its pools.
-/
import C4E.Vesting
namespace C4E.Props.C05
open C4E C4E.Vest

/-- per-pool solvency -/
def PoolOk (p : Pool) : Prop := 0 ≤ p.withdrawn ∧ 0 ≤ p.sent ∧ p.withdrawn + p.sent ≤ p.initially

/-- a withdrawal keeps a pool solvent -/
theorem withdraw_keeps_poolOk (now : Int) (p : Pool) (h : PoolOk p) :
    PoolOk { p with withdrawn := p.withdrawn + withdrawable now p } := by
  obtain ⟨h1, h2, h3⟩ := h
  unfold PoolOk withdrawable Pool.locked
  simp only []
  by_cases hc : now ≥ p.lockEnd
  · simp only [hc, if_true]; omega
  · simp only [hc, if_false]; omega

/-- a send of at most the locked remainder keeps a pool solvent -/
theorem send_keeps_poolOk (p : Pool) (amount : Int) (h : PoolOk p) (h0 : 0 ≤ amount) (hle : amount ≤ p.locked) :
    PoolOk { p with sent := p.sent + amount } := by
  obtain ⟨h1, h2, h3⟩ := h
  unfold Pool.locked at hle
  unfold PoolOk; simp only []; omega

/-- what a withdrawal pays is exactly by how much the pools' locked sum goes down -/
theorem withdraw_locked_delta (now : Int) (ps : List Pool) :
    sumInts (ps.map Pool.locked) - sumInts ((ps.map (fun p => { p with withdrawn := p.withdrawn + withdrawable now p })).map Pool.locked)
      = sumInts (ps.map (withdrawable now)) := by
  induction ps with
  | nil => simp
  | cons p rest ih =>
    simp only [List.map_cons, sumInts_cons]
    have : Pool.locked { p with withdrawn := p.withdrawn + withdrawable now p } = p.locked - withdrawable now p := by
      unfold Pool.locked; simp only []; omega
    rw [this]; omega

/-- a rejected message changes nothing: `deliver` keeps the state unless the handler succeeded -/
theorem rejected_noop (s : State) (m : Msg) (h : ∀ r, (deliver s m).2 ≠ .ok r) : (deliver s m).1 = s := by
  unfold deliver at *
  by_cases hv : validateBasic m
  · simp only [hv, Bool.not_true, Bool.false_eq_true, if_false] at *
    cases hh : handle s m with
    | ok r => simp only [hh] at h; exact absurd rfl (h r)
    | err => rfl
    | panic => rfl
  · simp [hv]

theorem poolOk_nonvacuous : PoolOk { name := "p", vtype := "t", lockStart := 0, lockEnd := 100, initially := 10, withdrawn := 3, sent := 2 } := by
  unfold PoolOk; decide

end C4E.Props.C05
