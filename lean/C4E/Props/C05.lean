/-
  C05 — Vesting module account is always exactly backed by its pools.
-/
import C4E.Vesting
import C4E.Lemmas.VestBacked
namespace C4E.Props.C05
open C4E C4E.Vest C4E.CoinList

/-- per-pool solvency -/
def PoolOk (p : Pool) : Prop := 0 ≤ p.withdrawn ∧ 0 ≤ p.sent ∧ p.withdrawn + p.sent ≤ p.initially

/-- a withdrawal keeps a pool solvent -/
theorem withdraw_keeps_poolOk (now : Int) (p : Pool) (h : PoolOk p) :
    PoolOk { p with withdrawn := p.withdrawn + withdrawable now p } := by
  obtain ⟨h1, h2, h3⟩ := h
  unfold PoolOk withdrawable Pool.locked
  simp only []
  by_cases hc : now ≥ p.lockEnd
  · simp only [hc, if_true]; omega
  · simp only [hc, if_false]; omega

/-- a send of at most the locked remainder keeps a pool solvent -/
theorem send_keeps_poolOk (p : Pool) (amount : Int) (h : PoolOk p) (h0 : 0 ≤ amount) (hle : amount ≤ p.locked) :
    PoolOk { p with sent := p.sent + amount } := by
  obtain ⟨h1, h2, h3⟩ := h
  unfold Pool.locked at hle
  unfold PoolOk; simp only []; omega

/-- what a withdrawal pays is exactly by how much the pools' locked sum goes down -/
theorem withdraw_locked_delta (now : Int) (ps : List Pool) :
    sumInts (ps.map Pool.locked) - sumInts ((ps.map (fun p => { p with withdrawn := p.withdrawn + withdrawable now p })).map Pool.locked)
      = sumInts (ps.map (withdrawable now)) := by
  induction ps with
  | nil => simp
  | cons p rest ih =>
    simp only [List.map_cons, sumInts_cons]
    have : Pool.locked { p with withdrawn := p.withdrawn + withdrawable now p } = p.locked - withdrawable now p := by
      unfold Pool.locked; simp only []; omega
    rw [this]; omega

/-- a rejected message changes nothing: `deliver` keeps the state unless the handler succeeded -/
theorem rejected_noop (s : State) (m : Msg) (h : ∀ r, (deliver s m).2 ≠ .ok r) : (deliver s m).1 = s := by
  unfold deliver at *
  by_cases hv : validateBasic m
  · simp only [hv, Bool.not_true, Bool.false_eq_true, if_false] at *
    cases hh : handle s m with
    | ok r => simp only [hh] at h; exact absurd rfl (h r)
    | err => rfl
    | panic => rfl
  · simp [hv]

/-! ### the backing identity over whole histories -/

/-- the vesting module account holds exactly what the pools still lock -/
def Backed (s : State) : Prop := modBal s = lockedSum s

/-- the module account's own address cannot receive coins from the module (it is a blocked address) -/
def ModBlocked (s : State) : Prop := s.blocked.contains s.modAddr = true

/-- the account a message is signed by -/
def signer : Msg → String
  | .createPool o _ _ _ _ => o.s
  | .withdraw o => o.s
  | .send o _ _ _ _ => o.s
  | .createVA f _ _ _ _ => f.s
  | .split f _ _ => f.s
  | .move f _ => f.s
  | .moveDenoms f _ _ => f.s

theorem modBal_setPools (s : State) (o : String) (ps : List Pool) : modBal (s.setPools o ps) = modBal s := rfl

theorem modBal_send_in (s : State) (src : String) (c : Coins) (h : src ≠ s.modAddr) :
    modBal (s.applySend src s.modAddr c) = modBal s + amountOf c s.denom := by
  unfold modBal
  rw [(applySend_fields s src s.modAddr c).2.1, (applySend_fields s src s.modAddr c).2.2.1]
  exact applySend_bal_dst s src s.modAddr c s.denom h

theorem modBal_send_out (s : State) (dst : String) (c : Coins) (h : dst ≠ s.modAddr) :
    modBal (s.applySend s.modAddr dst c) = modBal s - amountOf c s.denom := by
  unfold modBal
  rw [(applySend_fields s s.modAddr dst c).2.1, (applySend_fields s s.modAddr dst c).2.2.1]
  exact applySend_bal_src s s.modAddr dst c s.denom (Ne.symm h)

theorem modBal_send_other (s : State) (src dst : String) (c : Coins) (h1 : src ≠ s.modAddr) (h2 : dst ≠ s.modAddr) :
    modBal (s.applySend src dst c) = modBal s := by
  unfold modBal
  rw [(applySend_fields s src dst c).2.1, (applySend_fields s src dst c).2.2.1,
    applySend_bal_other s src dst s.modAddr c (Ne.symm h1) (Ne.symm h2)]

theorem lockedSum_applySend (s : State) (src dst : String) (c : Coins) : lockedSum (s.applySend src dst c) = lockedSum s := rfl

/-- the invariant carried over histories: exact backing, every pool solvent, and the module
    account's own address on the blocked list (so that the module never pays itself) -/
def Inv (s : State) : Prop := Backed s ∧ Solvent s ∧ ModBlocked s

theorem lockedSum_congr (s s' : State) (h : s'.pools = s.pools) : lockedSum s' = lockedSum s := by
  unfold lockedSum; rw [h]

theorem inv_same {s s' : State} (hi : Inv s) (h : Same s s') : Inv s' := by
  obtain ⟨hb, hsol, hm⟩ := hi
  refine ⟨?_, ?_, ?_⟩
  · unfold Backed at hb ⊢; rw [h.bal, lockedSum_congr _ _ h.pools]; exact hb
  · intro kv hkv; rw [h.pools] at hkv; exact hsol kv hkv
  · unfold ModBlocked at hm ⊢; rw [h.blocked, h.mod]; exact hm

theorem solvent_get (s : State) (o : String) (ps : List Pool) (hs : Solvent s) (h : s.pools.get? o = some ps) :
    ∀ p ∈ ps, 0 ≤ p.withdrawn ∧ 0 ≤ p.sent ∧ p.withdrawn + p.sent ≤ p.initially :=
  hs (o, ps) (get?_mem _ _ _ h)

/-- create-pool keeps the invariant -/
theorem createPool_inv (s : State) (o : Addr) (name : String) (amount dur : Int) (vt : String) (res : Res)
    (h : createPool s o name amount dur vt = .ok res) (hs : o.s ≠ s.modAddr) (hi : Inv s) :
    Inv res.st ∧ res.st.modAddr = s.modAddr := by
  obtain ⟨hb, hsol, hm⟩ := hi
  unfold createPool at h
  split at h
  · cases h
  · split at h
    · cases h
    · rename_i hv
      split at h
      · cases h
      · split at h
        · cases h
        · simp only [] at h
          split at h
          · cases h
          · split at h
            · rename_i s1 hsend
              cases h
              have hs1 := send_ok_eq _ _ _ _ _ hsend
              subst hs1
              refine ⟨⟨?_, ?_, ?_⟩, rfl⟩
              · unfold Backed at hb ⊢
                rw [modBal_setPools, modBal_send_in s o.s _ hs, lockedSum_setPools, lockedSum_applySend,
                  (applySend_fields s o.s s.modAddr _).1, poolsLocked_append, amountOf_nz_single]
                simp only [poolsLocked, List.map_cons, List.map_nil, sumInts_cons, sumInts_nil, Pool.locked]
                omega
              · apply solvent_setPools
                · exact hsol
                · intro p hp
                  rcases List.mem_append.mp hp with hp | hp
                  · cases hg : s.pools.get? o.s with
                    | none => rw [hg] at hp; simp at hp
                    | some ps0 => rw [hg] at hp; exact solvent_get s o.s ps0 hsol hg p hp
                  · simp at hp; subst hp
                    simp [validateBasic] at hv
                    simp only []
                    omega
              · exact hm
            · cases h
            · cases h

/-- withdraw keeps the invariant -/
theorem withdrawAll_inv (s : State) (o : Addr) (res : Res)
    (h : withdrawAll s o = .ok res) (hi : Inv s) :
    Inv res.st ∧ res.st.modAddr = s.modAddr ∧ res.st.now = s.now ∧ res.st.vtypes = s.vtypes ∧ res.st.denom = s.denom := by
  obtain ⟨hb, hsol, hm⟩ := hi
  unfold withdrawAll at h
  split at h
  · cases h
  · split at h
    · cases h
    · rename_i ps hps
      have hok := solvent_get s o.s ps hsol hps
      have hps' : ∀ p ∈ ps.map (fun p => { p with withdrawn := p.withdrawn + withdrawable s.now p }),
          0 ≤ p.withdrawn ∧ 0 ≤ p.sent ∧ p.withdrawn + p.sent ≤ p.initially := by
        intro p hp
        obtain ⟨q, hq, rfl⟩ := List.mem_map.mp hp
        exact withdraw_keeps_poolOk s.now q (hok q hq)
      have hnn := sum_withdrawable_nonneg s.now ps (fun p hp => (hok p hp).2.2)
      split at h
      · cases h
      · simp only [] at h
        split at h
        · rename_i s1 hsent
          split at h
          · cases h
          · cases h
            by_cases hpos : sumInts (ps.map (withdrawable s.now)) > 0
            · rw [if_pos hpos] at hsent
              split at hsent
              · cases hsent
              · obtain ⟨e1, e2, e3, e4, e5, e6, e7⟩ := sendFromModule_effect s s1 o.s _ hm hsent
                refine ⟨⟨?_, ?_, ?_⟩, e2, e5, e6, e3⟩
                · unfold Backed at hb ⊢
                  rw [modBal_setPools, lockedSum_setPools, e7, lockedSum_congr _ _ e1, e1, hps, poolsLocked_withdraw]
                  simp only [Option.getD_some, amountOf, if_true, Int.add_zero]
                  omega
                · apply solvent_setPools _ _ _ _ hps'
                  intro kv hkv; rw [e1] at hkv; exact hsol kv hkv
                · unfold ModBlocked at hm ⊢
                  show s1.blocked.contains s1.modAddr = true
                  rw [e4, e2]; exact hm
            · rw [if_neg hpos] at hsent
              cases hsent
              refine ⟨⟨?_, ?_, hm⟩, rfl, rfl, rfl, rfl⟩
              · unfold Backed at hb ⊢
                rw [modBal_setPools, lockedSum_setPools, hps, poolsLocked_withdraw]
                simp only [Option.getD_some]
                omega
              · exact solvent_setPools _ _ _ hsol hps'
        · cases h
        · cases h

/-- the payout that funds a new vesting account: pools untouched, the module balance drops by `amount` -/
theorem newVestingAccount_effect (s s' : State) (to : String) (amount free le ve : Int) (hm : ModBlocked s)
    (h : newVestingAccount s to amount free le ve = .ok s') :
    s'.pools = s.pools ∧ s'.modAddr = s.modAddr ∧ s'.denom = s.denom ∧ s'.blocked = s.blocked ∧
    modBal s' = modBal s - amount := by
  unfold newVestingAccount at h
  split at h
  · cases h
  · split at h
    · cases h
    · split at h
      · cases h
      · simp only [] at h
        split at h
        · cases h
        · split at h
          · rename_i s2 hsend
            cases h
            have hsame := same_newCva s to (nz [(s.denom, Dec.truncInt (Dec.ofInt amount - Dec.mul (Dec.ofInt amount) free))])
              (unixSec (if le < s.now then s.now else le)) (unixSec ve)
            have hm1 : (newCva s to (nz [(s.denom, Dec.truncInt (Dec.ofInt amount - Dec.mul (Dec.ofInt amount) free))])
              (unixSec (if le < s.now then s.now else le)) (unixSec ve)).blocked.contains
                (newCva s to (nz [(s.denom, Dec.truncInt (Dec.ofInt amount - Dec.mul (Dec.ofInt amount) free))])
              (unixSec (if le < s.now then s.now else le)) (unixSec ve)).modAddr = true := hm
            obtain ⟨e1, e2, e3, e4, _, _, e7⟩ := sendFromModule_effect _ _ _ _ hm1 hsend
            refine ⟨e1, e2, e3, e4, ?_⟩
            rw [e7]
            show modBal s - amountOf (nz [(s.denom, amount)]) s.denom = _
            rw [amountOf_nz_single]
          · cases h
          · cases h

/-- send-to-new-vesting-account keeps the invariant -/
theorem sendToNew_inv (s : State) (o to : Addr) (pool : String) (amount : Int) (restart : Bool) (res : Res)
    (h : sendToNew s o to pool amount restart = .ok res) (hi : Inv s) :
    Inv res.st ∧ res.st.modAddr = s.modAddr := by
  unfold sendToNew at h
  split at h
  · cases h
  · rename_i hv
    split at h
    · cases h
    · cases h
    · rename_i w hw
      obtain ⟨⟨hb1, hsol1, hm1⟩, hmod1, _, _, _⟩ := withdrawAll_inv s o w hw hi
      simp only [] at h
      split at h
      · cases h
      · rename_i ps hps
        split at h
        · cases h
        · split at h
          · cases h
          · rename_i p hp
            split at h
            · cases h
            · rename_i hle
              split at h
              · cases h
              · rename_i vt _
                split at h
                · cases h
                · cases h
                · rename_i s2 hr
                  cases h
                  have heff : s2.pools = w.st.pools ∧ s2.modAddr = w.st.modAddr ∧ s2.denom = w.st.denom ∧
                      s2.blocked = w.st.blocked ∧ modBal s2 = modBal w.st - amount := by
                    cases restart
                    · simp only [Bool.false_eq_true, if_false] at hr
                      exact newVestingAccount_effect _ _ _ _ _ _ _ hm1 hr
                    · simp only [if_true] at hr
                      exact newVestingAccount_effect _ _ _ _ _ _ _ hm1 hr
                  obtain ⟨e1, e2, e3, e4, e5⟩ := heff
                  have hflag : (bumpLast pool amount ps).2 = true := by
                    rw [bumpLast_flag, hp]; rfl
                  have ha0 : 0 ≤ amount := by
                    simp [validateBasic] at hv
                    omega
                  have hinv2 : Inv (s2.setPools o.s (bumpLast pool amount ps).1) := by
                    refine ⟨?_, ?_, ?_⟩
                    · unfold Backed at hb1 ⊢
                      rw [modBal_setPools, lockedSum_setPools, e5, lockedSum_congr _ _ e1, e1, hps, poolsLocked_bumpLast, hflag]
                      simp only [Option.getD_some, if_true]
                      omega
                    · apply solvent_setPools
                      · intro kv hkv; rw [e1] at hkv; exact hsol1 kv hkv
                      · intro q' hq'
                        rcases bumpLast_mem pool amount ps q' hq' with hq | ⟨q, hq, rfl⟩
                        · exact solvent_get _ _ _ hsol1 hps q' hq
                        · rw [hp] at hq; cases hq
                          have := solvent_get _ _ _ hsol1 hps p (lastNamed_mem pool ps p hp)
                          exact send_keeps_poolOk p amount this ha0 (by omega)
                    · unfold ModBlocked at hm1 ⊢
                      show s2.blocked.contains s2.modAddr = true
                      rw [e4, e2]; exact hm1
                  exact ⟨inv_same hinv2 (same_appendTrace _ _ _ _), e2.trans hmod1⟩

/-- create-vesting-account never touches the pools or the module account -/
theorem createVA_same (s : State) (src to : Addr) (amount : List (String × Option Int)) (a b : Int) (res : Res)
    (h : createVA s src to amount a b = .ok res) (hs : src.s ≠ s.modAddr) (hm : ModBlocked s) : Same s res.st := by
  unfold createVA at h
  split at h
  · cases h
  · simp only [] at h
    split at h
    · cases h
    · rename_i hnb
      split at h
      · cases h
      · split at h
        · rename_i s2 hsend
          cases h
          have := send_ok_eq _ _ _ _ _ hsend
          subst this
          have hto := not_blocked_ne_mod s to.s hm hnb
          exact (same_newCva s _ _ _ _).trans (same_applySend _ _ _ _ hs hto)
        · cases h
        · cases h

/-- a split / move of vesting coins never touches the pools or the module account -/
theorem splitCoins_same (s : State) (src to : String) (amount : Coins) (res : Res)
    (h : splitCoins s src to amount = .ok res) (hs : src ≠ s.modAddr) (hm : ModBlocked s) : Same s res.st := by
  unfold splitCoins at h
  split at h
  · cases h
  · split at h
    · cases h
    · rename_i hnb
      have hto := not_blocked_ne_mod s to hm hnb
      split at h
      · cases h
      · split at h
        · cases h
        · cases h
        · rename_i s1 vacc hu
          have h1 := same_unlock s s1 src amount vacc hu
          simp only [] at h
          split at h
          · cases h
          · cases h
          · rename_i s3 hsend
            have := send_ok_eq _ _ _ _ _ hsend
            subst this
            have h2 := same_newCva s1 to (sortBy (fun a b => a.1 < b.1) amount)
              (if vacc.startS > unixSec s.now then vacc.startS else unixSec s.now) vacc.endS
            have h3 := same_applySend (newCva s1 to (sortBy (fun a b => a.1 < b.1) amount)
              (if vacc.startS > unixSec s.now then vacc.startS else unixSec s.now) vacc.endS) src to amount
              (by show src ≠ s1.modAddr; rw [h1.mod]; exact hs) (by show to ≠ s1.modAddr; rw [h1.mod]; exact hto)
            have h123 := (h1.trans h2).trans h3
            split at h
            · cases h; exact h123.trans (same_appendTrace _ _ _ _)
            · cases h; exact h123

/-- every successfully handled message keeps the invariant and the module address -/
theorem handle_inv (s : State) (m : Msg) (res : Res) (h : handle s m = .ok res) (hs : signer m ≠ s.modAddr) (hi : Inv s) :
    Inv res.st ∧ res.st.modAddr = s.modAddr := by
  cases m with
  | createPool o name amount dur vt =>
    unfold handle at h
    cases amount with
    | none => cases h
    | some a => exact createPool_inv s o name a dur vt res h hs hi
  | withdraw o =>
    unfold handle at h
    have := withdrawAll_inv s o res h hi
    exact ⟨this.1, this.2.1⟩
  | send o to pool amount restart =>
    unfold handle at h
    cases amount with
    | none => cases h
    | some a => exact sendToNew_inv s o to pool a restart res h hi
  | createVA f to amount a b =>
    unfold handle at h
    cases amount with
    | none => cases h
    | some c =>
      simp only [] at h
      split at h
      · cases h
      · have hsame := createVA_same s f to c a b res h hs hi.2.2
        exact ⟨inv_same hi hsame, hsame.mod⟩
  | split f to amount =>
    unfold handle at h
    cases amount with
    | none => cases h
    | some c =>
      simp only [] at h
      split at h
      · cases h
      · split at h
        · cases h
        · have hsame := splitCoins_same s f.s to.s _ res h hs hi.2.2
          exact ⟨inv_same hi hsame, hsame.mod⟩
  | move f to =>
    simp only [handle] at h
    split at h
    · cases h
    · split at h
      · cases h
      · have hsame := splitCoins_same s f.s to.s _ res h hs hi.2.2
        exact ⟨inv_same hi hsame, hsame.mod⟩
  | moveDenoms f to denoms =>
    simp only [handle] at h
    split at h
    · cases h
    · split at h
      · cases h
      · have hsame := splitCoins_same s f.s to.s _ res h hs hi.2.2
        exact ⟨inv_same hi hsame, hsame.mod⟩

/-- one delivered message — accepted or rejected — keeps the invariant -/
theorem deliver_inv (s : State) (m : Msg) (hs : signer m ≠ s.modAddr) (hi : Inv s) :
    Inv (deliver s m).1 ∧ (deliver s m).1.modAddr = s.modAddr := by
  unfold deliver
  split
  · exact ⟨hi, rfl⟩
  · cases hh : handle s m with
    | ok r => exact handle_inv s m r hh hs hi
    | err => exact ⟨hi, rfl⟩
    | panic => exact ⟨hi, rfl⟩

/-- a history: vesting messages interleaved with arbitrary passage of block time -/
inductive HOp where
  | msg (m : Msg)
  | time (t : Int)

def hstep (s : State) : HOp → State
  | .msg m => (deliver s m).1
  | .time t => { s with now := t }

def hrun (s : State) (ops : List HOp) : State := ops.foldl hstep s

/-- no message of the history is signed by the module account itself (it has no key) -/
def NotByModule (mod : String) (ops : List HOp) : Prop := ∀ m, HOp.msg m ∈ ops → signer m ≠ mod

/-- **C05 over every history**: from a state where the module account is exactly backed and
    every pool is solvent, after any sequence of messages (accepted, rejected or panicking) and
    block-time changes, the module account is exactly backed and every pool is solvent. -/
theorem backed_over_histories (ops : List HOp) : ∀ (s : State), Inv s → NotByModule s.modAddr ops →
    Inv (hrun s ops) ∧ (hrun s ops).modAddr = s.modAddr := by
  induction ops with
  | nil => intro s hi _; exact ⟨hi, rfl⟩
  | cons op rest ih =>
    intro s hi hn
    have hstepInv : Inv (hstep s op) ∧ (hstep s op).modAddr = s.modAddr := by
      cases op with
      | msg m => exact deliver_inv s m (hn m (by simp)) hi
      | time t =>
        refine ⟨?_, rfl⟩
        exact inv_same hi ⟨rfl, rfl, rfl, rfl, rfl, rfl⟩
    have hn' : NotByModule (hstep s op).modAddr rest := by
      intro m hm; rw [hstepInv.2]; exact hn m (by simp [hm])
    obtain ⟨h1, h2⟩ := ih (hstep s op) hstepInv.1 hn'
    exact ⟨h1, h2.trans hstepInv.2⟩

/-- the registered invariants of the Go module hold in every state satisfying `Inv` -/
theorem inv_implies_registered (s : State) (hi : Inv s) :
    invModuleAccount s = true ∧ invConsistent s = true := by
  obtain ⟨hb, hsol, _⟩ := hi
  refine ⟨?_, ?_⟩
  · unfold invModuleAccount; unfold Backed modBal at hb; simp [hb]
  · unfold invConsistent
    rw [List.all_eq_true]
    intro kv hkv
    rw [List.all_eq_true]
    intro p hp
    have := (hsol kv hkv p hp).2.2
    simp; omega

/-- the statement of C05 for every history: exact backing, per-pool solvency, and the Go
    module's registered invariants, in every reachable state -/
theorem c05_every_reachable_state (s : State) (ops : List HOp) (hi : Inv s) (hn : NotByModule s.modAddr ops) :
    modBal (hrun s ops) = lockedSum (hrun s ops) ∧
    (∀ kv ∈ (hrun s ops).pools, ∀ p ∈ kv.2, PoolOk p) ∧
    invModuleAccount (hrun s ops) = true ∧ invConsistent (hrun s ops) = true := by
  have h := (backed_over_histories ops s hi hn).1
  exact ⟨h.1, h.2.1, inv_implies_registered _ h⟩

/-- the empty ledger with an empty, blocked module account satisfies the invariant (genesis) -/
theorem inv_genesis (mod denom : String) (vts : List VType) (accts : AList Acct) (bal : AList Coins) (blocked : List String)
    (hb : blocked.contains mod = true) (h0 : amountOf ((bal.get? mod).getD []) denom = 0) :
    Inv { denom := denom, vtypes := vts, accts := accts, bal := bal, blocked := blocked, modAddr := mod } := by
  refine ⟨?_, ?_, hb⟩
  · unfold Backed modBal State.balance lockedSum; simpa using h0
  · intro kv hkv; cases hkv

theorem poolOk_nonvacuous : PoolOk { name := "p", vtype := "t", lockStart := 0, lockEnd := 100, initially := 10, withdrawn := 3, sent := 2 } := by
  unfold PoolOk; decide

end C4E.Props.C05
