/-
  C04 (continued) — every destination receives exactly its configured share, per destination, on the
  code-tied multi-denomination model.  (Separate file: it needs `Lemmas/DistrShares.lean`, which
  builds on helper lemmas of `Props/C04.lean`.)
-/
import C4E.Props.C04
import C4E.Lemmas.DistrShares
namespace C4E.Props.C04
open C4E C4E.Distr C4E.CoinList

/-- `⌊inflow × share⌋` summed over the named shares that point to account `a` -/
def sharesToT (a : Account) (xd : Int) : List Distr.Share → Int
  | [] => 0
  | sh :: rest =>
    (if sh.dest.type ≠ tMain && sameAcc a sh.dest then Dec.mulTrunc xd (sh.share.getD 0) else 0) + sharesToT a xd rest

theorem sharesTo_eq (a : Account) (x : DecCoins) (hx : Sorted x) (hpos : isAllPositive x = true) (d : String) :
    ∀ shs : List Distr.Share, sharesTo a x d shs = sharesToT a (amountOf x d) shs
  | [] => rfl
  | sh :: rest => by
    simp only [sharesTo, sharesToT, sharesTo_eq a x hx hpos d rest, amountOf_calcPercentage _ x hx d, hpos, if_true]

/-- **C04 on the code-tied model, per destination**: one `StartDistributionProcess` with a positive,
    denom-sorted inflow `x` raises what the states record for a destination account `a`, in every
    denomination `d`, by exactly `Σ ⌊x_d × share⌋` over the named shares pointing to `a`, plus — when `a`
    is the primary destination — the whole remainder `x_d − Σ_all ⌊x_d × shareᵢ⌋ − ⌊x_d × burn⌋`;
    nothing else is booked for `a` (two configuration entries denote the same record iff id and type agree) -/
theorem faithful_destination_receives (sts : List DState) (x : DecCoins) (s : SubD) (sts' : List DState)
    (evs : List Distr.Event) (h : startDistribution sts x s = .ok (sts', evs))
    (hx : Sorted x) (hpos : isAllPositive x = true) (hk : KeysOk sts) (a : Account) (ha : ProperAcc a) (d : String) :
    recA a d sts' - recA a d sts = sharesToT a (amountOf x d) s.shares +
      (if s.primary.type ≠ tMain && sameAcc a s.primary
       then amountOf x d - Distr.sumL (s.shares.map (fun sh => Dec.mulTrunc (amountOf x d) (sh.share.getD 0)))
            - Dec.mulTrunc (amountOf x d) (s.burnShare.getD 0)
       else 0) := by
  have hnb : ∀ t ∈ sts, t.burn = true → ∀ sb, t.account = some sb → sameAcc a sb = false := by
    intro t ht hb sb hsb
    rcases hk.2 t ht with ⟨_, hkey⟩ | ⟨hf, _⟩
    · cases hsame : sameAcc a sb with
      | false => rfl
      | true =>
        exfalso
        unfold sameAcc at hsame
        simp only [Bool.and_eq_true, decide_eq_true_eq] at hsame
        have hpb : ProperAcc sb := ⟨by rw [hsame.2]; exact ha.1, by rw [hsame.1]; exact ha.2⟩
        rw [stateKey_proper t sb hsb hpb] at hkey
        exact properKey_ne_burn sb hpb hkey
    · rw [hb] at hf; cases hf
  have hae : sameAcc a { id := "", type := "" } = false := by
    unfold sameAcc
    have : ¬ ("" = a.id) := fun hh => ha.2 hh.symm
    simp [this]
  have := startDistribution_rec sts x s sts' evs h a d hnb hae
  rw [sharesTo_eq a x hx hpos d, sumC_eq x hx d, amountOf_calcPercentage _ x hx d] at this
  simp only [hpos, if_true] at this
  rw [this]
  split <;> omega

/-- the same for the burn share: the inflow's `⌊x_d × burn⌋` and nothing else is what the sub-distributor
    books for burning — stated through the total: recorded + kept = before + inflow (`faithful_allocation_conserves`)
    and the per-account amounts above leave exactly the burn share for the burn state -/
theorem faithful_shares_fit (e : Env) (s : SubD) (x : DecCoins) (hx : EN x) (hxs : Sorted x) (hok : SubOkF e s) (hT : SubOkT e s)
    (d : String) : sumC x d s.shares + amountOf (calcPercentage (s.burnShare.getD 0) x) d ≤ amountOf x d :=
  shares_and_burn_fit e s x hx hxs hok hT d

end C4E.Props.C04
