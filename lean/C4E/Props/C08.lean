/-
  C08 — New vesting accounts get exactly the documented amount and schedule.
-/
import C4E.Vesting
import C4E.Lemmas.VestBacked
namespace C4E.Props.C08
open C4E C4E.Vest C4E.CoinList

/-- the part of `amount` subject to vesting, as computed by `newVestingAccount` -/
def vestedPart (amount free : Int) : Int :=
  Dec.truncInt (Dec.ofInt amount - Dec.mul (Dec.ofInt amount) free)

/-- `amount · free` is exact in 18-digit arithmetic (the product of an integer and a Dec needs no
    rounding), so the vesting part is ⌊amount · (1 − free)⌋ exactly as documented -/
theorem vestedPart_exact (amount free : Int) (ha : 0 ≤ amount) (hf0 : 0 ≤ free) (hf1 : free ≤ P) :
    vestedPart amount free = (amount * (P - free)) / P := by
  unfold vestedPart Dec.mul Dec.ofInt Dec.chopRound
  have hnn : ¬ (amount * P * free < 0) := by
    have := Int.mul_nonneg (Int.mul_nonneg ha (Int.le_of_lt P_pos)) hf0; omega
  rw [if_neg hnn]
  have hdiv : (amount * P * free) % P = 0 := by
    have : amount * P * free = P * (amount * free) := by
      rw [Int.mul_comm amount P, Int.mul_assoc]
    rw [this]; exact Int.mul_emod_right _ _
  have hq : (amount * P * free) / P = amount * free := by
    have : amount * P * free = (amount * free) * P := by
      rw [Int.mul_assoc, Int.mul_comm P free, ← Int.mul_assoc]
    rw [this]; exact Int.mul_ediv_cancel _ (Int.ne_of_gt P_pos)
  unfold Dec.roundNonneg
  simp only [hdiv, if_true, hq]
  have hnn2 : 0 ≤ amount * P - amount * free := by
    have : amount * free ≤ amount * P := Int.mul_le_mul_of_nonneg_left hf1 ha
    omega
  rw [Dec.truncInt_nonneg_eq hnn2]
  congr 1
  rw [Int.mul_sub]

theorem vestedPart_bounds (amount free : Int) (ha : 0 ≤ amount) (hf0 : 0 ≤ free) (hf1 : free ≤ P) :
    0 ≤ vestedPart amount free ∧ vestedPart amount free ≤ amount := by
  rw [vestedPart_exact amount free ha hf0 hf1]
  have h1 : 0 ≤ amount * (P - free) := Int.mul_nonneg ha (by omega)
  have h2 : amount * (P - free) ≤ amount * P := Int.mul_le_mul_of_nonneg_left (by omega) ha
  constructor
  · exact Int.ediv_nonneg h1 (Int.le_of_lt P_pos)
  · have := Int.ediv_le_ediv P_pos h2
    rwa [Int.mul_ediv_cancel _ (Int.ne_of_gt P_pos)] at this

/-- free = 0 vests everything, free = 1 vests nothing -/
theorem vestedPart_free0 (amount : Int) (ha : 0 ≤ amount) : vestedPart amount 0 = amount := by
  rw [vestedPart_exact amount 0 ha (Int.le_refl 0) (Int.le_of_lt P_pos)]
  simp only [Int.sub_zero]; exact Int.mul_ediv_cancel _ (Int.ne_of_gt P_pos)
theorem vestedPart_free1 (amount : Int) (ha : 0 ≤ amount) : vestedPart amount P = 0 := by
  rw [vestedPart_exact amount P ha (Int.le_of_lt P_pos) (Int.le_refl P)]
  simp

/-- schedule chosen by `newVestingAccount`: start = max(lockEnd, now) in whole seconds -/
theorem start_is_max (lockEnd now : Int) :
    (if lockEnd < now then now else lockEnd) = max lockEnd now := by
  by_cases h : lockEnd < now
  · rw [if_pos h]; omega
  · rw [if_neg h]; omega

/-! ### the handler's post-state -/

theorem sendFromModule_ok_eq (s s' : State) (dst : String) (c : Coins) (h : s.sendFromModule dst c = .ok s') :
    s' = s.applySend s.modAddr dst c := by
  unfold State.sendFromModule at h
  split at h
  · cases h
  · exact send_ok_eq _ _ _ _ _ h

/-- **what `newVestingAccount` leaves behind**: a brand-new continuous vesting account at `to`
    whose original vesting is exactly `vestedPart amount free` of the vesting denom, with the
    schedule start = max(lock end, now), end = vesting end (whole seconds), a fresh account number,
    and a balance that grew by exactly `amount` -/
theorem newVestingAccount_post (s s' : State) (to : String) (amount free le ve : Int)
    (h : newVestingAccount s to amount free le ve = .ok s') :
    s.accts.get? to = none ∧
    s'.accts.get? to = some { kind := .cva, num := s.nextNum, ov := nz [(s.denom, vestedPart amount free)],
                              startS := unixSec (if le < s.now then s.now else le), endS := unixSec ve } ∧
    (to ≠ s.modAddr → amountOf (s'.balance to) s.denom = amountOf (s.balance to) s.denom + amount) := by
  unfold newVestingAccount at h
  split at h
  · cases h
  · split at h
    · cases h
    · split at h
      · cases h
      · rename_i hex
        simp only [] at h
        split at h
        · cases h
        · split at h
          · rename_i s2 hsend
            cases h
            · have := sendFromModule_ok_eq _ _ _ _ hsend
              subst this
              have hnone : s.accts.get? to = none := by
                cases hg : s.accts.get? to with
                | none => rfl
                | some r => rw [hg] at hex; simp at hex
              refine ⟨hnone, ?_, ?_⟩
              · -- the send finds the account just created and leaves the record alone
                unfold State.applySend newCva
                simp only [AList.get?_set_self, Option.isSome_some, if_true]
                rfl
              · intro hne
                have := applySend_bal_dst (newCva s to (nz [(s.denom, Dec.truncInt (Dec.ofInt amount - Dec.mul (Dec.ofInt amount) free))])
                  (unixSec (if le < s.now then s.now else le)) (unixSec ve)) s.modAddr to (nz [(s.denom, amount)]) s.denom (Ne.symm hne)
                rw [amountOf_nz_single] at this
                exact this
          · cases h
          · cases h

/-- a request above what is still locked in the pool fails (nothing changes: `deliver` keeps the
    state of a failed message) -/
theorem send_above_locked_fails (s : State) (o to : Addr) (pool : String) (amount : Int) (restart : Bool)
    (w : Res) (ps : List Pool) (p : Pool)
    (hw : withdrawAll s o = .ok w) (hps : w.st.pools.get? o.s = some ps) (hp : lastNamed pool ps = some p)
    (habove : p.locked < amount) : ∀ res, sendToNew s o to pool amount restart ≠ .ok res := by
  intro res h
  unfold sendToNew at h
  split at h
  · cases h
  · rw [hw] at h
    simp only [hps] at h
    split at h
    · cases h
    · simp only [hp, habove, if_true] at h
      cases h

/-- the pool's `sent` counter grows by exactly the amount sent (on the last pool of that name) -/
theorem bumpLast_adds_exactly (name : String) (amount : Int) (ps : List Pool) (p : Pool) (h : lastNamed name ps = some p) :
    poolsLocked (bumpLast name amount ps).1 = poolsLocked ps - amount ∧
    ∀ q' ∈ (bumpLast name amount ps).1, q' ∈ ps ∨ q' = { p with sent := p.sent + amount } := by
  have hflag : (bumpLast name amount ps).2 = true := by rw [bumpLast_flag, h]; rfl
  refine ⟨by rw [poolsLocked_bumpLast, hflag]; simp, ?_⟩
  intro q' hq'
  rcases bumpLast_mem name amount ps q' hq' with h1 | ⟨q, hq, rfl⟩
  · exact Or.inl h1
  · rw [h] at hq; cases hq; exact Or.inr rfl

theorem vestedPart_nonvacuous : vestedPart 1000 50000000000000000 = 950 ∧ vestedPart 7 333333333333333333 = 4 := by
  decide

/-! ### direct creation (`MsgCreateVestingAccount`) -/

theorem amountOf_insertBy (lt : String × Int → String × Int → Bool) (x : String × Int) (d : String) :
    ∀ l : CoinList, amountOf (insertBy lt x l) d = amountOf [x] d + amountOf l d
  | [] => by simp [insertBy, amountOf]
  | y :: ys => by
    unfold insertBy
    obtain ⟨kx, vx⟩ := x
    obtain ⟨ky, vy⟩ := y
    split
    · simp only [amountOf]; omega
    · have := amountOf_insertBy lt (kx, vx) d ys
      simp only [amountOf] at this ⊢
      omega

/-- sorting the coins (`amount.Sort()`) changes no amount -/
theorem amountOf_sortBy (lt : String × Int → String × Int → Bool) (d : String) :
    ∀ l : CoinList, amountOf (sortBy lt l) d = amountOf l d
  | [] => rfl
  | x :: xs => by
    unfold sortBy
    simp only [List.foldr_cons]
    have ih := amountOf_sortBy lt d xs
    unfold sortBy at ih
    rw [amountOf_insertBy, ih]
    obtain ⟨k, v⟩ := x
    simp only [amountOf]; omega

/-- **`MsgCreateVestingAccount`, post-state of an accepted request** (sender ≠ recipient): the
    recipient did not exist; afterwards it is a continuous vesting account whose original vesting is
    exactly the given coins (sorted), with exactly the given start and end times and a fresh account
    number — so ALL of the coins vest linearly between the two instants — and, in every
    denomination, the recipient's balance grew and the sender's shrank by exactly the given amount -/
theorem createVA_post (s : State) (src to : Addr) (amount : List (String × Option Int)) (startS endS : Int) (r : Res)
    (h : createVA s src to amount startS endS = .ok r) (hne : src.s ≠ to.s) :
    s.accts.get? to.s = none ∧
    r.st.accts.get? to.s = some { kind := .cva, num := s.nextNum,
                                   ov := sortBy (fun a b => a.1 < b.1) (unopt amount), startS := startS, endS := endS } ∧
    ∀ d, amountOf (r.st.balance to.s) d = amountOf (s.balance to.s) d + amountOf (unopt amount) d ∧
         amountOf (r.st.balance src.s) d = amountOf (s.balance src.s) d - amountOf (unopt amount) d := by
  unfold createVA at h
  split at h
  · cases h
  · simp only [] at h
    split at h
    · cases h
    · split at h
      · cases h
      · rename_i hex
        have hnone : s.accts.get? to.s = none := by
          cases hg : s.accts.get? to.s with
          | none => rfl
          | some r => rw [hg] at hex; simp at hex
        split at h
        · rename_i s2 hsend
          cases h
          have := send_ok_eq _ _ _ _ _ hsend
          subst this
          refine ⟨hnone, ?_, ?_⟩
          · -- the account record written by `newCva` survives the transfer (the recipient exists by then)
            unfold State.applySend newCva
            simp only []
            rw [AList.get?_set_self]
            simp
            rw [AList.get?_set_self]
          · intro d
            have h1 := applySend_bal_dst (newCva s to.s (sortBy (fun a b => a.1 < b.1) (unopt amount)) startS endS) src.s to.s
              (sortBy (fun a b => a.1 < b.1) (unopt amount)) d hne
            have h2 := applySend_bal_src (newCva s to.s (sortBy (fun a b => a.1 < b.1) (unopt amount)) startS endS) src.s to.s
              (sortBy (fun a b => a.1 < b.1) (unopt amount)) d hne
            rw [amountOf_sortBy] at h1 h2
            exact ⟨h1, h2⟩
        · cases h
        · cases h

end C4E.Props.C08
