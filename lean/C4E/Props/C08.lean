/-
  C08 — New vesting accounts get exactly the documented amount and schedule.
-/
import C4E.Vesting
namespace C4E.Props.C08
open C4E C4E.Vest

/-- the part of `amount` subject to vesting, as computed by `newVestingAccount` -/
def vestedPart (amount free : Int) : Int :=
  Dec.truncInt (Dec.ofInt amount - Dec.mul (Dec.ofInt amount) free)

/-- `amount · free` is exact in 18-digit arithmetic (the product of an integer and a Dec needs no
    rounding), so the vesting part is ⌊amount · (1 − free)⌋ exactly as documented -/
theorem vestedPart_exact (amount free : Int) (ha : 0 ≤ amount) (hf0 : 0 ≤ free) (hf1 : free ≤ P) :
    vestedPart amount free = (amount * (P - free)) / P := by
  unfold vestedPart Dec.mul Dec.ofInt Dec.chopRound
  have hnn : ¬ (amount * P * free < 0) := by
    have := Int.mul_nonneg (Int.mul_nonneg ha (Int.le_of_lt P_pos)) hf0; omega
  rw [if_neg hnn]
  have hdiv : (amount * P * free) % P = 0 := by
    have : amount * P * free = P * (amount * free) := by
      rw [Int.mul_comm amount P, Int.mul_assoc]
    rw [this]; exact Int.mul_emod_right _ _
  have hq : (amount * P * free) / P = amount * free := by
    have : amount * P * free = (amount * free) * P := by
      rw [Int.mul_assoc, Int.mul_comm P free, ← Int.mul_assoc]
    rw [this]; exact Int.mul_ediv_cancel _ (Int.ne_of_gt P_pos)
  unfold Dec.roundNonneg
  simp only [hdiv, if_true, hq]
  have hnn2 : 0 ≤ amount * P - amount * free := by
    have : amount * free ≤ amount * P := Int.mul_le_mul_of_nonneg_left hf1 ha
    omega
  rw [Dec.truncInt_nonneg_eq hnn2]
  congr 1
  rw [Int.mul_sub]

theorem vestedPart_bounds (amount free : Int) (ha : 0 ≤ amount) (hf0 : 0 ≤ free) (hf1 : free ≤ P) :
    0 ≤ vestedPart amount free ∧ vestedPart amount free ≤ amount := by
  rw [vestedPart_exact amount free ha hf0 hf1]
  have h1 : 0 ≤ amount * (P - free) := Int.mul_nonneg ha (by omega)
  have h2 : amount * (P - free) ≤ amount * P := Int.mul_le_mul_of_nonneg_left (by omega) ha
  constructor
  · exact Int.ediv_nonneg h1 (Int.le_of_lt P_pos)
  · have := Int.ediv_le_ediv P_pos h2
    rwa [Int.mul_ediv_cancel _ (Int.ne_of_gt P_pos)] at this

/-- free = 0 vests everything, free = 1 vests nothing -/
theorem vestedPart_free0 (amount : Int) (ha : 0 ≤ amount) : vestedPart amount 0 = amount := by
  rw [vestedPart_exact amount 0 ha (Int.le_refl 0) (Int.le_of_lt P_pos)]
  simp only [Int.sub_zero]; exact Int.mul_ediv_cancel _ (Int.ne_of_gt P_pos)
theorem vestedPart_free1 (amount : Int) (ha : 0 ≤ amount) : vestedPart amount P = 0 := by
  rw [vestedPart_exact amount P ha (Int.le_of_lt P_pos) (Int.le_refl P)]
  simp

/-- schedule chosen by `newVestingAccount`: start = max(lockEnd, now) in whole seconds -/
theorem start_is_max (lockEnd now : Int) :
    (if lockEnd < now then now else lockEnd) = max lockEnd now := by
  by_cases h : lockEnd < now
  · rw [if_pos h]; omega
  · rw [if_neg h]; omega

theorem vestedPart_nonvacuous : vestedPart 1000 50000000000000000 = 950 ∧ vestedPart 7 333333333333333333 = 4 := by
  decide

end C4E.Props.C08
