/-
  C16 — The v1.2.0 upgrade and store migrations preserve locked value.
-/
import C4E.Upgrade
import C4E.Lemmas.SortLemmas
namespace C4E.Props.C16
open C4E C4E.Vest C4E.Upgrade

/-- the four amounts carved out of the validators pool add up to the pre-check threshold -/
theorem sum_is_total : sum = vcAmt + ebAmt + pubAmt + stratAmt := rfl
theorem sum_value : sum = 72000000000000 := by decide

/-- one split step moves exactly `amt` of locked value into a fresh pool and keeps the
    history counters of the source -/
theorem splitOne_conserves (v v' p : Pool) (name vtype : String) (amt le : Int)
    (h : splitOne v name vtype amt le = some (v', p)) :
    v'.locked + p.locked = v.locked ∧ v'.sent = v.sent ∧ v'.withdrawn = v.withdrawn ∧
    p.initially = amt ∧ p.sent = 0 ∧ p.withdrawn = 0 ∧ p.genesisPool = true ∧ p.lockStart = v.lockStart := by
  unfold splitOne at h
  split at h
  · cases h
  · simp only [Option.some.injEq, Prod.mk.injEq] at h
    obtain ⟨h1, h2⟩ := h
    subst h1; subst h2
    unfold Pool.locked
    simp only [and_self, and_true]
    omega

/-- a split step succeeds exactly when the source still holds at least `amt` -/
theorem splitOne_succeeds_iff (v : Pool) (name vtype : String) (amt le : Int) :
    (splitOne v name vtype amt le).isSome = true ↔ amt ≤ v.locked := by
  unfold splitOne
  by_cases h : v.locked - amt < 0
  · simp [h]; omega
  · simp [h]; omega

/-- the pre-check `locked ≥ sum` guarantees that all four split steps succeed: the split is never
    left half-done (all-or-nothing) -/
theorem four_splits_succeed (v : Pool) (les : Int × Int × Int × Int) (h : sum ≤ v.locked)
    (ha : 0 ≤ vcAmt ∧ 0 ≤ ebAmt ∧ 0 ≤ pubAmt ∧ 0 ≤ stratAmt) :
    ∃ v1 p1 v2 p2 v3 p3 v4 p4,
      splitOne v "VC round pool" "VC round" vcAmt les.1 = some (v1, p1) ∧
      splitOne v1 "Early-bird round pool" "Early-bird round" ebAmt les.2.1 = some (v2, p2) ∧
      splitOne v2 "Public round pool" "Public round" pubAmt les.2.2.1 = some (v3, p3) ∧
      splitOne v3 "Strategic reserve short term round pool" "Strategic reserve short term round" stratAmt les.2.2.2 = some (v4, p4) ∧
      v4.locked + p1.locked + p2.locked + p3.locked + p4.locked = v.locked := by
  have hs : sum = vcAmt + ebAmt + pubAmt + stratAmt := rfl
  obtain ⟨a1, a2, a3, a4⟩ := ha
  have step : ∀ (x : Pool) (n t : String) (amt le : Int), amt ≤ x.locked →
      ∃ x' p, splitOne x n t amt le = some (x', p) ∧ x'.locked + p.locked = x.locked ∧ p.locked = amt := by
    intro x n t amt le hle
    cases hh : splitOne x n t amt le with
    | none =>
      have := (splitOne_succeeds_iff x n t amt le).mpr hle
      rw [hh] at this; simp at this
    | some r =>
      obtain ⟨x', p⟩ := r
      have hc := splitOne_conserves x x' p n t amt le hh
      refine ⟨x', p, rfl, hc.1, ?_⟩
      unfold Pool.locked; rw [hc.2.2.2.1, hc.2.2.2.2.1, hc.2.2.2.2.2.1]; omega
  obtain ⟨v1, p1, e1, c1, q1⟩ := step v _ _ vcAmt les.1 (by omega)
  obtain ⟨v2, p2, e2, c2, q2⟩ := step v1 _ _ ebAmt les.2.1 (by omega)
  obtain ⟨v3, p3, e3, c3, q3⟩ := step v2 _ _ pubAmt les.2.2.1 (by omega)
  obtain ⟨v4, p4, e4, c4, q4⟩ := step v3 _ _ stratAmt les.2.2.2 (by omega)
  exact ⟨v1, p1, v2, p2, v3, p3, v4, p4, e1, e2, e3, e4, by omega⟩

/-- v2 → v3: every field is preserved, only the new genesis flag is set to false -/
theorem migrate_v3_fieldwise (p : Pool) :
    (migrateV3Pool p).name = p.name ∧ (migrateV3Pool p).vtype = p.vtype ∧ (migrateV3Pool p).lockStart = p.lockStart ∧
    (migrateV3Pool p).lockEnd = p.lockEnd ∧ (migrateV3Pool p).initially = p.initially ∧ (migrateV3Pool p).withdrawn = p.withdrawn ∧
    (migrateV3Pool p).sent = p.sent ∧ (migrateV3Pool p).genesisPool = false ∧ (migrateV3Pool p).locked = p.locked :=
  ⟨rfl, rfl, rfl, rfl, rfl, rfl, rfl, rfl, rfl⟩

/-- v1 → v2: the locked amount of the new pool is the old format's
    `lastModificationVested − lastModificationWithdrawn`, and `withdrawn` is carried over -/
theorem migrate_v2_locked (name vtype : String) (ls le vested withdrawn lmw lmv : Int) :
    (migrateV2Pool name vtype ls le vested withdrawn lmw lmv).locked = lmv - lmw ∧
    (migrateV2Pool name vtype ls le vested withdrawn lmw lmv).withdrawn = withdrawn := by
  unfold migrateV2Pool Pool.locked; simp only []; constructor
  · omega
  · trivial

/-- the migrated v1 pool is solvent exactly when the old record was consistent -/
theorem migrate_v2_solvent (name vtype : String) (ls le vested withdrawn lmw lmv : Int)
    (h1 : 0 ≤ withdrawn) (h2 : lmw ≤ lmv) (h3 : lmv - lmw ≤ vested - withdrawn) (h4 : 0 ≤ lmw + vested - withdrawn - lmv) :
    let p := migrateV2Pool name vtype ls le vested withdrawn lmw lmv
    0 ≤ p.withdrawn ∧ 0 ≤ p.sent ∧ p.withdrawn + p.sent ≤ p.initially := by
  unfold migrateV2Pool; simp only []; omega

/-- accounts whose schedule is shifted keep every amount; other account kinds are untouched -/
theorem shift_keeps_amounts (a : Acct) (s e : Int) :
    (shiftAccount a s e).ov = a.ov ∧ (shiftAccount a s e).dv = a.dv ∧ (shiftAccount a s e).df = a.df ∧
    (shiftAccount a s e).num = a.num ∧ (shiftAccount a s e).ident = a.ident ∧ (shiftAccount a s e).kind = a.kind := by
  unfold shiftAccount; split <;> exact ⟨rfl, rfl, rfl, rfl, rfl, rfl⟩

theorem shift_only_cva (a : Acct) (s e : Int) (h : a.kind ≠ .cva) : shiftAccount a s e = a := by
  unfold shiftAccount; rw [if_neg h]

/-- trace update only ever sets flags to true and keeps id / address -/
theorem updateTrace_keeps (t : Trace) : (updateTrace t).id = t.id ∧ (updateTrace t).address = t.address := by
  unfold updateTrace; split
  · exact ⟨rfl, rfl⟩
  · split <;> exact ⟨rfl, rfl⟩

/-! ### parameter migrations (consensus version 2 → 3) -/

open C4E.Minter in
/-- what a legacy minter says: the configuration selected by its type tag -/
def legacyCfg (m : LegacyM) : Minter.Cfg :=
  if m.type = tExp then (match m.exp with | some (a, st, mu) => .exp a st mu | none => .noMint)
  else if m.type = tLin then (match m.lin with | some a => .lin a | none => .noMint)
  else .noMint

theorem cleanCfg_legacy (m : LegacyM) (h : (Minter.cleanCfg (legacyToRaw m)).isSome = true) :
    Minter.cleanCfg (legacyToRaw m) = some (legacyCfg m) := by
  unfold legacyToRaw legacyCfg Minter.cleanCfg at *
  by_cases he : m.type = tExp
  · simp only [he, if_true] at h ⊢
    cases hx : m.exp with
    | none => rw [hx] at h; simp at h
    | some t =>
      obtain ⟨a, st, mu⟩ := t
      rw [hx] at h
      simp only [] at h ⊢
      split at h
      · simp at h
      · split at h
        · simp at h
        · split at h
          · simp at h
          · split at h
            · simp at h
            · rename_i h1 h2 h3 h4
              simp [h1, h2, h3, h4]
  · simp only [he, if_false] at h ⊢
    by_cases hl : m.type = tLin
    · simp only [hl, if_true] at h ⊢
      cases hx : m.lin with
      | none => rw [hx] at h; simp at h
      | some a =>
        rw [hx] at h
        simp only [] at h ⊢
        split at h
        · simp at h
        · split at h
          · simp at h
          · rename_i h1 h2
            simp [h1, h2]
    · simp only [hl, if_false]

/-- the validation loop returns its input with each configuration cleaned -/
theorem validateLoop_eq (multi : Bool) : ∀ (l : List Minter.RawMinter) (id : Nat) (prev : Int) (out : List Minter.M),
    Minter.validateLoop multi id prev l = some out →
    out = l.map (fun r => { seq := r.seq, endT := r.endT, cfg := (Minter.cleanCfg r).getD .noMint }) ∧
    ∀ r ∈ l, (Minter.cleanCfg r).isSome = true
  | [], _, _, out, h => by
    simp only [Minter.validateLoop, Option.some.injEq] at h
    subst h; exact ⟨rfl, by intro r hr; cases hr⟩
  | m :: rest, id, prev, out, h => by
    unfold Minter.validateLoop at h
    split at h
    · cases h
    · split at h
      · cases h
      · split at h
        · cases h
        · split at h
          · cases h
          · rename_i c hc
            split at h
            · cases h
            · rename_i ms hms
              cases h
              obtain ⟨i1, i2⟩ := validateLoop_eq multi rest _ _ ms hms
              refine ⟨?_, ?_⟩
              · simp only [List.map_cons, hc, Option.getD_some, i1]
              · intro r hr
                rcases List.mem_cons.mp hr with rfl | hr
                · simp [hc]
                · exact i2 r hr

def seqLt (a b : LegacyM) : Bool := a.seq < b.seq

/-- the legacy validation only accepts strictly consecutive sequence ids -/
theorem legacyLoop_asc (multi : Bool) : ∀ (l : List LegacyM) (id : Nat) (prev : Int),
    legacyLoop multi id prev l = true → Asc (fun a b => decide (a.seq < b.seq)) l ∧ (∀ m, l.head? = some m → m.seq ≠ 0 ∧ (id ≠ 0 → m.seq = id + 1))
  | [], _, _, _ => ⟨trivial, by intro m hm; cases hm⟩
  | m :: rest, id, prev, h => by
    unfold legacyLoop at h
    simp only [Bool.and_eq_true, Bool.not_eq_true'] at h
    obtain ⟨⟨⟨⟨h1, _⟩, _⟩, _⟩, h5⟩ := h
    obtain ⟨i1, i2⟩ := legacyLoop_asc multi rest m.seq (m.endT.getD prev) h5
    have hm : m.seq ≠ 0 ∧ (id ≠ 0 → m.seq = id + 1) := by
      unfold Minter.idBad at h1
      by_cases hid : id = 0
      · simp [hid] at h1; exact ⟨by omega, by intro c; exact absurd hid c⟩
      · simp [hid] at h1; exact ⟨by omega, fun _ => h1⟩
    refine ⟨?_, by intro x hx; simp at hx; subst hx; exact hm⟩
    cases rest with
    | nil => trivial
    | cons b r =>
      have := (i2 b rfl).2 hm.1
      exact ⟨by simp; omega, i1⟩

/-- **the migrated minter parameters describe the same schedule**: whenever the migration
    succeeds, the stored parameters have the legacy denom and start time, and their minters are
    exactly the legacy minters in sequence order — same ids, same end times, and the configuration
    (kind, amount, step length, multiplier) selected by the legacy type tag -/
theorem minter_migration_same_schedule (d : String) (st : Int) (ms : List LegacyM) (p : Minter.Params)
    (h : migrateMinterV3 d st ms = some p) :
    p.denom = d ∧ p.start = st ∧
    p.minters = (sortLegacy ms).map (fun l => { seq := l.seq, endT := l.endT, cfg := legacyCfg l }) := by
  unfold migrateMinterV3 at h
  split at h
  · cases h
  · rename_i hv
    simp only [Bool.not_eq_true', Bool.not_eq_false] at hv
    unfold legacyValid at hv
    simp only [Bool.and_eq_true] at hv
    obtain ⟨_, hloop⟩ := hv
    obtain ⟨hasc, _⟩ := legacyLoop_asc _ _ _ _ hloop
    unfold Minter.validate at h
    split at h
    · cases h
    · split at h
      · cases h
      · split at h
        · cases h
        · rename_i outms hvm
          cases h
          refine ⟨rfl, rfl, ?_⟩
          simp only []
          unfold Minter.validateMinters at hvm
          split at hvm
          · cases hvm
          · split at hvm
            · cases hvm
            · simp only [] at hvm
              have hsorted : Minter.sortMinters ((sortLegacy ms).map legacyToRaw) = (sortLegacy ms).map legacyToRaw := by
                unfold Minter.sortMinters
                apply sortBy_of_asc
                exact asc_map (fun a b => decide (a.seq < b.seq)) _ legacyToRaw (by intro a b hab; simp only [legacyToRaw]; exact hab) _ hasc
              rw [hsorted] at hvm
              obtain ⟨e1, e2⟩ := validateLoop_eq _ _ _ _ _ hvm
              rw [e1, List.map_map]
              apply List.map_congr_left
              intro l hl
              have hs := e2 (legacyToRaw l) (List.mem_map.mpr ⟨l, hl, rfl⟩)
              simp only [Function.comp]
              rw [cleanCfg_legacy l hs]
              simp [legacyToRaw]

theorem cleanCfg_some_of_ok (m : LegacyM) (hok : legacyMinterOk m = true)
    (hpos : m.type = tExp → ∀ a s mu, m.exp = some (a, s, mu) → 0 < a) :
    (Minter.cleanCfg (legacyToRaw m)).isSome = true := by
  unfold legacyMinterOk at hok
  unfold legacyToRaw Minter.cleanCfg
  by_cases hn : m.type = tNo
  · have h1 : ¬ m.type = tExp := by rw [hn]; decide
    have h2 : ¬ m.type = tLin := by rw [hn]; decide
    simp [h1, h2]
  · simp only [hn, if_false] at hok
    by_cases hl : m.type = tLin
    · have h1 : ¬ m.type = tExp := by rw [hl]; decide
      simp only [hl, if_true, Bool.and_eq_true] at hok
      obtain ⟨⟨_, he⟩, ha⟩ := hok
      simp only [h1, hl, if_false, if_true]
      cases hx : m.lin with
      | none => rw [hx] at ha; simp at ha
      | some a =>
        rw [hx] at ha
        simp only [Bool.not_eq_true', decide_eq_false_iff_not] at ha
        have : m.endT.isNone = false := by cases hh : m.endT <;> simp_all
        have hne : ¬ tLin = tExp := by decide
        simp [this, ha, hne]
    · simp only [hl, if_false] at hok
      by_cases he : m.type = tExp
      · simp only [he, if_true, Bool.and_eq_true] at hok
        obtain ⟨_, hx⟩ := hok
        simp only [he, if_true]
        cases hexp : m.exp with
        | none => rw [hexp] at hx; simp at hx
        | some t =>
          obtain ⟨a, st, mu⟩ := t
          rw [hexp] at hx
          simp only [Bool.and_eq_true, Bool.not_eq_true', decide_eq_false_iff_not] at hx
          obtain ⟨⟨h1, h2⟩, h3⟩ := hx
          have hp := hpos he a st mu hexp
          simp [h1, h2, h3, hp]
      · simp [he] at hok

theorem legacyLoop_implies_validateLoop (multi : Bool) : ∀ (l : List LegacyM) (id : Nat) (prev : Int),
    legacyLoop multi id prev l = true →
    (∀ m ∈ l, m.type = tExp → ∀ a s mu, m.exp = some (a, s, mu) → 0 < a) →
    (Minter.validateLoop multi id prev (l.map legacyToRaw)).isSome = true
  | [], _, _, _, _ => rfl
  | m :: rest, id, prev, h, hpos => by
    unfold legacyLoop at h
    simp only [Bool.and_eq_true, Bool.not_eq_true'] at h
    obtain ⟨⟨⟨⟨h1, h2⟩, h3⟩, h4⟩, h5⟩ := h
    have ih := legacyLoop_implies_validateLoop multi rest m.seq (m.endT.getD prev) h5 (fun x hx => hpos x (by simp [hx]))
    have hc := cleanCfg_some_of_ok m h4 (hpos m (by simp))
    simp only [List.map_cons]
    unfold Minter.validateLoop
    have e1 : (legacyToRaw m).seq = m.seq := rfl
    have e2 : (legacyToRaw m).endT = m.endT := rfl
    have e3 : (rest.map legacyToRaw).isEmpty = rest.isEmpty := by cases rest <;> rfl
    rw [e1, e2, e3]
    simp only [h1, h2, h3, Bool.false_eq_true, if_false]
    cases hcc : Minter.cleanCfg (legacyToRaw m) with
    | none => rw [hcc] at hc; simp at hc
    | some c =>
      simp only []
      cases hr : Minter.validateLoop multi m.seq (m.endT.getD prev) (rest.map legacyToRaw) with
      | none => rw [hr] at ih; simp at ih
      | some out => simp

/-- **when the migration succeeds**: every legacy parameter set that the legacy validation accepts
    migrates, provided the denom is well formed and no exponential period has amount zero (the new
    validation requires a positive amount; the legacy one only a non-negative one) -/
theorem minter_migration_succeeds (d : String) (st : Int) (ms : List LegacyM)
    (hv : legacyValid st ms = true) (hd0 : d.length ≠ 0) (hd : validDenom d = true)
    (hpos : ∀ m ∈ ms, m.type = tExp → ∀ a s mu, m.exp = some (a, s, mu) → 0 < a) :
    (migrateMinterV3 d st ms).isSome = true := by
  unfold migrateMinterV3
  simp only [hv, Bool.not_true, Bool.false_eq_true, if_false]
  unfold legacyValid at hv
  simp only [Bool.and_eq_true, Bool.not_eq_true', decide_eq_false_iff_not] at hv
  obtain ⟨hlen, hloop⟩ := hv
  obtain ⟨hasc, _⟩ := legacyLoop_asc _ _ _ _ hloop
  unfold Minter.validate
  simp only [hd0, hd, if_false, Bool.not_true, Bool.false_eq_true]
  have hlen2 : ((sortLegacy ms).map legacyToRaw).length = ms.length := by
    rw [List.length_map]; exact length_sortBy _ _
  have hsorted : Minter.sortMinters ((sortLegacy ms).map legacyToRaw) = (sortLegacy ms).map legacyToRaw := by
    unfold Minter.sortMinters
    apply sortBy_of_asc
    exact asc_map (fun a b => decide (a.seq < b.seq)) _ legacyToRaw (by intro a b hab; simp only [legacyToRaw]; exact hab) _ hasc
  have hnil : ((sortLegacy ms).map legacyToRaw).any (·.isNil) = false := by
    rw [List.any_eq_false]; intro x hx
    obtain ⟨l, _, rfl⟩ := List.mem_map.mp hx
    simp [legacyToRaw]
  have hpos' : ∀ m ∈ sortLegacy ms, m.type = tExp → ∀ a s mu, m.exp = some (a, s, mu) → 0 < a :=
    fun m hm => hpos m ((mem_sortBy_iff _ m ms).mp hm)
  have hmulti : (decide (((sortLegacy ms).map legacyToRaw).length > 1)) = decide ((sortLegacy ms).length > 1) := by
    rw [List.length_map]
  have hl := legacyLoop_implies_validateLoop _ _ _ _ hloop hpos'
  unfold Minter.validateMinters
  rw [hlen2]
  simp only [hlen, if_false, hnil, Bool.false_eq_true, hsorted, hmulti]
  cases hr : Minter.validateLoop (decide ((sortLegacy ms).length > 1)) 0 st ((sortLegacy ms).map legacyToRaw) with
  | none => rw [hr] at hl; simp at hl
  | some out => simp

/-- the hypothesis on exponential amounts cannot be dropped: a legacy parameter set with an
    exponential period of amount zero passes the legacy validation and is refused by the migration
    (the upgrade then aborts; nothing is written) -/
theorem legacy_zero_exp_not_migratable :
    legacyValid 0 [{ seq := 1, endT := none, type := tExp, exp := some (0, 1, 0) }] = true ∧
    migrateMinterV3 "umint" 0 [{ seq := 1, endT := none, type := tExp, exp := some (0, 1, 0) }] = none := by
  decide

/-- whenever the migration succeeds the stored parameters are accepted by `Params.Validate`
    (so everything proved about validated parameters, C02 / C10, applies to them) -/
theorem minter_migration_valid (d : String) (st : Int) (ms : List LegacyM) (p : Minter.Params)
    (h : migrateMinterV3 d st ms = some p) : ∃ raw, Minter.validate raw = some p := by
  unfold migrateMinterV3 at h
  split at h
  · cases h
  · exact ⟨_, h⟩

/-- the distributor migration rewrites exactly the legacy list, and only a list that validates -/
theorem distr_migration_same_shares (e : Distr.Env) (subs ns : List Distr.SubD) (h : migrateDistrV3 e subs = some ns) :
    ns = subs ∧ Distr.paramsValid e ns = true := by
  unfold migrateDistrV3 at h
  split at h
  · rename_i hv; cases h; exact ⟨rfl, hv⟩
  · cases h

theorem nonvacuous : sum ≤ ({ name := "Validators pool", vtype := "Validators", lockStart := 0, lockEnd := 1, initially := 100000000000000, withdrawn := 5, sent := 7 } : Pool).locked := by
  decide

end C4E.Props.C16
