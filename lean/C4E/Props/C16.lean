/-
  C16 — The v1.2.0 upgrade and store migrations preserve locked value.
-/
import C4E.Upgrade
namespace C4E.Props.C16
open C4E C4E.Vest C4E.Upgrade

/-- the four amounts carved out of the validators pool add up to the pre-check threshold -/
theorem sum_is_total : sum = vcAmt + ebAmt + pubAmt + stratAmt := rfl
theorem sum_value : sum = 72000000000000 := by decide

/-- one split step moves exactly `amt` of locked value into a fresh pool and keeps the
    history counters of the source -/
theorem splitOne_conserves (v v' p : Pool) (name vtype : String) (amt le : Int)
    (h : splitOne v name vtype amt le = some (v', p)) :
    v'.locked + p.locked = v.locked ∧ v'.sent = v.sent ∧ v'.withdrawn = v.withdrawn ∧
    p.initially = amt ∧ p.sent = 0 ∧ p.withdrawn = 0 ∧ p.genesisPool = true ∧ p.lockStart = v.lockStart := by
  unfold splitOne at h
  split at h
  · cases h
  · simp only [Option.some.injEq, Prod.mk.injEq] at h
    obtain ⟨h1, h2⟩ := h
    subst h1; subst h2
    unfold Pool.locked
    simp only [and_self, and_true]
    omega

/-- a split step succeeds exactly when the source still holds at least `amt` -/
theorem splitOne_succeeds_iff (v : Pool) (name vtype : String) (amt le : Int) :
    (splitOne v name vtype amt le).isSome = true ↔ amt ≤ v.locked := by
  unfold splitOne
  by_cases h : v.locked - amt < 0
  · simp [h]; omega
  · simp [h]; omega

/-- the pre-check `locked ≥ sum` guarantees that all four split steps succeed: the split is never
    left half-done (all-or-nothing) -/
theorem four_splits_succeed (v : Pool) (les : Int × Int × Int × Int) (h : sum ≤ v.locked)
    (ha : 0 ≤ vcAmt ∧ 0 ≤ ebAmt ∧ 0 ≤ pubAmt ∧ 0 ≤ stratAmt) :
    ∃ v1 p1 v2 p2 v3 p3 v4 p4,
      splitOne v "VC round pool" "VC round" vcAmt les.1 = some (v1, p1) ∧
      splitOne v1 "Early-bird round pool" "Early-bird round" ebAmt les.2.1 = some (v2, p2) ∧
      splitOne v2 "Public round pool" "Public round" pubAmt les.2.2.1 = some (v3, p3) ∧
      splitOne v3 "Strategic reserve short term round pool" "Strategic reserve short term round" stratAmt les.2.2.2 = some (v4, p4) ∧
      v4.locked + p1.locked + p2.locked + p3.locked + p4.locked = v.locked := by
  have hs : sum = vcAmt + ebAmt + pubAmt + stratAmt := rfl
  obtain ⟨a1, a2, a3, a4⟩ := ha
  have step : ∀ (x : Pool) (n t : String) (amt le : Int), amt ≤ x.locked →
      ∃ x' p, splitOne x n t amt le = some (x', p) ∧ x'.locked + p.locked = x.locked ∧ p.locked = amt := by
    intro x n t amt le hle
    cases hh : splitOne x n t amt le with
    | none =>
      have := (splitOne_succeeds_iff x n t amt le).mpr hle
      rw [hh] at this; simp at this
    | some r =>
      obtain ⟨x', p⟩ := r
      have hc := splitOne_conserves x x' p n t amt le hh
      refine ⟨x', p, rfl, hc.1, ?_⟩
      unfold Pool.locked; rw [hc.2.2.2.1, hc.2.2.2.2.1, hc.2.2.2.2.2.1]; omega
  obtain ⟨v1, p1, e1, c1, q1⟩ := step v _ _ vcAmt les.1 (by omega)
  obtain ⟨v2, p2, e2, c2, q2⟩ := step v1 _ _ ebAmt les.2.1 (by omega)
  obtain ⟨v3, p3, e3, c3, q3⟩ := step v2 _ _ pubAmt les.2.2.1 (by omega)
  obtain ⟨v4, p4, e4, c4, q4⟩ := step v3 _ _ stratAmt les.2.2.2 (by omega)
  exact ⟨v1, p1, v2, p2, v3, p3, v4, p4, e1, e2, e3, e4, by omega⟩

/-- v2 → v3: every field is preserved, only the new genesis flag is set to false -/
theorem migrate_v3_fieldwise (p : Pool) :
    (migrateV3Pool p).name = p.name ∧ (migrateV3Pool p).vtype = p.vtype ∧ (migrateV3Pool p).lockStart = p.lockStart ∧
    (migrateV3Pool p).lockEnd = p.lockEnd ∧ (migrateV3Pool p).initially = p.initially ∧ (migrateV3Pool p).withdrawn = p.withdrawn ∧
    (migrateV3Pool p).sent = p.sent ∧ (migrateV3Pool p).genesisPool = false ∧ (migrateV3Pool p).locked = p.locked :=
  ⟨rfl, rfl, rfl, rfl, rfl, rfl, rfl, rfl, rfl⟩

/-- v1 → v2: the locked amount of the new pool is the old format's
    `lastModificationVested − lastModificationWithdrawn`, and `withdrawn` is carried over -/
theorem migrate_v2_locked (name vtype : String) (ls le vested withdrawn lmw lmv : Int) :
    (migrateV2Pool name vtype ls le vested withdrawn lmw lmv).locked = lmv - lmw ∧
    (migrateV2Pool name vtype ls le vested withdrawn lmw lmv).withdrawn = withdrawn := by
  unfold migrateV2Pool Pool.locked; simp only []; constructor
  · omega
  · trivial

/-- the migrated v1 pool is solvent exactly when the old record was consistent -/
theorem migrate_v2_solvent (name vtype : String) (ls le vested withdrawn lmw lmv : Int)
    (h1 : 0 ≤ withdrawn) (h2 : lmw ≤ lmv) (h3 : lmv - lmw ≤ vested - withdrawn) (h4 : 0 ≤ lmw + vested - withdrawn - lmv) :
    let p := migrateV2Pool name vtype ls le vested withdrawn lmw lmv
    0 ≤ p.withdrawn ∧ 0 ≤ p.sent ∧ p.withdrawn + p.sent ≤ p.initially := by
  unfold migrateV2Pool; simp only []; omega

/-- accounts whose schedule is shifted keep every amount; other account kinds are untouched -/
theorem shift_keeps_amounts (a : Acct) (s e : Int) :
    (shiftAccount a s e).ov = a.ov ∧ (shiftAccount a s e).dv = a.dv ∧ (shiftAccount a s e).df = a.df ∧
    (shiftAccount a s e).num = a.num ∧ (shiftAccount a s e).ident = a.ident ∧ (shiftAccount a s e).kind = a.kind := by
  unfold shiftAccount; split <;> exact ⟨rfl, rfl, rfl, rfl, rfl, rfl⟩

theorem shift_only_cva (a : Acct) (s e : Int) (h : a.kind ≠ .cva) : shiftAccount a s e = a := by
  unfold shiftAccount; rw [if_neg h]

/-- trace update only ever sets flags to true and keeps id / address -/
theorem updateTrace_keeps (t : Trace) : (updateTrace t).id = t.id ∧ (updateTrace t).address = t.address := by
  unfold updateTrace; split
  · exact ⟨rfl, rfl⟩
  · split <;> exact ⟨rfl, rfl⟩

theorem nonvacuous : sum ≤ ({ name := "Validators pool", vtype := "Validators", lockStart := 0, lockEnd := 1, initially := 100000000000000, withdrawn := 5, sent := 7 } : Pool).locked := by
  decide

end C4E.Props.C16
