/-
  C06 — Pool time-lock: nothing is withdrawable before lock end, all of it once after.
-/
import C4E.Vesting
namespace C4E.Props.C06
open C4E C4E.Vest

/-- before the lock end nothing is withdrawable -/
theorem locked_nothing (p : Pool) (now : Int) (h : now < p.lockEnd) : withdrawable now p = 0 := by
  unfold withdrawable; rw [if_neg (by omega)]

/-- at (boundary included) or after the lock end the whole still-locked remainder is withdrawable -/
theorem matured_everything (p : Pool) (now : Int) (h : p.lockEnd ≤ now) : withdrawable now p = p.locked := by
  unfold withdrawable; rw [if_pos (by omega)]

/-- the pool as stored by a withdrawal -/
def afterWithdraw (now : Int) (p : Pool) : Pool := { p with withdrawn := p.withdrawn + withdrawable now p }

/-- a withdrawal never touches the lock end, the sent counter or the initial amount -/
theorem withdraw_keeps_fields (now : Int) (p : Pool) :
    (afterWithdraw now p).lockEnd = p.lockEnd ∧ (afterWithdraw now p).sent = p.sent ∧
    (afterWithdraw now p).initially = p.initially := ⟨rfl, rfl, rfl⟩

/-- two withdrawals (the second in the same or a later block) pay together exactly what a single
    withdrawal at the later time would have paid: nothing is paid twice, nothing is lost -/
theorem withdraw_twice_total (p : Pool) (now later : Int) (hl : now ≤ later) :
    withdrawable now p + withdrawable later (afterWithdraw now p) = withdrawable later p := by
  unfold afterWithdraw withdrawable Pool.locked
  simp only []
  by_cases h1 : now ≥ p.lockEnd
  · have h2 : later ≥ p.lockEnd := by omega
    simp only [h1, h2, if_true]; omega
  · by_cases h2 : later ≥ p.lockEnd
    · simp only [h1, h2, if_true, if_false]; omega
    · simp only [h1, h2, if_false]; omega

/-- a repeated withdrawal after a withdrawal of the matured pool pays zero -/
theorem withdraw_idempotent (p : Pool) (now later : Int) (hm : p.lockEnd ≤ now) (hl : now ≤ later) :
    withdrawable later (afterWithdraw now p) = 0 := by
  have h := withdraw_twice_total p now later hl
  rw [matured_everything p now hm, matured_everything p later (by omega)] at h
  exact Int.add_left_cancel (by rw [h]; omega)

/-- the amount reported by the pool query is the function the withdrawal pays from: for every
    pool and block time they coincide (both call `CalculateWithdrawable`) -/
theorem query_agrees (ps : List Pool) (now : Int) :
    sumInts (ps.map (withdrawable now)) = sumInts (ps.map (fun p => if p.lockEnd ≤ now then p.locked else 0)) := by
  rfl

/-- non-vacuity: a pool with a remainder, one nanosecond before / exactly at its lock end -/
theorem boundary_nonvacuous :
    withdrawable 99 { name := "p", vtype := "t", lockStart := 0, lockEnd := 100, initially := 10, withdrawn := 3, sent := 2 } = 0 ∧
    withdrawable 100 { name := "p", vtype := "t", lockStart := 0, lockEnd := 100, initially := 10, withdrawn := 3, sent := 2 } = 5 := by
  decide

end C4E.Props.C06
