/-
  C01 — Supply changes only by scheduled mint minus configured burn.

  Proved on the models: a bank transfer conserves coins per denomination between exactly the two
  parties and touches nobody else; the distributor's source sweep moves exactly the source's
  balance into the main account; payouts take from the main account exactly what leaves the
  recorded remains; the vesting handlers reach the bank only through such transfers (they have no
  mint or burn path in the model, mirroring the code: fact family F1).  Supply = Σ balances on the
  real chain is the bank's own invariant, evaluated after every op by the monitors.
-/
import C4E.Vesting
import C4E.Distr1
import C4E.Distributor
import C4E.Lemmas.AListLemmas
import C4E.Lemmas.VestBacked
import C4E.App
namespace C4E.Props.C01
open C4E C4E.CoinList

/-- a transfer moves coins only between sender and recipient, conserving each denomination -/
theorem transfer_conserves (s : Vest.State) (src dst : String) (c : Coins) (d : String) (hne : src ≠ dst) :
    amountOf ((s.applySend src dst c).balance src) d + amountOf ((s.applySend src dst c).balance dst) d
      = amountOf (s.balance src) d + amountOf (s.balance dst) d := by
  unfold Vest.State.applySend Vest.State.balance
  simp only []
  rw [AList.get?_set_other _ _ _ _ hne, AList.get?_set_self, AList.get?_set_self]
  rw [AList.get?_set_other _ _ _ _ (Ne.symm hne)]
  simp only [Option.getD_some]
  rw [amountOf_add, amountOf_add, amountOf_neg]
  omega

/-- ... and leaves every third account's balance untouched -/
theorem transfer_others_untouched (s : Vest.State) (src dst a : String) (c : Coins) (h1 : a ≠ src) (h2 : a ≠ dst) :
    (s.applySend src dst c).balance a = s.balance a := by
  unfold Vest.State.applySend Vest.State.balance
  simp only []
  rw [AList.get?_set_other _ _ _ _ h2, AList.get?_set_other _ _ _ _ h1]

/-- distributor: sweeping a source moves exactly its balance into the main account
    (single-denomination core) and nothing else changes -/
theorem sweep_moves_exactly (w : Distr1.World) (src : Distr1.Acc) (h : src.ty ≠ Distr1.AT.internal) :
    (Distr1.prepOne false w src).2.main + (Distr1.prepOne false w src).2.bal src = w.main + w.bal src ∧
    ∀ a, a ≠ src → (Distr1.prepOne false w src).2.bal a = w.bal a := by
  unfold Distr1.prepOne
  have hc : ¬ (src.ty = Distr1.AT.internal ∨ false = true) := by simp [h]
  simp only [hc, if_false]
  constructor
  · simp
  · intro a ha; simp [ha]

/-- distributor: the payout step takes from the main account exactly what leaves the recorded
    remains — nothing is created, and what is not paid stays recorded -/
theorem payout_conserves (sts : List Distr1.St) (fails : List Bool) (main : Int) (h : Distr1.allNonneg sts) :
    main - (Distr1.payout fails main sts).1 = Distr1.sumRem sts - Distr1.sumRem (Distr1.payout fails main sts).2 := by
  have := (Distr1.payout_spec sts fails main h).1
  omega

/-! ### vesting messages never change the supply — over every history -/

open C4E.Vest in
/-- all coins of denomination `d` held by any account -/
def totalBal (d : String) (s : Vest.State) : Int := sumInts (s.bal.map (fun kv => amountOf kv.2 d))

theorem total_set (d : String) (m : AList Coins) (k : String) (v : Coins) :
    sumInts ((m.set k v).map (fun kv => amountOf kv.2 d))
      = sumInts (m.map (fun kv => amountOf kv.2 d)) - amountOf ((m.get? k).getD []) d + amountOf v d := by
  induction m with
  | nil => simp [AList.set, AList.get?, amountOf]
  | cons kv rest ih =>
    obtain ⟨k', v'⟩ := kv
    unfold AList.set AList.get?
    by_cases h : k' = k
    · simp only [h, if_true, List.map_cons, sumInts_cons, Option.getD_some]; omega
    · simp only [h, if_false, List.map_cons, sumInts_cons, ih]; omega

open C4E.Vest in
/-- a bank send conserves the total of every denomination (also when sender = recipient) -/
theorem applySend_total (s : Vest.State) (src dst : String) (c : Coins) (d : String) :
    totalBal d (s.applySend src dst c) = totalBal d s := by
  unfold totalBal Vest.State.applySend Vest.State.balance
  simp only []
  rw [total_set, total_set, amountOf_add, amountOf_add, amountOf_neg]
  omega

open C4E.Vest in
theorem send_total {s s' : Vest.State} {src dst : String} {c : Coins} (h : s.send src dst c = .ok s') (d : String) :
    totalBal d s' = totalBal d s := by
  have := send_ok_eq _ _ _ _ _ h; subst this; exact applySend_total s src dst c d

open C4E.Vest in
theorem sendFromModule_total {s s' : Vest.State} {dst : String} {c : Coins} (h : s.sendFromModule dst c = .ok s') (d : String) :
    totalBal d s' = totalBal d s := by
  unfold Vest.State.sendFromModule at h
  split at h
  · cases h
  · exact send_total h d

open C4E.Vest in
theorem withdrawAll_total {s : Vest.State} {o : Addr} {res : Res} (h : withdrawAll s o = .ok res) (d : String) :
    totalBal d res.st = totalBal d s := by
  unfold withdrawAll at h
  split at h
  · cases h
  · split at h
    · cases h
    · split at h
      · cases h
      · simp only [] at h
        split at h
        · rename_i s1 hsent
          split at h
          · cases h
          · cases h
            have h1 : totalBal d s1 = totalBal d s := by
              split at hsent
              all_goals first | exact sendFromModule_total hsent d | (cases hsent; rfl) | cases hsent
            exact h1
        · cases h
        · cases h

open C4E.Vest in
theorem newVestingAccount_total {s s' : Vest.State} {to : String} {amount free le ve : Int}
    (h : newVestingAccount s to amount free le ve = .ok s') (d : String) : totalBal d s' = totalBal d s := by
  unfold newVestingAccount at h
  split at h
  · cases h
  · split at h
    · cases h
    · split at h
      · cases h
      · simp only [] at h
        split at h
        · cases h
        · split at h
          · rename_i s2 hsend
            cases h
            exact sendFromModule_total hsend d
          · cases h
          · cases h

open C4E.Vest in
theorem unlock_bal {s s1 : Vest.State} {owner : String} {amt : Coins} {a : Acct}
    (h : unlockUnbonded s owner amt = .ok (s1, a)) : s1.bal = s.bal := by
  unfold unlockUnbonded at h
  split at h
  · cases h
  · split at h
    · cases h
    · split at h
      · cases h
      · split at h
        · cases h
        · split at h
          · cases h
          · split at h
            · cases h
            · split at h
              · cases h; rfl
              · cases h
              · cases h

open C4E.Vest in
theorem splitCoins_total {s : Vest.State} {src to : String} {amount : Coins} {res : Res}
    (h : splitCoins s src to amount = .ok res) (d : String) : totalBal d res.st = totalBal d s := by
  unfold splitCoins at h
  split at h
  · cases h
  · split at h
    · cases h
    · split at h
      · cases h
      · split at h
        · cases h
        · cases h
        · rename_i s1 vacc hu
          have hb := unlock_bal hu
          simp only [] at h
          split at h
          · cases h
          · cases h
          · rename_i s3 hsend
            have h3 := send_total hsend d
            have h1 : totalBal d s1 = totalBal d s := by unfold totalBal; rw [hb]
            split at h
            · cases h; exact h3.trans h1
            · cases h; exact h3.trans h1

open C4E.Vest in
/-- every successfully handled vesting message leaves the total of every denomination unchanged -/
theorem handle_total (s : Vest.State) (m : Msg) (res : Res) (h : handle s m = .ok res) (d : String) :
    totalBal d res.st = totalBal d s := by
  cases m with
  | createPool o name amount dur vt =>
    simp only [handle] at h
    cases amount with
    | none => cases h
    | some a =>
      simp only [] at h
      unfold createPool at h
      split at h
      · cases h
      · split at h
        · cases h
        · split at h
          · cases h
          · split at h
            · cases h
            · simp only [] at h
              split at h
              · cases h
              · split at h
                · rename_i s1 hsend
                  cases h
                  exact send_total hsend d
                · cases h
                · cases h
  | withdraw o => simp only [handle] at h; exact withdrawAll_total h d
  | send o to pool amount restart =>
    simp only [handle] at h
    cases amount with
    | none => cases h
    | some a =>
      simp only [] at h
      unfold sendToNew at h
      split at h
      · cases h
      · split at h
        · cases h
        · cases h
        · rename_i w hw
          have h1 := withdrawAll_total hw d
          simp only [] at h
          split at h
          · cases h
          · split at h
            · cases h
            · split at h
              · cases h
              · split at h
                · cases h
                · split at h
                  · cases h
                  · split at h
                    · cases h
                    · cases h
                    · rename_i s2 hr
                      cases h
                      have h2 : totalBal d s2 = totalBal d w.st := by
                        cases restart
                        · simp only [Bool.false_eq_true, if_false] at hr; exact newVestingAccount_total hr d
                        · simp only [if_true] at hr; exact newVestingAccount_total hr d
                      exact h2.trans h1
  | createVA f to amount a b =>
    simp only [handle] at h
    cases amount with
    | none => cases h
    | some c =>
      simp only [] at h
      split at h
      · cases h
      · unfold createVA at h
        split at h
        · cases h
        · simp only [] at h
          split at h
          · cases h
          · split at h
            · cases h
            · split at h
              · rename_i s2 hsend
                cases h
                exact send_total hsend d
              · cases h
              · cases h
  | split f to amount =>
    simp only [handle] at h
    cases amount with
    | none => cases h
    | some c =>
      simp only [] at h
      split at h <;> first | cases h | exact splitCoins_total h d | (split at h <;> first | cases h | exact splitCoins_total h d)
  | move f to =>
    simp only [handle] at h
    split at h <;> first | cases h | exact splitCoins_total h d | (split at h <;> first | cases h | exact splitCoins_total h d)
  | moveDenoms f to denoms =>
    simp only [handle] at h
    split at h <;> first | cases h | exact splitCoins_total h d | (split at h <;> first | cases h | exact splitCoins_total h d)

open C4E.Vest in
/-- **no sequence of vesting messages — accepted, rejected or panicking — ever changes the total
    of any denomination**: the vesting module has no path to mint or burn -/
theorem vesting_never_changes_supply (msgs : List Msg) (d : String) : ∀ s : Vest.State,
    totalBal d (msgs.foldl (fun st m => (deliver st m).1) s) = totalBal d s := by
  induction msgs with
  | nil => intro s; rfl
  | cons m rest ih =>
    intro s
    rw [List.foldl_cons, ih]
    unfold deliver
    split
    · rfl
    · cases hh : handle s m with
      | ok r => exact handle_total s m r hh d
      | err => rfl
      | panic => rfl

/-! ### the distributor never creates coins: bank total + burned is constant over a block -/

section DistrSupply
open C4E.Distr

/-- all coins of denomination `d` held by any account of the distributor's bank slice -/
def bankTotal (d : String) (b : Bank) : Int := sumInts (b.bal.map (fun kv => amountOf kv.2 d))

/-- what exists plus what was burned so far -/
def ledger (d : String) (b : Bank) : Int := bankTotal d b + amountOf b.burned d

theorem bank_send_ledger (b b' : Bank) (src dst : String) (c : Coins) (d : String) (h : b.send src dst c = some b') :
    ledger d b' = ledger d b := by
  unfold Bank.send at h
  simp only [] at h
  split at h
  · cases h
  · cases h
    unfold ledger bankTotal Bank.balance
    simp only []
    rw [total_set, total_set, amountOf_add, amountOf_add, amountOf_neg]
    omega

theorem bank_burn_ledger (b b' : Bank) (src : String) (c : Coins) (d : String) (h : b.burn src c = some b') :
    ledger d b' = ledger d b ∧ bankTotal d b' = bankTotal d b - amountOf c d := by
  unfold Bank.burn at h
  simp only [] at h
  split at h
  · cases h
  · cases h
    unfold ledger bankTotal Bank.balance
    simp only []
    rw [total_set, amountOf_add, amountOf_add, amountOf_neg]
    constructor <;> omega

theorem sweep_ledger (e : Env) (w : World) (addr : String) (d : String) :
    ledger d (sweep e w addr).2.bank = ledger d w.bank := by
  unfold sweep
  split
  · split
    · rfl
    · split
      · rfl
      · rename_i b hb
        exact bank_send_ledger _ b _ _ _ d hb
  · rfl

theorem prepareNotMain_ledger (e : Env) (w w' : World) (src : Account) (c : DecCoins) (d : String)
    (h : prepareNotMain e w src = .ok (c, w')) : ledger d w'.bank = ledger d w.bank := by
  unfold prepareNotMain at h
  simp only [] at h
  split at h
  · rename_i cc ww hsw
    have key : ledger d ww.bank = ledger d w.bank := by
      split at hsw
      · split at hsw
        · cases hsw
        · rename_i addr _
          have hsw' := Outcome.ok.inj hsw
          have : ww = (sweep e w addr).2 := by rw [hsw']
          rw [this]; exact sweep_ledger e w addr d
      · split at hsw
        · have hsw' := Outcome.ok.inj hsw
          have : ww = (sweep e w (canonAddr src.id)).2 := by rw [hsw']
          rw [this]; exact sweep_ledger e w (canonAddr src.id) d
        · cases hsw; rfl
    split at h
    · cases h; exact key
    · cases h
    · cases h
  · cases h
  · cases h

theorem prepOthersPart_ledger (e : Env) (d : String) : ∀ (l : List Account) (w w' : World) (all all' : DecCoins),
    prepOthersPart e w l all = .ok (all', w') → ledger d w'.bank = ledger d w.bank
  | [], w, w', all, all', h => by simp only [prepOthersPart, Outcome.ok.injEq, Prod.mk.injEq] at h; rw [← h.2]
  | s :: rest, w, w', all, all', h => by
    unfold prepOthersPart at h
    split at h
    · split at h
      · rename_i c w1 hp
        rw [prepOthersPart_ledger e d rest w1 w' _ all' h, prepareNotMain_ledger e w w1 s c d hp]
      · cases h
      · cases h
    · exact prepOthersPart_ledger e d rest w w' all all' h

theorem prepareCoins_ledger (e : Env) (w w' : World) (l : List Account) (c : DecCoins) (d : String)
    (h : prepareCoins e w l = .ok (c, w')) : ledger d w'.bank = ledger d w.bank := by
  unfold prepareCoins at h
  split at h
  · exact prepOthersPart_ledger e d l w w' _ c h
  · cases h
  · cases h

theorem subsLoop_ledger (e : Env) (d : String) : ∀ (subs : List SubD) (w w' : World) (evs evs' : List Distr.Event),
    subsLoop e subs w evs = .ok (w', evs') → ledger d w'.bank = ledger d w.bank
  | [], w, w', evs, evs', h => by simp only [subsLoop, Outcome.ok.injEq, Prod.mk.injEq] at h; rw [← h.1]
  | s :: rest, w, w', evs, evs', h => by
    unfold subsLoop at h
    split at h
    · rename_i coins w1 hp
      have h1 := prepareCoins_ledger e w w1 _ coins d hp
      split at h
      · split at h
        · have := subsLoop_ledger e d rest _ w' _ evs' h
          rw [this]; exact h1
        · cases h
        · cases h
      · rw [subsLoop_ledger e d rest w1 w' evs evs' h]; exact h1
    · cases h
    · cases h

theorem payoutOne_ledger (e : Env) (w w' : World) (s s' : DState) (d : String)
    (h : payoutOne e w s = .ok (s', w')) : ledger d w'.bank = ledger d w.bank := by
  unfold payoutOne at h
  split at h
  · cases h
  · split at h
    · simp only [] at h
      split at h
      · split at h
        · cases h; rfl
        · split at h
          · cases h
          · split at h
            · cases h; rfl
            · rename_i b hb
              cases h
              exact (bank_burn_ledger _ b _ _ d hb).1
      · split at h
        · split at h
          · cases h; rfl
          · split at h
            · cases h
            · split at h
              · cases h; rfl
              · rename_i b hb
                cases h
                exact bank_send_ledger _ b _ _ _ d hb
        · split at h
          · cases h; rfl
          · split at h
            · cases h; rfl
            · split at h
              · cases h; rfl
              · split at h
                · cases h; rfl
                · rename_i b hb
                  cases h
                  exact bank_send_ledger _ b _ _ _ d hb
    · cases h; rfl

theorem payoutLoop_ledger (e : Env) (d : String) : ∀ (l : List DState) (w w' : World) (st st' : List DState),
    payoutLoop e l w st = .ok (w', st') → ledger d w'.bank = ledger d w.bank
  | [], w, w', st, st', h => by simp only [payoutLoop, Outcome.ok.injEq, Prod.mk.injEq] at h; rw [← h.1]
  | s :: rest, w, w', st, st', h => by
    unfold payoutLoop at h
    split at h
    · rename_i s1 w1 hp
      rw [payoutLoop_ledger e d rest w1 w' _ st' h, payoutOne_ledger e w w1 s s1 d hp]
    · cases h
    · cases h

/-- **the distributor never creates coins**: over a whole `BeginBlocker` of the code-tied model —
    any configuration, any pattern of failing bank calls — what all accounts hold plus what has been
    burned is unchanged in every denomination; the only supply change is the recorded burn -/
theorem distributor_block_ledger (e : Env) (subs : List SubD) (w0 : World) (faults : List Nat) (r : BlockRes)
    (h : beginBlock e subs w0 faults = .ok r) (d : String) :
    ledger d r.world.bank = ledger d w0.bank := by
  unfold beginBlock at h
  split at h
  · rename_i w evs hs
    have h1 := subsLoop_ledger e d subs _ w [] evs hs
    split at h
    · rename_i w2 stored hp
      cases h
      have h2 := payoutLoop_ledger e d w.states w w2 [] stored hp
      show ledger d w2.bank = _
      rw [h2, h1]
    · cases h
    · cases h
  · cases h
  · cases h

end DistrSupply

/-- the hypotheses are satisfiable (two distinct parties) -/
theorem nonvacuous : ("sender" : String) ≠ "recipient" := by decide

/-! ### minter and distributor together: the supply equation of one block -/

section CustomBlock
open C4E.Distr C4E.CoinList

theorem creditMain_ledger (e : Env) (b : Bank) (denom : String) (amt : Int) (d : String) :
    ledger d (App.creditMain e b denom amt) = ledger d b + (if denom = d then amt else 0) := by
  unfold App.creditMain
  split
  · rename_i h; rw [h]; split <;> omega
  · unfold ledger bankTotal Bank.balance
    simp only []
    rw [total_set, amountOf_add]
    simp only [amountOf]
    split <;> omega

/-- **C01, first sentence, for the two modules together**: over one `BeginBlock` of cfeminter
    followed by cfedistributor (any distributor configuration, any pattern of failing bank calls)
    what all accounts hold plus what has been burned so far grows, in the mint denomination, by
    exactly the amount the minter reports, and not at all in any other denomination — i.e. the total
    of all balances changes by exactly the scheduled mint minus the burn recorded in that block -/
theorem custom_beginblock_supply (e : Env) (p : Minter.Params) (s : App.St) (b : App.Block) (r : App.StepRes)
    (h : App.beginBlock e p s b = .ok r) (d : String) :
    ledger d r.st.world.bank = ledger d s.world.bank + (if p.denom = d then r.minted else 0) := by
  unfold App.beginBlock at h
  split at h
  · rename_i mr hm
    split at h
    · rename_i br hbr
      cases h
      have h1 := distributor_block_ledger e b.subs _ b.faults br hbr d
      show ledger d br.world.bank = _
      rw [h1]
      exact creditMain_ledger e s.world.bank p.denom mr.amount d
    · cases h
    · cases h
  · cases h
  · cases h

/-- the same as a statement about balances and burns: Δ(Σ balances) = minted − Δ(burned) -/
theorem custom_beginblock_balances (e : Env) (p : Minter.Params) (s : App.St) (b : App.Block) (r : App.StepRes)
    (h : App.beginBlock e p s b = .ok r) (d : String) :
    bankTotal d r.st.world.bank - bankTotal d s.world.bank
      = (if p.denom = d then r.minted else 0) - (amountOf r.st.world.bank.burned d - amountOf s.world.bank.burned d) := by
  have := custom_beginblock_supply e p s b r h d
  unfold ledger at this
  omega

end CustomBlock

end C4E.Props.C01
