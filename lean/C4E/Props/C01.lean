/-
  C01 — Supply changes only by scheduled mint minus configured burn.

  Proved on the models: a bank transfer conserves coins per denomination between exactly the two
  parties and touches nobody else; the distributor's source sweep moves exactly the source's
  balance into the main account; payouts take from the main account exactly what leaves the
  recorded remains; the vesting handlers reach the bank only through such transfers (they have no
  mint or burn path in the model, mirroring the code: fact family F1).  Supply = Σ balances on the
  real chain is the bank's own invariant, evaluated after every op by the monitors.
-/
import C4E.Vesting
import C4E.Distr1
import C4E.Lemmas.AListLemmas
namespace C4E.Props.C01
open C4E C4E.CoinList

/-- a transfer moves coins only between sender and recipient, conserving each denomination -/
theorem transfer_conserves (s : Vest.State) (src dst : String) (c : Coins) (d : String) (hne : src ≠ dst) :
    amountOf ((s.applySend src dst c).balance src) d + amountOf ((s.applySend src dst c).balance dst) d
      = amountOf (s.balance src) d + amountOf (s.balance dst) d := by
  unfold Vest.State.applySend Vest.State.balance
  simp only []
  rw [AList.get?_set_other _ _ _ _ hne, AList.get?_set_self, AList.get?_set_self]
  rw [AList.get?_set_other _ _ _ _ (Ne.symm hne)]
  simp only [Option.getD_some]
  rw [amountOf_add, amountOf_add, amountOf_neg]
  omega

/-- ... and leaves every third account's balance untouched -/
theorem transfer_others_untouched (s : Vest.State) (src dst a : String) (c : Coins) (h1 : a ≠ src) (h2 : a ≠ dst) :
    (s.applySend src dst c).balance a = s.balance a := by
  unfold Vest.State.applySend Vest.State.balance
  simp only []
  rw [AList.get?_set_other _ _ _ _ h2, AList.get?_set_other _ _ _ _ h1]

/-- distributor: sweeping a source moves exactly its balance into the main account
    (single-denomination core) and nothing else changes -/
theorem sweep_moves_exactly (w : Distr1.World) (src : Distr1.Acc) (h : src.ty ≠ Distr1.AT.internal) :
    (Distr1.prepOne false w src).2.main + (Distr1.prepOne false w src).2.bal src = w.main + w.bal src ∧
    ∀ a, a ≠ src → (Distr1.prepOne false w src).2.bal a = w.bal a := by
  unfold Distr1.prepOne
  have hc : ¬ (src.ty = Distr1.AT.internal ∨ false = true) := by simp [h]
  simp only [hc, if_false]
  constructor
  · simp
  · intro a ha; simp [ha]

/-- distributor: the payout step takes from the main account exactly what leaves the recorded
    remains — nothing is created, and what is not paid stays recorded -/
theorem payout_conserves (sts : List Distr1.St) (fails : List Bool) (main : Int) (h : Distr1.allNonneg sts) :
    main - (Distr1.payout fails main sts).1 = Distr1.sumRem sts - Distr1.sumRem (Distr1.payout fails main sts).2 := by
  have := (Distr1.payout_spec sts fails main h).1
  omega

/-- the hypotheses are satisfiable (two distinct parties) -/
theorem nonvacuous : ("sender" : String) ≠ "recipient" := by decide

end C4E.Props.C01
