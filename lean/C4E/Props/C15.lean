/-
  C15 — Signature registry: payload links are write-once, verification is sound.
  `H` (sha256-hex) and `chk` (the x509 pipeline of isValidSignature) are arbitrary functions:
  the theorems are about the dataflow; cryptographic soundness is Go's crypto/x509 (DESIGN §8).
-/
import C4E.Signature
import C4E.Lemmas.AListLemmas
namespace C4E.Props.C15
open C4E C4E.Sig

/-- one message never overwrites or removes a published link -/
theorem step_keeps_link (s : State) (op : Op) (k v : String) (h : s.links.get? k = some v) :
    (step s op).links.get? k = some v := by
  cases op with
  | publish k' v' =>
    unfold step publish
    by_cases h0 : k' = ""
    · simp [h0, h]
    · simp only [h0, if_false]
      by_cases he : (s.links.get? k').isSome
      · simp [he, h]
      · simp only [he]
        have hne : k ≠ k' := by
          intro e; subst e; rw [h] at he; simp at he
        simp only [Bool.false_eq_true, if_false]
        rw [AList.get?_set_other _ _ _ _ hne]; exact h
  | store sk j a b c d =>
    unfold step store
    by_cases h0 : sk = ""
    · simp [h0, h]
    · by_cases hj : j
      · simp [h0, hj, h]
      · simp [h0, hj, h]

/-- **link_write_once**: for every history of publish / store messages (valid or rejected), a
    published link keeps its value for ever -/
theorem link_write_once (ops : List Op) (s : State) (k v : String) (h : s.links.get? k = some v) :
    (run s ops).links.get? k = some v := by
  unfold run
  induction ops generalizing s with
  | nil => exact h
  | cons op rest ih => exact ih (step s op) (step_keeps_link s op k v h)

/-- a successful publish stores exactly the given value under the given key -/
theorem publish_stores (s s' : State) (k v : String) (h : publish s k v = .ok s') : s'.links.get? k = some v := by
  unfold publish at h
  split at h
  · cases h
  · split at h
    · cases h
    · cases h; exact AList.get?_set_self _ _ _

section
variable (H : String → String) (chk : String → String → String → String → Bool)

/-- **verify_iff**: verification reports valid exactly when a signature record is stored under
    H(addr:ref), a link under H(ref), the request is well-formed, and the stored signature checks,
    under the stored certificate and algorithm, over H(addr:ref:link); and it then returns the
    stored signature, algorithm, certificate and timestamp unchanged -/
theorem verify_iff (s : State) (addr ref : String) (n : Nat) (sg alg cert ts : String) :
    verify H chk s addr ref n = .valid sg alg cert ts ↔
      (n = 64 ∧ addr ≠ "" ∧ ∃ l, s.links.get? (H ref) = some l ∧
        s.sigs.get? (H (hashConcat [addr, ref])) = some { signature := sg, algorithm := alg, certificate := cert, timestamp := ts } ∧
        chk cert alg (H (hashConcat [addr, ref, l])) sg = true) := by
  unfold verify storageKey
  by_cases hn : n = 64
  · by_cases ha : addr = ""
    · simp [hn, ha]
    · simp only [hn, ne_eq, not_true_eq_false, if_false, ha]
      cases hs : s.sigs.get? (H (hashConcat [addr, ref])) with
      | none => simp
      | some r =>
        cases hl : s.links.get? (H ref) with
        | none => simp
        | some l =>
          simp only []
          by_cases hc : chk r.certificate r.algorithm (H (hashConcat [addr, ref, l])) r.signature = true
          · simp only [hc, if_true, Verdict.valid.injEq, true_and, not_false_eq_true, Option.some.injEq]
            constructor
            · rintro ⟨rfl, rfl, rfl, rfl⟩
              exact ⟨l, rfl, rfl, hc⟩
            · rintro ⟨l', hl', hr, _⟩
              cases hl'
              rw [hr]; exact ⟨rfl, rfl, rfl, rfl⟩
          · simp only [hc, Bool.false_eq_true, if_false, true_and, not_false_eq_true, Option.some.injEq]
            constructor
            · intro h; cases h
            · rintro ⟨l', hl', hr, hc'⟩
              cases hl'
              rw [hr] at hc; exact absurd hc' hc
  · simp [hn]

/-- the verdict depends on the state only through those two records -/
theorem verify_reads_only (s1 s2 : State) (addr ref : String) (n : Nat)
    (h1 : s1.sigs.get? (H (hashConcat [addr, ref])) = s2.sigs.get? (H (hashConcat [addr, ref])))
    (h2 : s1.links.get? (H ref) = s2.links.get? (H ref)) :
    verify H chk s1 addr ref n = verify H chk s2 addr ref n := by
  unfold verify storageKey
  by_cases hn : n = 64
  · by_cases ha : addr = ""
    · simp [hn, ha]
    · simp only [hn, ne_eq, not_true_eq_false, if_false, ha]
      rw [h1, h2]
  · simp [hn]

/-- tampering: if the check rejects every payload other than the one that was signed, then a
    verification with another address, reference id or stored link (i.e. another hashed payload)
    fails -/
theorem tamper_fails (s : State) (addr ref : String) (n : Nat) (sg alg cert ts signedPayload : String)
    (hsound : ∀ p, chk cert alg p sg = true → p = signedPayload)
    (hv : verify H chk s addr ref n = .valid sg alg cert ts) :
    ∃ l, s.links.get? (H ref) = some l ∧ H (hashConcat [addr, ref, l]) = signedPayload := by
  obtain ⟨_, _, l, hl, _, hc⟩ := (verify_iff H chk s addr ref n sg alg cert ts).mp hv
  exact ⟨l, hl, hsound _ hc⟩
end

theorem nonvacuous :
    verify (fun x => "h(" ++ x ++ ")") (fun c a p s => c == "C" && a == "A" && p == "h(addr:ref:L)" && s == "S")
      { links := [("h(ref)", "L")], sigs := [("h(addr:ref)", { signature := "S", algorithm := "A", certificate := "C", timestamp := "T" })] }
      "addr" "ref" 64 = .valid "S" "A" "C" "T" := by
  decide

end C4E.Props.C15
