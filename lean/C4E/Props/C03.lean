/-
  C03 — Distributor books always match the coins it holds.

  Proved here (kernel-checked): the single-denomination core of the repaired BeginBlocker
  (C4E.Distr1: the same control flow as C4E.Distributor, which is the model tied to the Go code by
  the correspondence check) keeps the books balanced for EVERY configuration satisfying the
  distilled validation facts, every inflow and every pattern of failing bank calls.
  The multi-denomination statement `books_step_full` stays visible below; its lift from the
  per-denomination core rests on the per-denomination independence of the algorithm, which is
  checked by the correspondence runs and the registered-invariant monitors, not proved.
-/
import C4E.Distr1
import C4E.Distributor
import C4E.Bridge
import C4E.Lemmas.DistrValidate
import C4E.Lemmas.DistrFaithful
import C4E.Props.C04
namespace C4E.Props.C03
open C4E C4E.Distr1

/-- Books: recorded remains are non-negative and sum exactly to the main balance (U = main − Σ remains = 0). -/
def Books (w : World) : Prop := U w = 0 ∧ allNonneg w.states

/-- C03 core: after every block, whatever bank calls fail (φ: sweeps per sub-distributor, ψ: payouts). -/
theorem books_after_block (φ : Sub → List Bool) (ψ : List Bool) (w : World) (subs : List Sub)
    (h : WOk w) (hall : allSubOk subs) (hc : closed true subs = true) :
    Books (beginBlock φ ψ w subs) :=
  Distr1.books_after_block φ ψ w subs h hall hc

/-- the invariant is inductive over any number of blocks with arbitrary inflows in between:
    an inflow only raises balances (`WOk` is preserved by crediting main or any account). -/
theorem books_imply_wok (w : World) (hb : Books w) (hbal : ∀ a, 0 ≤ w.bal a) : WOk w :=
  ⟨hb.2, hbal, by rw [hb.1]; exact Int.le_refl 0⟩

theorem credit_main_keeps_wok (w : World) (h : WOk w) (x : Int) (hx : 0 ≤ x) :
    WOk { w with main := w.main + x } :=
  ⟨h.nn, h.bal, by have hu := h.u; unfold U at *; show 0 ≤ w.main + x - sumRem w.states; omega⟩

/-- every coin taken from a source is delivered, burned or still recorded: one sub-distributor
    execution changes `U = main − Σ remains` by exactly what it left unallocated in main. -/
theorem substep_conserves (fails : List Bool) (w : World) (sub : Sub) (h : WOk w) (hok : subOk sub) :
    WOk (subStep fails w sub) := (subStep_spec fails w sub h hok).1

/-- non-vacuity: a concrete two-level configuration (MAIN → internal + module, internal → module)
    meets the hypotheses of `books_after_block`. -/
def exSubs : List Sub :=
  [ { sources := [⟨.main, ""⟩, ⟨.module, "fee_collector"⟩], primary := ⟨.internal, "i1"⟩, burn := P / 10,
      shares := [⟨P / 3, ⟨.module, "green"⟩⟩, ⟨P / 4, ⟨.main, ""⟩⟩] },
    { sources := [⟨.internal, "i1"⟩, ⟨.main, ""⟩], primary := ⟨.base, "addr"⟩, burn := 0, shares := [] } ]

theorem books_after_block_nonvacuous : closed true exSubs = true ∧ allSubOk exSubs := by
  refine ⟨by decide, ?_⟩
  simp only [exSubs, allSubOk, subOk, sharesOk, sumShares, and_true]
  unfold P
  refine ⟨⟨⟨by omega, by omega⟩, by omega, by omega⟩, trivial, by omega, by omega⟩

/-! ### the form used by the executable bridge (`C4E.Bridge`)

The bridge compares the faithful multi-denomination model with `Distr1.subStep` per sub-distributor
(fault flags given per position) followed by `Distr1.payout`.  The same theorem for that form: -/

def runSubsL : List (List Bool) → World → List Sub → World
  | _, w, [] => w
  | fl, w, sub :: rest => runSubsL fl.tail (subStep (fl.headD []) w sub) rest

theorem runSubsL_spec : ∀ (subs : List Sub) (fl : List (List Bool)) (w : World) (pending : Bool), WOk w → allSubOk subs →
      (pending = false → U w = 0) → closed pending subs = true →
      WOk (runSubsL fl w subs) ∧ U (runSubsL fl w subs) = 0 := by
  intro subs
  induction subs with
  | nil =>
    intro fl w pending h _ hp hc
    simp only [closed, Bool.not_eq_true'] at hc
    exact ⟨h, hp hc⟩
  | cons sub rest ih =>
    intro fl w pending h hall hp hc
    obtain ⟨hok, hrest⟩ := hall
    obtain ⟨s1, s2⟩ := subStep_spec (fl.headD []) w sub h hok
    simp only [closed] at hc
    simp only [runSubsL]
    apply ih _ _ _ s1 hrest _ hc
    intro hpend
    by_cases hmd : hasMainDest sub = true
    · simp [hmd] at hpend
    · have hmd' : hasMainDest sub = false := by simpa using hmd
      rw [s2 hmd']
      by_cases hms : hasMain sub.sources = true
      · simp [hms]
      · simp only [hmd', hms] at hpend
        simp only [hms]; exact hp (by simpa using hpend)

/-- books balanced after a block executed the way the bridge executes it: per-position sweep
    faults `fl`, payout faults `ψ` -/
theorem books_after_block_bridge (fl : List (List Bool)) (ψ : List Bool) (w : World) (subs : List Sub)
    (h : WOk w) (hall : allSubOk subs) (hc : closed true subs = true) :
    let w1 := runSubsL fl w subs
    let r := payout ψ w1.main w1.states
    r.1 - sumRem r.2 = 0 ∧ allNonneg r.2 := by
  obtain ⟨r1, r2⟩ := runSubsL_spec subs fl w true h hall (by intro h; cases h) hc
  obtain ⟨p1, p2⟩ := payout_spec (runSubsL fl w subs).states ψ (runSubsL fl w subs).main r1.nn
  refine ⟨?_, p2⟩
  rw [p1]; exact r2

/-- the Boolean hypothesis checks evaluated by the bridge on every generated block are sound -/
theorem sharesOkB_sound : ∀ l, Bridge.sharesOkB l = true → sharesOk l
  | [], _ => trivial
  | s :: r, h => by
    simp only [Bridge.sharesOkB, Bool.and_eq_true, decide_eq_true_eq] at h
    exact ⟨h.1, sharesOkB_sound r h.2⟩

theorem allSubOkB_sound : ∀ l, Bridge.allSubOkB l = true → allSubOk l
  | [], _ => trivial
  | s :: r, h => by
    simp only [Bridge.allSubOkB, Bridge.subOkB, Bool.and_eq_true, decide_eq_true_eq] at h
    exact ⟨⟨sharesOkB_sound _ h.1.1.1, h.1.1.2, h.1.2⟩, allSubOkB_sound r h.2⟩

theorem nonnegB_sound : ∀ l, Bridge.nonnegB l = true → allNonneg l
  | [], _ => trivial
  | s :: r, h => by
    simp only [Bridge.nonnegB, Bool.and_eq_true, decide_eq_true_eq] at h
    exact ⟨h.1, nonnegB_sound r h.2⟩

/-- what a `br=ok` verdict of the bridge rests on: when the evaluated checks pass (and balances
    are non-negative, a bank invariant), the Distr1 execution the faithful model was compared with
    ends the block with balanced books, whatever failed -/
theorem bridge_checked_block (subs : List Distr.SubD) (w : World) (fl : List (List Bool)) (ψ : List Bool)
    (hcfg : Bridge.cfgHyps subs = true) (hnn : Bridge.nonnegB w.states = true) (hu : 0 ≤ U w) (hbal : ∀ a, 0 ≤ w.bal a) :
    let w1 := runSubsL fl w (subs.map Bridge.convSub)
    let r := payout ψ w1.main w1.states
    r.1 - sumRem r.2 = 0 ∧ allNonneg r.2 := by
  simp only [Bridge.cfgHyps, Bool.and_eq_true] at hcfg
  exact books_after_block_bridge fl ψ w _ ⟨nonnegB_sound _ hnn, hbal, hu⟩ (allSubOkB_sound _ hcfg.1) hcfg.2

/-- **C03 for every configuration accepted by the Go validation** (`Params.Validate`, modelled by
    `Distr.paramsValid` and compared with the real validation on every generated configuration):
    such a configuration meets the hypotheses of the core theorem, so for every inflow and every
    pattern of failing bank calls the books are balanced after the block -/
theorem validated_params_books (e : Distr.Env) (subs : List Distr.SubD) (hv : Distr.paramsValid e subs = true)
    (w : World) (fl : List (List Bool)) (ψ : List Bool)
    (hnn : Bridge.nonnegB w.states = true) (hu : 0 ≤ U w) (hbal : ∀ a, 0 ≤ w.bal a) :
    let w1 := runSubsL fl w (subs.map Bridge.convSub)
    let r := payout ψ w1.main w1.states
    r.1 - sumRem r.2 = 0 ∧ allNonneg r.2 :=
  bridge_checked_block subs w fl ψ (Distr.cfgHyps_of_paramsValid e subs hv) hnn hu hbal

/-! ### one sub-distributor of the code-tied multi-denomination model -/

section FaithfulStep
open C4E.Distr C4E.CoinList

theorem remSum_eq (d : String) (l : List DState) : Props.C04.remSum d l = remSumF d l := by
  induction l with
  | nil => rfl
  | cons s rest ih => simp only [Props.C04.remSum, remSumF, ih]

theorem mainShares_zero (d : String) (x : DecCoins) : ∀ (l : List Distr.Share), (∀ sh ∈ l, sh.dest.type ≠ tMain) →
    Props.C04.mainShares d x l = 0
  | [], _ => rfl
  | sh :: rest, h => by
    unfold Props.C04.mainShares
    have h1 : ¬ sh.dest.type = tMain := h sh (by simp)
    simp only [h1, if_false, mainShares_zero d x rest (fun s hs => h s (by simp [hs]))]
    rfl

/-- **one sub-distributor execution of the code-tied model** (`PrepareCoinsToDistribute` followed by
    `StartDistributionProcess`), every denomination, any configuration, any fault pattern:
    with `k` MAIN entries among its sources,
    `U' = (1 − k)·U − k·E + kept`, where `U = main × 10^18 − Σ remains`, `E` is the correction for an
    empty main account (0 whenever the main account holds anything), and `kept` is what stays in main
    for MAIN destinations — 0 when the sub-distributor has no MAIN destination. With one MAIN source and
    no MAIN destination the books are closed: `U' = −E`. -/
theorem faithful_sub_step (e : Env) (w w1 : Distr.World) (s : SubD) (x : DecCoins) (sts' : List DState)
    (evs : List Distr.Event) (d : String)
    (hp : prepareCoins e w (s.sources.filterMap id) = .ok (x, w1))
    (hd : startDistribution w1.states x s = .ok (sts', evs))
    (hne : ∀ a ∈ s.sources.filterMap id, a.type ≠ tMain → srcAddr e a ≠ some e.mainAddr) :
    ∃ kept, UF e d { w1 with states := sts' }
        = UF e d w - countMain (s.sources.filterMap id) * (UF e d w + EF e d w) + kept ∧
      ((∀ sh ∈ s.shares, sh.dest.type ≠ tMain) → s.primary.type ≠ tMain → kept = 0) := by
  have h1 := prepareCoins_U e w w1 _ x d hp hne
  obtain ⟨pa, h2⟩ := Props.C04.faithful_allocation_conserves w1.states x s sts' evs hd d
  rw [remSum_eq, remSum_eq] at h2
  refine ⟨Props.C04.mainShares d x s.shares + (if s.primary.type = tMain then pa else 0), ?_, ?_⟩
  · unfold UF at h1 ⊢
    simp only []
    omega
  · intro hs hpm
    rw [mainShares_zero d x s.shares hs]
    simp [hpm]

end FaithfulStep

/-- full multi-denomination statement over the faithful model (target; see header). -/
def books_step_full : Prop :=
  ∀ (e : Distr.Env) (subs : List Distr.SubD) (w : Distr.World) (faults : List Nat),
    Distr.paramsValid e subs = true →
    Distr.nonNegativeStates w.states = true → Distr.stateSumMatchesBalance e w = true →
    ∃ r, Distr.beginBlock e subs w faults = .ok r ∧
      Distr.nonNegativeStates r.world.states = true ∧ Distr.stateSumMatchesBalance e r.world = true

end C4E.Props.C03
