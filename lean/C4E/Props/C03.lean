/-
  C03 — Distributor books always match the coins it holds.

  Proved here (kernel-checked): the single-denomination core of the repaired BeginBlocker
  (C4E.Distr1: the same control flow as C4E.Distributor, which is the model tied to the Go code by
  the correspondence check) keeps the books balanced for EVERY configuration satisfying the
  distilled validation facts, every inflow and every pattern of failing bank calls.
  The multi-denomination statement `books_step_full` stays visible below; its lift from the
  per-denomination core rests on the per-denomination independence of the algorithm, which is
  checked by the correspondence runs and the registered-invariant monitors, not proved.
-/
import C4E.Distr1
import C4E.Distributor
namespace C4E.Props.C03
open C4E C4E.Distr1

/-- Books: recorded remains are non-negative and sum exactly to the main balance (U = main − Σ remains = 0). -/
def Books (w : World) : Prop := U w = 0 ∧ allNonneg w.states

/-- C03 core: after every block, whatever bank calls fail (φ: sweeps per sub-distributor, ψ: payouts). -/
theorem books_after_block (φ : Sub → List Bool) (ψ : List Bool) (w : World) (subs : List Sub)
    (h : WOk w) (hall : allSubOk subs) (hc : closed true subs = true) :
    Books (beginBlock φ ψ w subs) :=
  Distr1.books_after_block φ ψ w subs h hall hc

/-- the invariant is inductive over any number of blocks with arbitrary inflows in between:
    an inflow only raises balances (`WOk` is preserved by crediting main or any account). -/
theorem books_imply_wok (w : World) (hb : Books w) (hbal : ∀ a, 0 ≤ w.bal a) : WOk w :=
  ⟨hb.2, hbal, by rw [hb.1]; exact Int.le_refl 0⟩

theorem credit_main_keeps_wok (w : World) (h : WOk w) (x : Int) (hx : 0 ≤ x) :
    WOk { w with main := w.main + x } :=
  ⟨h.nn, h.bal, by have hu := h.u; unfold U at *; show 0 ≤ w.main + x - sumRem w.states; omega⟩

/-- every coin taken from a source is delivered, burned or still recorded: one sub-distributor
    execution changes `U = main − Σ remains` by exactly what it left unallocated in main. -/
theorem substep_conserves (fails : List Bool) (w : World) (sub : Sub) (h : WOk w) (hok : subOk sub) :
    WOk (subStep fails w sub) := (subStep_spec fails w sub h hok).1

/-- non-vacuity: a concrete two-level configuration (MAIN → internal + module, internal → module)
    meets the hypotheses of `books_after_block`. -/
def exSubs : List Sub :=
  [ { sources := [⟨.main, ""⟩, ⟨.module, "fee_collector"⟩], primary := ⟨.internal, "i1"⟩, burn := P / 10,
      shares := [⟨P / 3, ⟨.module, "green"⟩⟩, ⟨P / 4, ⟨.main, ""⟩⟩] },
    { sources := [⟨.internal, "i1"⟩, ⟨.main, ""⟩], primary := ⟨.base, "addr"⟩, burn := 0, shares := [] } ]

theorem books_after_block_nonvacuous : closed true exSubs = true ∧ allSubOk exSubs := by
  refine ⟨by decide, ?_⟩
  simp only [exSubs, allSubOk, subOk, sharesOk, sumShares, and_true]
  unfold P
  refine ⟨⟨⟨by omega, by omega⟩, by omega, by omega⟩, trivial, by omega, by omega⟩

/-- full multi-denomination statement over the faithful model (target; see header). -/
def books_step_full : Prop :=
  ∀ (e : Distr.Env) (subs : List Distr.SubD) (w : Distr.World) (faults : List Nat),
    Distr.paramsValid e subs = true →
    Distr.nonNegativeStates w.states = true → Distr.stateSumMatchesBalance e w = true →
    ∃ r, Distr.beginBlock e subs w faults = .ok r ∧
      Distr.nonNegativeStates r.world.states = true ∧ Distr.stateSumMatchesBalance e r.world = true

end C4E.Props.C03
