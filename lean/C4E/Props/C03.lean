/-
  C03 — Distributor books always match the coins it holds.

  Proved here (kernel-checked): the single-denomination core of the repaired BeginBlocker
  (C4E.Distr1: the same control flow as C4E.Distributor, which is the model tied to the Go code by
  the correspondence check) keeps the books balanced for EVERY configuration satisfying the
  distilled validation facts, every inflow and every pattern of failing bank calls.
  The multi-denomination statement `books_step_full` stays visible below; its lift from the
  per-denomination core rests on the per-denomination independence of the algorithm, which is
  checked by the correspondence runs and the registered-invariant monitors, not proved.
-/
import C4E.Distr1
import C4E.Distributor
import C4E.Bridge
import C4E.Lemmas.DistrValidate
import C4E.Lemmas.DistrFaithful
import C4E.Lemmas.DistrBlock
import C4E.Lemmas.DistrStore
import C4E.Props.C04
namespace C4E.Props.C03
open C4E C4E.Distr1

/-- Books: recorded remains are non-negative and sum exactly to the main balance (U = main − Σ remains = 0). -/
def Books (w : World) : Prop := U w = 0 ∧ allNonneg w.states

/-- C03 core: after every block, whatever bank calls fail (φ: sweeps per sub-distributor, ψ: payouts). -/
theorem books_after_block (φ : Sub → List Bool) (ψ : List Bool) (w : World) (subs : List Sub)
    (h : WOk w) (hall : allSubOk subs) (hc : closed true subs = true) :
    Books (beginBlock φ ψ w subs) :=
  Distr1.books_after_block φ ψ w subs h hall hc

/-- the invariant is inductive over any number of blocks with arbitrary inflows in between:
    an inflow only raises balances (`WOk` is preserved by crediting main or any account). -/
theorem books_imply_wok (w : World) (hb : Books w) (hbal : ∀ a, 0 ≤ w.bal a) : WOk w :=
  ⟨hb.2, hbal, by rw [hb.1]; exact Int.le_refl 0⟩

theorem credit_main_keeps_wok (w : World) (h : WOk w) (x : Int) (hx : 0 ≤ x) :
    WOk { w with main := w.main + x } :=
  ⟨h.nn, h.bal, by have hu := h.u; unfold U at *; show 0 ≤ w.main + x - sumRem w.states; omega⟩

/-- every coin taken from a source is delivered, burned or still recorded: one sub-distributor
    execution changes `U = main − Σ remains` by exactly what it left unallocated in main. -/
theorem substep_conserves (fails : List Bool) (w : World) (sub : Sub) (h : WOk w) (hok : subOk sub) :
    WOk (subStep fails w sub) := (subStep_spec fails w sub h hok).1

/-- non-vacuity: a concrete two-level configuration (MAIN → internal + module, internal → module)
    meets the hypotheses of `books_after_block`. -/
def exSubs : List Sub :=
  [ { sources := [⟨.main, ""⟩, ⟨.module, "fee_collector"⟩], primary := ⟨.internal, "i1"⟩, burn := P / 10,
      shares := [⟨P / 3, ⟨.module, "green"⟩⟩, ⟨P / 4, ⟨.main, ""⟩⟩] },
    { sources := [⟨.internal, "i1"⟩, ⟨.main, ""⟩], primary := ⟨.base, "addr"⟩, burn := 0, shares := [] } ]

theorem books_after_block_nonvacuous : closed true exSubs = true ∧ allSubOk exSubs := by
  refine ⟨by decide, ?_⟩
  simp only [exSubs, allSubOk, subOk, sharesOk, sumShares, and_true]
  unfold P
  refine ⟨⟨⟨by omega, by omega⟩, by omega, by omega⟩, trivial, by omega, by omega⟩

/-! ### the form used by the executable bridge (`C4E.Bridge`)

The bridge compares the faithful multi-denomination model with `Distr1.subStep` per sub-distributor
(fault flags given per position) followed by `Distr1.payout`.  The same theorem for that form: -/

def runSubsL : List (List Bool) → World → List Sub → World
  | _, w, [] => w
  | fl, w, sub :: rest => runSubsL fl.tail (subStep (fl.headD []) w sub) rest

theorem runSubsL_spec : ∀ (subs : List Sub) (fl : List (List Bool)) (w : World) (pending : Bool), WOk w → allSubOk subs →
      (pending = false → U w = 0) → closed pending subs = true →
      WOk (runSubsL fl w subs) ∧ U (runSubsL fl w subs) = 0 := by
  intro subs
  induction subs with
  | nil =>
    intro fl w pending h _ hp hc
    simp only [closed, Bool.not_eq_true'] at hc
    exact ⟨h, hp hc⟩
  | cons sub rest ih =>
    intro fl w pending h hall hp hc
    obtain ⟨hok, hrest⟩ := hall
    obtain ⟨s1, s2⟩ := subStep_spec (fl.headD []) w sub h hok
    simp only [closed] at hc
    simp only [runSubsL]
    apply ih _ _ _ s1 hrest _ hc
    intro hpend
    by_cases hmd : hasMainDest sub = true
    · simp [hmd] at hpend
    · have hmd' : hasMainDest sub = false := by simpa using hmd
      rw [s2 hmd']
      by_cases hms : hasMain sub.sources = true
      · simp [hms]
      · simp only [hmd', hms] at hpend
        simp only [hms]; exact hp (by simpa using hpend)

/-- books balanced after a block executed the way the bridge executes it: per-position sweep
    faults `fl`, payout faults `ψ` -/
theorem books_after_block_bridge (fl : List (List Bool)) (ψ : List Bool) (w : World) (subs : List Sub)
    (h : WOk w) (hall : allSubOk subs) (hc : closed true subs = true) :
    let w1 := runSubsL fl w subs
    let r := payout ψ w1.main w1.states
    r.1 - sumRem r.2 = 0 ∧ allNonneg r.2 := by
  obtain ⟨r1, r2⟩ := runSubsL_spec subs fl w true h hall (by intro h; cases h) hc
  obtain ⟨p1, p2⟩ := payout_spec (runSubsL fl w subs).states ψ (runSubsL fl w subs).main r1.nn
  refine ⟨?_, p2⟩
  rw [p1]; exact r2

/-- the Boolean hypothesis checks evaluated by the bridge on every generated block are sound -/
theorem sharesOkB_sound : ∀ l, Bridge.sharesOkB l = true → sharesOk l
  | [], _ => trivial
  | s :: r, h => by
    simp only [Bridge.sharesOkB, Bool.and_eq_true, decide_eq_true_eq] at h
    exact ⟨h.1, sharesOkB_sound r h.2⟩

theorem allSubOkB_sound : ∀ l, Bridge.allSubOkB l = true → allSubOk l
  | [], _ => trivial
  | s :: r, h => by
    simp only [Bridge.allSubOkB, Bridge.subOkB, Bool.and_eq_true, decide_eq_true_eq] at h
    exact ⟨⟨sharesOkB_sound _ h.1.1.1, h.1.1.2, h.1.2⟩, allSubOkB_sound r h.2⟩

theorem nonnegB_sound : ∀ l, Bridge.nonnegB l = true → allNonneg l
  | [], _ => trivial
  | s :: r, h => by
    simp only [Bridge.nonnegB, Bool.and_eq_true, decide_eq_true_eq] at h
    exact ⟨h.1, nonnegB_sound r h.2⟩

/-- what a `br=ok` verdict of the bridge rests on: when the evaluated checks pass (and balances
    are non-negative, a bank invariant), the Distr1 execution the faithful model was compared with
    ends the block with balanced books, whatever failed -/
theorem bridge_checked_block (subs : List Distr.SubD) (w : World) (fl : List (List Bool)) (ψ : List Bool)
    (hcfg : Bridge.cfgHyps subs = true) (hnn : Bridge.nonnegB w.states = true) (hu : 0 ≤ U w) (hbal : ∀ a, 0 ≤ w.bal a) :
    let w1 := runSubsL fl w (subs.map Bridge.convSub)
    let r := payout ψ w1.main w1.states
    r.1 - sumRem r.2 = 0 ∧ allNonneg r.2 := by
  simp only [Bridge.cfgHyps, Bool.and_eq_true] at hcfg
  exact books_after_block_bridge fl ψ w _ ⟨nonnegB_sound _ hnn, hbal, hu⟩ (allSubOkB_sound _ hcfg.1) hcfg.2

/-- **C03 for every configuration accepted by the Go validation** (`Params.Validate`, modelled by
    `Distr.paramsValid` and compared with the real validation on every generated configuration):
    such a configuration meets the hypotheses of the core theorem, so for every inflow and every
    pattern of failing bank calls the books are balanced after the block -/
theorem validated_params_books (e : Distr.Env) (subs : List Distr.SubD) (hv : Distr.paramsValid e subs = true)
    (w : World) (fl : List (List Bool)) (ψ : List Bool)
    (hnn : Bridge.nonnegB w.states = true) (hu : 0 ≤ U w) (hbal : ∀ a, 0 ≤ w.bal a) :
    let w1 := runSubsL fl w (subs.map Bridge.convSub)
    let r := payout ψ w1.main w1.states
    r.1 - sumRem r.2 = 0 ∧ allNonneg r.2 :=
  bridge_checked_block subs w fl ψ (Distr.cfgHyps_of_paramsValid e subs hv) hnn hu hbal

/-! ### one sub-distributor of the code-tied multi-denomination model -/

section FaithfulStep
open C4E.Distr C4E.CoinList

theorem remSum_eq (d : String) (l : List DState) : Props.C04.remSum d l = remSumF d l := by
  induction l with
  | nil => rfl
  | cons s rest ih => simp only [Props.C04.remSum, remSumF, ih]

theorem mainShares_zero (d : String) (x : DecCoins) : ∀ (l : List Distr.Share), (∀ sh ∈ l, sh.dest.type ≠ tMain) →
    Props.C04.mainShares d x l = 0
  | [], _ => rfl
  | sh :: rest, h => by
    unfold Props.C04.mainShares
    have h1 : ¬ sh.dest.type = tMain := h sh (by simp)
    simp only [h1, if_false, mainShares_zero d x rest (fun s hs => h s (by simp [hs]))]
    rfl

/-- **one sub-distributor execution of the code-tied model** (`PrepareCoinsToDistribute` followed by
    `StartDistributionProcess`), every denomination, any configuration, any fault pattern:
    with `k` MAIN entries among its sources,
    `U' = (1 − k)·U − k·E + kept`, where `U = main × 10^18 − Σ remains`, `E` is the correction for an
    empty main account (0 whenever the main account holds anything), and `kept` is what stays in main
    for MAIN destinations — 0 when the sub-distributor has no MAIN destination. With one MAIN source and
    no MAIN destination the books are closed: `U' = −E`. -/
theorem faithful_sub_step (e : Env) (w w1 : Distr.World) (s : SubD) (x : DecCoins) (sts' : List DState)
    (evs : List Distr.Event) (d : String)
    (hp : prepareCoins e w (s.sources.filterMap id) = .ok (x, w1))
    (hd : startDistribution w1.states x s = .ok (sts', evs))
    (hne : ∀ a ∈ s.sources.filterMap id, a.type ≠ tMain → srcAddr e a ≠ some e.mainAddr) :
    ∃ kept, UF e d { w1 with states := sts' }
        = UF e d w - countMain (s.sources.filterMap id) * (UF e d w + EF e d w) + kept ∧
      ((∀ sh ∈ s.shares, sh.dest.type ≠ tMain) → s.primary.type ≠ tMain → kept = 0) := by
  have h1 := prepareCoins_U e w w1 _ x d hp hne
  obtain ⟨pa, h2⟩ := Props.C04.faithful_allocation_conserves w1.states x s sts' evs hd d
  rw [remSum_eq, remSum_eq] at h2
  refine ⟨Props.C04.mainShares d x s.shares + (if s.primary.type = tMain then pa else 0), ?_, ?_⟩
  · unfold UF at h1 ⊢
    simp only []
    omega
  · intro hs hpm
    rw [mainShares_zero d x s.shares hs]
    simp [hpm]

end FaithfulStep

/-! ### the whole block and whole histories on the code-tied multi-denomination model -/

section FaithfulBlock
open C4E.Distr C4E.CoinList

/-- the invariant the distributor keeps between blocks, on the code-tied model: every recorded
    remainder is non-negative (the registered `nonnegative-remains` invariant), every state has an
    account and no payable state pays into the main account itself, the states have pairwise different
    store keys, and the main account holds at least what the states record, in every denomination -/
structure BlockInv (e : Env) (w : Distr.World) : Prop where
  states : StatesOk e w.states
  keys : KeysOk w.states
  u : ∀ d, 0 ≤ UF e d w

/-- two facts about addresses that the model takes from the SDK as data (DESIGN §8): the empty
    string is no valid bech32 address — stated for the destinations of the configuration -/
def Bech32Facts (subs : List SubD) : Prop :=
  ∀ s ∈ subs, (∀ sh ∈ s.shares, sh.dest.bech32Ok = true → sh.dest.id ≠ "") ∧ (s.primary.bech32Ok = true → s.primary.id ≠ "")

theorem properAcc_of_valid (e : Env) (hmod : e.modAddr? "" = none) (a : Account) (h : accountValid e a = true)
    (hm : a.type ≠ tMain) (hb : a.bech32Ok = true → a.id ≠ "") : ProperAcc a := by
  rcases accountValid_types e a h with ht | ht | ht | ht
  · exact absurd ht hm
  · refine ⟨Or.inr (Or.inr ht), ?_⟩
    unfold accountValid at h
    have h1 : ¬ tInternal = tMain := by decide
    simp only [ht, h1, if_false, if_true, decide_eq_true_eq] at h
    exact h
  · refine ⟨Or.inr (Or.inl ht), ?_⟩
    unfold accountValid at h
    have h1 : ¬ tBase = tMain := by decide
    have h2 : ¬ tBase = tInternal := by decide
    simp only [ht, h1, h2, if_false, if_true, Bool.and_eq_true] at h
    exact hb h.1
  · refine ⟨Or.inl ht, ?_⟩
    unfold accountValid at h
    have h1 : ¬ tModule = tMain := by decide
    have h2 : ¬ tModule = tInternal := by decide
    have h3 : ¬ tModule = tBase := by decide
    simp only [ht, h1, h2, h3, if_false, if_true, Bool.and_eq_true] at h
    intro hid
    rw [hid, hmod] at h
    simp at h

theorem subProper_of_paramsValid (e : Env) (hmod : e.modAddr? "" = none) (subs : List SubD)
    (hv : paramsValid e subs = true) (hb : Bech32Facts subs) : ∀ s ∈ subs, SubProper s := by
  unfold paramsValid at hv
  simp only [Bool.and_eq_true] at hv
  intro s hs
  have hvs := List.all_eq_true.mp hv.1 s hs
  unfold subValid at hvs
  simp only [Bool.and_eq_true] at hvs
  obtain ⟨⟨⟨_, hd⟩, _⟩, _⟩ := hvs
  unfold destsValid at hd
  simp only [Bool.and_eq_true] at hd
  obtain ⟨⟨⟨_, hsh⟩, hprim⟩, _⟩ := hd
  refine ⟨?_, fun hm => properAcc_of_valid e hmod _ hprim hm (hb s hs).2⟩
  intro sh hsh' hm
  have := List.all_eq_true.mp hsh sh hsh'
  simp only [Bool.and_eq_true] at this
  exact properAcc_of_valid e hmod _ this.2 hm ((hb s hs).1 sh hsh')

/-- **C03 on the code-tied multi-denomination model, one whole `BeginBlocker`**: for EVERY
    configuration accepted by `Params.Validate`, every world satisfying the block invariant (any
    recorded states, any balances, any inflow since the last block) and EVERY pattern of failing bank
    calls, a block that completes leaves the books balanced in every denomination —
    `main balance × 10^18 = Σ recorded remains` after the store write — and re-establishes the
    invariant.  (That the block completes, i.e. does not panic, is C10's part and is not proved here.) -/
theorem faithful_block_books (e : Env) (henv : EnvOk e) (hmod : e.modAddr? "" = none) (subs : List SubD)
    (hv : paramsValid e subs = true) (hb32 : Bech32Facts subs)
    (w0 : Distr.World) (faults : List Nat) (r : BlockRes) (h : Distr.beginBlock e subs w0 faults = .ok r)
    (hinv : BlockInv e w0) :
    BlockInv e r.world ∧ ∀ d, UF e d r.world = 0 := by
  obtain ⟨stored, hst, hok, hkeys, hbooks⟩ := beginBlock_prestore_full e henv subs hv
    (subProper_of_paramsValid e hmod subs hv hb32) w0 faults r h hinv.states hinv.keys hinv.u
  have hperm := storeStates_perm stored hkeys.1
  rw [← hst] at hperm
  refine ⟨⟨statesOk_perm e hperm hok, keysOk_perm hperm hkeys, ?_⟩, ?_⟩
  · intro d
    unfold UF
    rw [remSumF_perm d hperm]
    have := hbooks d; omega
  · intro d
    unfold UF
    rw [remSumF_perm d hperm]
    exact hbooks d

/-- what may happen to the distributor's books between two blocks: the recorded states are
    untouched (only `BeginBlocker` writes them) and the main account does not lose coins (nobody but
    the distributor can spend from its module account; the minter and anyone else may add) -/
def Inflow (e : Env) (w w' : Distr.World) : Prop :=
  w'.states = w.states ∧ ∀ d, amountOf (w.bank.balance e.mainAddr) d ≤ amountOf (w'.bank.balance e.mainAddr) d

theorem blockInv_inflow (e : Env) (w w' : Distr.World) (h : BlockInv e w) (hi : Inflow e w w') : BlockInv e w' := by
  obtain ⟨hst, hbal⟩ := hi
  refine ⟨by rw [hst]; exact h.states, by rw [hst]; exact h.keys, ?_⟩
  intro d
  have := h.u d
  unfold UF at this ⊢
  rw [hst]
  have := Int.mul_le_mul_of_nonneg_right (hbal d) (Int.le_of_lt P_pos)
  omega

/-- the empty distributor (fresh genesis) satisfies the invariant -/
theorem blockInv_empty (e : Env) : BlockInv e {} := by
  refine ⟨statesOk_nil e, ⟨by simp [keysOf], by intro s hs; cases hs⟩, ?_⟩
  intro d
  simp [UF, Bank.balance, AList.get?, amountOf, remSumF]

/-- worlds reachable by any history of inflows and completed blocks, each block under ANY
    configuration accepted by `Params.Validate` (parameter updates between blocks are covered) and
    ANY pattern of failing bank calls -/
inductive Reach (e : Env) : Distr.World → Prop
  | init (w : Distr.World) : BlockInv e w → Reach e w
  | inflow (w w' : Distr.World) : Reach e w → Inflow e w w' → Reach e w'
  | block (w : Distr.World) (subs : List SubD) (faults : List Nat) (r : BlockRes) :
      Reach e w → paramsValid e subs = true → Bech32Facts subs →
      Distr.beginBlock e subs w faults = .ok r → Reach e r.world

/-- **C03 / C14 over histories, on the code-tied model**: the block invariant holds in every
    reachable world — in particular every recorded remainder is non-negative and the main account
    covers the recorded remains at all times -/
theorem reach_blockInv (e : Env) (henv : EnvOk e) (hmod : e.modAddr? "" = none) (w : Distr.World)
    (h : Reach e w) : BlockInv e w := by
  induction h with
  | init w hw => exact hw
  | inflow w w' _ hi ih => exact blockInv_inflow e w w' ih hi
  | block w subs faults r _ hv hb hbl ih => exact (faithful_block_books e henv hmod subs hv hb w faults r hbl ih).1

/-- … and immediately after every completed block of such a history the books are balanced exactly,
    in every denomination, whatever failed in that block or in any earlier one -/
theorem books_after_every_block (e : Env) (henv : EnvOk e) (hmod : e.modAddr? "" = none) (w : Distr.World)
    (h : Reach e w) (subs : List SubD) (hv : paramsValid e subs = true) (hb : Bech32Facts subs)
    (faults : List Nat) (r : BlockRes) (hbl : Distr.beginBlock e subs w faults = .ok r) (d : String) :
    amountOf (r.world.bank.balance e.mainAddr) d * P = remSumF d r.world.states := by
  have := (faithful_block_books e henv hmod subs hv hb w faults r hbl (reach_blockInv e henv hmod w h)).2 d
  unfold UF at this
  omega

/-- the registered `nonnegative-remains` invariant, as the Go code evaluates it, holds in every
    reachable world -/
theorem reach_nonNegativeStates (e : Env) (henv : EnvOk e) (hmod : e.modAddr? "" = none) (w : Distr.World)
    (h : Reach e w) : Distr.nonNegativeStates w.states = true := by
  have hinv := reach_blockInv e henv hmod w h
  unfold Distr.nonNegativeStates
  apply List.all_eq_true.mpr
  intro s hs
  have := anyNegative_of_en _ (hinv.states s hs).1
  simp [this]

/-! non-vacuity: a concrete environment, a two-level configuration accepted by the validation, a
    world with inflow in two places, and a block that completes (evaluated by the kernel) -/

def exEnv : Env :=
  { modules := [⟨"distributor_main_account", "mainaddr", true⟩, ⟨"fee_collector", "feeaddr", false⟩, ⟨"green", "greenaddr", false⟩],
    blocked := [] }

def exCfg : List SubD :=
  [ { name := "a", sources := [some ⟨"", tMain, false⟩, some ⟨"fee_collector", tModule, false⟩],
      primary := ⟨"i1", tInternal, false⟩, burnShare := some (P / 10),
      shares := [⟨false, "s1", some (P / 3), ⟨"green", tModule, false⟩⟩] },
    { name := "b", sources := [some ⟨"i1", tInternal, false⟩], primary := ⟨"addr1", tBase, true⟩,
      burnShare := some 0, shares := [] } ]

def exWorld : Distr.World := { bank := { bal := [("mainaddr", [("uc4e", 1001)]), ("feeaddr", [("uc4e", 7)])] } }

theorem faithful_block_nonvacuous :
    paramsValid exEnv exCfg = true ∧ exEnv.modAddr? "" = none ∧ (Distr.beginBlock exEnv exCfg exWorld [1]).isOk = true := by
  refine ⟨by decide +kernel, by decide +kernel, by decide +kernel⟩

theorem exEnv_ok : EnvOk exEnv := by
  intro n hn
  unfold Env.modAddr? exEnv at hn
  simp only [List.find?] at hn
  by_cases h1 : n = "distributor_main_account"
  · exact h1
  · by_cases h2 : n = "fee_collector"
    · subst h2; revert hn; decide +kernel
    · by_cases h3 : n = "green"
      · subst h3; revert hn; decide +kernel
      · have e1 : ("distributor_main_account" = n) = False := by simp [eq_comm, h1]
        have e2 : ("fee_collector" = n) = False := by simp [eq_comm, h2]
        have e3 : ("green" = n) = False := by simp [eq_comm, h3]
        simp [e1, e2, e3] at hn

theorem exCfg_bech32 : Bech32Facts exCfg := by
  intro s hs
  simp only [exCfg, List.mem_cons, List.mem_nil_iff, or_false] at hs
  rcases hs with rfl | rfl
  · refine ⟨?_, by intro h; cases h⟩
    intro sh hsh
    simp only [List.mem_cons, List.mem_nil_iff, or_false] at hsh
    subst hsh; intro h; cases h
  · exact ⟨fun sh hsh => (by cases hsh), fun _ => (by decide)⟩

end FaithfulBlock

/-- full multi-denomination statement over the faithful model as first written down (round 0). Its two
    bare hypotheses do not exclude ill-formed states (a state without an account, two states under one
    store key); with the invariant that the block itself maintains (`C10.FullInv`) it is proved as
    `C10.block_completes_with_registered_invariants`. -/
def books_step_full : Prop :=
  ∀ (e : Distr.Env) (subs : List Distr.SubD) (w : Distr.World) (faults : List Nat),
    Distr.paramsValid e subs = true →
    Distr.nonNegativeStates w.states = true → Distr.stateSumMatchesBalance e w = true →
    ∃ r, Distr.beginBlock e subs w faults = .ok r ∧
      Distr.nonNegativeStates r.world.states = true ∧ Distr.stateSumMatchesBalance e r.world = true

end C4E.Props.C03
