/-
  C17 — Genesis lineage of vesting accounts and vesting summaries are accurate.
-/
import C4E.Vesting
import C4E.Lemmas.AListLemmas
import C4E.Lemmas.SortLemmas
import C4E.Lemmas.VestBacked
namespace C4E.Props.C17
open C4E C4E.Vest

/-- the trace written for the recipient of a split / move is genesis-derived exactly when the
    sender's trace is (genesis account itself, from a genesis pool, or from a genesis account) -/
theorem split_lineage (tr : Trace) (id : Nat) (addr : String) :
    ({ id := id, address := addr, genesis := false, fromGenesisPool := tr.fromGenesisPool,
       fromGenesisAccount := tr.genesis || tr.fromGenesisAccount } : Trace).isGenesisOrFromGenesis
      = tr.isGenesisOrFromGenesis := by
  unfold Trace.isGenesisOrFromGenesis
  simp only [Bool.false_or]
  cases tr.genesis <;> cases tr.fromGenesisPool <;> cases tr.fromGenesisAccount <;> rfl

/-- the trace written for the recipient of a pool send is genesis-derived exactly when the pool is
    a genesis pool -/
theorem send_lineage (p : Pool) (id : Nat) (addr : String) :
    ({ id := id, address := addr, genesis := false, fromGenesisPool := p.genesisPool,
       fromGenesisAccount := false } : Trace).isGenesisOrFromGenesis = p.genesisPool := by
  unfold Trace.isGenesisOrFromGenesis; simp

/-- depth-k chains: genesis-derivation is preserved along any chain of splits -/
def chain (tr : Trace) : Nat → Trace
  | 0 => tr
  | k + 1 => let t := chain tr k
             { id := t.id + 1, address := t.address, genesis := false, fromGenesisPool := t.fromGenesisPool,
               fromGenesisAccount := t.genesis || t.fromGenesisAccount }

theorem chain_lineage (tr : Trace) (k : Nat) : (chain tr k).isGenesisOrFromGenesis = tr.isGenesisOrFromGenesis := by
  induction k with
  | zero => rfl
  | succ k ih => rw [← ih]; exact split_lineage (chain tr k) _ _

/-- `appendTrace` stores exactly that record under the recipient's address and counts it -/
theorem appendTrace_count (s : State) (a : String) (fp fa : Bool) :
    (s.appendTrace a fp fa).traceCount = s.traceCount + 1 := rfl

/-- the summary's delegated part is vesting minus locked, and the total is pools plus accounts
    (definitional in `summary`; stated so a refactoring of the query breaks here) -/
theorem summary_shape (s : State) (g : Bool) (r : Summary) (h : summary s g = some r) :
    r.all = r.inAccounts + r.inPools ∧ ∃ locked, r.delegated = r.inAccounts - locked := by
  unfold summary at h
  simp only [] at h
  split at h
  · cases h
  · rename_i v l _
    cases h
    exact ⟨rfl, l, rfl⟩

/-! ### lineage through the real handlers -/

/-- the address is recorded as genesis-derived -/
def derived (s : State) (a : String) : Bool :=
  match s.traces.get? a with
  | some t => t.isGenesisOrFromGenesis
  | none => false

/-- trace and pool stores hold one entry per address (they are key-value stores) -/
def StoresOk (s : State) : Prop := KeysNodup s.traces ∧ KeysNodup s.pools

theorem appendTrace_get_self (s : State) (a : String) (fp fa : Bool) (h : KeysNodup s.traces) :
    (s.appendTrace a fp fa).traces.get? a
      = some { id := s.traceCount, address := a, genesis := false, fromGenesisPool := fp, fromGenesisAccount := fa } := by
  unfold State.appendTrace
  simp only []
  rw [get?_sortBy _ _ _ (keysNodup_set _ _ _ h), AList.get?_set_self]

theorem appendTrace_get_other (s : State) (a b : String) (fp fa : Bool) (h : KeysNodup s.traces) (hb : b ≠ a) :
    (s.appendTrace a fp fa).traces.get? b = s.traces.get? b := by
  unfold State.appendTrace
  simp only []
  rw [get?_sortBy _ _ _ (keysNodup_set _ _ _ h), AList.get?_set_other _ _ _ _ hb]

theorem appendTrace_nodup (s : State) (a : String) (fp fa : Bool) (h : KeysNodup s.traces) :
    KeysNodup (s.appendTrace a fp fa).traces := by
  unfold State.appendTrace
  exact keysNodup_sortBy _ _ (keysNodup_set _ _ _ h)

theorem setPools_get_self (s : State) (o : String) (ps : List Pool) (h : KeysNodup s.pools) :
    (s.setPools o ps).pools.get? o = some ps := by
  unfold State.setPools sortPools
  simp only []
  rw [get?_sortBy _ _ _ (keysNodup_set _ _ _ h), AList.get?_set_self]

theorem setPools_nodup (s : State) (o : String) (ps : List Pool) (h : KeysNodup s.pools) :
    KeysNodup (s.setPools o ps).pools := by
  unfold State.setPools sortPools
  exact keysNodup_sortBy _ _ (keysNodup_set _ _ _ h)

theorem unlock_traces {s s1 : State} {owner : String} {amt : Coins} {a : Acct}
    (h : unlockUnbonded s owner amt = .ok (s1, a)) : s1.traces = s.traces ∧ s1.traceCount = s.traceCount ∧ s1.pools = s.pools := by
  unfold unlockUnbonded at h
  split at h
  · cases h
  · split at h
    · cases h
    · split at h
      · cases h
      · split at h
        · cases h
        · split at h
          · cases h
          · split at h
            · cases h
            · split at h
              · cases h; exact ⟨rfl, rfl, rfl⟩
              · cases h
              · cases h

/-- **split / move lineage**: the recipient's record is genesis-derived exactly when the sender's
    is; a sender without a record leaves no record; no other address's record changes -/
theorem splitCoins_lineage (s : State) (src to : String) (amount : Coins) (res : Res)
    (h : splitCoins s src to amount = .ok res) (ht : KeysNodup s.traces) :
    KeysNodup res.st.traces ∧ res.st.pools = s.pools ∧
    (∀ a, a ≠ to → res.st.traces.get? a = s.traces.get? a) ∧
    (match s.traces.get? src with
     | some tr => derived res.st to = tr.isGenesisOrFromGenesis
     | none => res.st.traces.get? to = s.traces.get? to) := by
  unfold splitCoins at h
  split at h
  · cases h
  · split at h
    · cases h
    · split at h
      · cases h
      · split at h
        · cases h
        · cases h
        · rename_i s1 vacc hu
          obtain ⟨u1, u2, u3⟩ := unlock_traces hu
          simp only [] at h
          split at h
          · cases h
          · cases h
          · rename_i s3 hsend
            have := send_ok_eq _ _ _ _ _ hsend
            subst this
            generalize hS : ((newCva s1 to (sortBy (fun a b => a.1 < b.1) amount)
                (if vacc.startS > unixSec s.now then vacc.startS else unixSec s.now) vacc.endS).applySend src to amount) = S3 at h
            have e3 : S3.traces = s.traces := by rw [← hS]; exact u1
            have e4 : S3.pools = s.pools := by rw [← hS]; exact u3
            have hn : KeysNodup S3.traces := by rw [e3]; exact ht
            split at h
            · rename_i tr htr
              cases h
              rw [e3] at htr
              refine ⟨appendTrace_nodup _ _ _ _ hn, e4, ?_, ?_⟩
              · intro a ha
                rw [appendTrace_get_other _ _ _ _ _ hn ha, e3]
              · rw [htr]
                simp only []
                unfold derived
                rw [appendTrace_get_self _ _ _ _ hn]
                exact split_lineage tr _ _
            · rename_i htr
              cases h
              rw [e3] at htr
              refine ⟨hn, e4, (by intro a _; rw [e3]), ?_⟩
              rw [htr]
              simp only []
              rw [e3]

theorem sendFromModule_fields (s s' : State) (dst : String) (c : Coins) (h : s.sendFromModule dst c = .ok s') :
    s'.pools = s.pools ∧ s'.traces = s.traces ∧ s'.traceCount = s.traceCount := by
  unfold State.sendFromModule at h
  split at h
  · cases h
  · have := send_ok_eq _ _ _ _ _ h
    subst this; exact ⟨rfl, rfl, rfl⟩

theorem lastNamed_map (name : String) (f : Pool → Pool) (hf : ∀ p, (f p).name = p.name) : ∀ ps : List Pool,
    lastNamed name (ps.map f) = (lastNamed name ps).map f
  | [] => rfl
  | p :: ps => by
    simp only [List.map_cons]
    unfold lastNamed
    rw [lastNamed_map name f hf ps]
    cases lastNamed name ps with
    | some q => rfl
    | none => simp only [Option.map, hf]; split <;> rfl

/-- what the withdrawal inside a pool send leaves behind: the owner's pools with only
    `withdrawn` changed; traces untouched -/
theorem withdrawAll_pools (s : State) (o : Addr) (w : Res) (h : withdrawAll s o = .ok w) (hp : KeysNodup s.pools) :
    ∃ ps, s.pools.get? o.s = some ps ∧
      w.st.pools.get? o.s = some (ps.map (fun p => { p with withdrawn := p.withdrawn + withdrawable s.now p })) ∧
      w.st.traces = s.traces ∧ w.st.traceCount = s.traceCount ∧ KeysNodup w.st.pools := by
  unfold withdrawAll at h
  split at h
  · cases h
  · split at h
    · cases h
    · rename_i ps hps
      split at h
      · cases h
      · simp only [] at h
        split at h
        · rename_i s1 hsent
          split at h
          · cases h
          · cases h
            have hs1 : s1.pools = s.pools ∧ s1.traces = s.traces ∧ s1.traceCount = s.traceCount := by
              split at hsent
              all_goals first | exact sendFromModule_fields _ _ _ _ hsent | (cases hsent; exact ⟨rfl, rfl, rfl⟩) | cases hsent
            have hp1 : KeysNodup s1.pools := by rw [hs1.1]; exact hp
            exact ⟨ps, hps, setPools_get_self s1 o.s _ hp1, hs1.2.1, hs1.2.2, setPools_nodup s1 o.s _ hp1⟩
        · cases h
        · cases h

theorem newVestingAccount_traces (s s' : State) (to : String) (amount free le ve : Int)
    (h : newVestingAccount s to amount free le ve = .ok s') : s'.traces = s.traces ∧ s'.traceCount = s.traceCount := by
  unfold newVestingAccount at h
  split at h
  · cases h
  · split at h
    · cases h
    · split at h
      · cases h
      · simp only [] at h
        split at h
        · cases h
        · split at h
          · rename_i s2 hsend
            cases h
            have := sendFromModule_fields _ _ _ _ hsend
            exact ⟨this.2.1, this.2.2⟩
          · cases h
          · cases h

/-- **pool-send lineage**: the recipient's record is genesis-derived exactly when the pool it was
    sent from (the last pool of that name of the owner) is a genesis pool; nobody else's record
    changes -/
theorem sendToNew_lineage (s : State) (o to : Addr) (pool : String) (amount : Int) (restart : Bool) (res : Res)
    (h : sendToNew s o to pool amount restart = .ok res) (hs : StoresOk s) :
    KeysNodup res.st.traces ∧
    (∀ a, a ≠ to.s → res.st.traces.get? a = s.traces.get? a) ∧
    ∃ ps p, s.pools.get? o.s = some ps ∧ lastNamed pool ps = some p ∧ derived res.st to.s = p.genesisPool := by
  obtain ⟨ht, hp⟩ := hs
  unfold sendToNew at h
  split at h
  · cases h
  · split at h
    · cases h
    · cases h
    · rename_i w hw
      obtain ⟨ps0, hps0, hwp, hwt, hwc, _⟩ := withdrawAll_pools s o w hw hp
      simp only [] at h
      split at h
      · cases h
      · rename_i ps hps
        rw [hwp] at hps; cases hps
        split at h
        · cases h
        · split at h
          · cases h
          · rename_i p hp'
            rw [lastNamed_map pool (fun p => { p with withdrawn := p.withdrawn + withdrawable s.now p }) (fun _ => rfl)] at hp'
            cases hl : lastNamed pool ps0 with
            | none => rw [hl] at hp'; cases hp'
            | some p0 =>
              rw [hl] at hp'
              simp only [Option.map, Option.some.injEq] at hp'
              split at h
              · cases h
              · split at h
                · cases h
                · split at h
                  · cases h
                  · cases h
                  · rename_i s2 hr
                    cases h
                    have ht2 : s2.traces = s.traces ∧ s2.traceCount = s.traceCount := by
                      cases restart
                      · simp only [Bool.false_eq_true, if_false] at hr
                        have := newVestingAccount_traces _ _ _ _ _ _ _ hr
                        exact ⟨this.1.trans hwt, this.2.trans hwc⟩
                      · simp only [if_true] at hr
                        have := newVestingAccount_traces _ _ _ _ _ _ _ hr
                        exact ⟨this.1.trans hwt, this.2.trans hwc⟩
                    have hn : KeysNodup (s2.setPools o.s (bumpLast pool amount
                        (ps0.map (fun p => { p with withdrawn := p.withdrawn + withdrawable s.now p }))).1).traces := by
                      show KeysNodup s2.traces; rw [ht2.1]; exact ht
                    refine ⟨appendTrace_nodup _ _ _ _ hn, ?_, ps0, p0, hps0, hl, ?_⟩
                    · intro a ha
                      rw [appendTrace_get_other _ _ _ _ _ hn ha]
                      show s2.traces.get? a = _
                      rw [ht2.1]
                    · unfold derived
                      rw [appendTrace_get_self _ _ _ _ hn]
                      simp only []
                      rw [send_lineage]
                      rw [← hp']

theorem createPool_traces (s : State) (o : Addr) (name : String) (a dur : Int) (vt : String) (res : Res)
    (h : createPool s o name a dur vt = .ok res) : res.st.traces = s.traces := by
  unfold createPool at h
  split at h
  · cases h
  · split at h
    · cases h
    · split at h
      · cases h
      · split at h
        · cases h
        · simp only [] at h
          split at h
          · cases h
          · split at h
            · rename_i s1 hsend
              cases h
              have := send_ok_eq _ _ _ _ _ hsend
              subst this; rfl
            · cases h
            · cases h

theorem withdrawAll_traces (s : State) (o : Addr) (res : Res) (h : withdrawAll s o = .ok res) :
    res.st.traces = s.traces := by
  unfold withdrawAll at h
  split at h
  · cases h
  · split at h
    · cases h
    · split at h
      · cases h
      · simp only [] at h
        split at h
        · rename_i s1 hsent
          split at h
          · cases h
          · cases h
            have hs1 : s1.traces = s.traces := by
              split at hsent
              all_goals first | exact (sendFromModule_fields _ _ _ _ hsent).2.1 | (cases hsent; rfl) | cases hsent
            exact hs1
        · cases h
        · cases h

theorem createVA_traces (s : State) (f to : Addr) (c : List (String × Option Int)) (a b : Int) (res : Res)
    (h : createVA s f to c a b = .ok res) : res.st.traces = s.traces := by
  unfold createVA at h
  split at h
  · cases h
  · simp only [] at h
    split at h
    · cases h
    · split at h
      · cases h
      · split at h
        · rename_i s2 hsend
          cases h
          have := send_ok_eq _ _ _ _ _ hsend
          subst this; rfl
        · cases h
        · cases h

/-- no other message writes a lineage record: pool creation, withdrawal and direct account
    creation leave the trace store as it is -/
theorem other_messages_keep_traces (s : State) (m : Msg) (res : Res) (h : handle s m = .ok res)
    (hm : match m with | .createPool .. => True | .withdraw .. => True | .createVA .. => True | _ => False) :
    res.st.traces = s.traces := by
  cases m with
  | createPool o name amount dur vt =>
    simp only [handle] at h
    cases amount with
    | none => cases h
    | some a => exact createPool_traces s o name a dur vt res h
  | withdraw o =>
    simp only [handle] at h
    exact withdrawAll_traces s o res h
  | createVA f to amount a b =>
    simp only [handle] at h
    cases amount with
    | none => cases h
    | some c =>
      simp only [] at h
      split at h
      · cases h
      · exact createVA_traces s f to c a b res h
  | send _ _ _ _ _ => exact absurd hm (by simp)
  | split _ _ _ => exact absurd hm (by simp)
  | move _ _ => exact absurd hm (by simp)
  | moveDenoms _ _ _ => exact absurd hm (by simp)

theorem lineage_nonvacuous :
    (chain { id := 0, address := "g", genesis := true, fromGenesisPool := false, fromGenesisAccount := false } 3).isGenesisOrFromGenesis = true ∧
    (chain { id := 0, address := "n", genesis := false, fromGenesisPool := false, fromGenesisAccount := false } 3).isGenesisOrFromGenesis = false := by
  decide

end C4E.Props.C17
