/-
  C17 — Genesis lineage of vesting accounts and vesting summaries are accurate.
-/
import C4E.Vesting
import C4E.Lemmas.AListLemmas
namespace C4E.Props.C17
open C4E C4E.Vest

/-- the trace written for the recipient of a split / move is genesis-derived exactly when the
    sender's trace is (genesis account itself, from a genesis pool, or from a genesis account) -/
theorem split_lineage (tr : Trace) (id : Nat) (addr : String) :
    ({ id := id, address := addr, genesis := false, fromGenesisPool := tr.fromGenesisPool,
       fromGenesisAccount := tr.genesis || tr.fromGenesisAccount } : Trace).isGenesisOrFromGenesis
      = tr.isGenesisOrFromGenesis := by
  unfold Trace.isGenesisOrFromGenesis
  simp only [Bool.false_or]
  cases tr.genesis <;> cases tr.fromGenesisPool <;> cases tr.fromGenesisAccount <;> rfl

/-- the trace written for the recipient of a pool send is genesis-derived exactly when the pool is
    a genesis pool -/
theorem send_lineage (p : Pool) (id : Nat) (addr : String) :
    ({ id := id, address := addr, genesis := false, fromGenesisPool := p.genesisPool,
       fromGenesisAccount := false } : Trace).isGenesisOrFromGenesis = p.genesisPool := by
  unfold Trace.isGenesisOrFromGenesis; simp

/-- depth-k chains: genesis-derivation is preserved along any chain of splits -/
def chain (tr : Trace) : Nat → Trace
  | 0 => tr
  | k + 1 => let t := chain tr k
             { id := t.id + 1, address := t.address, genesis := false, fromGenesisPool := t.fromGenesisPool,
               fromGenesisAccount := t.genesis || t.fromGenesisAccount }

theorem chain_lineage (tr : Trace) (k : Nat) : (chain tr k).isGenesisOrFromGenesis = tr.isGenesisOrFromGenesis := by
  induction k with
  | zero => rfl
  | succ k ih => rw [← ih]; exact split_lineage (chain tr k) _ _

/-- `appendTrace` stores exactly that record under the recipient's address and counts it -/
theorem appendTrace_count (s : State) (a : String) (fp fa : Bool) :
    (s.appendTrace a fp fa).traceCount = s.traceCount + 1 := rfl

/-- the summary's delegated part is vesting minus locked, and the total is pools plus accounts
    (definitional in `summary`; stated so a refactoring of the query breaks here) -/
theorem summary_shape (s : State) (g : Bool) (r : Summary) (h : summary s g = some r) :
    r.all = r.inAccounts + r.inPools ∧ ∃ locked, r.delegated = r.inAccounts - locked := by
  unfold summary at h
  simp only [] at h
  split at h
  · cases h
  · rename_i v l _
    cases h
    exact ⟨rfl, l, rfl⟩

theorem lineage_nonvacuous :
    (chain { id := 0, address := "g", genesis := true, fromGenesisPool := false, fromGenesisAccount := false } 3).isGenesisOrFromGenesis = true ∧
    (chain { id := 0, address := "n", genesis := false, fromGenesisPool := false, fromGenesisAccount := false } 3).isGenesisOrFromGenesis = false := by
  decide

end C4E.Props.C17
