/-
  C19 — Reported inflation equals the actual annualised emission rate.
-/
import C4E.Minter
namespace C4E.Props.C19
open C4E C4E.Minter

/-- zero before the period start -/
theorem inflation_zero_before_start (m : M) (supply start t : Int) (h : start > t) :
    inflation m supply start t = .ok 0 := by
  unfold inflation; rw [if_pos h]

/-- zero for a no-minting period -/
theorem inflation_zero_nominting (m : M) (supply start t : Int) (h : m.cfg = .noMint) :
    inflation m supply start t = .ok 0 := by
  unfold inflation; split
  · rfl
  · rw [h]

/-- zero for an exponential period whose end has been reached -/
theorem inflation_zero_exp_ended (m : M) (a step mult supply start e t : Int)
    (hc : m.cfg = .exp a step mult) (he : m.endT = some e) (ht : e ≤ t) :
    inflation m supply start t = .ok 0 := by
  unfold inflation; split
  · rfl
  · rw [hc]; simp only []
    split
    · rfl
    · rw [he]; simp only [ge_iff_le, decide_eq_true_eq]
      rw [if_pos ht]

/-- linear period: inflation · supply is the annualised emission `amount · year / period`,
    up to the two integer truncations (at most one 10^-18 unit each) -/
theorem rate_linear (a supply start e : Int) (ha : 0 ≤ a) (hs : 0 < supply) (hp : 0 < e - start) :
    let yearly := (Dec.ofInt a * year) / (e - start)
    let infl := Dec.quoInt (Dec.quoInt (Dec.mulInt (Dec.ofInt a) year) (e - start)) supply
    infl * supply ≤ yearly ∧ yearly < (infl + 1) * supply := by
  simp only [Dec.quoInt, Dec.mulInt]
  have hy : (0:Int) ≤ Dec.ofInt a * year := by
    unfold Dec.ofInt year; exact Int.mul_nonneg (Int.mul_nonneg ha (Int.le_of_lt P_pos)) (by decide)
  rw [Int.tdiv_eq_ediv_of_nonneg hy]
  have hq : 0 ≤ (Dec.ofInt a * year) / (e - start) := Int.ediv_nonneg hy (Int.le_of_lt hp)
  rw [Int.tdiv_eq_ediv_of_nonneg hq]
  exact ⟨Int.ediv_mul_le _ (Int.ne_of_gt hs), Int.lt_ediv_add_one_mul_self _ hs⟩

/-- exponential period: the reported rate uses the same per-step amount `expE` as the minting
    function `expAmount` (two separate loops in the Go code) -/
theorem rate_exp_uses_step_amount (m : M) (a step mult supply start t : Int)
    (hc : m.cfg = .exp a step mult) (hs : 0 < supply) (hst : start ≤ t) (he : m.endT = none) :
    inflation m supply start t =
      .ok (Dec.quoInt (Dec.quoInt (Dec.mulInt (expE a mult ((t - start).tdiv step).toNat) year) step) supply) := by
  unfold inflation
  rw [if_neg (by omega), hc]; simp only []
  rw [if_neg (by omega), he]; simp

theorem nonvacuous : inflation { seq := 1, endT := some 31536000000000000, cfg := .lin 1000 } 10000 0 5 = .ok 100000000000000000 := by
  decide

end C4E.Props.C19
