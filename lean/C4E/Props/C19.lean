/-
  C19 — Reported inflation equals the actual annualised emission rate.
-/
import C4E.Minter
import C4E.Lemmas.MinterArith
namespace C4E.Props.C19
open C4E C4E.Minter

/-- zero before the period start -/
theorem inflation_zero_before_start (m : M) (supply start t : Int) (h : start > t) :
    inflation m supply start t = .ok 0 := by
  unfold inflation; rw [if_pos h]

/-- zero for a no-minting period -/
theorem inflation_zero_nominting (m : M) (supply start t : Int) (h : m.cfg = .noMint) :
    inflation m supply start t = .ok 0 := by
  unfold inflation; split
  · rfl
  · rw [h]

/-- zero for an exponential period whose end has been reached -/
theorem inflation_zero_exp_ended (m : M) (a step mult supply start e t : Int)
    (hc : m.cfg = .exp a step mult) (he : m.endT = some e) (ht : e ≤ t) :
    inflation m supply start t = .ok 0 := by
  unfold inflation; split
  · rfl
  · rw [hc]; simp only []
    split
    · rfl
    · rw [he]; simp only [ge_iff_le, decide_eq_true_eq]
      rw [if_pos ht]

/-- zero for a linear period whose end has been reached (D33: the unrepaired code reported the full
    rate although nothing is emitted any more) -/
theorem inflation_zero_lin_ended (m : M) (a supply start e t : Int)
    (hc : m.cfg = .lin a) (he : m.endT = some e) (ht : e ≤ t) :
    inflation m supply start t = .ok 0 := by
  unfold inflation; split
  · rfl
  · rw [hc]; simp only []
    split
    · rfl
    · rw [he]; simp only [ge_iff_le]
      rw [if_pos ht]

/-- **zero for every period whose end has passed**, whatever its kind -/
theorem inflation_zero_ended (m : M) (supply start e t : Int) (he : m.endT = some e) (ht : e ≤ t) :
    inflation m supply start t = .ok 0 := by
  cases hc : m.cfg with
  | noMint => exact inflation_zero_nominting m supply start t hc
  | lin a => exact inflation_zero_lin_ended m a supply start e t hc he ht
  | exp a step mult => exact inflation_zero_exp_ended m a step mult supply start e t hc he ht

/-- linear period: inflation · supply is the annualised emission `amount · year / period`,
    up to the two integer truncations (at most one 10^-18 unit each) -/
theorem rate_linear (a supply start e : Int) (ha : 0 ≤ a) (hs : 0 < supply) (hp : 0 < e - start) :
    let yearly := (Dec.ofInt a * year) / (e - start)
    let infl := Dec.quoInt (Dec.quoInt (Dec.mulInt (Dec.ofInt a) year) (e - start)) supply
    infl * supply ≤ yearly ∧ yearly < (infl + 1) * supply := by
  simp only [Dec.quoInt, Dec.mulInt]
  have hy : (0:Int) ≤ Dec.ofInt a * year := by
    unfold Dec.ofInt year; exact Int.mul_nonneg (Int.mul_nonneg ha (Int.le_of_lt P_pos)) (by decide)
  rw [Int.tdiv_eq_ediv_of_nonneg hy]
  have hq : 0 ≤ (Dec.ofInt a * year) / (e - start) := Int.ediv_nonneg hy (Int.le_of_lt hp)
  rw [Int.tdiv_eq_ediv_of_nonneg hq]
  exact ⟨Int.ediv_mul_le _ (Int.ne_of_gt hs), Int.lt_ediv_add_one_mul_self _ hs⟩

/-- exponential period: the reported rate uses the same per-step amount `expE` as the minting
    function `expAmount` (two separate loops in the Go code) -/
theorem rate_exp_uses_step_amount (m : M) (a step mult supply start t : Int)
    (hc : m.cfg = .exp a step mult) (hs : 0 < supply) (hst : start ≤ t) (he : m.endT = none) :
    inflation m supply start t =
      .ok (Dec.quoInt (Dec.quoInt (Dec.mulInt (expE a mult ((t - start).tdiv step).toNat) year) step) supply) := by
  unfold inflation
  rw [if_neg (by omega), hc]; simp only []
  rw [if_neg (by omega), he]; simp

/-! ### the short-interval identity -/

theorem div_of_between (x step : Int) (k : Nat) (hs : 0 < step) (h1 : (k : Int) * step ≤ x) (h2 : x < ((k : Int) + 1) * step) :
    x / step = k := by
  have a1 := Int.ediv_mul_le x (Int.ne_of_gt hs)
  have a2 := Int.lt_ediv_add_one_mul_self x hs
  have l1 : (k : Int) * step < (x / step + 1) * step := by omega
  have l2 : x / step * step < ((k : Int) + 1) * step := by omega
  have := Int.lt_of_mul_lt_mul_right l1 (Int.le_of_lt hs)
  have := Int.lt_of_mul_lt_mul_right l2 (Int.le_of_lt hs)
  omega

/-- value of the exponential cumulative amount inside step `k` (no end clamp) -/
theorem expAmount_in_step (a step mult start t : Int) (k : Nat) (ha : 0 ≤ a) (hm : 0 ≤ mult) (hs : 0 < step)
    (h1 : start + (k : Int) * step ≤ t) (h2 : t < start + ((k : Int) + 1) * step) :
    expAmount a step mult start none t = expSum a mult k + (expE a mult k * (t - (start + k * step))) / step := by
  have hk0 : (0 : Int) ≤ (k : Int) * step := Int.mul_nonneg (Int.natCast_nonneg k) (Int.le_of_lt hs)
  have hp : 0 ≤ t - start := by omega
  have hdiv : (t - start) / step = k := div_of_between (t - start) step k hs (by omega) (by omega)
  unfold expAmount expNow
  simp only []
  rw [Int.tdiv_eq_ediv_of_nonneg hp, hdiv]
  simp only [Int.toNat_natCast]
  unfold Dec.quoInt Dec.mulInt
  have hnn : 0 ≤ expE a mult k * (t - (start + (k : Int) * step)) :=
    Int.mul_nonneg (expE_nonneg a mult ha hm k) (by omega)
  rw [Int.tdiv_eq_ediv_of_nonneg hnn]

/-- **short-interval identity (exponential period)**: inside one step, what the schedule emits
    between two instants is the step amount times the interval over the step length, up to one
    10^-18 unit — and the reported inflation is that same step amount annualised over the supply
    (`rate_exp_uses_step_amount`) -/
theorem exp_interval (a step mult start t1 t2 : Int) (k : Nat) (ha : 0 ≤ a) (hm : 0 ≤ mult) (hs : 0 < step)
    (h1 : start + (k : Int) * step ≤ t1) (h12 : t1 ≤ t2) (h2 : t2 < start + ((k : Int) + 1) * step) :
    let d := expAmount a step mult start none t2 - expAmount a step mult start none t1
    let E := expE a mult k
    (d - 1) * step < E * (t2 - t1) ∧ E * (t2 - t1) < (d + 1) * step := by
  rw [expAmount_in_step a step mult start t1 k ha hm hs h1 (by omega),
      expAmount_in_step a step mult start t2 k ha hm hs (by omega) h2]
  simp only []
  have hE := expE_nonneg a mult ha hm k
  generalize expE a mult k = E at *
  generalize hc : start + (k : Int) * step = c at *
  have x1 := Int.ediv_mul_le (E * (t1 - c)) (Int.ne_of_gt hs)
  have x2 := Int.lt_ediv_add_one_mul_self (E * (t1 - c)) hs
  have y1 := Int.ediv_mul_le (E * (t2 - c)) (Int.ne_of_gt hs)
  have y2 := Int.lt_ediv_add_one_mul_self (E * (t2 - c)) hs
  have e : E * (t2 - t1) = E * (t2 - c) - E * (t1 - c) := by
    rw [← Int.mul_sub]; congr 1; omega
  generalize E * (t1 - c) / step = q1 at *
  generalize E * (t2 - c) / step = q2 at *
  generalize E * (t1 - c) = A at *
  generalize E * (t2 - c) = B at *
  have f1 : (q1 + 1) * step = q1 * step + step := by rw [Int.add_mul]; omega
  have f2 : (q2 + 1) * step = q2 * step + step := by rw [Int.add_mul]; omega
  have g1 : (expSum a mult k + q2 - (expSum a mult k + q1) - 1) * step = q2 * step - q1 * step - step := by
    have : expSum a mult k + q2 - (expSum a mult k + q1) - 1 = q2 - q1 - 1 := by omega
    rw [this, Int.sub_mul, Int.sub_mul]; omega
  have g2 : (expSum a mult k + q2 - (expSum a mult k + q1) + 1) * step = q2 * step - q1 * step + step := by
    have : expSum a mult k + q2 - (expSum a mult k + q1) + 1 = q2 - q1 + 1 := by omega
    rw [this, Int.add_mul, Int.sub_mul]; omega
  rw [g1, g2, e]
  constructor <;> omega

/-- **short-interval identity (linear period)** on millisecond-aligned instants inside the period:
    the emission between them is amount × interval / period length up to one 10^-18 unit -/
theorem lin_interval (a start e t1 t2 : Int) (ha : 0 ≤ a) (hs1 : start ≤ t1) (h12 : t1 ≤ t2) (h2e : t2 ≤ e)
    (hper : 0 < ms e - ms start) :
    let d := linAmount a start e t2 - linAmount a start e t1
    let L := ms e - ms start
    (d - 1) * L < Dec.ofInt a * (ms t2 - ms t1) ∧ Dec.ofInt a * (ms t2 - ms t1) < (d + 1) * L := by
  have hA : 0 ≤ Dec.ofInt a := by unfold Dec.ofInt; exact Int.mul_nonneg ha (Int.le_of_lt P_pos)
  have m1 : ms start ≤ ms t1 := ms_mono hs1
  have m2 : ms t1 ≤ ms t2 := ms_mono h12
  unfold linAmount
  rw [if_neg (by omega), if_neg (by omega), if_neg (by omega), if_neg (by omega)]
  unfold Dec.quoInt Dec.mulInt
  have n1 : 0 ≤ Dec.ofInt a * (ms t1 - ms start) := Int.mul_nonneg hA (by omega)
  have n2 : 0 ≤ Dec.ofInt a * (ms t2 - ms start) := Int.mul_nonneg hA (by omega)
  rw [Int.tdiv_eq_ediv_of_nonneg n1, Int.tdiv_eq_ediv_of_nonneg n2]
  simp only []
  generalize Dec.ofInt a = A at *
  generalize ms e - ms start = L at *
  have x1 := Int.ediv_mul_le (A * (ms t1 - ms start)) (Int.ne_of_gt hper)
  have x2 := Int.lt_ediv_add_one_mul_self (A * (ms t1 - ms start)) hper
  have y1 := Int.ediv_mul_le (A * (ms t2 - ms start)) (Int.ne_of_gt hper)
  have y2 := Int.lt_ediv_add_one_mul_self (A * (ms t2 - ms start)) hper
  have e : A * (ms t2 - ms t1) = A * (ms t2 - ms start) - A * (ms t1 - ms start) := by
    rw [← Int.mul_sub]; congr 1; omega
  generalize A * (ms t1 - ms start) / L = q1 at *
  generalize A * (ms t2 - ms start) / L = q2 at *
  generalize A * (ms t1 - ms start) = X at *
  generalize A * (ms t2 - ms start) = Y at *
  have f1 : (q1 + 1) * L = q1 * L + L := by rw [Int.add_mul]; omega
  have f2 : (q2 + 1) * L = q2 * L + L := by rw [Int.add_mul]; omega
  have g1 : (q2 - q1 - 1) * L = q2 * L - q1 * L - L := by rw [Int.sub_mul, Int.sub_mul]; omega
  have g2 : (q2 - q1 + 1) * L = q2 * L - q1 * L + L := by rw [Int.add_mul, Int.sub_mul]; omega
  rw [g1, g2, e]
  constructor <;> omega

theorem nonvacuous : inflation { seq := 1, endT := some 31536000000000000, cfg := .lin 1000 } 10000 0 5 = .ok 100000000000000000 := by
  decide

end C4E.Props.C19
