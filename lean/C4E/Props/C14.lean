/-
  C14 — Failed transfers in the distributor lose nothing and are made up later.
-/
import C4E.Distr1
namespace C4E.Props.C14
open C4E C4E.Distr1

/-- (a) the accounting identity of C03 holds after every block for EVERY pattern of failing
    source sweeps (φ) and destination payouts / burns (ψ). -/
theorem books_under_faults (φ : Sub → List Bool) (ψ : List Bool) (w : World) (subs : List Sub)
    (h : WOk w) (hall : allSubOk subs) (hc : closed true subs = true) :
    U (beginBlock φ ψ w subs) = 0 ∧ allNonneg (beginBlock φ ψ w subs).states :=
  Distr1.books_after_block φ ψ w subs h hall hc

/-- (b) a failed payout keeps the whole amount recorded: the payout step never changes
    `main − Σ remains`, and a state whose payout failed is stored unchanged. -/
theorem failed_payout_keeps_state (s : St) (rest : List St) (fails : List Bool) (main : Int)
    (hf : fails.headD false = true) :
    (payout fails main (s :: rest)).2.head? = some s := by
  have hc : (eligible s && !(fails.headD false)) = false := by rw [hf]; simp
  simp only [payout, hc, Bool.false_eq_true, if_false, List.head?]

theorem payout_preserves_books (sts : List St) (fails : List Bool) (main : Int) (h : allNonneg sts) :
    (payout fails main sts).1 - sumRem (payout fails main sts).2 = main - sumRem sts :=
  (payout_spec sts fails main h).1

/-- (c) a failed sweep leaves the source balance untouched and reports no inflow from it. -/
theorem failed_sweep_no_inflow (w : World) (src : Acc) (_hs : src.ty ≠ AT.internal) :
    (prepOne true w src).2.bal = w.bal ∧ (prepOne true w src).2.main = w.main := by
  simp [prepOne]

end C4E.Props.C14
