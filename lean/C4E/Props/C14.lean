/-
  C14 — Failed transfers in the distributor lose nothing and are made up later.
-/
import C4E.Distr1
import C4E.Distributor
import C4E.Lemmas.AListLemmas
import C4E.Lemmas.DistrFaithful
namespace C4E.Props.C14
open C4E C4E.Distr1

/-- (a) the accounting identity of C03 holds after every block for EVERY pattern of failing
    source sweeps (φ) and destination payouts / burns (ψ). -/
theorem books_under_faults (φ : Sub → List Bool) (ψ : List Bool) (w : World) (subs : List Sub)
    (h : WOk w) (hall : allSubOk subs) (hc : closed true subs = true) :
    U (beginBlock φ ψ w subs) = 0 ∧ allNonneg (beginBlock φ ψ w subs).states :=
  Distr1.books_after_block φ ψ w subs h hall hc

/-- (b) a failed payout keeps the whole amount recorded: the payout step never changes
    `main − Σ remains`, and a state whose payout failed is stored unchanged. -/
theorem failed_payout_keeps_state (s : St) (rest : List St) (fails : List Bool) (main : Int)
    (hf : fails.headD false = true) :
    (payout fails main (s :: rest)).2.head? = some s := by
  have hc : (eligible s && !(fails.headD false)) = false := by rw [hf]; simp
  simp only [payout, hc, Bool.false_eq_true, if_false, List.head?]

theorem payout_preserves_books (sts : List St) (fails : List Bool) (main : Int) (h : allNonneg sts) :
    (payout fails main sts).1 - sumRem (payout fails main sts).2 = main - sumRem sts :=
  (payout_spec sts fails main h).1

/-- (c) a failed sweep leaves the source balance untouched and reports no inflow from it. -/
theorem failed_sweep_no_inflow (w : World) (src : Acc) (_hs : src.ty ≠ AT.internal) :
    (prepOne true w src).2.bal = w.bal ∧ (prepOne true w src).2.main = w.main := by
  simp [prepOne]

/-! ### (d) made up later -/

def sumA : List (Int × Bool) → Int
  | [] => 0
  | x :: xs => x.1 + sumA xs

/-- one destination's record over blocks: each block adds `a` to the recorded remainder; unless
    the payout of that block fails (`true`), the integer part is paid and the fraction kept -/
def payLoopF : Int → List (Int × Bool) → Int × Int
  | rem, [] => (0, rem)
  | rem, (a, fail) :: rest =>
    let r := rem + a
    let p := if fail then 0 else (r / P) * P
    ((payLoopF (r - p) rest).1 + p, (payLoopF (r - p) rest).2)

/-- nothing is lost whatever fails: paid + still recorded = everything allocated -/
theorem payLoopF_conserves : ∀ (blocks : List (Int × Bool)) (rem : Int),
    (payLoopF rem blocks).1 + (payLoopF rem blocks).2 = rem + sumA blocks
  | [], rem => by simp [payLoopF, sumA]
  | (a, f) :: rest, rem => by
    have ih := payLoopF_conserves rest (rem + a - (if f then 0 else (rem + a) / P * P))
    simp only [payLoopF, sumA]
    omega

theorem payLoopF_rem_nonneg : ∀ (blocks : List (Int × Bool)) (rem : Int), 0 ≤ rem → (∀ b ∈ blocks, 0 ≤ b.1) →
    0 ≤ (payLoopF rem blocks).2
  | [], rem, h, _ => by simpa [payLoopF] using h
  | (a, f) :: rest, rem, h, ha => by
    have ha0 : 0 ≤ a := ha (a, f) (by simp)
    have h1 := Int.ediv_mul_le (rem + a) (Int.ne_of_gt P_pos)
    simp only [payLoopF]
    apply payLoopF_rem_nonneg rest _ _ (fun b hb => ha b (by simp [hb]))
    cases f <;> simp <;> omega

/-- once a payout succeeds again the destination is made whole EXACTLY: if the last block's payout
    did not fail, the total paid over the whole history equals the integer part of everything
    allocated — which is what a history without any failure pays -/
theorem made_up_exactly (blocks : List (Int × Bool)) (a : Int) (rem : Int) (h : 0 ≤ rem)
    (ha : ∀ b ∈ blocks ++ [(a, false)], 0 ≤ b.1) :
    (payLoopF rem (blocks ++ [(a, false)])).1 = ((rem + sumA (blocks ++ [(a, false)])) / P) * P ∧
    (payLoopF rem (blocks ++ [(a, false)])).1
      = (payLoopF rem ((blocks ++ [(a, false)]).map (fun b => (b.1, false)))).1 := by
  have key : ∀ (bl : List (Int × Bool)) (r : Int), 0 ≤ r → (∀ b ∈ bl ++ [(a, false)], 0 ≤ b.1) →
      (payLoopF r (bl ++ [(a, false)])).2 < P := by
    intro bl
    induction bl with
    | nil =>
      intro r hr _
      simp only [List.nil_append, payLoopF, Bool.false_eq_true, if_false]
      have h2 := Int.lt_ediv_add_one_mul_self (r + a) P_pos
      have : ((r + a) / P + 1) * P = (r + a) / P * P + P := by rw [Int.add_mul]; omega
      omega
    | cons b bl ih =>
      intro r hr hb
      obtain ⟨x, f⟩ := b
      have hx : 0 ≤ x := hb (x, f) (by simp)
      have h1 := Int.ediv_mul_le (r + x) (Int.ne_of_gt P_pos)
      simp only [List.cons_append, payLoopF]
      apply ih _ _ (fun c hc => hb c (by simp at hc ⊢; right; exact hc))
      cases f <;> simp <;> omega
  have paidEq : ∀ (bl : List (Int × Bool)) (r : Int), 0 ≤ r → (∀ b ∈ bl ++ [(a, false)], 0 ≤ b.1) →
      (payLoopF r (bl ++ [(a, false)])).1 = ((r + sumA (bl ++ [(a, false)])) / P) * P := by
    intro bl r hr hb
    have c := payLoopF_conserves (bl ++ [(a, false)]) r
    have lt := key bl r hr hb
    have nn := payLoopF_rem_nonneg (bl ++ [(a, false)]) r hr hb
    -- paid is a multiple of P
    have hmul : ∀ (l : List (Int × Bool)) (q : Int), ∃ k, (payLoopF q l).1 = k * P := by
      intro l
      induction l with
      | nil => intro q; exact ⟨0, by simp [payLoopF]⟩
      | cons b l ihl =>
        intro q
        obtain ⟨x, f⟩ := b
        obtain ⟨k, hk⟩ := ihl (q + x - (if f then 0 else (q + x) / P * P))
        simp only [payLoopF]
        cases f
        · exact ⟨k + (q + x) / P, by simp only [Bool.false_eq_true, if_false] at hk ⊢; rw [hk, Int.add_mul]⟩
        · exact ⟨k, by simp only [if_true] at hk ⊢; rw [hk]; omega⟩
    obtain ⟨k, hk⟩ := hmul (bl ++ [(a, false)]) r
    generalize (payLoopF r (bl ++ [(a, false)])).1 = paid at *
    generalize (payLoopF r (bl ++ [(a, false)])).2 = rm at *
    generalize r + sumA (bl ++ [(a, false)]) = T at *
    subst hk
    have hT : T = rm + k * P := by omega
    have : T / P = k := by
      rw [hT, Int.add_mul_ediv_right _ _ (Int.ne_of_gt P_pos), Int.ediv_eq_zero_of_lt nn lt]; omega
    rw [this]
  refine ⟨paidEq blocks rem h ha, ?_⟩
  rw [paidEq blocks rem h ha]
  have hmap : (blocks ++ [(a, false)]).map (fun b => (b.1, false)) = blocks.map (fun b => (b.1, false)) ++ [(a, false)] := by
    simp
  rw [hmap, paidEq (blocks.map (fun b => (b.1, false))) rem h (by
    intro b hb
    rcases List.mem_append.mp hb with hb | hb
    · obtain ⟨c, hc, rfl⟩ := List.mem_map.mp hb
      exact ha c (by simp [hc])
    · exact ha b (by simp at hb ⊢; right; exact hb))]
  have hs : ∀ l : List (Int × Bool), sumA (l.map (fun b => (b.1, false))) = sumA l := by
    intro l; induction l with
    | nil => rfl
    | cons b l ih => simp only [List.map_cons, sumA, ih]
  have hs2 : ∀ l : List (Int × Bool), sumA (l ++ [(a, false)]) = sumA l + a := by
    intro l; induction l with
    | nil => simp [sumA]
    | cons b l ih => simp only [List.cons_append, sumA, ih]; omega
  rw [hs2, hs2, hs]

/-- a delayed sweep: an inflow that arrives in one piece `x + y` (the earlier sweep failed) is
    allocated to a share within 10^-18 of what the two separate inflows would have been allocated -/
theorem delayed_sweep_bound (x y s : Int) (hx : 0 ≤ x) (hy : 0 ≤ y) (_hs : 0 ≤ s) :
    mulTrunc x s + mulTrunc y s ≤ mulTrunc (x + y) s ∧ mulTrunc (x + y) s ≤ mulTrunc x s + mulTrunc y s + 1 := by
  unfold mulTrunc
  have hp : (0:Int) < P := P_pos
  have e : (x + y) * s = x * s + y * s := Int.add_mul _ _ _
  have a1 := Int.ediv_mul_le (x * s) (Int.ne_of_gt hp)
  have a2 := Int.lt_ediv_add_one_mul_self (x * s) hp
  have b1 := Int.ediv_mul_le (y * s) (Int.ne_of_gt hp)
  have b2 := Int.lt_ediv_add_one_mul_self (y * s) hp
  have c1 := Int.ediv_mul_le ((x + y) * s) (Int.ne_of_gt hp)
  have c2 := Int.lt_ediv_add_one_mul_self ((x + y) * s) hp
  rw [e] at c1 c2 ⊢
  generalize x * s = X at *
  generalize y * s = Y at *
  generalize X / P = qx at *
  generalize Y / P = qy at *
  generalize (X + Y) / P = q at *
  have ex : (qx + 1) * P = qx * P + P := by rw [Int.add_mul]; omega
  have ey : (qy + 1) * P = qy * P + P := by rw [Int.add_mul]; omega
  have eq : (q + 1) * P = q * P + P := by rw [Int.add_mul]; omega
  constructor
  · -- (qx + qy) * P ≤ X + Y < (q+1) * P  ⇒ qx + qy < q + 1
    have h : (qx + qy) * P < (q + 1) * P := by rw [Int.add_mul]; omega
    have := Int.lt_of_mul_lt_mul_right h (Int.le_of_lt hp)
    omega
  · have h : q * P < (qx + qy + 2) * P := by
      have : (qx + qy + 2) * P = qx * P + qy * P + 2 * P := by rw [Int.add_mul, Int.add_mul]
      omega
    have := Int.lt_of_mul_lt_mul_right h (Int.le_of_lt hp)
    omega

/-! ### the payout step of the code-tied multi-denomination model -/

section FaithfulPayout
open C4E.Distr C4E.CoinList

/-- `TruncateDecimal` splits every amount exactly: integer part × 10^18 + fraction = amount -/
theorem truncateDecimal_split (l : DecCoins) (d : String) :
    amountOf (truncateDecimal l).1 d * P + amountOf (truncateDecimal l).2 d = amountOf l d := by
  unfold truncateDecimal
  have gen : ∀ (l : DecCoins) (acc : Coins × DecCoins),
      amountOf (l.foldl (fun (acc : Coins × DecCoins) kv =>
        (if Dec.truncInt kv.2 != 0 then CoinList.add acc.1 [(kv.1, Dec.truncInt kv.2)] else acc.1,
         if kv.2 - Dec.ofInt (Dec.truncInt kv.2) != 0 then CoinList.add acc.2 [(kv.1, kv.2 - Dec.ofInt (Dec.truncInt kv.2))] else acc.2)) acc).1 d * P
      + amountOf (l.foldl (fun (acc : Coins × DecCoins) kv =>
        (if Dec.truncInt kv.2 != 0 then CoinList.add acc.1 [(kv.1, Dec.truncInt kv.2)] else acc.1,
         if kv.2 - Dec.ofInt (Dec.truncInt kv.2) != 0 then CoinList.add acc.2 [(kv.1, kv.2 - Dec.ofInt (Dec.truncInt kv.2))] else acc.2)) acc).2 d
      = amountOf acc.1 d * P + amountOf acc.2 d + amountOf l d := by
    intro l
    induction l with
    | nil => intro acc; simp [amountOf]
    | cons kv rest ih =>
      intro acc
      obtain ⟨k, v⟩ := kv
      rw [List.foldl_cons, ih]
      simp only [amountOf]
      have e1 : amountOf (if Dec.truncInt v != 0 then CoinList.add acc.1 [(k, Dec.truncInt v)] else acc.1) d
          = amountOf acc.1 d + (if k = d then Dec.truncInt v else 0) := by
        by_cases hz : Dec.truncInt v = 0
        · simp [hz]
        · have : (Dec.truncInt v != 0) = true := by simpa using hz
          simp only [this, if_true, amountOf_add, amountOf]; omega
      have e2 : amountOf (if v - Dec.ofInt (Dec.truncInt v) != 0 then CoinList.add acc.2 [(k, v - Dec.ofInt (Dec.truncInt v))] else acc.2) d
          = amountOf acc.2 d + (if k = d then v - Dec.ofInt (Dec.truncInt v) else 0) := by
        by_cases hz : v - Dec.ofInt (Dec.truncInt v) = 0
        · simp [hz]
        · have : (v - Dec.ofInt (Dec.truncInt v) != 0) = true := by simpa using hz
          simp only [this, if_true, amountOf_add, amountOf]; omega
      rw [e1, e2]
      by_cases hk : k = d
      · simp only [hk, if_true]
        unfold Dec.ofInt
        rw [Int.add_mul]; omega
      · simp only [hk, if_false, Int.add_zero]; omega
  have := gen l ([], [])
  simp only [amountOf, Int.zero_mul, Int.zero_add] at this
  simp only []
  exact this

theorem bank_send_src (b b' : Bank) (src dst : String) (c : Coins) (d : String) (hne : src ≠ dst)
    (h : b.send src dst c = some b') : amountOf (b'.balance src) d = amountOf (b.balance src) d - amountOf c d := by
  unfold Bank.send at h
  simp only [] at h
  split at h
  · cases h
  · cases h
    unfold Bank.balance
    simp only []
    rw [AList.get?_set_other _ _ _ _ hne, AList.get?_set_self]
    simp only [Option.getD_some]
    rw [amountOf_add, amountOf_neg]; omega

theorem bank_burn_src (b b' : Bank) (src : String) (c : Coins) (d : String)
    (h : b.burn src c = some b') : amountOf (b'.balance src) d = amountOf (b.balance src) d - amountOf c d := by
  unfold Bank.burn at h
  simp only [] at h
  split at h
  · cases h
  · cases h
    unfold Bank.balance
    simp only []
    rw [AList.get?_set_self]
    simp only [Option.getD_some]
    rw [amountOf_add, amountOf_neg]; omega

/-- where a state's payout goes -/
def destAddr (e : Env) (a : Account) : Option String := if a.type = tModule then e.modAddr? a.id else some (canonAddr a.id)

/-- **one payout of the code-tied model, whatever happens to it** (paid, injected fault, bank
    error, blocked or malformed destination): `main balance × 10^18 − recorded remains of that
    state` is unchanged in every denomination — a failed payout keeps the whole amount recorded, a
    successful one takes from the main account exactly the integer part that leaves the record.
    Hypothesis: a destination that is paid by a bank transfer (not an INTERNAL account) is not the
    main account itself (rejected by validation, D21). -/
theorem payoutOne_keeps_books (e : Env) (w w' : Distr.World) (s s' : DState) (d : String)
    (h : payoutOne e w s = .ok (s', w'))
    (hne : ∀ a, s.account = some a → s.burn = false → a.type ≠ tInternal → destAddr e a ≠ some e.mainAddr) :
    amountOf (w'.bank.balance e.mainAddr) d * P - amountOf s'.remains d
      = amountOf (w.bank.balance e.mainAddr) d * P - amountOf s.remains d := by
  have hsplit := truncateDecimal_split s.remains d
  unfold payoutOne at h
  split at h
  · cases h
  · rename_i a ha
    split at h
    · rename_i hcond
      have hni : a.type ≠ tInternal := by
        simp only [Bool.and_eq_true, decide_eq_true_eq] at hcond
        exact hcond.1
      simp only [] at h
      split at h
      · -- burn
        split at h
        · cases h; rfl
        · split at h
          · cases h
          · split at h
            · cases h; rfl
            · rename_i b hb
              cases h
              have := bank_burn_src _ b _ _ d hb
              show amountOf (b.balance e.mainAddr) d * P - amountOf (truncateDecimal s.remains).2 d = _
              rw [this, Int.sub_mul]; omega
      · rename_i hnb
        have hnb' : s.burn = false := by simpa using hnb
        have hd := hne a ha hnb' hni
        split at h
        · rename_i hmod
          split at h
          · cases h; rfl
          · split at h
            · cases h
            · rename_i addr haddr
              split at h
              · cases h; rfl
              · rename_i b hb
                cases h
                have hne2 : e.mainAddr ≠ addr := by
                  intro hh; apply hd; unfold destAddr; simp [hmod, haddr, hh]
                have := bank_send_src _ b _ _ _ d hne2 hb
                show amountOf (b.balance e.mainAddr) d * P - amountOf (truncateDecimal s.remains).2 d = _
                rw [this, Int.sub_mul]; omega
        · rename_i hmod
          split at h
          · cases h; rfl
          · split at h
            · cases h; rfl
            · split at h
              · cases h; rfl
              · split at h
                · cases h; rfl
                · rename_i b hb
                  cases h
                  have hne2 : e.mainAddr ≠ canonAddr a.id := by
                    intro hh; apply hd; unfold destAddr; simp [hmod, hh]
                  have := bank_send_src _ b _ _ _ d hne2 hb
                  show amountOf (b.balance e.mainAddr) d * P - amountOf (truncateDecimal s.remains).2 d = _
                  rw [this, Int.sub_mul]; omega
    · cases h; rfl

theorem remSumF_append (d : String) (a b : List DState) : remSumF d (a ++ b) = remSumF d a + remSumF d b := by
  induction a with
  | nil => simp [remSumF]
  | cons x xs ih => simp only [List.cons_append, remSumF, ih]; omega

/-- **the whole payout loop of the code-tied model** (`SendCoinsFromStates`), any pattern of failing
    payouts and burns: `main × 10^18 − Σ remains` is the same before and after, in every
    denomination — nothing is lost and nothing is double counted by the payouts -/
theorem payoutLoop_keeps_books (e : Env) (d : String) : ∀ (l : List DState) (w w' : Distr.World) (st st' : List DState),
    payoutLoop e l w st = .ok (w', st') →
    (∀ s ∈ l, ∀ a, s.account = some a → s.burn = false → a.type ≠ tInternal → destAddr e a ≠ some e.mainAddr) →
    amountOf (w'.bank.balance e.mainAddr) d * P - remSumF d st'
      = amountOf (w.bank.balance e.mainAddr) d * P - remSumF d st - remSumF d l
  | [], w, w', st, st', h, _ => by
    simp only [payoutLoop, Outcome.ok.injEq, Prod.mk.injEq] at h
    rw [← h.1, ← h.2]; simp [remSumF]
  | s :: rest, w, w', st, st', h, hne => by
    unfold payoutLoop at h
    split at h
    · rename_i s1 w1 hp
      have h1 := payoutOne_keeps_books e w w1 s s1 d hp (hne s (by simp))
      have h2 := payoutLoop_keeps_books e d rest w1 w' _ st' h (fun x hx => hne x (by simp [hx]))
      rw [h2, remSumF_append]
      simp only [remSumF]
      omega
    · cases h
    · cases h

end FaithfulPayout

end C4E.Props.C14
