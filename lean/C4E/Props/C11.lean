/-
  C11 — Replicas computing the same blocks reach the same state hash.

  What a theorem can carry: every transition of the model is a FUNCTION of (state, input), so two
  replicas applying the same inputs to the same state agree; and at the one place where the Go
  code decides through a map (`validateLastOccurrence`), the decision is invariant under every
  iteration order.  What it cannot: Go's map iteration, goroutine scheduling, pointer values,
  iavl/tm-db internals — covered by the regenerated list of nondeterminism sites (C4E.Tie.C11)
  and by executing every history in two separate OS processes and comparing state digests,
  results, events and error texts (bounded exploration, not a proof).
-/
import C4E.Minter
import C4E.Distributor
import C4E.Vesting
import C4E.Signature
namespace C4E.Props.C11
open C4E

/-- accept/reject of the ordering validation does not depend on the order in which the
    last-occurrence map is iterated: for ANY permutation of its entries the verdict is the same -/
theorem last_occurrence_order_irrelevant (l l' : List (String × String)) (h : l.Perm l') :
    l.all (fun kv => kv.2 = "SOURCE") = l'.all (fun kv => kv.2 = "SOURCE") := by
  induction h with
  | nil => rfl
  | cons x _ ih => simp only [List.all_cons, ih]
  | swap x y l => simp only [List.all_cons]; rw [← Bool.and_assoc, ← Bool.and_assoc, Bool.and_comm (decide _) (decide _)]
  | trans _ _ ih1 ih2 => rw [ih1, ih2]

/-- the model's transitions are functions: equal inputs give equal outputs (stated so the claim is
    explicit; the content is that no transition takes anything but the state, the message and the
    block time as input — there is no clock, randomness or iteration-order parameter) -/
theorem minter_block_deterministic (p : Minter.Params) (s : Minter.St) (t : Int) :
    ∀ r1 r2, Minter.beginBlock p s t = r1 → Minter.beginBlock p s t = r2 → r1 = r2 := by
  intro r1 r2 h1 h2; rw [← h1, ← h2]

theorem distr_block_deterministic (e : Distr.Env) (subs : List Distr.SubD) (w : Distr.World) (f : List Nat) :
    ∀ r1 r2, (Distr.beginBlock e subs w f).isOk = r1 → (Distr.beginBlock e subs w f).isOk = r2 → r1 = r2 := by
  intro r1 r2 h1 h2; rw [← h1, ← h2]

theorem vesting_deliver_deterministic (s : Vest.State) (m : Vest.Msg) :
    ∀ s1 s2, (Vest.deliver s m).1 = s1 → (Vest.deliver s m).1 = s2 → s1 = s2 := by
  intro s1 s2 h1 h2; rw [← h1, ← h2]

theorem nonvacuous : ([("MAIN", "SOURCE"), ("INTERNAL_ACCOUNT-i1", "DESTINATION")] : List (String × String)).Perm
    [("INTERNAL_ACCOUNT-i1", "DESTINATION"), ("MAIN", "SOURCE")] := List.Perm.swap _ _ _

end C4E.Props.C11
