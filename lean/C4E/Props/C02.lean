/-
  C02 — Emission follows the configured schedule, independent of block cadence.

  `Minter.mint` / `mintAux` is the model tied to the Go keeper by the correspondence check.
  `Minter.total` is the integer part of the cumulative schedule (remainders carried across period
  boundaries).  Main results, for every parameter set of the shape validation enforces
  (`Valid`: consecutive ids, well-formed denom, every period well-formed from where it starts;
  linear periods span at least one millisecond), every genesis-like state and EVERY strictly
  increasing list of block times:
    * path_independent  — the blocks mint in total exactly `total` at the last block time, so any
                          two ways of cutting time into blocks that end at the same instant mint
                          the same;
    * block_nonneg      — no block mints a negative amount;
    * no_halt           — Mint never fails or panics (used by C10);
    * linear_exact      — a linear period's cumulative amount at its end is exactly its amount.
-/
import C4E.Lemmas.MinterRefine
import C4E.Lemmas.MinterValidate
namespace C4E.Props.C02
open C4E C4E.Minter

/-- remainder carry across a period boundary loses nothing and emits nothing twice -/
theorem carry_exact (x y r : Int) (hx : 0 ≤ x) (hy : 0 ≤ y) (hr : 0 ≤ r) :
    Dec.truncInt (x + r) + Dec.truncInt (y + Dec.frac (x + r)) = Dec.truncInt (x + y + r) :=
  Dec.carry x y r hx hy hr

/-- the chain of periods as validation leaves it: each period well-formed from its start, only
    the last one open-ended -/
def ChainOk : Int → List M → Prop
  | _, [] => False
  | start, m :: rest => CfgOk m start ∧ match m.endT with
    | none => rest = []
    | some e => ChainOk e rest

theorem wf_of_chainOk : ∀ (ms : List M) (start : Int), ChainOk start ms → WF start ms := by
  intro ms
  induction ms with
  | nil => intro _ h; exact h
  | cons m rest ih =>
    intro start h
    obtain ⟨h1, h2⟩ := h
    refine ⟨good_of_cfgOk m start h1, ?_⟩
    cases he : m.endT with
    | none => rw [he] at h2; exact h2
    | some e => rw [he] at h2; exact ih e h2

/-- the shape of accepted parameters -/
structure Valid (p : Params) : Prop where
  consec : Consec p.minters
  denom : validDenom p.denom = true
  chain : ChainOk p.start p.minters

theorem chainOk_of_chainV : ∀ (l : List M) (start : Int), l ≠ [] → ChainV start l → Sane start l → ChainOk start l := by
  intro l
  induction l with
  | nil => intro _ h; exact absurd rfl h
  | cons m rest ih =>
    intro start hne hc hs
    have := chainV_to_cfgOk (m :: rest) start hne hc hs
    simp only [] at this
    obtain ⟨h1, h2⟩ := this
    refine ⟨h1, ?_⟩
    cases he : m.endT with
    | none => rw [he] at h2; exact h2
    | some e => rw [he] at h2; exact ih e h2.1 h2.2.1 h2.2.2

/-- **every parameter set accepted by `Params.Validate`** whose linear periods span at least one
    millisecond has the shape the theorems below assume -/
theorem valid_of_validate (raw : RawParams) (p : Params) (h : validate raw = some p)
    (hs : Sane p.start p.minters) : Valid p := by
  obtain ⟨_, hd, hne, hc, hv⟩ := validate_spec raw p h
  exact ⟨hc, hd, chainOk_of_chainV p.minters p.start hne hv hs⟩

/-- run a list of blocks; none if any block's Mint fails -/
def runBlocks (p : Params) : St → List Int → Option (List Int × St)
  | st, [] => some ([], st)
  | st, t :: ts =>
    match mint p st t with
    | .ok r =>
      match runBlocks p r.st ts with
      | some (as, s) => some (r.amount :: as, s)
      | none => none
    | _ => none

theorem run_spec (p : Params) (hv : Valid p) :
    ∀ (ts : List Int) (st : St) (s : MSt) (tl acc : Int),
      Rel p st s → WF s.start s.ms → 0 ≤ s.rem → s.rem < P → s.start ≤ tl →
      (∀ m rest, s.ms = m :: rest → s.minted = Dec.truncInt (amountToMint m s.start tl + s.rem) ∧
          (∀ e, m.endT = some e → tl < e ∨ tl = s.start)) →
      st.last ≤ tl → p.start ≤ tl →
      (∀ t', tl ≤ t' → total s.start s.ms s.rem t' - s.minted = total p.start p.minters 0 t' - acc) →
      ts.Pairwise (· < ·) → (∀ t ∈ ts, tl < t) →
      ∃ as st', runBlocks p st ts = some (as, st') ∧ (∀ a ∈ as, 0 ≤ a) ∧
        (∀ T, ts.getLast? = some T → acc + sumInts as = total p.start p.minters 0 T) := by
  intro ts
  induction ts with
  | nil =>
    intro st s tl acc _ _ _ _ _ _ _ _ _ _ _
    exact ⟨[], st, rfl, (by intro a ha; cases ha), (by intro T hT; cases hT)⟩
  | cons t ts ih =>
    intro st s tl acc hrel hwf hr0 hr1 hstl hpre hlast hps hpot hpw hgt
    have htl : tl < t := hgt t (by simp)
    obtain ⟨cur, rest, hms⟩ : ∃ cur rest, s.ms = cur :: rest := by
      cases hs : s.ms with
      | nil => rw [hs] at hwf; exact absurd hwf (by simp [WF])
      | cons c r => exact ⟨c, r, rfl⟩
    have hrel' : Rel p st ⟨s.start, cur :: rest, st.minted, st.remPrev⟩ := by
      obtain ⟨⟨pre, h1, h2, h3⟩, h4, h5, h6⟩ := hrel
      exact ⟨⟨pre, by rw [h1, hms], h2, h3⟩, by intro m r hm; exact h4 m r (by rw [hms]; exact hm), rfl, rfl⟩
    have hfuel : rest.length < p.minters.length + 1 := by
      obtain ⟨⟨pre, h1, _, _⟩, _, _, _⟩ := hrel
      rw [h1, hms]; simp; omega
    obtain ⟨res, hres, hamt, hrel2, hlastres⟩ := mintAux_refines p hv.consec hv.denom t rest cur (p.minters.length + 1) st s.start hrel'
      (hms ▸ hwf) (by omega) hfuel
    rw [hrel.minted, hrel.rem] at hamt hrel2
    have hspec := mintGo_spec (cur :: rest) s.start s.minted s.rem tl t (hms ▸ hwf) hr0 hr1 hstl (by omega)
      (by intro m r hm; exact hpre m r (by rw [hms]; exact hm))
    simp only [] at hspec
    obtain ⟨sp1, sp2, sp3, sp4wf, sp4r0, sp4r1, sp4st, sp4pre⟩ := hspec
    generalize hR : mintGo s.start (cur :: rest) s.minted s.rem t = R at *
    have hmint : mint p st t = .ok res := by
      unfold mint
      rw [if_neg (by omega), if_neg (by omega)]
      exact hres
    have hlast2 : res.st.last ≤ t := by
      rcases hlastres with h | h <;> omega
    obtain ⟨as, st', hrun, hnn, hsum⟩ := ih res.st R.2 t (acc + R.1) hrel2 sp4wf sp4r0 sp4r1 sp4st sp4pre hlast2 (by omega)
      (by
        intro t' ht'
        have h1 := sp3 t' ht'
        have h2 := hpot t' (by omega)
        rw [← hms] at h1
        omega)
      (List.Pairwise.of_cons hpw)
      (by intro x hx; exact (List.pairwise_cons.mp hpw).1 x hx)
    refine ⟨res.amount :: as, st', ?_, ?_, ?_⟩
    · simp only [runBlocks, hmint, hrun]
    · intro a ha
      rcases List.mem_cons.mp ha with rfl | ha
      · rw [hamt]; exact sp1
      · exact hnn a ha
    · intro T hT
      rw [sumInts_cons, hamt]
      cases ts with
      | nil =>
        simp at hT; subst hT
        have hrunNil : as = [] := by simp [runBlocks] at hrun; exact hrun.1
        subst hrunNil
        have h2 := hpot t (by omega)
        rw [← hms] at sp2
        simp; omega
      | cons t2 ts2 =>
        have := hsum T (by rw [List.getLast?_cons_cons] at hT; exact hT)
        omega

/-- genesis-like minter state: at the first period, nothing minted, no remainder -/
structure GenesisLike (p : Params) (st : St) : Prop where
  seq : ∀ m rest, p.minters = m :: rest → st.seq = m.seq
  minted : st.minted = 0
  rem : st.remPrev = 0
  last : st.last ≤ p.start

/-- **C02 path_independent / block_nonneg / no_halt** -/
theorem path_independent (p : Params) (hv : Valid p) (st : St) (hg : GenesisLike p st)
    (ts : List Int) (hinc : ts.Pairwise (· < ·)) (hafter : ∀ t ∈ ts, p.start < t) :
    ∃ as st', runBlocks p st ts = some (as, st') ∧ (∀ a ∈ as, 0 ≤ a) ∧
      (∀ T, ts.getLast? = some T → sumInts as = total p.start p.minters 0 T) := by
  have hwf := wf_of_chainOk p.minters p.start hv.chain
  have hrel : Rel p st ⟨p.start, p.minters, 0, 0⟩ :=
    ⟨⟨[], rfl, rfl, by intro l hl; cases hl⟩, hg.seq, hg.minted, hg.rem⟩
  obtain ⟨as, st', h1, h2, h3⟩ := run_spec p hv ts st ⟨p.start, p.minters, 0, 0⟩ p.start 0 hrel hwf (Int.le_refl 0) P_pos (Int.le_refl _)
    (by
      intro m rest hm
      simp only [] at hm
      have hG : Good m p.start := by rw [hm] at hwf; exact hwf.1
      refine ⟨?_, ?_⟩
      · show (0:Int) = Dec.truncInt (amountToMint m p.start p.start + 0)
        rw [hG.zero]; rfl
      · intro _ _; right; rfl)
    hg.last (Int.le_refl _) (by intro t' _; simp) hinc hafter
  exact ⟨as, st', h1, h2, by intro T hT; have := h3 T hT; omega⟩

/-- two different ways of cutting time into blocks that end at the same instant mint the same total -/
theorem cadence_irrelevant (p : Params) (hv : Valid p) (st : St) (hg : GenesisLike p st)
    (ts ts' : List Int) (h1 : ts.Pairwise (· < ·)) (h2 : ts'.Pairwise (· < ·))
    (a1 : ∀ t ∈ ts, p.start < t) (a2 : ∀ t ∈ ts', p.start < t) (T : Int)
    (e1 : ts.getLast? = some T) (e2 : ts'.getLast? = some T) :
    ∃ as as' s s', runBlocks p st ts = some (as, s) ∧ runBlocks p st ts' = some (as', s') ∧ sumInts as = sumInts as' := by
  obtain ⟨as, s, r1, _, t1⟩ := path_independent p hv st hg ts h1 a1
  obtain ⟨as', s', r2, _, t2⟩ := path_independent p hv st hg ts' h2 a2
  exact ⟨as, as', s, s', r1, r2, by rw [t1 T e1, t2 T e2]⟩

/-- a finished linear period has emitted exactly its configured amount (before the carried remainder) -/
theorem linear_exact (m : M) (a start e : Int) (hc : m.cfg = .lin a) (he : m.endT = some e)
    (h : CfgOk m start) : amountToMint m start e = Dec.ofInt a := by
  obtain ⟨hend, hcfg⟩ := h
  rw [hc] at hcfg
  obtain ⟨_, e', he', hms⟩ := hcfg
  rw [he] at he'; cases he'
  have hse := hend e he
  simp only [amountToMint, hc, he, linAmount, Dec.quoInt, Dec.mulInt]
  rw [if_neg (by omega), if_neg (by omega)]
  exact Int.mul_tdiv_cancel _ (by omega)

/-- non-vacuity: a three-period configuration (no minting, linear, open-ended exponential) is `Valid` -/
def exParams : Params :=
  { denom := "uc4e", start := 0,
    minters := [ { seq := 1, endT := some 10000000000, cfg := .noMint },
                 { seq := 2, endT := some 50000000000, cfg := .lin 1000000 },
                 { seq := 3, endT := none, cfg := .exp 40000000 31536000000000000 500000000000000000 } ] }

theorem exParams_valid : Valid exParams := by
  refine ⟨⟨rfl, rfl, trivial⟩, by decide, ?_⟩
  unfold exParams ChainOk
  refine ⟨⟨(by intro e he; cases he; decide), trivial⟩, ?_⟩
  simp only []
  unfold ChainOk
  refine ⟨⟨(by intro e he; cases he; decide), ?_⟩, ?_⟩
  · exact ⟨(by decide), 50000000000, rfl, (by decide)⟩
  · simp only []
    unfold ChainOk
    exact ⟨⟨(by intro e he; cases he), (by decide), (by decide), (by decide)⟩, rfl⟩

end C4E.Props.C02
