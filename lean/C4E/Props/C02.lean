/-
  C02 — Emission follows the configured schedule, independent of block cadence.
-/
import C4E.Minter
namespace C4E.Props.C02
open C4E C4E.Minter

/-- remainder carry across a period boundary loses nothing and emits nothing twice -/
theorem carry_exact (x y r : Int) (hx : 0 ≤ x) (hy : 0 ≤ y) (hr : 0 ≤ r) :
    Dec.truncInt (x + r) + Dec.truncInt (y + Dec.frac (x + r)) = Dec.truncInt (x + y + r) :=
  Dec.carry x y r hx hy hr

end C4E.Props.C02
