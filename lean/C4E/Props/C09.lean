/-
  C09 — Custom messages can never replace or alter an existing account.

  Proved so far on the model (C4E.Vesting): the two primitives through which the vesting handlers
  write account records — `newCva` (newContinuousVestingAccount) and the account creation inside
  `State.send` — never change the record of any OTHER address, and every handler that calls
  `newCva` first rejects a recipient whose record exists.  The full statement over `deliver`
  (`existing_untouched_full`) stays visible; the monitor `existing-account-changed` evaluates it on
  the real auth keeper after every message.
-/
import C4E.Vesting
import C4E.Lemmas.AListLemmas
namespace C4E.Props.C09
open C4E C4E.Vest

/-- creating a vesting account at `to` leaves every other address's record as it was -/
theorem newCva_other (s : State) (to a : String) (ov : Coins) (ss es : Int) (h : a ≠ to) :
    (newCva s to ov ss es).accts.get? a = s.accts.get? a := by
  unfold newCva; simp only []; exact AList.get?_set_other _ _ _ _ h

/-- a bank send never alters an existing account record (it only creates a base account for an
    absent recipient) -/
theorem applySend_keeps_existing (s : State) (src dst : String) (c : Coins) (a : String) (r : Acct)
    (ha : s.accts.get? a = some r) : (s.applySend src dst c).accts.get? a = some r := by
  unfold State.applySend
  simp only []
  by_cases hd : (s.accts.get? dst).isSome
  · simp only [hd, if_true]; exact ha
  · simp only [hd]
    by_cases he : a = dst
    · subst he; rw [ha] at hd; simp at hd
    · simp only [Bool.false_eq_true, if_false]
      rw [AList.get?_set_other _ _ _ _ he]; exact ha

theorem send_keeps_existing (s s' : State) (src dst : String) (c : Coins) (a : String) (r : Acct)
    (hs : s.send src dst c = .ok s') (ha : s.accts.get? a = some r) : s'.accts.get? a = some r := by
  unfold State.send at hs
  split at hs
  · cases hs
  · split at hs
    · cases hs
    · split at hs
      · cases hs
      · split at hs
        · cases hs
        · cases hs
          exact applySend_keeps_existing s src dst c a r ha

/-- direct creation rejects an existing recipient before anything is written -/
theorem createVA_rejects_existing (s : State) (src to : Addr) (amount : List (String × Option Int)) (ss es : Int)
    (r : Acct) (h : s.accts.get? to.s = some r) : ∀ res, createVA s src to amount ss es ≠ .ok res := by
  intro res
  unfold createVA
  split
  · simp
  · split
    · simp
    · simp [h]

/-- a pool send rejects an existing recipient before anything is written -/
theorem newVestingAccount_rejects_existing (s : State) (to : String) (amount free le ve : Int)
    (r : Acct) (h : s.accts.get? to = some r) : ∀ s', newVestingAccount s to amount free le ve ≠ .ok s' := by
  intro s'
  unfold newVestingAccount
  split
  · simp
  · split
    · simp
    · simp [h]

/-- split / move reject an existing recipient before anything is written -/
theorem splitCoins_rejects_existing (s : State) (src to : String) (amount : Coins)
    (r : Acct) (h : s.accts.get? to = some r) : ∀ res, splitCoins s src to amount ≠ .ok res := by
  intro res
  unfold splitCoins
  split
  · simp
  · split
    · simp
    · simp [h]

/-- full statement (target): every pre-existing record survives any delivered message, except the
    sender's original vesting in a split or move -/
def existing_untouched_full : Prop :=
  ∀ (s : State) (m : Msg) (a : String) (r : Acct), s.accts.get? a = some r →
    (deliver s m).1.accts.get? a = some r ∨
    ((match m with | .split f _ _ => f.s = a | .move f _ => f.s = a | .moveDenoms f _ _ => f.s = a | _ => False) ∧
      ∃ ov', (deliver s m).1.accts.get? a = some { r with ov := ov' })

theorem nonvacuous : (newCva {} "x" [("uc4e", 5)] 1 2).accts.get? "x" = some { kind := .cva, num := 0, ov := [("uc4e", 5)], startS := 1, endS := 2 } := by
  decide

end C4E.Props.C09
