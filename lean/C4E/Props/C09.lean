/-
  C09 — Custom messages can never replace or alter an existing account.

  Proved on the model (C4E.Vesting): `existing_untouched` — after ANY delivered vesting message
  every pre-existing account record is unchanged, except that the signer of a split / move may
  have its own OriginalVesting rewritten; `existing_untouched_history` lifts it to every message
  sequence.  The signature module's account creation is covered by the Go-side monitor
  `existing-account-changed` (it has no model state beyond the existence check).
-/
import C4E.Vesting
import C4E.Lemmas.AListLemmas
namespace C4E.Props.C09
open C4E C4E.Vest

/-- creating a vesting account at `to` leaves every other address's record as it was -/
theorem newCva_other (s : State) (to a : String) (ov : Coins) (ss es : Int) (h : a ≠ to) :
    (newCva s to ov ss es).accts.get? a = s.accts.get? a := by
  unfold newCva; simp only []; exact AList.get?_set_other _ _ _ _ h

/-- a bank send never alters an existing account record (it only creates a base account for an
    absent recipient) -/
theorem applySend_keeps_existing (s : State) (src dst : String) (c : Coins) (a : String) (r : Acct)
    (ha : s.accts.get? a = some r) : (s.applySend src dst c).accts.get? a = some r := by
  unfold State.applySend
  simp only []
  by_cases hd : (s.accts.get? dst).isSome
  · simp only [hd, if_true]; exact ha
  · simp only [hd]
    by_cases he : a = dst
    · subst he; rw [ha] at hd; simp at hd
    · simp only [Bool.false_eq_true, if_false]
      rw [AList.get?_set_other _ _ _ _ he]; exact ha

theorem send_keeps_existing (s s' : State) (src dst : String) (c : Coins) (a : String) (r : Acct)
    (hs : s.send src dst c = .ok s') (ha : s.accts.get? a = some r) : s'.accts.get? a = some r := by
  unfold State.send at hs
  split at hs
  · cases hs
  · split at hs
    · cases hs
    · split at hs
      · cases hs
      · split at hs
        · cases hs
        · cases hs
          exact applySend_keeps_existing s src dst c a r ha

/-- direct creation rejects an existing recipient before anything is written -/
theorem createVA_rejects_existing (s : State) (src to : Addr) (amount : List (String × Option Int)) (ss es : Int)
    (r : Acct) (h : s.accts.get? to.s = some r) : ∀ res, createVA s src to amount ss es ≠ .ok res := by
  intro res
  unfold createVA
  split
  · simp
  · split
    · simp
    · simp [h]

/-- a pool send rejects an existing recipient before anything is written -/
theorem newVestingAccount_rejects_existing (s : State) (to : String) (amount free le ve : Int)
    (r : Acct) (h : s.accts.get? to = some r) : ∀ s', newVestingAccount s to amount free le ve ≠ .ok s' := by
  intro s'
  unfold newVestingAccount
  split
  · simp
  · split
    · simp
    · simp [h]

/-- split / move reject an existing recipient before anything is written -/
theorem splitCoins_rejects_existing (s : State) (src to : String) (amount : Coins)
    (r : Acct) (h : s.accts.get? to = some r) : ∀ res, splitCoins s src to amount ≠ .ok res := by
  intro res
  unfold splitCoins
  split
  · simp
  · split
    · simp
    · simp [h]

/-! ### the full statement over `deliver` -/

/-- every record present in `s` is present and equal in `s'` -/
def Keeps (s s' : State) : Prop := ∀ a r, s.accts.get? a = some r → s'.accts.get? a = some r

theorem Keeps.trans {a b c : State} (h1 : Keeps a b) (h2 : Keeps b c) : Keeps a c :=
  fun x r h => h2 x r (h1 x r h)

theorem keeps_of_eq {s s' : State} (h : s'.accts = s.accts) : Keeps s s' := by
  intro a r ha; rw [h]; exact ha

theorem keeps_send {s s' : State} {src dst : String} {c : Coins} (h : s.send src dst c = .ok s') : Keeps s s' :=
  fun a r ha => send_keeps_existing s s' src dst c a r h ha

theorem keeps_sendFromModule {s s' : State} {dst : String} {c : Coins} (h : s.sendFromModule dst c = .ok s') : Keeps s s' := by
  unfold State.sendFromModule at h
  split at h
  · cases h
  · exact keeps_send h

theorem keeps_newCva (s : State) (to : String) (ov : Coins) (a b : Int) (h : (s.accts.get? to).isSome = false) :
    Keeps s (newCva s to ov a b) := by
  intro x r hx
  have hne : x ≠ to := by
    intro e; subst e; rw [hx] at h; simp at h
  rw [newCva_other s to x ov a b hne]; exact hx

theorem keeps_createPool {s : State} {o : Addr} {name : String} {amount dur : Int} {vt : String} {res : Res}
    (h : createPool s o name amount dur vt = .ok res) : Keeps s res.st := by
  unfold createPool at h
  split at h
  · cases h
  · split at h
    · cases h
    · split at h
      · cases h
      · split at h
        · cases h
        · simp only [] at h
          split at h
          · cases h
          · split at h
            · rename_i s1 hsend
              cases h
              exact (keeps_send hsend).trans (keeps_of_eq rfl)
            · cases h
            · cases h

theorem keeps_withdrawAll {s : State} {o : Addr} {res : Res} (h : withdrawAll s o = .ok res) : Keeps s res.st := by
  unfold withdrawAll at h
  split at h
  · cases h
  · split at h
    · cases h
    · split at h
      · cases h
      · simp only [] at h
        split at h
        · rename_i s1 hsent
          split at h
          · cases h
          · cases h
            have h1 : Keeps s s1 := by
              split at hsent
              all_goals first | exact keeps_sendFromModule hsent | (cases hsent; exact fun _ _ h => h) | cases hsent
            exact h1.trans (keeps_of_eq rfl)
        · cases h
        · cases h

theorem keeps_newVestingAccount {s s' : State} {to : String} {amount free le ve : Int}
    (h : newVestingAccount s to amount free le ve = .ok s') : Keeps s s' := by
  unfold newVestingAccount at h
  split at h
  · cases h
  · split at h
    · cases h
    · split at h
      · cases h
      · rename_i hex
        simp only [] at h
        split at h
        · cases h
        · split at h
          · rename_i s2 hsend
            cases h
            exact (keeps_newCva s to _ _ _ (by simpa using hex)).trans (keeps_sendFromModule hsend)
          · cases h
          · cases h

theorem keeps_sendToNew {s : State} {o to : Addr} {pool : String} {amount : Int} {restart : Bool} {res : Res}
    (h : sendToNew s o to pool amount restart = .ok res) : Keeps s res.st := by
  unfold sendToNew at h
  split at h
  · cases h
  · split at h
    · cases h
    · cases h
    · rename_i w hw
      have h1 := keeps_withdrawAll hw
      simp only [] at h
      split at h
      · cases h
      · split at h
        · cases h
        · split at h
          · cases h
          · split at h
            · cases h
            · split at h
              · cases h
              · split at h
                · cases h
                · cases h
                · rename_i s2 hr
                  cases h
                  have h2 : Keeps w.st s2 := by
                    cases restart
                    · simp only [Bool.false_eq_true, if_false] at hr; exact keeps_newVestingAccount hr
                    · simp only [if_true] at hr; exact keeps_newVestingAccount hr
                  exact (h1.trans h2).trans (keeps_of_eq rfl)

theorem keeps_createVA {s : State} {src to : Addr} {amount : List (String × Option Int)} {a b : Int} {res : Res}
    (h : createVA s src to amount a b = .ok res) : Keeps s res.st := by
  unfold createVA at h
  split at h
  · cases h
  · simp only [] at h
    split at h
    · cases h
    · split at h
      · cases h
      · rename_i hex
        split at h
        · rename_i s2 hsend
          cases h
          exact (keeps_newCva s to.s _ _ _ (by simpa using hex)).trans (keeps_send hsend)
        · cases h
        · cases h

/-- the per-coin loop of the unlock only ever rewrites `OriginalVesting` -/
theorem unlockStep_ov (now : Int) (acc : Acct) (vc : Coins) (r : Outcome Acct) (kv : String × Int)
    (hr : ∀ a, r = .ok a → ∃ ov', a = { acc with ov := ov' }) :
    ∀ a, unlockStep now acc vc r kv = .ok a → ∃ ov', a = { acc with ov := ov' } := by
  intro a h
  unfold unlockStep at h
  split at h
  · rename_i a0
    obtain ⟨ov0, rfl⟩ := hr a0 rfl
    split at h
    · simp only [] at h
      split at h
      · cases h
      · split at h
        · cases h
        · split at h
          · cases h
          · split at h
            · split at h
              · cases h
              · cases h; exact ⟨_, rfl⟩
            · cases h; exact ⟨_, rfl⟩
    · cases h; exact ⟨_, rfl⟩
  · cases h
  · cases h

theorem unlockFold_ov (now : Int) (acc : Acct) (vc : Coins) : ∀ (amt : Coins) (r : Outcome Acct),
    (∀ a, r = .ok a → ∃ ov', a = { acc with ov := ov' }) →
    ∀ a, amt.foldl (unlockStep now acc vc) r = .ok a → ∃ ov', a = { acc with ov := ov' }
  | [], r, hr, a, h => hr a h
  | kv :: rest, r, hr, a, h => by
    rw [List.foldl_cons] at h
    exact unlockFold_ov now acc vc rest _ (unlockStep_ov now acc vc r kv hr) a h

/-- the unlock rewrites only the owner's record, and of that only `OriginalVesting` -/
theorem unlock_shape {s s1 : State} {owner : String} {amt : Coins} {a : Acct}
    (h : unlockUnbonded s owner amt = .ok (s1, a)) :
    ∃ acc ov', s.accts.get? owner = some acc ∧ a = { acc with ov := ov' } ∧ s1.accts = s.accts.set owner a := by
  unfold unlockUnbonded at h
  split at h
  · cases h
  · split at h
    · cases h
    · rename_i acc hacc
      split at h
      · cases h
      · split at h
        · cases h
        · split at h
          · cases h
          · split at h
            · cases h
            · rename_i vc _
              split at h
              · rename_i a0 hf
                cases h
                obtain ⟨ov', hov⟩ := unlockFold_ov s.now acc vc amt (.ok acc) (by intro x hx; cases hx; exact ⟨acc.ov, rfl⟩) a hf
                exact ⟨acc, ov', hacc, hov, rfl⟩
              · cases h
              · cases h

/-- every record survives, except that the record at `f` may have its `OriginalVesting` rewritten -/
def KeepsExcept (f : String) (s s' : State) : Prop :=
  ∀ a r, s.accts.get? a = some r →
    s'.accts.get? a = some r ∨ (f = a ∧ ∃ ov', s'.accts.get? a = some { r with ov := ov' })

theorem keepsExcept_splitCoins {s : State} {src to : String} {amount : Coins} {res : Res}
    (h : splitCoins s src to amount = .ok res) : KeepsExcept src s res.st := by
  unfold splitCoins at h
  split at h
  · cases h
  · split at h
    · cases h
    · split at h
      · cases h
      · rename_i hex
        split at h
        · cases h
        · cases h
        · rename_i s1 vacc hu
          obtain ⟨acc, ov', hacc, hv, hs1⟩ := unlock_shape hu
          simp only [] at h
          split at h
          · cases h
          · cases h
          · rename_i s3 hsend
            have hfinal : ∀ a r', (newCva s1 to (sortBy (fun a b => a.1 < b.1) amount)
                (if vacc.startS > unixSec s.now then vacc.startS else unixSec s.now) vacc.endS).accts.get? a = some r' →
                res.st.accts.get? a = some r' := by
              intro a r' ha
              have := keeps_send hsend a r' ha
              split at h
              · cases h; exact this
              · cases h; exact this
            intro a r ha
            have hne : a ≠ to := by
              intro e; subst e; rw [ha] at hex; simp at hex
            by_cases hao : a = src
            · subst hao
              right
              refine ⟨rfl, ov', ?_⟩
              apply hfinal
              rw [newCva_other s1 to a _ _ _ hne, hs1, AList.get?_set_self]
              rw [hacc] at ha; cases ha
              rw [hv]
            · left
              apply hfinal
              rw [newCva_other s1 to a _ _ _ hne, hs1, AList.get?_set_other _ _ _ _ hao]
              exact ha

/-- who may lose original vesting through the message: the signer of a split or move -/
def splitSender : Msg → Option String
  | .split f _ _ => some f.s
  | .move f _ => some f.s
  | .moveDenoms f _ _ => some f.s
  | _ => none

theorem split_case (s : State) (f to a : String) (r : Acct) (ha : s.accts.get? a = some r) (res : Res) (amt : Coins)
    (m : Msg) (hm : splitSender m = some f) (hq : splitCoins s f to amt = .ok res) :
    res.st.accts.get? a = some r ∨
    (splitSender m = some a ∧ ∃ ov', res.st.accts.get? a = some { r with ov := ov' }) := by
  rcases keepsExcept_splitCoins hq a r ha with h | ⟨h1, h2⟩
  · exact Or.inl h
  · exact Or.inr ⟨by rw [hm, h1], h2⟩

/-- **C09 on the model**: after any delivered message every pre-existing account record is
    unchanged — kind, account number, identity (sequence / public key), schedule, delegations —
    except that the signer of a split or move may have its own original vesting reduced -/
theorem existing_untouched (s : State) (m : Msg) (a : String) (r : Acct) (ha : s.accts.get? a = some r) :
    (deliver s m).1.accts.get? a = some r ∨
    (splitSender m = some a ∧ ∃ ov', (deliver s m).1.accts.get? a = some { r with ov := ov' }) := by
  unfold deliver
  split
  · left; exact ha
  · cases hh : handle s m with
    | err => left; exact ha
    | panic => left; exact ha
    | ok res =>
      simp only []
      cases m with
      | createPool o name amount dur vt =>
        unfold handle at hh
        cases amount with
        | none => cases hh
        | some x => left; exact keeps_createPool hh a r ha
      | withdraw o => unfold handle at hh; left; exact keeps_withdrawAll hh a r ha
      | send o to pool amount restart =>
        unfold handle at hh
        cases amount with
        | none => cases hh
        | some x => left; exact keeps_sendToNew hh a r ha
      | createVA f to amount x y =>
        unfold handle at hh
        cases amount with
        | none => cases hh
        | some c =>
          simp only [] at hh
          split at hh
          · cases hh
          · left; exact keeps_createVA hh a r ha
      | split f to amount =>
        have fin := fun amt => split_case s f.s to.s a r ha res amt (.split f to amount) rfl
        unfold handle at hh
        cases amount with
        | none => cases hh
        | some c =>
          simp only [] at hh
          split at hh <;> first | cases hh | exact fin _ hh | (split at hh <;> first | cases hh | exact fin _ hh)
      | move f to =>
        have fin := fun amt => split_case s f.s to.s a r ha res amt (.move f to) rfl
        simp only [handle] at hh
        split at hh <;> first | cases hh | exact fin _ hh | (split at hh <;> first | cases hh | exact fin _ hh)
      | moveDenoms f to denoms =>
        have fin := fun amt => split_case s f.s to.s a r ha res amt (.moveDenoms f to denoms) rfl
        simp only [handle] at hh
        split at hh <;> first | cases hh | exact fin _ hh | (split at hh <;> first | cases hh | exact fin _ hh)

/-- over a whole history: kind, account number, identity, schedule and delegations of every
    pre-existing record never change; only `OriginalVesting` may, and only by the owner's splits -/
theorem existing_untouched_history (msgs : List Msg) : ∀ (s : State) (a : String) (r : Acct), s.accts.get? a = some r →
    ∃ ov', (msgs.foldl (fun st m => (deliver st m).1) s).accts.get? a = some { r with ov := ov' } ∧
      ((∀ m ∈ msgs, splitSender m ≠ some a) → ov' = r.ov) := by
  induction msgs with
  | nil => intro s a r ha; exact ⟨r.ov, ha, fun _ => rfl⟩
  | cons m rest ih =>
    intro s a r ha
    rw [List.foldl_cons]
    rcases existing_untouched s m a r ha with h | ⟨hsp, ov1, h⟩
    · obtain ⟨ov', h1, h2⟩ := ih _ a r h
      exact ⟨ov', h1, fun hall => h2 (fun m' hm' => hall m' (by simp [hm']))⟩
    · obtain ⟨ov', h1, _⟩ := ih _ a { r with ov := ov1 } h
      refine ⟨ov', h1, ?_⟩
      intro hall
      exact absurd hsp (hall m (by simp))

theorem nonvacuous : (newCva {} "x" [("uc4e", 5)] 1 2).accts.get? "x" = some { kind := .cva, num := 0, ov := [("uc4e", 5)], startS := 1, endS := 2 } := by
  decide

end C4E.Props.C09
