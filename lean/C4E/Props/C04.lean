/-
  C04 — Every destination receives exactly its configured share.
-/
import C4E.Distr1
import C4E.Distributor
namespace C4E.Props.C04
open C4E C4E.Distr1

/-- one share of an inflow `x` is within 10^-18 of the exact product, never above it
    (amounts are 10^18-scaled: this is the 18-digit truncation of `MulDecTruncate`) -/
theorem share_truncation (x s : Int) (hx : 0 ≤ x) (hs : 0 ≤ s) :
    mulTrunc x s * P ≤ x * s ∧ x * s < (mulTrunc x s + 1) * P := by
  unfold mulTrunc
  have hp : (0:Int) < P := P_pos
  have h1 := Int.ediv_mul_le (x * s) (Int.ne_of_gt hp)
  have h2 := Int.lt_ediv_add_one_mul_self (x * s) hp
  have : 0 ≤ x * s := Int.mul_nonneg hx hs
  exact ⟨h1, h2⟩

/-- the whole inflow is allocated: what goes to recorded states plus what is left in the main
    account (MAIN destinations) is exactly `x`; nothing negative is ever allocated. -/
theorem allocation_conserves (x : Int) (hx : 0 ≤ x) (sts : List St) (sub : Sub)
    (hnn : allNonneg sts) (hok : subOk sub) :
    sumRem (distribute x sts sub).1 = sumRem sts + (x - (distribute x sts sub).2) ∧
    0 ≤ (distribute x sts sub).2 ∧ (distribute x sts sub).2 ≤ x :=
  let h := distribute_spec x hx sts sub hnn hok
  ⟨h.1, h.2.2.1, h.2.2.2.1⟩

/-- without a MAIN destination nothing stays unallocated in the main account -/
theorem no_main_dest_all_to_states (x : Int) (hx : 0 ≤ x) (sts : List St) (sub : Sub)
    (hnn : allNonneg sts) (hok : subOk sub) (hm : hasMainDest sub = false) :
    sumRem (distribute x sts sub).1 = sumRem sts + x := by
  have h := distribute_spec x hx sts sub hnn hok
  have := h.2.2.2.2 hm
  omega

/-! ### cumulative receipts over any number of blocks -/

/-- what a share `s` is allocated over a sequence of inflows -/
def allocSum (s : Int) : List Int → Int
  | [] => 0
  | x :: xs => mulTrunc x s + allocSum s xs

def sumL : List Int → Int
  | [] => 0
  | x :: xs => x + sumL xs

/-- cumulative allocation never exceeds share × cumulative inflow, and falls short of it by less
    than 10^-18 base units per block (the 18-digit truncation of each block's product) -/
theorem cumulative_allocation (s : Int) (hs : 0 ≤ s) : ∀ xs : List Int, (∀ x ∈ xs, 0 ≤ x) →
    allocSum s xs * P ≤ sumL xs * s ∧ sumL xs * s < (allocSum s xs + xs.length) * P ∨ xs = []
  | [], _ => Or.inr rfl
  | x :: xs, h => by
    left
    have hx := h x (by simp)
    obtain ⟨a1, a2⟩ := share_truncation x s hx hs
    rcases cumulative_allocation s hs xs (fun y hy => h y (by simp [hy])) with ⟨i1, i2⟩ | hnil
    · simp only [allocSum, sumL, List.length_cons]
      have e1 : (mulTrunc x s + allocSum s xs) * P = mulTrunc x s * P + allocSum s xs * P := Int.add_mul _ _ _
      have e2 : (x + sumL xs) * s = x * s + sumL xs * s := Int.add_mul _ _ _
      have e3 : (mulTrunc x s + allocSum s xs + ((xs.length : Nat) + 1 : Int)) * P
          = (mulTrunc x s + 1) * P + (allocSum s xs + xs.length) * P := by
        rw [← Int.add_mul]; congr 1; omega
      refine ⟨by rw [e1, e2]; omega, ?_⟩
      have : ((xs.length + 1 : Nat) : Int) = (xs.length : Int) + 1 := by omega
      rw [this, e3, e2]; omega
    · subst hnil
      simp only [allocSum, sumL, List.length_cons, List.length_nil]
      refine ⟨by simpa using a1, by simpa using a2⟩

/-- the end-of-block payout of integer parts, repeated over blocks: `rem` is the recorded
    remainder, each block adds `a` and pays out the integer part -/
def payLoop : Int → List Int → Int × Int
  | rem, [] => (0, rem)
  | rem, a :: rest =>
    let r := rem + a
    let p := (r / P) * P
    ((payLoop (r - p) rest).1 + p, (payLoop (r - p) rest).2)

/-- fractions are carried forward exactly: everything allocated is either paid or still
    recorded, and what is recorded after a payout is a proper fraction of a base unit — so the
    cumulative amount PAID is the integer part of the cumulative amount ALLOCATED -/
theorem payout_carry : ∀ (adds : List Int) (rem : Int), 0 ≤ rem → (∀ a ∈ adds, 0 ≤ a) →
    (payLoop rem adds).1 + (payLoop rem adds).2 = rem + sumL adds ∧
    0 ≤ (payLoop rem adds).2 ∧ (adds ≠ [] → (payLoop rem adds).2 < P)
  | [], rem, h, _ => by simp [payLoop, sumL, h]
  | a :: rest, rem, h, ha => by
    have hp : (0:Int) < P := P_pos
    have ha0 := ha a (by simp)
    have hr : 0 ≤ rem + a := by omega
    have h1 := Int.ediv_mul_le (rem + a) (Int.ne_of_gt hp)
    have h2 := Int.lt_ediv_add_one_mul_self (rem + a) hp
    have hfrac0 : 0 ≤ rem + a - (rem + a) / P * P := by omega
    have hfrac1 : rem + a - (rem + a) / P * P < P := by
      have : ((rem + a) / P + 1) * P = (rem + a) / P * P + P := by rw [Int.add_mul]; omega
      omega
    obtain ⟨i1, i2, i3⟩ := payout_carry rest (rem + a - (rem + a) / P * P) hfrac0 (fun y hy => ha y (by simp [hy]))
    simp only [payLoop, sumL]
    refine ⟨by omega, i2, ?_⟩
    intro _
    cases rest with
    | nil => simp only [payLoop]; exact hfrac1
    | cons b r => exact i3 (by simp)

/-- C04 drift bound for one destination: after any number of blocks what the destination was
    PAID (integer base units × 10^18) differs from share × cumulative inflow by less than one base
    unit plus 10^-18 per block -/
theorem cumulative_receipts_drift (s : Int) (hs : 0 ≤ s) (xs : List Int) (hx : ∀ x ∈ xs, 0 ≤ x) (hne : xs ≠ []) :
    let paid := (payLoop 0 (xs.map (fun x => mulTrunc x s))).1
    paid * P ≤ sumL xs * s ∧ sumL xs * s < (paid + P + xs.length) * P := by
  have hadds : ∀ a ∈ xs.map (fun x => mulTrunc x s), 0 ≤ a := by
    intro a ha
    obtain ⟨x, hxm, rfl⟩ := List.mem_map.mp ha
    exact mulTrunc_nonneg (hx x hxm) hs
  obtain ⟨c1, c2, c3⟩ := payout_carry (xs.map (fun x => mulTrunc x s)) 0 (Int.le_refl 0) hadds
  have hsum : sumL (xs.map (fun x => mulTrunc x s)) = allocSum s xs := by
    clear c1 c2 c3 hadds hne hx
    induction xs with
    | nil => rfl
    | cons x xs ih => simp only [List.map_cons, sumL, allocSum, ih]
  have hne' : xs.map (fun x => mulTrunc x s) ≠ [] := by simpa using hne
  have c3' := c3 hne'
  rcases cumulative_allocation s hs xs hx with ⟨a1, a2⟩ | hnil
  · simp only []
    rw [hsum] at c1
    have hp : (0:Int) < P := P_pos
    generalize (payLoop 0 (xs.map (fun x => mulTrunc x s))).1 = paid at *
    generalize (payLoop 0 (xs.map (fun x => mulTrunc x s))).2 = rem at *
    have hA : allocSum s xs = paid + rem := by omega
    rw [hA] at a1 a2
    have e1 : (paid + rem) * P = paid * P + rem * P := Int.add_mul _ _ _
    have hremP : 0 ≤ rem * P := Int.mul_nonneg c2 (Int.le_of_lt hp)
    refine ⟨by omega, ?_⟩
    have e2 : (paid + P + (xs.length : Int)) * P = (paid + rem + xs.length) * P + (P - rem) * P := by
      rw [← Int.add_mul]; congr 1; omega
    have : 0 < (P - rem) * P := Int.mul_pos (by omega) hp
    omega
  · exact absurd hnil hne

/-! ### the faithful multi-denomination model: what one sub-distributor records -/

section Faithful
open C4E.Distr C4E.CoinList

/-- recorded remains of all states in denomination `d` -/
def remSum (d : String) : List DState → Int
  | [] => 0
  | s :: rest => amountOf s.remains d + remSum d rest

theorem remSum_append (d : String) (a b : List DState) : remSum d (a ++ b) = remSum d a + remSum d b := by
  induction a with
  | nil => simp [remSum]
  | cons x xs ih => simp only [List.cons_append, remSum, ih]; omega

theorem remSum_modifyNth (d : String) (c : DecCoins) : ∀ (l : List DState) (n : Nat), n < l.length →
    remSum d (modifyNth l n (fun s => { s with remains := CoinList.add s.remains c })) = remSum d l + amountOf c d
  | [], n, h => by simp at h
  | x :: xs, 0, _ => by simp only [modifyNth, remSum, amountOf_add]; omega
  | x :: xs, n + 1, h => by
    simp only [modifyNth, remSum]
    rw [remSum_modifyNth d c xs n (by simpa using h)]; omega

theorem findAccountState_bound : ∀ (l : List DState) (a : Account) (i p : Nat),
    findAccountState l a i = .ok (some p) → i ≤ p ∧ p < i + l.length
  | [], a, i, p, h => by simp [findAccountState] at h
  | s :: rest, a, i, p, h => by
    unfold findAccountState at h
    split at h
    · cases h
    · split at h
      · simp only [Outcome.ok.injEq, Option.some.injEq] at h; subst h; simp
      · have := findAccountState_bound rest a (i + 1) p h
        simp only [List.length_cons]; omega

theorem addToAccountState_sum (d : String) (sts sts' : List DState) (a : Account) (c : DecCoins)
    (h : addToAccountState sts a c = .ok sts') : remSum d sts' = remSum d sts + amountOf c d := by
  unfold addToAccountState at h
  split at h
  · cases h
  · cases h
  · rename_i pos hf
    cases h
    have := findAccountState_bound sts a 0 pos hf
    exact remSum_modifyNth d c sts pos (by omega)
  · cases h
    rw [remSum_append]
    simp only [remSum, amountOf_add, amountOf]; omega

theorem findBurnState_bound : ∀ (l : List DState) (i p : Nat), findBurnState l i = some p → i ≤ p ∧ p < i + l.length
  | [], i, p, h => by simp [findBurnState] at h
  | s :: rest, i, p, h => by
    unfold findBurnState at h
    split at h
    · simp only [Option.some.injEq] at h; subst h; simp
    · have := findBurnState_bound rest (i + 1) p h
      simp only [List.length_cons]; omega

theorem addToBurnState_sum (d : String) (sts : List DState) (c : DecCoins) :
    remSum d (addToBurnState sts c) = remSum d sts + amountOf c d := by
  unfold addToBurnState
  split
  · rename_i pos hf
    have := findBurnState_bound sts 0 pos hf
    exact remSum_modifyNth d c sts pos (by omega)
  · rw [remSum_append]
    simp only [remSum, amountOf_add, amountOf]; omega

/-- what the named shares pointing to MAIN leave in the main account, in denomination `d` -/
def mainShares (d : String) (x : DecCoins) : List Distr.Share → Int
  | [] => 0
  | sh :: rest => (if sh.dest.type = tMain then amountOf (calcPercentage (sh.share.getD 0) x) d else 0) + mainShares d x rest

theorem amountOf_of_isZero' (c : CoinList) (d : String) (h : isZero c = true) : amountOf c d = 0 := by
  induction c with
  | nil => rfl
  | cons kv rest ih =>
    obtain ⟨k, v⟩ := kv
    unfold isZero at h ih
    simp only [List.all_cons, Bool.and_eq_true, beq_iff_eq] at h
    simp only [amountOf, h.1, ih h.2]
    split <;> rfl

/-- the share loop: recorded + remainder + kept-in-main is conserved -/
theorem distShares_states (sub : String) (x : DecCoins) (d : String) : ∀ (shs : List Distr.Share) (sts : List DState) (dflt : DecCoins)
    (evs : List Distr.Event) (sts' : List DState) (dflt' : DecCoins) (evs' : List Distr.Event),
    distShares sub x shs sts dflt evs = .ok (sts', dflt', evs') →
    remSum d sts' + amountOf dflt' d + mainShares d x shs = remSum d sts + amountOf dflt d
  | [], sts, dflt, evs, sts', dflt', evs', h => by
    simp only [distShares, Outcome.ok.injEq, Prod.mk.injEq] at h
    obtain ⟨h1, h2, _⟩ := h; subst h1; subst h2; simp [mainShares]
  | sh :: rest, sts, dflt, evs, sts', dflt', evs', h => by
    unfold distShares at h
    simp only [] at h
    split at h
    · cases h
    · rename_i d1 hsub
      have hs := amountOf_sub hsub d
      unfold mainShares
      split at h
      · split at h
        · rename_i hnm
          split at h
          · rename_i stsA hadd
            have h1 := addToAccountState_sum d sts stsA sh.dest _ hadd
            have := distShares_states sub x d rest _ _ _ _ _ _ h
            have hnm' : ¬ sh.dest.type = tMain := hnm
            simp only [hnm', if_false]
            omega
          · cases h
          · cases h
        · rename_i hm
          have hm' : sh.dest.type = tMain := by simpa using hm
          have := distShares_states sub x d rest _ _ _ _ _ _ h
          simp only [hm', if_true]
          omega
      · rename_i hz
        have hz' : isZero (calcPercentage (sh.share.getD 0) x) = true := by simpa using hz
        have h0 := amountOf_of_isZero' _ d hz'
        have := distShares_states sub x d rest _ _ _ _ _ _ h
        rw [h0]
        split <;> omega

/-- **one sub-distributor execution of the code-tied model, every denomination**: what the states
    record afterwards is what they recorded before plus the whole inflow, minus exactly what stays in
    the main account for MAIN destinations (named MAIN shares, and the remainder when the primary
    destination is MAIN) — every coin of the inflow is recorded for a destination, recorded for
    burning, or left in main for a later MAIN-sourced sub-distributor -/
theorem faithful_allocation_conserves (sts : List DState) (x : DecCoins) (s : SubD) (sts' : List DState)
    (evs : List Distr.Event) (h : startDistribution sts x s = .ok (sts', evs)) (d : String) :
    ∃ primaryAmt, remSum d sts' + mainShares d x s.shares + (if s.primary.type = tMain then primaryAmt else 0)
      = remSum d sts + amountOf x d := by
  unfold startDistribution at h
  split at h
  · cases h
  · cases h
  · rename_i sts1 dflt1 evs1 hsh
    have inv := distShares_states s.name x d s.shares sts x [] sts1 dflt1 evs1 hsh
    simp only [] at h
    split at h
    · cases h
    · rename_i dflt hsub
      have hs := amountOf_sub hsub d
      have hb : remSum d (if (!isZero (calcPercentage (s.burnShare.getD 0) x)) = true then addToBurnState sts1 (calcPercentage (s.burnShare.getD 0) x) else sts1)
          = remSum d sts1 + amountOf (calcPercentage (s.burnShare.getD 0) x) d := by
        by_cases hz : isZero (calcPercentage (s.burnShare.getD 0) x) = true
        · simp [hz, amountOf_of_isZero' _ d hz]
        · have : (!isZero (calcPercentage (s.burnShare.getD 0) x)) = true := by simpa using hz
          simp only [this, if_true]; exact addToBurnState_sum d sts1 _
      refine ⟨amountOf dflt d, ?_⟩
      split at h
      · rename_i hp
        have hp' : ¬ s.primary.type = tMain := hp
        split at h
        · rename_i sts3 hadd
          cases h
          have := addToAccountState_sum d _ _ s.primary dflt hadd
          simp only [hp', if_false]
          omega
        · cases h
        · cases h
      · rename_i hp
        have hp' : s.primary.type = tMain := by simpa using hp
        cases h
        simp only [hp', if_true]
        omega

end Faithful

end C4E.Props.C04
