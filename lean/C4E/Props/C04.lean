/-
  C04 — Every destination receives exactly its configured share.
-/
import C4E.Distr1
namespace C4E.Props.C04
open C4E C4E.Distr1

/-- one share of an inflow `x` is within 10^-18 of the exact product, never above it
    (amounts are 10^18-scaled: this is the 18-digit truncation of `MulDecTruncate`) -/
theorem share_truncation (x s : Int) (hx : 0 ≤ x) (hs : 0 ≤ s) :
    mulTrunc x s * P ≤ x * s ∧ x * s < (mulTrunc x s + 1) * P := by
  unfold mulTrunc
  have hp : (0:Int) < P := P_pos
  have h1 := Int.ediv_mul_le (x * s) (Int.ne_of_gt hp)
  have h2 := Int.lt_ediv_add_one_mul_self (x * s) hp
  have : 0 ≤ x * s := Int.mul_nonneg hx hs
  exact ⟨h1, h2⟩

/-- the whole inflow is allocated: what goes to recorded states plus what is left in the main
    account (MAIN destinations) is exactly `x`; nothing negative is ever allocated. -/
theorem allocation_conserves (x : Int) (hx : 0 ≤ x) (sts : List St) (sub : Sub)
    (hnn : allNonneg sts) (hok : subOk sub) :
    sumRem (distribute x sts sub).1 = sumRem sts + (x - (distribute x sts sub).2) ∧
    0 ≤ (distribute x sts sub).2 ∧ (distribute x sts sub).2 ≤ x :=
  let h := distribute_spec x hx sts sub hnn hok
  ⟨h.1, h.2.2.1, h.2.2.2.1⟩

/-- without a MAIN destination nothing stays unallocated in the main account -/
theorem no_main_dest_all_to_states (x : Int) (hx : 0 ≤ x) (sts : List St) (sub : Sub)
    (hnn : allNonneg sts) (hok : subOk sub) (hm : hasMainDest sub = false) :
    sumRem (distribute x sts sub).1 = sumRem sts + x := by
  have h := distribute_spec x hx sts sub hnn hok
  have := h.2.2.2.2 hm
  omega

end C4E.Props.C04
