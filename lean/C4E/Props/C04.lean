/-
  C04 — Every destination receives exactly its configured share.
-/
import C4E.Distr1
namespace C4E.Props.C04
open C4E C4E.Distr1

/-- one share of an inflow `x` is within 10^-18 of the exact product, never above it
    (amounts are 10^18-scaled: this is the 18-digit truncation of `MulDecTruncate`) -/
theorem share_truncation (x s : Int) (hx : 0 ≤ x) (hs : 0 ≤ s) :
    mulTrunc x s * P ≤ x * s ∧ x * s < (mulTrunc x s + 1) * P := by
  unfold mulTrunc
  have hp : (0:Int) < P := P_pos
  have h1 := Int.ediv_mul_le (x * s) (Int.ne_of_gt hp)
  have h2 := Int.lt_ediv_add_one_mul_self (x * s) hp
  have : 0 ≤ x * s := Int.mul_nonneg hx hs
  exact ⟨h1, h2⟩

/-- the whole inflow is allocated: what goes to recorded states plus what is left in the main
    account (MAIN destinations) is exactly `x`; nothing negative is ever allocated. -/
theorem allocation_conserves (x : Int) (hx : 0 ≤ x) (sts : List St) (sub : Sub)
    (hnn : allNonneg sts) (hok : subOk sub) :
    sumRem (distribute x sts sub).1 = sumRem sts + (x - (distribute x sts sub).2) ∧
    0 ≤ (distribute x sts sub).2 ∧ (distribute x sts sub).2 ≤ x :=
  let h := distribute_spec x hx sts sub hnn hok
  ⟨h.1, h.2.2.1, h.2.2.2.1⟩

/-- without a MAIN destination nothing stays unallocated in the main account -/
theorem no_main_dest_all_to_states (x : Int) (hx : 0 ≤ x) (sts : List St) (sub : Sub)
    (hnn : allNonneg sts) (hok : subOk sub) (hm : hasMainDest sub = false) :
    sumRem (distribute x sts sub).1 = sumRem sts + x := by
  have h := distribute_spec x hx sts sub hnn hok
  have := h.2.2.2.2 hm
  omega

/-! ### cumulative receipts over any number of blocks -/

/-- what a share `s` is allocated over a sequence of inflows -/
def allocSum (s : Int) : List Int → Int
  | [] => 0
  | x :: xs => mulTrunc x s + allocSum s xs

def sumL : List Int → Int
  | [] => 0
  | x :: xs => x + sumL xs

/-- cumulative allocation never exceeds share × cumulative inflow, and falls short of it by less
    than 10^-18 base units per block (the 18-digit truncation of each block's product) -/
theorem cumulative_allocation (s : Int) (hs : 0 ≤ s) : ∀ xs : List Int, (∀ x ∈ xs, 0 ≤ x) →
    allocSum s xs * P ≤ sumL xs * s ∧ sumL xs * s < (allocSum s xs + xs.length) * P ∨ xs = []
  | [], _ => Or.inr rfl
  | x :: xs, h => by
    left
    have hx := h x (by simp)
    obtain ⟨a1, a2⟩ := share_truncation x s hx hs
    rcases cumulative_allocation s hs xs (fun y hy => h y (by simp [hy])) with ⟨i1, i2⟩ | hnil
    · simp only [allocSum, sumL, List.length_cons]
      have e1 : (mulTrunc x s + allocSum s xs) * P = mulTrunc x s * P + allocSum s xs * P := Int.add_mul _ _ _
      have e2 : (x + sumL xs) * s = x * s + sumL xs * s := Int.add_mul _ _ _
      have e3 : (mulTrunc x s + allocSum s xs + ((xs.length : Nat) + 1 : Int)) * P
          = (mulTrunc x s + 1) * P + (allocSum s xs + xs.length) * P := by
        rw [← Int.add_mul]; congr 1; omega
      refine ⟨by rw [e1, e2]; omega, ?_⟩
      have : ((xs.length + 1 : Nat) : Int) = (xs.length : Int) + 1 := by omega
      rw [this, e3, e2]; omega
    · subst hnil
      simp only [allocSum, sumL, List.length_cons, List.length_nil]
      refine ⟨by simpa using a1, by simpa using a2⟩

/-- the end-of-block payout of integer parts, repeated over blocks: `rem` is the recorded
    remainder, each block adds `a` and pays out the integer part -/
def payLoop : Int → List Int → Int × Int
  | rem, [] => (0, rem)
  | rem, a :: rest =>
    let r := rem + a
    let p := (r / P) * P
    ((payLoop (r - p) rest).1 + p, (payLoop (r - p) rest).2)

/-- fractions are carried forward exactly: everything allocated is either paid or still
    recorded, and what is recorded after a payout is a proper fraction of a base unit — so the
    cumulative amount PAID is the integer part of the cumulative amount ALLOCATED -/
theorem payout_carry : ∀ (adds : List Int) (rem : Int), 0 ≤ rem → (∀ a ∈ adds, 0 ≤ a) →
    (payLoop rem adds).1 + (payLoop rem adds).2 = rem + sumL adds ∧
    0 ≤ (payLoop rem adds).2 ∧ (adds ≠ [] → (payLoop rem adds).2 < P)
  | [], rem, h, _ => by simp [payLoop, sumL, h]
  | a :: rest, rem, h, ha => by
    have hp : (0:Int) < P := P_pos
    have ha0 := ha a (by simp)
    have hr : 0 ≤ rem + a := by omega
    have h1 := Int.ediv_mul_le (rem + a) (Int.ne_of_gt hp)
    have h2 := Int.lt_ediv_add_one_mul_self (rem + a) hp
    have hfrac0 : 0 ≤ rem + a - (rem + a) / P * P := by omega
    have hfrac1 : rem + a - (rem + a) / P * P < P := by
      have : ((rem + a) / P + 1) * P = (rem + a) / P * P + P := by rw [Int.add_mul]; omega
      omega
    obtain ⟨i1, i2, i3⟩ := payout_carry rest (rem + a - (rem + a) / P * P) hfrac0 (fun y hy => ha y (by simp [hy]))
    simp only [payLoop, sumL]
    refine ⟨by omega, i2, ?_⟩
    intro _
    cases rest with
    | nil => simp only [payLoop]; exact hfrac1
    | cons b r => exact i3 (by simp)

/-- C04 drift bound for one destination: after any number of blocks what the destination was
    PAID (integer base units × 10^18) differs from share × cumulative inflow by less than one base
    unit plus 10^-18 per block -/
theorem cumulative_receipts_drift (s : Int) (hs : 0 ≤ s) (xs : List Int) (hx : ∀ x ∈ xs, 0 ≤ x) (hne : xs ≠ []) :
    let paid := (payLoop 0 (xs.map (fun x => mulTrunc x s))).1
    paid * P ≤ sumL xs * s ∧ sumL xs * s < (paid + P + xs.length) * P := by
  have hadds : ∀ a ∈ xs.map (fun x => mulTrunc x s), 0 ≤ a := by
    intro a ha
    obtain ⟨x, hxm, rfl⟩ := List.mem_map.mp ha
    exact mulTrunc_nonneg (hx x hxm) hs
  obtain ⟨c1, c2, c3⟩ := payout_carry (xs.map (fun x => mulTrunc x s)) 0 (Int.le_refl 0) hadds
  have hsum : sumL (xs.map (fun x => mulTrunc x s)) = allocSum s xs := by
    clear c1 c2 c3 hadds hne hx
    induction xs with
    | nil => rfl
    | cons x xs ih => simp only [List.map_cons, sumL, allocSum, ih]
  have hne' : xs.map (fun x => mulTrunc x s) ≠ [] := by simpa using hne
  have c3' := c3 hne'
  rcases cumulative_allocation s hs xs hx with ⟨a1, a2⟩ | hnil
  · simp only []
    rw [hsum] at c1
    have hp : (0:Int) < P := P_pos
    generalize (payLoop 0 (xs.map (fun x => mulTrunc x s))).1 = paid at *
    generalize (payLoop 0 (xs.map (fun x => mulTrunc x s))).2 = rem at *
    have hA : allocSum s xs = paid + rem := by omega
    rw [hA] at a1 a2
    have e1 : (paid + rem) * P = paid * P + rem * P := Int.add_mul _ _ _
    have hremP : 0 ≤ rem * P := Int.mul_nonneg c2 (Int.le_of_lt hp)
    refine ⟨by omega, ?_⟩
    have e2 : (paid + P + (xs.length : Int)) * P = (paid + rem + xs.length) * P + (P - rem) * P := by
      rw [← Int.add_mul]; congr 1; omega
    have : 0 < (P - rem) * P := Int.mul_pos (by omega) hp
    omega
  · exact absurd hnil hne

end C4E.Props.C04
