/-
  C13 — Only governance changes parameters, and stored parameters stay valid.
-/
import C4E.Minter
import C4E.Distributor
import C4E.Vesting
namespace C4E.Props.C13
open C4E

/-! ### only the governance authority -/

theorem minter_authority_only (st : Minter.St) (np : Minter.RawParams) : Minter.updateParams false st np = none := by
  unfold Minter.updateParams; simp

theorem distr_full_authority_only (e : Distr.Env) (ns : List Distr.SubD) : Distr.updateFull e false ns = none := by
  unfold Distr.updateFull; simp
theorem distr_sub_authority_only (e : Distr.Env) (st : List Distr.SubD) (s : Option Distr.SubD) : Distr.updateSub e false st s = none := by
  unfold Distr.updateSub; simp
theorem distr_share_authority_only (e : Distr.Env) (st : List Distr.SubD) (a b : String) (v : Option Int) :
    Distr.updateShare e false st a b v = none := by
  unfold Distr.updateShare; simp
theorem distr_burn_authority_only (e : Distr.Env) (st : List Distr.SubD) (a : String) (v : Option Int) :
    Distr.updateBurn e false st a v = none := by
  unfold Distr.updateBurn; simp
theorem vesting_authority_only (s : Vest.State) (d : String) : Vest.updateDenom s false d = none := by
  unfold Vest.updateDenom; simp

/-! ### whatever is stored validates (full and partial updates validate the WHOLE resulting configuration) -/

theorem distr_full_stored_valid (e : Distr.Env) (a : Bool) (ns r : List Distr.SubD)
    (h : Distr.updateFull e a ns = some r) : Distr.paramsValid e r = true := by
  unfold Distr.updateFull at h
  split at h
  · cases h
  · split at h
    · cases h; assumption
    · cases h

theorem distr_sub_stored_valid (e : Distr.Env) (a : Bool) (st r : List Distr.SubD) (s : Option Distr.SubD)
    (h : Distr.updateSub e a st s = some r) : Distr.paramsValid e r = true := by
  unfold Distr.updateSub at h
  split at h
  · cases h
  · split at h
    · cases h
    · split at h
      · cases h
      · split at h
        · cases h
        · simp only [] at h
          split at h
          · cases h; assumption
          · cases h

theorem distr_share_stored_valid (e : Distr.Env) (a : Bool) (st r : List Distr.SubD) (x y : String) (v : Option Int)
    (h : Distr.updateShare e a st x y v = some r) : Distr.paramsValid e r = true := by
  unfold Distr.updateShare at h
  split at h
  · cases h
  · split at h
    · cases h
    · split at h
      · cases h
      · split at h
        · cases h; assumption
        · cases h

theorem distr_burn_stored_valid (e : Distr.Env) (a : Bool) (st r : List Distr.SubD) (x : String) (v : Option Int)
    (h : Distr.updateBurn e a st x v = some r) : Distr.paramsValid e r = true := by
  unfold Distr.updateBurn at h
  split at h
  · cases h
  · split at h
    · cases h
    · split at h
      · cases h
      · simp only [] at h
        split at h
        · cases h; assumption
        · cases h

theorem minter_stored_valid (a : Bool) (st : Minter.St) (np : Minter.RawParams) (p : Minter.Params)
    (h : Minter.updateParams a st np = some p) : Minter.validate np = some p := by
  unfold Minter.updateParams at h
  split at h
  · cases h
  · split at h
    · cases h
    · exact h

theorem vesting_stored_valid (s s' : Vest.State) (a : Bool) (d : String)
    (h : Vest.updateDenom s a d = some s') : validDenom s'.denom = true := by
  unfold Vest.updateDenom at h
  split at h
  · cases h
  · rename_i hc
    split at h
    · cases h
    · cases h
      simp only [Bool.or_eq_true, Bool.not_eq_true', decide_eq_true_eq, not_or] at hc
      simpa using hc.2

/-! ### the vesting denomination cannot change while pools exist -/

theorem denom_frozen (s : Vest.State) (a : Bool) (d : String) (hp : s.pools.length > 0) :
    Vest.updateDenom s a d = none := by
  unfold Vest.updateDenom
  split
  · rfl
  · simp [hp]

/-! ### the minter's current period is part of what an accepted update stores:
       the message must contain the state's sequence id (checked before validation) -/

theorem minter_update_requires_current (a : Bool) (st : Minter.St) (np : Minter.RawParams) (p : Minter.Params)
    (h : Minter.updateParams a st np = some p) :
    np.minters.any (fun m => !m.isNil && m.seq = st.seq) = true := by
  unfold Minter.updateParams at h
  split at h
  · cases h
  · rename_i h1
    split at h
    · cases h
    · rename_i h2
      simpa using h2

theorem nonvacuous : (Vest.updateDenom { denom := "uc4e" } true "uvest").map (·.denom) = some "uvest" ∧
    (Vest.updateDenom { denom := "uc4e" } true "!").isNone = true := by
  decide

end C4E.Props.C13
