/-
  C14 (continued) — one payout of the code-tied multi-denomination model is, in every denomination,
  exactly one step of the abstract pay loop `payLoopF` about which `made_up_exactly` is proved: a
  failed payout keeps the whole record, a successful one pays the integer part and keeps the fraction.
-/
import C4E.Props.C14
import C4E.Lemmas.DistrPayout
namespace C4E.Props.C14
open C4E C4E.Distr C4E.CoinList

/-- **one payout = one step of `payLoopF`, per denomination** (code-tied model): with `r` the
    non-negative amount the state records in denomination `d`, there is a verdict `fail` such that the
    state afterwards records `r − p`, the main account has paid `p / 10^18` whole coins and a
    destination other than the burn state has received them, where `p = 0` if the payout failed and
    `p = ⌊r⌋ · 10^18` otherwise — the transition of `payLoopF`, for which `made_up_exactly` shows that
    once a payout succeeds the total paid equals what a history without failures pays -/
theorem payoutOne_is_payLoopF_step (e : Env) (w w' : Distr.World) (s s' : DState) (h : payoutOne e w s = .ok (s', w'))
    (hs : Sorted s.remains) (hen : EN s.remains)
    (hne : ∀ a, s.account = some a → s.burn = false → a.type ≠ tInternal → destAddr e a ≠ some e.mainAddr) (d : String) :
    ∃ fail : Bool,
      let r := amountOf s.remains d
      let p := if fail then 0 else (r / P) * P
      amountOf s'.remains d = r - p ∧
      amountOf (w'.bank.balance e.mainAddr) d * P = amountOf (w.bank.balance e.mainAddr) d * P - p ∧
      (s.burn = false → ∀ a addr, s.account = some a → destAddr e a = some addr → addr ≠ e.mainAddr →
        amountOf (w'.bank.balance addr) d * P = amountOf (w.bank.balance addr) d * P + p) := by
  have hr : 0 ≤ amountOf s.remains d := en_amount _ hen d
  have htr : Dec.truncInt (amountOf s.remains d) = amountOf s.remains d / P := Dec.truncInt_nonneg_eq hr
  rcases payoutOne_effect e w w' s s' h hs hne with ⟨h1, h2⟩ | hsucc
  · refine ⟨true, ?_⟩
    simp only [if_true]
    rw [h1, h2]
    exact ⟨by omega, by omega, fun _ _ _ _ _ _ => by omega⟩
  · refine ⟨false, ?_⟩
    obtain ⟨e1, e2, e3⟩ := hsucc d
    simp only [Bool.false_eq_true, if_false]
    unfold Dec.ofInt at e1
    rw [htr] at e1 e2
    refine ⟨e1, ?_, ?_⟩
    · rw [e2, Int.sub_mul]
    · intro hb a addr ha hda _
      have := e3 hb a addr ha hda
      rw [htr] at this
      rw [this, Int.add_mul]

end C4E.Props.C14
