/-
  C18 — Emitted events report the amounts that actually moved.
-/
import C4E.Vesting
import C4E.Minter
import C4E.Distributor
namespace C4E.Props.C18
open C4E C4E.Vest

def evAmount : Ev → Int
  | .withdraw _ _ a => a
  | .newFromPool _ _ _ _ _ => 0

/-- per-pool withdrawal events: one event per pool that paid something, carrying that pool's own
    amount; they add up to the coins paid out (pools are solvent: nothing negative is withdrawable) -/
theorem withdraw_events_sum (owner : String) (now : Int) (ps : List Pool)
    (hnn : ∀ p ∈ ps, 0 ≤ withdrawable now p) :
    sumInts ((ps.filterMap (fun p => if withdrawable now p > 0 then some (Ev.withdraw owner p.name (withdrawable now p)) else none)).map evAmount)
      = sumInts (ps.map (withdrawable now)) := by
  induction ps with
  | nil => rfl
  | cons p rest ih =>
    have hp := hnn p (List.mem_cons_self ..)
    have hrest : ∀ q ∈ rest, 0 ≤ withdrawable now q := fun q hq => hnn q (List.mem_cons_of_mem _ hq)
    simp only [List.filterMap_cons, List.map_cons, sumInts_cons]
    by_cases h : withdrawable now p > 0
    · simp only [h, if_true, List.map_cons, sumInts_cons, evAmount, ih hrest]
    · simp only [h, if_false, ih hrest]; omega

/-- no event for a pool that paid nothing -/
theorem no_event_for_zero (owner : String) (now : Int) (p : Pool) (h : withdrawable now p = 0) :
    (if withdrawable now p > 0 then some (Ev.withdraw owner p.name (withdrawable now p)) else none) = none := by
  rw [h]; simp

/-- the minter's block result is what the Mint event carries: a block that does not mint reports 0 -/
theorem mint_before_start_zero (p : Minter.Params) (st : Minter.St) (t : Int) (h : t < p.start) :
    Minter.mint p st t = .ok { amount := 0, st := st, hist := [] } := by
  unfold Minter.mint; rw [if_pos h]

/-! ### distributor: a sub-distributor's events add up to its inflow (every denomination) -/

open C4E.Distr C4E.CoinList in
def dEvAmount : Distr.Event → DecCoins
  | .distribution _ _ a => a
  | .burn _ a => a

open C4E.Distr C4E.CoinList in
/-- what the events of a list report in denomination `d` -/
def dEvSum (d : String) : List Distr.Event → Int
  | [] => 0
  | e :: rest => amountOf (dEvAmount e) d + dEvSum d rest

open C4E.Distr C4E.CoinList

theorem dEvSum_append (d : String) (a b : List Distr.Event) : dEvSum d (a ++ b) = dEvSum d a + dEvSum d b := by
  induction a with
  | nil => simp [dEvSum]
  | cons e rest ih => simp only [List.cons_append, dEvSum, ih]; omega

theorem amountOf_of_isZero (c : CoinList) (d : String) (h : isZero c = true) : amountOf c d = 0 := by
  induction c with
  | nil => rfl
  | cons kv rest ih =>
    obtain ⟨k, v⟩ := kv
    unfold isZero at h ih
    simp only [List.all_cons, Bool.and_eq_true, beq_iff_eq] at h
    simp only [amountOf, h.1, ih h.2]
    split <;> rfl

/-- the share loop keeps `remainder + events so far = inflow` in every denomination -/
theorem distShares_sum (sub : String) (x : DecCoins) (d : String) : ∀ (shs : List Share) (sts : List DState) (dflt : DecCoins)
    (evs : List Distr.Event) (sts' : List DState) (dflt' : DecCoins) (evs' : List Distr.Event),
    distShares sub x shs sts dflt evs = .ok (sts', dflt', evs') →
    amountOf dflt' d + dEvSum d evs' = amountOf dflt d + dEvSum d evs
  | [], sts, dflt, evs, sts', dflt', evs', h => by
    simp only [distShares, Outcome.ok.injEq, Prod.mk.injEq] at h
    obtain ⟨_, h2, h3⟩ := h; subst h2; subst h3; rfl
  | sh :: rest, sts, dflt, evs, sts', dflt', evs', h => by
    unfold distShares at h
    simp only [] at h
    split at h
    · cases h
    · rename_i d1 hsub
      have hs := amountOf_sub hsub d
      split at h
      · rename_i hnz
        split at h
        · split at h
          · rename_i stsA _
            have := distShares_sum sub x d rest _ _ _ _ _ _ h
            rw [this, dEvSum_append]
            simp only [dEvSum, dEvAmount]
            omega
          · cases h
          · cases h
        · have := distShares_sum sub x d rest _ _ _ _ _ _ h
          rw [this, dEvSum_append]
          simp only [dEvSum, dEvAmount]
          omega
      · rename_i hz
        have hz' : isZero (calcPercentage (sh.share.getD 0) x) = true := by simpa using hz
        have h0 := amountOf_of_isZero _ d hz'
        have := distShares_sum sub x d rest _ _ _ _ _ _ h
        rw [this]; omega

/-- **a block's distribution and burn events for a sub-distributor add up to its inflow**, in every
    denomination, whatever the configuration: named shares (also to MAIN), the burn share and the
    primary remainder -/
theorem distribution_events_sum (sts : List DState) (x : DecCoins) (s : SubD) (sts' : List DState) (evs : List Distr.Event)
    (h : startDistribution sts x s = .ok (sts', evs)) (d : String) :
    dEvSum d evs = amountOf x d := by
  unfold startDistribution at h
  split at h
  · cases h
  · cases h
  · rename_i sts1 dflt1 evs1 hsh
    have inv := distShares_sum s.name x d s.shares sts x [] sts1 dflt1 evs1 hsh
    simp only [dEvSum, Int.add_zero] at inv
    simp only [] at h
    split at h
    · cases h
    · rename_i dflt hsub
      have hs := amountOf_sub hsub d
      have hburn : dEvSum d (if (!isZero (calcPercentage (s.burnShare.getD 0) x)) = true then [Distr.Event.burn s.name (calcPercentage (s.burnShare.getD 0) x)] else [])
          = amountOf (calcPercentage (s.burnShare.getD 0) x) d := by
        by_cases hz : isZero (calcPercentage (s.burnShare.getD 0) x) = true
        · simp [hz, dEvSum, amountOf_of_isZero _ d hz]
        · have : (!isZero (calcPercentage (s.burnShare.getD 0) x)) = true := by simpa using hz
          simp only [this, if_true, dEvSum, dEvAmount]; omega
      have key : dEvSum d (evs1 ++ [Distr.Event.distribution s.name (s.name ++ "_primary") dflt] ++
          (if (!isZero (calcPercentage (s.burnShare.getD 0) x)) = true then [Distr.Event.burn s.name (calcPercentage (s.burnShare.getD 0) x)] else []))
          = amountOf x d := by
        rw [dEvSum_append, dEvSum_append, hburn]
        simp only [dEvSum, dEvAmount]
        omega
      split at h
      · split at h
        · cases h; exact key
        · cases h
        · cases h
      · cases h; exact key

theorem nonvacuous :
    sumInts (([{ name := "a", vtype := "t", lockStart := 0, lockEnd := 10, initially := 100, withdrawn := 0, sent := 0 },
               { name := "b", vtype := "t", lockStart := 0, lockEnd := 30, initially := 300, withdrawn := 0, sent := 0 }] : List Pool).map (withdrawable 20)) = 100 := by
  decide

end C4E.Props.C18
