/-
  C18 — Emitted events report the amounts that actually moved.
-/
import C4E.Vesting
import C4E.Minter
namespace C4E.Props.C18
open C4E C4E.Vest

def evAmount : Ev → Int
  | .withdraw _ _ a => a
  | .newFromPool _ _ _ _ _ => 0

/-- per-pool withdrawal events: one event per pool that paid something, carrying that pool's own
    amount; they add up to the coins paid out (pools are solvent: nothing negative is withdrawable) -/
theorem withdraw_events_sum (owner : String) (now : Int) (ps : List Pool)
    (hnn : ∀ p ∈ ps, 0 ≤ withdrawable now p) :
    sumInts ((ps.filterMap (fun p => if withdrawable now p > 0 then some (Ev.withdraw owner p.name (withdrawable now p)) else none)).map evAmount)
      = sumInts (ps.map (withdrawable now)) := by
  induction ps with
  | nil => rfl
  | cons p rest ih =>
    have hp := hnn p (List.mem_cons_self ..)
    have hrest : ∀ q ∈ rest, 0 ≤ withdrawable now q := fun q hq => hnn q (List.mem_cons_of_mem _ hq)
    simp only [List.filterMap_cons, List.map_cons, sumInts_cons]
    by_cases h : withdrawable now p > 0
    · simp only [h, if_true, List.map_cons, sumInts_cons, evAmount, ih hrest]
    · simp only [h, if_false, ih hrest]; omega

/-- no event for a pool that paid nothing -/
theorem no_event_for_zero (owner : String) (now : Int) (p : Pool) (h : withdrawable now p = 0) :
    (if withdrawable now p > 0 then some (Ev.withdraw owner p.name (withdrawable now p)) else none) = none := by
  rw [h]; simp

/-- the minter's block result is what the Mint event carries: a block that does not mint reports 0 -/
theorem mint_before_start_zero (p : Minter.Params) (st : Minter.St) (t : Int) (h : t < p.start) :
    Minter.mint p st t = .ok { amount := 0, st := st, hist := [] } := by
  unfold Minter.mint; rw [if_pos h]

theorem nonvacuous :
    sumInts (([{ name := "a", vtype := "t", lockStart := 0, lockEnd := 10, initially := 100, withdrawn := 0, sent := 0 },
               { name := "b", vtype := "t", lockStart := 0, lockEnd := 30, initially := 300, withdrawn := 0, sent := 0 }] : List Pool).map (withdrawable 20)) = 100 := by
  decide

end C4E.Props.C18
