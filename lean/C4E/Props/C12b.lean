/-
  C12 (continued) — the distributor's recorded states survive genesis export / import in EVERY state
  the distributor can reach, on the code-tied model.
-/
import C4E.Props.C12
import C4E.Props.C10
import C4E.Lemmas.DistrGenesis
namespace C4E.Props.C12
open C4E C4E.Distr C4E.CoinList C4E.Props.C10

/-- well-formed states with the burn state's empty account are `StoredOk` -/
theorem storedOk_of_inv (e : Env) (sts : List DState) (hs : StatesOk e sts) (hb : BurnAcc sts) :
    ∀ s ∈ sts, StoredOk s := by
  intro s hsm
  refine ⟨fun hburn => hb s hsm hburn, fun _ => ?_⟩
  obtain ⟨_, a, ha, _⟩ := hs s hsm
  rw [ha]; rfl

/-- **export / import after any completed block**: from a world satisfying the distributor's invariant
    whose burn state (if any) carries the empty account, every `BeginBlocker` — any accepted
    configuration, any pattern of failing bank calls — ends in a state list that `ExportGenesis`
    followed by the repaired `InitGenesis` restores exactly (so every later block, being a function of
    environment, parameters and world, behaves identically), that the exported genesis' state validation
    accepts, and whose burn state again carries the empty account -/
theorem distr_roundtrip_after_block (e : Env) (henv : EnvOk e) (hmod : e.modAddr? "" = none) (hburn : BurnerOk e)
    (subs : List SubD) (hv : paramsValid e subs = true) (hb32 : C03.Bech32Facts subs)
    (w0 : Distr.World) (faults : List Nat) (hinv : FullInv e w0) (hb : BurnAcc w0.states) :
    ∃ r, Distr.beginBlock e subs w0 faults = .ok r ∧
      (r.world.states.map distrExportState).map distrInitState = r.world.states ∧
      (∀ s ∈ r.world.states, ((distrExportState s).burn = true → (distrExportState s).account = none) ∧
                              ((distrExportState s).burn = false → (distrExportState s).account.isSome = true)) ∧
      BurnAcc r.world.states ∧ FullInv e r.world := by
  obtain ⟨r, hr, hinv', _⟩ := distributor_block_completes e henv hmod hburn subs hv hb32 w0 faults hinv
  have hb' := beginBlock_burnAcc e subs w0 faults r hr hb
  have hso := storedOk_of_inv e r.world.states hinv'.books.states hb'
  exact ⟨r, hr, distr_states_roundtrip _ hso, fun s hs => distr_export_validates s (hso s hs), hb', hinv'⟩

/-- **a genesis accepted by `GenesisState.Validate` starts the distributor with the burn-state
    normalisation in place**: after `InitGenesis` every burn-flagged state carries the empty account
    (D4 repair), and — since the D36 repair — no other state is stored under the burn state's key -/
theorem genesis_valid_init (e : Env) (subs : List SubD) (states : List DState) (hv : genesisValid e subs states = true) :
    BurnAcc (initStates states) ∧ ∀ s ∈ initStates states, s.burn = false → stateKey s ≠ burnStateKey := by
  unfold genesisValid at hv
  simp only [Bool.and_eq_true] at hv
  obtain ⟨⟨hall, _⟩, _⟩ := hv
  have hmem : ∀ t ∈ initStates states, ∃ s ∈ states,
      t = (if s.burn && s.account.isNone then { s with account := some { id := "", type := "" } } else s) := by
    intro t ht
    unfold initStates at ht
    obtain ⟨s, hs, rfl⟩ := List.mem_map.mp (mem_storeStates _ t ht)
    exact ⟨s, hs, rfl⟩
  constructor
  · intro t ht hb
    obtain ⟨s, hs, rfl⟩ := hmem t ht
    have hsv := List.all_eq_true.mp hall s hs
    unfold stateValid at hsv
    simp only [Bool.and_eq_true] at hsv
    by_cases hsb : s.burn = true
    · have hnone : s.account.isNone = true := by
        have := hsv.1.1; rw [hsb] at this; simpa using this
      simp only [hsb, hnone, Bool.and_self, if_true]
      rfl
    · have hsb' : s.burn = false := by simpa using hsb
      simp only [hsb', Bool.false_and, Bool.false_eq_true, if_false] at hb
  · intro t ht hb
    obtain ⟨s, hs, rfl⟩ := hmem t ht
    have hsv := List.all_eq_true.mp hall s hs
    unfold stateValid at hsv
    simp only [Bool.and_eq_true, Bool.or_eq_true, decide_eq_true_eq] at hsv
    by_cases hsb : s.burn = true
    · have hnone : s.account.isNone = true := by
        have := hsv.1.1; rw [hsb] at this; simpa using this
      simp only [hsb, hnone, Bool.and_self, if_true] at hb
      cases hb
    · have hsb' : s.burn = false := by simpa using hsb
      simp only [hsb', Bool.false_and, Bool.false_eq_true, if_false]
      rcases hsv.2 with h1 | h1
      · rw [hsb'] at h1; cases h1
      · exact h1

/-- the empty distributor trivially has the property, so it holds along every history of blocks -/
theorem burnAcc_nil : BurnAcc [] := fun _ h => by cases h

end C4E.Props.C12
