"""
Per-property tables for ./check: Lean modules / namespaces holding the property theorems, the
harness families whose scenarios exercise the property (quick count, thorough count), the
projection of the canonical outputs the property's statement is about, and the ops on which a
model/implementation difference is itself a failing input (the theorem fixes the value exactly).
"""

def P(modules, namespaces, families, project, exact_ops=(), required=(), assumptions=(), trusted_extra=(), thorough_seeds=8, twin=False):
    return dict(modules=list(modules), namespaces=list(namespaces), families=list(families), project=dict(project),
                exact_ops=list(exact_ops), required_theorems=list(required), assumptions=list(assumptions),
                trusted_extra=list(trusted_extra), thorough_seeds=thorough_seeds, twin=twin)

FAMILY_OF_OP = {"m": "minter"}

PROPS = {
    "C02": P(["C4E.Props.C02"], ["C4E.Props.C02"],
             [("minter", 400, 6000)],
             {"m.block": ["amt", "st", "hist"], "m.init": "*", "m.validate": "*"},
             exact_ops=["m.block"],
             assumptions=["block-time differences below 2^63 ns (Go Duration saturation not modelled)",
                          "sdk.Dec 315-bit overflow panics not modelled",
                          "generators keep (elapsed time / step duration) small: the Go code loops once per passed step"]),
    "C03": P(["C4E.Props.C03"], ["C4E.Props.C03"],
             [("distr", 250, 4000), ("distrfaults", 120, 2000)],
             {"d.bb": ["states", "main", "inv"], "d.setparams": "*", "d.validate": "*"},
             assumptions=["the whole-block theorem is proved on the single-denomination core; on the code-tied multi-denomination model the per-step facts are proved (faithful_sub_step, payoutLoop_keeps_books) and every generated block is compared with the core by the bridge; their composition over the whole loop is not proved",
                          "account ids in generated configurations are ASCII (Lean String order = Go byte order)"]),
    "C04": P(["C4E.Props.C04", "C4E.Props.C04b"], ["C4E.Props.C04"],
             [("distr", 300, 4000)],
             {"d.bb": ["states", "main", "bal", "burned"], "d.setparams": "*"},
             exact_ops=["d.bb"]),
    "C14": P(["C4E.Props.C14", "C4E.Props.C14b"], ["C4E.Props.C14"],
             [("distrfaults", 300, 5000)],
             {"d.bb": ["states", "main", "bal", "inv", "calls"], "d.setparams": "*"}),
    "C05": P(["C4E.Props.C05"], ["C4E.Props.C05"],
             [("vest", 250, 4000), ("split", 80, 1000), ("genesis", 25, 300)],
             {"v.createPool": ["pools", "bal", "inv"], "v.withdraw": ["pools", "bal", "inv"], "v.send": ["pools", "bal", "inv"],
              "v.createVA": ["pools", "bal", "inv"], "v.split": ["pools", "bal", "inv"], "v.move": ["pools", "bal", "inv"],
              "v.moveDenoms": ["pools", "bal", "inv"]}),
    "C06": P(["C4E.Props.C06"], ["C4E.Props.C06"],
             [("vest", 300, 5000)],
             {"v.withdraw": ["paid", "pools", "bal"], "v.q.pools": "*", "v.send": ["pools"]},
             exact_ops=["v.withdraw", "v.q.pools"]),
    "C07": P(["C4E.Props.C07"], ["C4E.Props.C07"],
             [("split", 300, 5000), ("vest", 100, 1000)],
             {"v.split": ["acct", "bal"], "v.move": ["acct", "bal"], "v.moveDenoms": ["acct", "bal"],
              "v.q.locked": "*", "v.q.spendable": "*", "v.delegate": ["acct", "bal"]},
             exact_ops=["v.split", "v.move", "v.moveDenoms", "v.q.locked"],
             assumptions=["IsSendEnabledCoins is assumed true (default bank params)"]),
    "C08": P(["C4E.Props.C08"], ["C4E.Props.C08"],
             [("vest", 300, 5000), ("split", 60, 600)],
             {"v.send": ["acct", "bal", "pools"], "v.createVA": ["acct", "bal", "pools"], "v.q.locked": "*"},
             exact_ops=["v.send", "v.createVA"]),
    "C09": P(["C4E.Props.C09", "C4E.Tie.C09"], ["C4E.Props.C09"],
             [("vest", 300, 4000), ("split", 120, 1500), ("sig", 80, 1000)],
             {"v.send": ["acct"], "v.createVA": ["acct"], "v.split": ["acct"], "v.move": ["acct"], "v.moveDenoms": ["acct"],
              "v.createPool": ["acct"], "v.withdraw": ["acct"], "s.createAccount": "*", "s.accountInfo": "*"}),
    "C17": P(["C4E.Props.C17"], ["C4E.Props.C17"],
             [("split", 300, 5000), ("vest", 100, 1000)],
             {"v.send": ["tr", "cnt"], "v.split": ["tr", "cnt"], "v.move": ["tr", "cnt"], "v.moveDenoms": ["tr", "cnt"],
              "v.createVA": ["tr", "cnt"], "v.q.summary": "*"},
             exact_ops=["v.q.summary", "v.split", "v.move", "v.moveDenoms", "v.send"]),
    "C18": P(["C4E.Props.C18"], ["C4E.Props.C18"],
             [("minter", 150, 2000), ("distr", 150, 2000), ("vest", 200, 3000), ("split", 60, 800)],
             {"m.block": ["amt", "ev"], "d.bb": ["ev"], "v.withdraw": ["paid", "ev"], "v.send": ["ev"]},
             exact_ops=["m.block", "d.bb", "v.withdraw"]),
    "C19": P(["C4E.Props.C19"], ["C4E.Props.C19"],
             [("minter", 400, 6000), ("minterupd", 120, 1800)],
             {"m.block": ["amt", "infl", "supply"], "m.infl": "*"},
             exact_ops=["m.block", "m.infl"]),
    "C13": P(["C4E.Props.C13"], ["C4E.Props.C13"],
             [("minterupd", 200, 3000), ("distrupd", 200, 3000), ("vest", 120, 1500)],
             {"m.update": "*", "m.params": "*", "m.validate": "*", "d.update": "*", "d.params": "*", "d.setparams": "*", "v.updateDenom": "*"},
             exact_ops=["m.update", "d.update", "v.updateDenom", "m.params", "d.params"]),
    "C15": P(["C4E.Props.C15"], ["C4E.Props.C15"],
             [("sig", 150, 2500)],
             {"s.publish": "*", "s.store": "*", "s.storekey": "*", "s.verify": "*"},
             exact_ops=["s.publish", "s.store", "s.storekey", "s.verify"],
             assumptions=["sha256 and crypto/x509 are abstract functions in the model; their values enter as facts that the executor re-checks against the real functions"],
             trusted_extra=["Go crypto/sha256, crypto/x509, encoding/pem, encoding/base64 (cryptographic soundness is not modelled)"]),
    "C20": P(["C4E.Props.C20", "C4E.Tie.C20"], ["C4E.Props.C20"],
             [("vest", 250, 3000), ("split", 100, 1000), ("sig", 80, 1000), ("distrupd", 120, 1500), ("minterupd", 120, 1500)],
             {"v.createPool": [], "v.withdraw": [], "v.send": [], "v.createVA": [], "v.split": [], "v.move": [], "v.moveDenoms": [],
              "v.updateDenom": [], "v.q.pools": [], "v.q.summary": [], "s.publish": [], "s.store": [], "s.storekey": [], "s.verify": [],
              "s.createAccount": [], "s.accountInfo": [], "d.update": [], "m.update": [], "m.validate": [], "d.validate": [], "d.setparams": []},
             exact_ops=["v.createPool", "v.withdraw", "v.send", "v.createVA", "v.split", "v.move", "v.moveDenoms"]),
    "C12": P(["C4E.Props.C12", "C4E.Props.C12b"], ["C4E.Props.C12"],
             [("genesis", 40, 600)],
             {"g.exportimport": "*", "g.vestgenesis": [], "m.block": ["amt", "st", "hist", "infl", "supply"], "d.bb": ["states", "main", "bal", "ev"],
              "v.createPool": ["pools", "bal", "acct", "tr"], "v.withdraw": ["paid", "pools", "bal"], "v.send": ["pools", "bal", "acct", "tr"],
              "v.createVA": ["bal", "acct"], "v.split": ["bal", "acct", "tr"], "v.move": ["bal", "acct", "tr"], "v.moveDenoms": ["bal", "acct", "tr"],
              "v.q.pools": "*", "v.q.summary": "*", "v.q.locked": "*", "m.infl": "*"},
             # after an export/import the chain must behave as the original would have: every projected op is exact
             exact_ops=["g.exportimport", "m.block", "d.bb", "m.infl", "v.*"],
             thorough_seeds=8),
    "C01": P(["C4E.Props.C01", "C4E.Tie.C01"], ["C4E.Props.C01"],
             [("minter", 150, 2000), ("minterupd", 90, 1300), ("distr", 150, 2000), ("distrfaults", 80, 1000), ("app", 80, 1200), ("vest", 150, 2000), ("split", 80, 1000), ("sig", 40, 400)],
             {"m.block": ["amt", "ev", "supply"], "d.bb": ["main", "bal", "burned"], "a.block": ["amt", "mst", "states", "main", "bal", "burned"], "v.createPool": ["bal"], "v.withdraw": ["bal"], "v.send": ["bal"],
              "v.createVA": ["bal"], "v.split": ["bal"], "v.move": ["bal"], "v.moveDenoms": ["bal"]},
             exact_ops=["m.block", "d.bb", "a.block"]),
    "C10": P(["C4E.Props.C10", "C4E.Props.C10b", "C4E.Tie.C10"], ["C4E.Props.C10"],
             [("minter", 150, 2500), ("minterupd", 150, 2500), ("distr", 120, 2000), ("distrfaults", 120, 2000), ("distrupd", 100, 1500), ("app", 80, 1200), ("genesis", 25, 300)],
             {"m.block": [], "d.bb": [], "a.block": [], "m.update": [], "d.update": [], "m.init": [], "d.setparams": [], "g.exportimport": []},
             exact_ops=["m.block", "d.bb", "a.block"],
             assumptions=["amounts below 10^36, periods and steps of at least one second, multipliers at most 1 (generator ranges)",
                          "panics inside cosmos-sdk internals that the model does not represent (store/codec Must*, staking BondedRatio, iavl) are seen only by the differential runs"]),
    "C16": P(["C4E.Props.C16", "C4E.Props.C16b", "C4E.Tie.C16"], ["C4E.Props.C16"],
             [("upgrade", 250, 4000), ("migrate", 120, 1500)],
             {"m.up.migrate3": "*", "d.up.migrate3": "*", "m.params": "*", "d.params": "*", "m.block": ["amt", "st", "hist"],
              "d.bb": ["states", "main", "bal"], "v.up.split": "*", "v.up.migrate3": "*", "v.up.migrate2": "*", "v.up.traces": "*", "v.up.accounts": "*",
              "v.q.pools": "*", "v.send": ["pools", "bal", "acct"], "v.withdraw": ["paid", "pools", "bal"], "v.q.summary": "*"},
             exact_ops=["v.up.split", "v.up.migrate3", "v.up.migrate2", "v.up.accounts", "v.up.traces", "m.up.migrate3", "d.up.migrate3"],
             assumptions=["calendar arithmetic (time.AddDate) enters the model as facts that the executor re-checks against Go's time package",
                          "legacy parameter-store content is written through the legacy subspace (amino JSON), as the v1.2.0 handler reads it; nil entries / nil decimals cannot be stored that way and are skipped"]),
    "C11": P(["C4E.Props.C11", "C4E.Tie.C11"], ["C4E.Props.C11"],
             [("distrupd", 80, 1200), ("distr", 80, 1200), ("minterupd", 60, 800), ("vest", 100, 1500), ("split", 50, 600), ("sig", 50, 600), ("minter", 60, 800), ("upgrade", 60, 900)],
             {"d.bb": ["states", "main", "ev"], "m.block": ["amt", "st"], "v.withdraw": ["paid", "ev"], "d.params": "*", "d.update": "*", "s.store": "*"},
             twin=True,
             assumptions=["Go map iteration order, goroutine scheduling, pointer values and iavl/tm-db internals cannot be exhibited by a functional model: they are covered by the regenerated list of nondeterminism sites and by two-process runs (bounded exploration)",
                          "app hashes are not compared (scenarios run on cache contexts); a digest of everything the scenario wrote to the custom-module, bank and auth stores is compared instead"]),
}

# headline theorems that must exist (and be axiom-clean) in each property's namespace: removing,
# renaming or failing to prove one of them is a broken proof obligation
REQUIRED = {
 'C01':['transfer_conserves','transfer_others_untouched','sweep_moves_exactly','payout_conserves','applySend_total','handle_total','vesting_never_changes_supply','distributor_block_ledger','bank_send_ledger','bank_burn_ledger','custom_beginblock_supply','custom_beginblock_balances','tie_bank_mutators','tie_minter_before_distributor'],
 'C02':['path_independent','cadence_irrelevant','valid_of_validate','linear_exact','carry_exact','exParams_valid'],
 'C03':['books_after_block','books_after_block_nonvacuous','books_after_block_bridge','bridge_checked_block','allSubOkB_sound','nonnegB_sound','validated_params_books','faithful_sub_step','faithful_block_books','reach_blockInv','books_after_every_block','reach_nonNegativeStates','faithful_block_nonvacuous','blockInv_empty'],
 'C04':['share_truncation','allocation_conserves','no_main_dest_all_to_states','cumulative_allocation','payout_carry','cumulative_receipts_drift','faithful_allocation_conserves','distShares_states','faithful_destination_receives'],
 'C05':['withdraw_keeps_poolOk','send_keeps_poolOk','withdraw_locked_delta','rejected_noop','createPool_inv','withdrawAll_inv','sendToNew_inv','createVA_same','splitCoins_same','handle_inv','deliver_inv','backed_over_histories','c05_every_reachable_state','inv_implies_registered','inv_genesis'],
 'C06':['locked_nothing','matured_everything','withdraw_twice_total','withdraw_idempotent','query_agrees'],
 'C07':['unlock_exact','orig_over_releases','unlock_exact_nonvacuous'],
 'C08':['vestedPart_exact','vestedPart_bounds','newVestingAccount_post','send_above_locked_fails','bumpLast_adds_exactly','createVA_post'],
 'C09':['newCva_other','send_keeps_existing','createVA_rejects_existing','newVestingAccount_rejects_existing','splitCoins_rejects_existing','unlock_shape','keepsExcept_splitCoins','existing_untouched','existing_untouched_history','tie_account_writers'],
 'C10':['minter_no_halt','no_negative_sub','validated_denom','tie_no_unguarded_int64','distributor_block_completes','distributor_never_halts','distributor_block_nonvacuous','block_completes_with_registered_invariants','custom_beginblock_never_halts','distributor_never_halts_under_updates','envOkB_sound','bech32FactsB_sound'],
 'C11':['last_occurrence_order_irrelevant','tie_nondet_sites'],
 'C12':['minter_roundtrip','minter_behaviour_preserved','distr_state_roundtrip','period_roundtrip','sig_roundtrip_fails','distr_roundtrip_after_block','genesis_valid_init'],
 'C13':['minter_authority_only','distr_full_stored_valid','distr_sub_stored_valid','distr_share_stored_valid','distr_burn_stored_valid','denom_frozen','minter_update_requires_current'],
 'C14':['books_under_faults','failed_payout_keeps_state','payLoopF_conserves','made_up_exactly','delayed_sweep_bound','payoutOne_keeps_books','payoutLoop_keeps_books','truncateDecimal_split','payoutOne_is_payLoopF_step'],
 'C15':['link_write_once','verify_iff','verify_reads_only','tamper_fails'],
 'C16':['splitOne_conserves','four_splits_succeed','migrate_v3_fieldwise','migrate_v2_locked','shift_keeps_amounts','minter_migration_same_schedule','minter_migration_valid','minter_migration_succeeds','legacy_zero_exp_not_migratable','distr_migration_same_shares','modifyPools_preserves_totals','tie_upgrade_orchestration'],
 'C17':['split_lineage','send_lineage','chain_lineage','splitCoins_lineage','sendToNew_lineage','other_messages_keep_traces','summary_shape'],
 'C18':['withdraw_events_sum','distribution_events_sum','distShares_sum'],
 'C19':['inflation_zero_before_start','inflation_zero_nominting','inflation_zero_exp_ended','inflation_zero_lin_ended','inflation_zero_ended','rate_linear','rate_exp_uses_step_amount','exp_interval','lin_interval'],
 'C20':['sig_publish_no_panic','sig_store_no_panic','withdraw_no_panic','tie_handlers'],
}
for _c, _names in REQUIRED.items():
    PROPS[_c]["required_theorems"] = [f"C4E.Props.{_c}.{n}" for n in _names]

# properties that also have theorems on the single-denomination core C4E.Distr1: the bridge verdicts
# (C4E.Bridge, printed by the driver on every d.bb line) are obligations of these checks
for _p in ("C01", "C03", "C04", "C10", "C14"):
    PROPS[_p]["bridge"] = True
    PROPS[_p].setdefault("trusted_extra", []).append(
        "since session 5 the whole-block theorems (faithful_block_books, distributor_block_completes, ...) are about the code-tied "
        "multi-denomination model C4E.Distributor itself, under explicit hypotheses about the module-account table (EnvOk, BurnerOk) "
        "and bech32 (Bech32Facts); the older theorems about the single-denomination core C4E.Distr1 remain, tied to the code-tied "
        "model by the executable bridge C4E.Bridge (per-denomination comparison on every generated block) as an independent cross-check")
    if "C4E.Bridge" not in PROPS[_p]["modules"]:
        PROPS[_p]["modules"].append("C4E.Bridge")
