"""
Per-property tables for ./check: Lean modules / namespaces holding the property theorems, the
harness families whose scenarios exercise the property (quick count, thorough count), the
projection of the canonical outputs the property's statement is about, and the ops on which a
model/implementation difference is itself a failing input (the theorem fixes the value exactly).
"""

def P(modules, namespaces, families, project, exact_ops=(), required=(), assumptions=(), trusted_extra=(), thorough_seeds=8):
    return dict(modules=list(modules), namespaces=list(namespaces), families=list(families), project=dict(project),
                exact_ops=list(exact_ops), required_theorems=list(required), assumptions=list(assumptions),
                trusted_extra=list(trusted_extra), thorough_seeds=thorough_seeds)

FAMILY_OF_OP = {"m": "minter"}

PROPS = {
    "C02": P(["C4E.Props.C02"], ["C4E.Props.C02"],
             [("minter", 400, 6000)],
             {"m.block": ["amt", "st", "hist"], "m.init": "*", "m.validate": "*"},
             exact_ops=["m.block"],
             assumptions=["block-time differences below 2^63 ns (Go Duration saturation not modelled)",
                          "sdk.Dec 315-bit overflow panics not modelled",
                          "generators keep (elapsed time / step duration) small: the Go code loops once per passed step"]),
    "C03": P(["C4E.Props.C03"], ["C4E.Props.C03"],
             [("distr", 250, 4000), ("distrfaults", 120, 2000)],
             {"d.bb": ["states", "main", "inv"], "d.setparams": "*", "d.validate": "*"},
             assumptions=["multi-denomination lift of the single-denomination core theorem is by correspondence, not proved",
                          "account ids in generated configurations are ASCII (Lean String order = Go byte order)"]),
    "C04": P(["C4E.Props.C04"], ["C4E.Props.C04"],
             [("distr", 300, 4000)],
             {"d.bb": ["states", "main", "bal", "burned"], "d.setparams": "*"},
             exact_ops=["d.bb"]),
    "C14": P(["C4E.Props.C14"], ["C4E.Props.C14"],
             [("distrfaults", 300, 5000)],
             {"d.bb": ["states", "main", "bal", "inv", "calls"], "d.setparams": "*"}),
}
