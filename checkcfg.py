"""
Per-property tables for ./check: Lean modules / namespaces holding the property theorems, the
harness families whose scenarios exercise the property (quick count, thorough count), the
projection of the canonical outputs the property's statement is about, and the ops on which a
model/implementation difference is itself a failing input (the theorem fixes the value exactly).
"""

def P(modules, namespaces, families, project, exact_ops=(), required=(), assumptions=(), trusted_extra=(), thorough_seeds=8):
    return dict(modules=list(modules), namespaces=list(namespaces), families=list(families), project=dict(project),
                exact_ops=list(exact_ops), required_theorems=list(required), assumptions=list(assumptions),
                trusted_extra=list(trusted_extra), thorough_seeds=thorough_seeds)

FAMILY_OF_OP = {"m": "minter"}

PROPS = {
    "C02": P(["C4E.Props.C02"], ["C4E.Props.C02"],
             [("minter", 400, 6000)],
             {"m.block": ["amt", "st", "hist"], "m.init": "*", "m.validate": "*"},
             exact_ops=["m.block"],
             assumptions=["block-time differences below 2^63 ns (Go Duration saturation not modelled)",
                          "sdk.Dec 315-bit overflow panics not modelled",
                          "generators keep (elapsed time / step duration) small: the Go code loops once per passed step"]),
    "C03": P(["C4E.Props.C03"], ["C4E.Props.C03"],
             [("distr", 250, 4000), ("distrfaults", 120, 2000)],
             {"d.bb": ["states", "main", "inv"], "d.setparams": "*", "d.validate": "*"},
             assumptions=["multi-denomination lift of the single-denomination core theorem is by correspondence, not proved",
                          "account ids in generated configurations are ASCII (Lean String order = Go byte order)"]),
    "C04": P(["C4E.Props.C04"], ["C4E.Props.C04"],
             [("distr", 300, 4000)],
             {"d.bb": ["states", "main", "bal", "burned"], "d.setparams": "*"},
             exact_ops=["d.bb"]),
    "C14": P(["C4E.Props.C14"], ["C4E.Props.C14"],
             [("distrfaults", 300, 5000)],
             {"d.bb": ["states", "main", "bal", "inv", "calls"], "d.setparams": "*"}),
    "C05": P(["C4E.Props.C05"], ["C4E.Props.C05"],
             [("vest", 250, 4000), ("split", 80, 1000)],
             {"v.createPool": ["pools", "bal", "inv"], "v.withdraw": ["pools", "bal", "inv"], "v.send": ["pools", "bal", "inv"],
              "v.createVA": ["pools", "bal", "inv"], "v.split": ["pools", "bal", "inv"], "v.move": ["pools", "bal", "inv"],
              "v.moveDenoms": ["pools", "bal", "inv"]}),
    "C06": P(["C4E.Props.C06"], ["C4E.Props.C06"],
             [("vest", 300, 5000)],
             {"v.withdraw": ["paid", "pools", "bal"], "v.q.pools": "*", "v.send": ["pools"]},
             exact_ops=["v.withdraw", "v.q.pools"]),
    "C07": P(["C4E.Props.C07"], ["C4E.Props.C07"],
             [("split", 300, 5000), ("vest", 100, 1000)],
             {"v.split": ["acct", "bal"], "v.move": ["acct", "bal"], "v.moveDenoms": ["acct", "bal"],
              "v.q.locked": "*", "v.q.spendable": "*", "v.delegate": ["acct", "bal"]},
             exact_ops=["v.split", "v.move", "v.moveDenoms", "v.q.locked"],
             assumptions=["IsSendEnabledCoins is assumed true (default bank params)"]),
    "C08": P(["C4E.Props.C08"], ["C4E.Props.C08"],
             [("vest", 300, 5000), ("split", 60, 600)],
             {"v.send": ["acct", "bal", "pools"], "v.createVA": ["acct", "bal", "pools"], "v.q.locked": "*"},
             exact_ops=["v.send", "v.createVA"]),
    "C09": P(["C4E.Props.C09"], ["C4E.Props.C09"],
             [("vest", 300, 4000), ("split", 120, 1500)],
             {"v.send": ["acct"], "v.createVA": ["acct"], "v.split": ["acct"], "v.move": ["acct"], "v.moveDenoms": ["acct"],
              "v.createPool": ["acct"], "v.withdraw": ["acct"]}),
    "C17": P(["C4E.Props.C17"], ["C4E.Props.C17"],
             [("split", 300, 5000), ("vest", 100, 1000)],
             {"v.send": ["tr", "cnt"], "v.split": ["tr", "cnt"], "v.move": ["tr", "cnt"], "v.moveDenoms": ["tr", "cnt"],
              "v.createVA": ["tr", "cnt"], "v.q.summary": "*"},
             exact_ops=["v.q.summary", "v.split", "v.move", "v.moveDenoms", "v.send"]),
    "C18": P(["C4E.Props.C18"], ["C4E.Props.C18"],
             [("minter", 150, 2000), ("distr", 150, 2000), ("vest", 200, 3000)],
             {"m.block": ["amt", "ev"], "d.bb": ["ev"], "v.withdraw": ["paid", "ev"], "v.send": ["ev"]},
             exact_ops=["m.block", "d.bb", "v.withdraw"]),
    "C19": P(["C4E.Props.C19"], ["C4E.Props.C19"],
             [("minter", 400, 6000)],
             {"m.block": ["amt", "infl", "supply"], "m.infl": "*"},
             exact_ops=["m.block", "m.infl"]),
}
