#!/usr/bin/env python3
"""Writes MANIFEST.json from checkcfg.PROPS + manifest_text.py (level texts), keeping not_applicable current."""
import json, os
from checkcfg import PROPS
from manifest_text import TEXT, NA_REASON
ROOT = os.path.dirname(os.path.abspath(__file__))
baseline = json.load(open("/root/.vp/BASELINE.json"))["cmd"] if os.path.exists("/root/.vp/BASELINE.json") else "cd /repo && go test -mod=mod -vet=off -count=1 ./..."
ids = [json.loads(l)["id"] for l in open(os.path.join(ROOT, "properties.jsonl"))]
checks = []
for pid in ids:
    if pid not in PROPS or pid not in TEXT:
        continue
    t = TEXT[pid]
    checks.append({
        "property_id": pid,
        "quick_cmd": f"./check {pid} --tier quick",
        "thorough_cmd": f"./check {pid} --tier thorough",
        "evidence_file": f"/verif/evidence/{pid}.json",
        "replay_cmd_template": f"./check {pid} --replay {{path}}",
        "engine": "lean-model+proofs / go-harness",
        "level_claimed": {"category": "proof", "text": t["text"], "design_ref": t.get("design_ref", "DESIGN.md §7 " + pid)},
        "level_note": t["note"],
        "technique": t["technique"],
    })
m = {
    "version": 1,
    "setup_cmd": "./check --setup",
    "hooks": {"guard": "verif", "enable": "go build -tags verif (the harness module only; /repo carries no hook commits)",
              "baseline_off_cmd": baseline, "source_commits": [], "add_only": True},
    "engines": [
        {"name": "lean-model+proofs", "path": "lean/", "serves_properties": [c["property_id"] for c in checks],
         "kind_free_text": "hand-written executable Lean 4 model of the custom modules + property theorems (kernel-checked, axioms audited)"},
        {"name": "go-harness", "path": "harness/", "serves_properties": [c["property_id"] for c in checks],
         "kind_free_text": "Go program (build tag verif, replace => /repo) driving the real keepers on generated op files; outputs diffed against the Lean driver; property monitors on real state"},
    ],
    "checks": checks,
    "notes": "Model/code tie = correspondence (differential) check re-run from /repo's working tree on every invocation; see DESIGN.md §5-6. Fix commits in /repo are listed in known_findings.json.",
    "not_applicable": [{"property_id": pid, "reason": NA_REASON.get(pid, "check not built yet in this session (planned, see DESIGN.md §7)")}
                       for pid in ids if pid not in {c["property_id"] for c in checks}],
}
json.dump(m, open(os.path.join(ROOT, "MANIFEST.json"), "w"), indent=1)
print("checks:", [c["property_id"] for c in checks], "n/a:", [x["property_id"] for x in m["not_applicable"]])
