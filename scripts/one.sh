#!/bin/bash
# run one seeded change against its property's check in a scratch worktree: scripts/one.sh C13-3 [seed]
cd "$(dirname "$0")/.."
ID=$1; P=${ID%-*}; SEED=${2:-1}; WT=/tmp/one-$ID-$SEED
rm -rf $WT; git -C /repo worktree prune; git -C /repo worktree add -q --detach $WT HEAD || exit 1
git -C $WT apply $PWD/seeded/$ID/patch.diff || { echo "$ID: patch does not apply"; git -C /repo worktree remove --force $WT; exit 1; }
res=$(VERIF_REPO=$WT VERIF_SEED=$SEED timeout 3000 ./check $P 2>&1 | grep -v "^KNOWN\|^\[build")
echo "$ID seed=$SEED: $(echo "$res" | grep -o "^VIOLATION.*\|^PASS.*" | tail -1 | cut -c1-120) | $(echo "$res" | grep "violation:" | head -1 | cut -c1-160)"
git -C /repo worktree remove --force $WT
