#!/bin/bash
# multi-seed sweep of every registered check on the unchanged tree (run from a vp snapshot or /verif)
cd "$(dirname "$0")/.."
./check --setup | tail -1
for s in ${SEEDS:-2 3 4 5 6}; do
  for p in $(python3 -c "import checkcfg; print(' '.join(sorted(checkcfg.PROPS)))"); do
    out=$(VERIF_SEED=$s VERIF_TIER=${TIER:-quick} timeout 3000 ./check $p --tier ${TIER:-quick} 2>&1 | grep -v "^KNOWN\|^\[build\]" | tail -2 | tr '\n' ' ')
    echo "seed=$s $out"
  done
done
