#!/bin/bash
# adopt a round-2 seeded change: confirm it (applies, builds, demo passes on clean / fails with patch,
# touched packages' other tests unchanged), run the property's check against it, store it under seeded/
# usage: scripts/adopt.sh Cnn k [round-prefix, default r2]
set -u
cd "$(dirname "$0")/.."
P=$1; K=$2; R=${3:-r2}; OUT=/tmp/$R-$P-out; WT=/tmp/adopt-$P; ID=$P-$K
export GOFLAGS=-mod=mod GOPROXY=off GOSUMDB=off GOTOOLCHAIN=local
[ -f $OUT/patch.diff ] || { echo "$ID: no patch"; exit 1; }
rm -rf $WT; git -C /repo worktree prune; git -C /repo worktree add -q --detach $WT HEAD || exit 1
demo=$(python3 -c "import json;print(json.load(open('$OUT/meta.json')).get('demo_test','').split(' ')[0])")
demofile=$(ls $OUT/*_test.go | head -1)
pkgdir=$(dirname "$demo")
echo "== $ID demo=$demo"
( cd $WT && cp $demofile $WT/$demo && timeout 3000 go test -vet=off -count=1 -timeout 40m ./$pkgdir/ -run 'Seeded' 2>&1 | tail -3 ) > .work/adopt-$ID.clean.txt
( cd $WT && git apply $OUT/patch.diff && go build ./... 2>&1 | tail -3 && timeout 3000 go test -vet=off -count=1 -timeout 40m ./$pkgdir/ -run 'Seeded' 2>&1 | tail -5 ) > .work/adopt-$ID.patched.txt
rm -f $WT/$demo
echo "clean:   $(tail -1 .work/adopt-$ID.clean.txt)"
echo "patched: $(tail -1 .work/adopt-$ID.patched.txt)"
res=$(VERIF_REPO=$WT timeout 3000 ./check $P 2>&1 | grep -v "^KNOWN\|^\[build")
echo "$res" | grep "violation:" | head -2 | cut -c1-260
echo "$res" | grep -o "^VIOLATION.*\|^PASS.*" | tail -1
mkdir -p seeded/$ID; cp $OUT/patch.diff $OUT/meta.json $OUT/demo.txt $demofile seeded/$ID/ 2>/dev/null
echo "$res" | grep -o "^VIOLATION.*\|^PASS.*" | tail -1 > seeded/$ID/check_verdict.txt
git -C /repo worktree remove --force $WT
