#!/bin/bash
# mutation drill: applies every seeded change to the repository copy, runs the check of the property
# it breaks, records what fired, and reverts.  Use inside `vp run --with-repo` (VP_RUN_REPO) or with
# VERIF_REPO pointing at a scratch clone; never leaves a patch applied.
cd "$(dirname "$0")/.."
export VERIF_REPO=${VERIF_REPO:-${VP_RUN_REPO:-/repo}}
./check --setup | tail -1
out=${1:-seeded/DRILL-seed${VERIF_SEED:-1}.md}
echo "| seeded change | property | verdict | first report |" > $out
echo "|---|---|---|---|" >> $out
for d in seeded/C*/; do
  id=$(basename $d); p=${id%-*}
  if [ -n "${DRILL_FILTER:-}" ] && ! echo "$id" | grep -Eq "$DRILL_FILTER"; then continue; fi
  git -C $VERIF_REPO apply $PWD/$d/patch.diff || { echo "| $id | $p | PATCH-DOES-NOT-APPLY | |" >> $out; continue; }
  res=$(timeout 3000 ./check $p --tier quick 2>&1 | grep -v "^KNOWN\|^\[build\]")
  git -C $VERIF_REPO checkout -- .
  verdict=$(echo "$res" | grep -o "^VIOLATION.*\|^PASS.*" | tail -1 | sed 's/replay=[^ ]*//')
  first=$(echo "$res" | grep "violation:" | head -1 | cut -c1-220 | tr '|' '/')
  echo "| $id | $p | ${verdict:-NO-VERDICT} | ${first} |" >> $out
done
cat $out
